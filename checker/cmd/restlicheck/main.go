package main

import (
	_ "golang.org/x/tools/go/callgraph/vta"
	_ "golang.org/x/tools/go/cfg"
	_ "golang.org/x/tools/go/packages"
	_ "golang.org/x/tools/go/ssa/ssautil"
)

func main() {}
