// restlicheck decides the structural clauses of one go-restli property by
// static analysis of /repo's current source.
package main

import (
	"encoding/json"
	"flag"
	"fmt"
	"go/ast"
	"go/token"
	"go/types"
	"os"
	"path/filepath"
	"sort"
	"strconv"
	"strings"
	"sync"
	"time"

	"verif/checker/core"
	"verif/checker/corpus"
	_ "verif/checker/rules"
)

func main() {
	prop := flag.String("property", "", "property id (C01..C20)")
	tier := flag.String("tier", "quick", "quick|thorough")
	repo := flag.String("repo", "/repo", "repository root")
	verif := flag.String("verif", "/verif", "verif root")
	explain := flag.String("explain", "", "print a saved violations file")
	list := flag.Bool("list", false, "list rules")
	only := flag.String("rule", "", "run only this rule (development)")
	dumpFuncs := flag.Bool("dump-funcs", false, "write checker/known_funcs.txt from the current tree (development: run on the verified tree only)")
	flag.Parse()
	start := time.Now()
	core.RepoRoot = *repo
	core.KnownFuncsFile = filepath.Join(*verif, "checker", "known_funcs.txt")
	if alt := os.Getenv("VERIF_KNOWN_FUNCS"); alt != "" {
		core.KnownFuncsFile = alt // development: try a regenerated table without touching the committed one
	}
	knownOut := core.KnownFuncsFile
	if *dumpFuncs {
		core.KnownFuncsFile = ""
		mods, err := core.LoadRepo(map[string]bool{"v2": true, "root": true})
		if err != nil {
			fmt.Fprintln(os.Stderr, err)
			os.Exit(2)
		}
		var lines []string
		for name, m := range mods {
			for _, p := range m.Roots {
				callers := core.CallerTokens(p)
				for _, f := range p.Syntax {
					if strings.HasSuffix(m.Fset.File(f.Pos()).Name(), "_test.go") {
						continue
					}
					for _, d := range f.Decls {
						if gd, ok := d.(*ast.GenDecl); ok && (gd.Tok == token.CONST || gd.Tok == token.VAR) {
							for _, sp := range gd.Specs {
								for _, nm := range sp.(*ast.ValueSpec).Names {
									q := types.RelativeTo(p.Types)
									switch o := p.TypesInfo.Defs[nm].(type) {
									case *types.Const:
										lines = append(lines, name+"\t"+m.Rel(p.PkgPath)+"\tconst "+nm.Name+"\t"+types.TypeString(o.Type(), q)+"="+o.Val().ExactString())
									case *types.Var:
										lines = append(lines, name+"\t"+m.Rel(p.PkgPath)+"\tvar "+nm.Name+"\t"+types.TypeString(o.Type(), q)+"\t"+strings.Join(core.VarInitLiterals(p, o), "\x1f"))
									}
								}
							}
						}
						if gd, ok := d.(*ast.GenDecl); ok && gd.Tok == token.TYPE {
							for _, sp := range gd.Specs {
								ts := sp.(*ast.TypeSpec)
								shape := ""
								if tn, ok := p.TypesInfo.Defs[ts.Name].(*types.TypeName); ok {
									shape = core.TypeShape(tn)
									if st, ok := tn.Type().Underlying().(*types.Struct); ok {
										for i := 0; i < st.NumFields(); i++ {
											if f := st.Field(i); !f.Embedded() {
												lines = append(lines, name+"\t"+m.Rel(p.PkgPath)+"\tfield "+ts.Name.Name+"."+f.Name()+"\t"+types.TypeString(f.Type(), types.RelativeTo(p.Types)))
											}
										}
									}
								}
								lines = append(lines, name+"\t"+m.Rel(p.PkgPath)+"\ttype "+ts.Name.Name+"\t"+shape)
							}
						}
						if fd, ok := d.(*ast.FuncDecl); ok {
							shape := ""
							fp := core.FuncFingerprint(p.TypesInfo, m.Path, fd)
							if fn, ok := p.TypesInfo.Defs[fd.Name].(*types.Func); ok {
								shape = core.SigShape(fn)
								fp = append(fp, callers[fn]...)
							}
							lines = append(lines, core.FuncKey(name, m.Rel(p.PkgPath), fd)+"\t"+shape+"\t"+strings.Join(fp, "\x1f"))
						}
					}
				}
			}
		}
		sort.Strings(lines)
		if err := os.WriteFile(knownOut, []byte("# functions of /repo at the time the rules were confirmed (restlicheck -dump-funcs); see core/fold.go\n"+strings.Join(lines, "\n")+"\n"), 0o644); err != nil {
			fmt.Fprintln(os.Stderr, err)
			os.Exit(2)
		}
		fmt.Println(len(lines), "functions")
		return
	}

	if *explain != "" {
		b, err := os.ReadFile(*explain)
		if err != nil {
			fmt.Fprintln(os.Stderr, err)
			os.Exit(2)
		}
		var v struct {
			Property   string             `json:"property"`
			Violations []*core.Obligation `json:"violations"`
			Floors     []string           `json:"floor_failures"`
		}
		if err := json.Unmarshal(b, &v); err != nil {
			fmt.Fprintln(os.Stderr, err)
			os.Exit(2)
		}
		for _, o := range v.Violations {
			fmt.Printf("%s: %s [%s] %s %s.%s: %s — %s\n", o.Pos, o.Verdict, o.Rule, o.Module, o.Pkg, o.Func, o.Construct, o.Detail)
		}
		for _, f := range v.Floors {
			fmt.Println("FLOOR:", f)
		}
		return
	}
	if *list {
		for _, r := range core.Registry {
			fmt.Printf("%-7s %v %s\n", r.ID, r.Props, r.Title)
		}
		return
	}
	if *prop == "" {
		fmt.Fprintln(os.Stderr, "usage: restlicheck -property C0N -tier quick|thorough")
		os.Exit(2)
	}
	if *tier != "quick" && *tier != "thorough" {
		fmt.Fprintln(os.Stderr, "tier must be quick or thorough")
		os.Exit(2)
	}
	seed := 0
	if s := os.Getenv("VERIF_SEED"); s != "" {
		seed, _ = strconv.Atoi(s)
	}
	rules := core.RulesFor(*prop, *tier)
	if *only != "" {
		var f []*core.Rule
		for _, r := range rules {
			if r.ID == *only {
				f = append(f, r)
			}
		}
		rules = f
	}
	if len(rules) == 0 {
		fmt.Fprintf(os.Stderr, "no rules registered for %s\n", *prop)
		os.Exit(2)
	}
	known, err := core.LoadKnown(filepath.Join(*verif, "known_findings.json"))
	if err != nil {
		fmt.Fprintln(os.Stderr, err)
		os.Exit(2)
	}

	want := map[string]bool{}
	needCorpus := false
	for _, r := range rules {
		if r.Generated {
			needCorpus = true
			continue
		}
		mods := r.Modules
		if mods == nil {
			mods = []string{"v2", "root"}
		}
		for _, m := range mods {
			want[m] = true
		}
	}
	var mods map[string]*core.Module
	var corp []*corpus.Generated
	var wg sync.WaitGroup
	var loadErr, corpErr error
	wg.Add(1)
	go func() {
		defer wg.Done()
		mods, loadErr = core.LoadRepo(want)
	}()
	if needCorpus {
		wg.Add(1)
		go func() {
			defer wg.Done()
			corp, corpErr = corpus.Build(*verif, *tier)
		}()
	}
	wg.Wait()
	defer corpus.Cleanup(corp)
	fail := func(err error) {
		// Infrastructure failure: the property was not decided.  It is
		// reported as a violation line so that it can never look like a pass.
		fmt.Printf("ERROR: %v\n", err)
		fmt.Printf("VIOLATION property=%s replay=%s\n", *prop, "-")
		corpus.Cleanup(corp)
		os.Exit(1)
	}
	if loadErr != nil {
		fail(loadErr)
	}
	if corpErr != nil {
		fail(corpErr)
	}
	debugSingles(mods)
	pkgCount := map[string]int{}
	for n, m := range mods {
		pkgCount[n] = len(m.Roots)
	}

	var mu sync.Mutex
	var obs []*core.Obligation
	var notes []string
	var rwg sync.WaitGroup
	sem := make(chan struct{}, 16)
	extra := map[string]interface{}{}
	{
		// what the loader normalised before any rule ran (helpers folded, renames recognised): part of what was analysed
		norm := map[string][]string{}
		for n, m := range mods {
			if len(m.Folded) > 0 {
				norm[n] = m.Folded
				if os.Getenv("VERIF_DEBUG_FOLD") != "" {
					for _, l := range m.Folded {
						fmt.Fprintf(os.Stderr, "normalised[%s]: %s\n", n, l)
					}
				}
			}
		}
		if len(norm) > 0 {
			extra["normalised"] = norm
		}
	}
	for _, r := range rules {
		if r.Generated {
			for _, g := range corp {
				if g.Corpus.Runtime == "root" && !r.GeneratedRoot && os.Getenv("VERIF_ROOT_ALL") == "" {
					continue
				}
				rwg.Add(1)
				go func(r *core.Rule, g *corpus.Generated) {
					defer rwg.Done()
					sem <- struct{}{}
					defer func() { <-sem }()
					core.RunRule(r, g.Module, *tier, g.Corpus, &mu, &obs, &notes)
				}(r, g)
			}
			continue
		}
		rm := r.Modules
		if rm == nil {
			rm = []string{"v2", "root"}
		}
		for _, name := range rm {
			m := mods[name]
			if m == nil {
				continue
			}
			rwg.Add(1)
			go func(r *core.Rule, m *core.Module) {
				defer rwg.Done()
				sem <- struct{}{}
				defer func() { <-sem }()
				core.RunRule(r, m, *tier, nil, &mu, &obs, &notes)
			}(r, m)
		}
	}
	rwg.Wait()
	if needCorpus {
		names := []string{}
		for _, g := range corp {
			names = append(names, g.Corpus.Name)
			pkgCount["corpus:"+g.Corpus.Name] = len(g.Module.Roots)
		}
		extra["programs"] = len(corp)
		extra["corpus_manifests"] = names
	}
	code := core.Finish(*prop, *tier, rules, obs, notes, pkgCount, known, *verif, start, seed, extra)
	corpus.Cleanup(corp)
	os.Exit(code)
}
