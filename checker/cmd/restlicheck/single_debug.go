package main

import (
	"fmt"
	"go/ast"
	"go/types"
	"os"
	"sort"

	"verif/checker/core"
)

// debugSingles prints the unexported functions with exactly one static call site (development aid: VERIF_SINGLES=1).
func debugSingles(mods map[string]*core.Module) {
	if os.Getenv("VERIF_SINGLES") == "" {
		return
	}
	for name, m := range mods {
		count := map[*types.Func]int{}
		for _, p := range m.Roots {
			for _, f := range p.Syntax {
				ast.Inspect(f, func(n ast.Node) bool {
					if call, ok := n.(*ast.CallExpr); ok {
						if cf := core.Callee(p.TypesInfo, call); cf != nil && cf.Pkg() != nil && m.InModule(cf.Pkg()) {
							count[cf.Origin()]++
						}
					}
					return true
				})
			}
		}
		var out []string
		for f, n := range count {
			if n == 1 && !f.Exported() && m.Decl(f) != nil {
				out = append(out, f.FullName())
			}
		}
		sort.Strings(out)
		fmt.Println(name, len(out))
		for _, s := range out {
			fmt.Println("  ", s)
		}
	}
}
