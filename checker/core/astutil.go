package core

import (
	"go/ast"
	"go/token"
	"go/types"
	"strings"
)

// Parents maps every node below root to its parent.
func Parents(root ast.Node) map[ast.Node]ast.Node {
	par := map[ast.Node]ast.Node{}
	var stack []ast.Node
	ast.Inspect(root, func(n ast.Node) bool {
		if n == nil {
			stack = stack[:len(stack)-1]
			return false
		}
		if len(stack) > 0 {
			par[n] = stack[len(stack)-1]
		}
		stack = append(stack, n)
		return true
	})
	return par
}

var errorType = types.Universe.Lookup("error").Type()

// IsErrorType reports whether t is the predeclared error interface.
func IsErrorType(t types.Type) bool { return t != nil && types.Identical(t, errorType) }

// ImplementsError reports whether t (or *t) implements error.
func ImplementsError(t types.Type) bool {
	if t == nil {
		return false
	}
	iface := errorType.Underlying().(*types.Interface)
	return types.Implements(t, iface)
}

// NonNilErrorExpr reports whether e is an error value that is non-nil by
// construction: &T{…}, T(x) of a non-interface error type, or a call of an
// error constructor (fmt.Errorf, errors.New, errors.Errorf/Wrap…, or a
// function or method whose name is errorf/Errorf/newErrorResponsef and whose
// only result is an error).
func NonNilErrorExpr(info *types.Info, e ast.Expr) bool {
	e = unparen(e)
	switch x := e.(type) {
	case *ast.UnaryExpr:
		if x.Op == token.AND {
			if _, ok := unparen(x.X).(*ast.CompositeLit); ok {
				return true
			}
		}
	case *ast.CompositeLit:
		return true
	case *ast.CallExpr:
		// conversion to a concrete error type
		if tv, ok := info.Types[x.Fun]; ok && tv.IsType() {
			if _, isIface := tv.Type.Underlying().(*types.Interface); !isIface {
				return true
			}
			return false
		}
		f := Callee(info, x)
		if f == nil {
			return false
		}
		sig := f.Type().(*types.Signature)
		if sig.Results().Len() != 1 {
			return false
		}
		if f.Pkg() != nil {
			switch f.Pkg().Path() {
			case "fmt":
				return f.Name() == "Errorf"
			case "errors":
				return f.Name() == "New"
			case "github.com/pkg/errors":
				switch f.Name() {
				case "New", "Errorf":
					return true
				}
			}
		}
		switch f.Name() {
		case "errorf", "Errorf", "newErrorResponsef", "cannotPrimitive", "NewFieldCannotBeDeletedError":
			return ImplementsError(sig.Results().At(0).Type()) || IsErrorType(sig.Results().At(0).Type())
		}
	}
	return false
}

// StmtListOf returns the statement list that directly contains stmt and its
// index in it, using the parent map.
func StmtListOf(par map[ast.Node]ast.Node, stmt ast.Node) ([]ast.Stmt, int) {
	p := par[stmt]
	var list []ast.Stmt
	switch b := p.(type) {
	case *ast.BlockStmt:
		list = b.List
	case *ast.CaseClause:
		list = b.Body
	case *ast.CommClause:
		list = b.Body
	default:
		return nil, -1
	}
	for i, s := range list {
		if s == stmt {
			return list, i
		}
	}
	return nil, -1
}

// AssignsTo reports whether node n (not entering FuncLits) assigns to obj.
func AssignsTo(info *types.Info, n ast.Node, obj types.Object) bool {
	found := false
	WalkNoFuncLit(n, func(x ast.Node) bool {
		for _, o := range AssignedObjs(info, x) {
			if o == obj {
				found = true
			}
		}
		return !found
	})
	return found
}

// GuardedNonNil reports whether stmt lies in the then-branch of an enclosing
// `if` whose condition implies obj != nil, with no assignment to obj between
// the start of that branch and stmt (walking up through nested blocks).
func GuardedNonNil(info *types.Info, par map[ast.Node]ast.Node, stmt ast.Node, obj types.Object) bool {
	return guardedBy(info, par, stmt, func(f Fact) bool {
		x, nonNil, ok := NilTest(info, f)
		return ok && nonNil && ObjOf(info, x) == obj
	}, obj)
}

// guardedBy walks up from stmt; at each enclosing if-then branch it tests the
// facts of the condition with pred.  Statements preceding stmt in each
// enclosing list up to the guard must not assign killObj.
func guardedBy(info *types.Info, par map[ast.Node]ast.Node, stmt ast.Node, pred func(Fact) bool, killObj types.Object) bool {
	return guardedByX(info, par, stmt, pred, killObj, false)
}

// GuardedByFactAcrossClosures is GuardedByFact that also looks at the guards
// enclosing the function literal the statement is in (sound when the closure is
// invoked synchronously and the guarded variable is not reassigned).
func GuardedByFactAcrossClosures(info *types.Info, par map[ast.Node]ast.Node, stmt ast.Node, pred func(Fact) bool, killObj types.Object) bool {
	return guardedByX(info, par, stmt, pred, killObj, true)
}

func guardedByX(info *types.Info, par map[ast.Node]ast.Node, stmt ast.Node, pred func(Fact) bool, killObj types.Object, crossClosures bool) bool {
	cur := stmt
	for cur != nil {
		p := par[cur]
		if p == nil {
			return false
		}
		switch pp := p.(type) {
		case *ast.FuncDecl:
			return false
		case *ast.FuncLit:
			if !crossClosures {
				return false
			}
		case *ast.BlockStmt, *ast.CaseClause, *ast.CommClause:
			list, idx := StmtListOf(par, cur)
			if idx < 0 {
				return false
			}
			// statements before stmt in the same list, nearest first: an assignment to the guarded object ends the
			// search; an `if c { …; return / continue / break / panic }` without else establishes !c for what follows
			// (the early-exit spelling of `if !c { stmt }`)
			for k := idx - 1; k >= 0; k-- {
				if killObj != nil && AssignsTo(info, list[k], killObj) {
					return false
				}
				if ifs, ok := list[k].(*ast.IfStmt); ok && ifs.Else == nil && Terminates(info, ifs.Body) {
					for _, f := range expandFacts(info, Decompose(ifs.Cond, false, nil)) {
						if pred(f) {
							return true
						}
					}
				}
			}
			if blk, ok := pp.(*ast.BlockStmt); ok {
				if ifs, ok := par[blk].(*ast.IfStmt); ok {
					val := ifs.Body == blk
					isElse := ifs.Else == blk
					if val || isElse {
						for _, f := range expandFacts(info, Decompose(ifs.Cond, val, nil)) {
							if pred(f) {
								return true
							}
						}
					}
				}
			}
			if cc, ok := pp.(*ast.CaseClause); ok {
				// tagless switch: case conditions are facts
				if sw, ok := par[par[cc]].(*ast.SwitchStmt); ok && sw.Tag == nil && len(cc.List) == 1 {
					for _, f := range expandFacts(info, Decompose(cc.List[0], true, nil)) {
						if pred(f) {
							return true
						}
					}
				}
				// tagged switch: the clause is entered when the tag equals one of its expressions;
				// the guard holds if it holds for every one of them
				if sw, ok := par[par[cc]].(*ast.SwitchStmt); ok && sw.Tag != nil && len(cc.List) > 0 {
					all := true
					for _, ce := range cc.List {
						if !pred(Fact{Expr: ce, Val: true, Tag: sw.Tag}) && !pred(Fact{Expr: &ast.BinaryExpr{X: sw.Tag, Op: token.EQL, Y: ce, OpPos: ce.Pos()}, Val: true}) {
							all = false
						}
					}
					if all {
						return true
					}
				}
			}
			if cc, ok := pp.(*ast.CaseClause); ok {
				// clauses are tried in order: entering one means every expression of the clauses before it was false
				// (tagless) or different from the tag (tagged)
				if body, _ := par[cc].(*ast.BlockStmt); body != nil {
					if sw, ok := par[body].(*ast.SwitchStmt); ok && cc.List != nil {
						for _, other := range body.List {
							oc := other.(*ast.CaseClause)
							if oc == cc {
								break
							}
							for _, ce := range oc.List {
								var fs []Fact
								if sw.Tag == nil {
									fs = expandFacts(info, Decompose(ce, false, nil))
								} else {
									fs = []Fact{{Expr: &ast.BinaryExpr{X: sw.Tag, Op: token.EQL, Y: ce, OpPos: ce.Pos()}, Val: false}}
								}
								for _, f := range fs {
									if pred(f) {
										return true
									}
								}
							}
						}
					}
				}
			}
			if cc, ok := pp.(*ast.CaseClause); ok {
				// type switch: the clause is entered when the subject has the clause's type
				if ts, ok := par[par[cc]].(*ast.TypeSwitchStmt); ok && len(cc.List) == 1 {
					if subj := TypeSwitchSubject(ts); subj != nil {
						var f Fact
						if id, ok := unparen(cc.List[0]).(*ast.Ident); ok && id.Name == "nil" {
							f = Fact{Expr: &ast.BinaryExpr{X: subj, Op: token.EQL, Y: cc.List[0], OpPos: cc.Pos()}, Val: true}
						} else {
							f = Fact{Expr: &ast.TypeAssertExpr{X: subj, Type: cc.List[0], Lparen: cc.Pos()}, Val: true}
						}
						if pred(f) {
							return true
						}
					}
				}
				// the default clause of a switch: every other clause's test is false
				if cc.List == nil {
					body, _ := par[cc].(*ast.BlockStmt)
					switch sw := par[body].(type) {
					case *ast.SwitchStmt:
						for _, other := range body.List {
							oc := other.(*ast.CaseClause)
							for _, ce := range oc.List {
								var fs []Fact
								if sw.Tag == nil {
									fs = expandFacts(info, Decompose(ce, false, nil))
								} else {
									fs = []Fact{{Expr: &ast.BinaryExpr{X: sw.Tag, Op: token.EQL, Y: ce, OpPos: ce.Pos()}, Val: false}}
								}
								for _, f := range fs {
									if pred(f) {
										return true
									}
								}
							}
						}
					case *ast.TypeSwitchStmt:
						if subj := TypeSwitchSubject(sw); subj != nil {
							for _, other := range body.List {
								oc := other.(*ast.CaseClause)
								for _, ce := range oc.List {
									var f Fact
									if id, ok := unparen(ce).(*ast.Ident); ok && id.Name == "nil" {
										f = Fact{Expr: &ast.BinaryExpr{X: subj, Op: token.EQL, Y: ce, OpPos: ce.Pos()}, Val: false}
									} else {
										f = Fact{Expr: &ast.TypeAssertExpr{X: subj, Type: ce, Lparen: ce.Pos()}, Val: false}
									}
									if pred(f) {
										return true
									}
								}
							}
						}
					}
				}
			}
		case *ast.IfStmt:
			// stmt is the else-if; facts of the outer condition being false
			if pp.Else == cur {
				for _, f := range expandFacts(info, Decompose(pp.Cond, false, nil)) {
					if pred(f) {
						return true
					}
				}
			}
		}
		cur = p
	}
	return false
}

// GuardedByFact is the exported form of guardedBy.
func GuardedByFact(info *types.Info, par map[ast.Node]ast.Node, stmt ast.Node, pred func(Fact) bool, killObj types.Object) bool {
	return guardedBy(info, par, stmt, pred, killObj)
}

// EnclosingStmt returns the innermost statement containing n.
func EnclosingStmt(par map[ast.Node]ast.Node, n ast.Node) ast.Stmt {
	for cur := n; cur != nil; cur = par[cur] {
		if s, ok := cur.(ast.Stmt); ok {
			return s
		}
	}
	return nil
}

// ErrorReturn classifies a return statement of a function whose last result is
// an error: "error" when the returned error is certainly non-nil, "nil" when
// it is the literal nil, "maybe" otherwise.  A bare return (named results) is
// classified through the named error result like an identifier.
func ErrorReturn(info *types.Info, par map[ast.Node]ast.Node, sig *types.Signature, ret *ast.ReturnStmt) string {
	if sig == nil || sig.Results().Len() == 0 {
		return "nil"
	}
	last := sig.Results().At(sig.Results().Len() - 1)
	if !IsErrorType(last.Type()) {
		return "nil"
	}
	var e ast.Expr
	if len(ret.Results) == 0 {
		// bare return: named result
		if last.Name() == "" {
			return "nil"
		}
		if GuardedNonNil(info, par, ret, last) {
			return "error"
		}
		return "maybe"
	}
	if len(ret.Results) == sig.Results().Len() {
		e = ret.Results[len(ret.Results)-1]
	} else {
		return "maybe" // return f() with multi-value call
	}
	if IsNil(info, e) {
		return "nil"
	}
	if NonNilErrorExpr(info, e) {
		return "error"
	}
	if id, ok := unparen(e).(*ast.Ident); ok {
		if obj := ObjOf(info, id); obj != nil && GuardedNonNil(info, par, ret, obj) {
			return "error"
		}
	}
	return "maybe"
}

// ExprString renders an expression compactly (for construct descriptors).
func ExprString(e ast.Expr) string {
	return strings.Join(strings.Fields(types.ExprString(e)), " ")
}

// Terminates reports whether control never flows out of the end of the block: its last statement is a return, a
// branch (break / continue / goto), a call that does not return, or an if/else all of whose branches terminate.
func Terminates(info *types.Info, b *ast.BlockStmt) bool {
	if b == nil || len(b.List) == 0 {
		return false
	}
	return stmtTerminates(info, b.List[len(b.List)-1])
}

func stmtTerminates(info *types.Info, s ast.Stmt) bool {
	switch x := s.(type) {
	case *ast.ReturnStmt:
		return true
	case *ast.BranchStmt:
		return x.Tok == token.BREAK || x.Tok == token.CONTINUE || x.Tok == token.GOTO
	case *ast.ExprStmt:
		if call, ok := unparen(x.X).(*ast.CallExpr); ok {
			return NoReturn(info, call)
		}
	case *ast.BlockStmt:
		return Terminates(info, x)
	case *ast.IfStmt:
		if x.Else == nil {
			return false
		}
		return Terminates(info, x.Body) && stmtTerminates(info, x.Else)
	}
	return false
}

// FuncValueOf resolves an expression used as a function value to the code that
// runs when it is called: a function literal, a (possibly instantiated) named
// function or method value of this module, or any of these in parentheses.
// It returns the type, the body and the types.Info the body is checked in; a
// nil body means the value is not a function whose source is in the module.
func FuncValueOf(m *Module, info *types.Info, e ast.Expr) (*ast.FuncType, *ast.BlockStmt, *types.Info) {
	for depth := 0; depth < 4; depth++ {
		switch x := unparen(e).(type) {
		case *ast.FuncLit:
			return x.Type, x.Body, info
		case *ast.IndexExpr:
			e = x.X
			continue
		case *ast.IndexListExpr:
			e = x.X
			continue
		case *ast.Ident, *ast.SelectorExpr:
			if fn, ok := ObjOf(info, x.(ast.Expr)).(*types.Func); ok {
				if d := m.Decl(fn.Origin()); d != nil && d.Body != nil {
					if p := m.PkgOf(fn.Origin()); p != nil {
						return d.Type, d.Body, p.TypesInfo
					}
				}
			}
		}
		break
	}
	return nil, nil, nil
}
