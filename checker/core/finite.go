package core

import (
	"fmt"
	"go/ast"
	"go/constant"
	"go/token"
	"go/types"
)

// A-finite: an evaluator for a loop-free statement fragment over concrete
// values of a finite abstract input domain.  It interprets if / switch /
// assignment / return over booleans, strings, integer constants and symbolic
// objects; anything else makes the evaluation fail (the obligation is then
// undecided).  This is interpretation of the *source* over enumerated atoms,
// not execution of the program.

// Sym is a symbolic object: only its identity and nil-ness are known.
type Sym struct {
	Name string
	Nil  bool
}

// FinEnv maps variables to values (bool, string, int64, Sym).
type FinEnv map[types.Object]interface{}

// FinOutcome is the result of evaluating a fragment.
type FinOutcome struct {
	Kind string // "return", "stop", "fallthrough-end"
	Ret  *ast.ReturnStmt
	Stop ast.Stmt
	Env  FinEnv
}

// FinInterp evaluates statement lists.
type FinInterp struct {
	Info *types.Info
	// Bind gives rule-specific meaning to an expression (atoms); ok=false
	// means "no special meaning, evaluate structurally".
	Bind func(e ast.Expr, env FinEnv) (v interface{}, ok bool)
	// BindAssign intercepts an assignment/define statement as a whole (for
	// comma-ok forms); handled=true means env was updated.
	BindAssign func(s *ast.AssignStmt, env FinEnv) (handled bool, err error)
	// StopAt ends the evaluation with outcome "stop" when it returns true.
	StopAt func(s ast.Stmt) bool
	// Store observes assignments whose target is not a plain identifier
	// (field / map / index stores).
	Store func(lhs ast.Expr, v interface{})
	// M (optional) lets the evaluator read package-level lookup tables: a map variable initialised by a composite
	// literal with constant keys that is written nowhere in the module is a finite function.
	M *Module
}

// finTable is a package-level map literal read as a finite function.
type finTable struct {
	entries map[interface{}]interface{}
	zero    interface{}
}

// table returns the finite function a package-level map variable stands for, or nil.
func (it *FinInterp) table(o types.Object) *finTable {
	v, ok := o.(*types.Var)
	if !ok || it.M == nil || v.Pkg() == nil || v.Parent() != v.Pkg().Scope() {
		return nil
	}
	mt, ok := v.Type().Underlying().(*types.Map)
	if !ok {
		return nil
	}
	p := it.M.PkgOf(v)
	if p == nil {
		return nil
	}
	var init ast.Expr
	written := false
	for _, q := range it.M.Roots {
		for _, file := range q.Syntax {
			ast.Inspect(file, func(n ast.Node) bool {
				switch x := n.(type) {
				case *ast.ValueSpec:
					for i, nm := range x.Names {
						if q.TypesInfo.Defs[nm] == types.Object(v) && i < len(x.Values) {
							init = x.Values[i]
						}
					}
				case *ast.AssignStmt:
					for _, l := range x.Lhs {
						e := unparen(l)
						if ix, ok := e.(*ast.IndexExpr); ok {
							e = unparen(ix.X)
						}
						if ObjOf(q.TypesInfo, e) == types.Object(v) {
							written = true
						}
					}
				case *ast.CallExpr:
					if b, ok := ObjOf(q.TypesInfo, x.Fun).(*types.Builtin); ok && (b.Name() == "delete" || b.Name() == "clear") && len(x.Args) >= 1 && ObjOf(q.TypesInfo, x.Args[0]) == types.Object(v) {
						written = true
					}
				case *ast.UnaryExpr:
					if x.Op == token.AND && ObjOf(q.TypesInfo, x.X) == types.Object(v) {
						written = true
					}
				}
				return true
			})
		}
	}
	cl, ok := unparen(init).(*ast.CompositeLit)
	if !ok || written {
		return nil
	}
	t := &finTable{entries: map[interface{}]interface{}{}, zero: zeroOf(mt.Elem())}
	sub := &FinInterp{Info: p.TypesInfo}
	for _, el := range cl.Elts {
		kv, ok := el.(*ast.KeyValueExpr)
		if !ok {
			return nil
		}
		k, err1 := sub.Eval(kv.Key, FinEnv{})
		val, err2 := sub.Eval(kv.Value, FinEnv{})
		if err1 != nil || err2 != nil {
			return nil
		}
		switch k.(type) {
		case int64, string, bool:
		default:
			return nil
		}
		switch val.(type) {
		case int64, string, bool:
		default:
			return nil
		}
		t.entries[k] = val
	}
	return t
}

type finCtl int

const (
	ctlNext finCtl = iota
	ctlBreak
	ctlDone
	ctlContinue
)

// finLoopBound is the number of iterations the evaluator is prepared to unroll.
const finLoopBound = 64

// Exec runs the statements; it returns the outcome or an error when a
// construct is outside the subset.
func (it *FinInterp) Exec(stmts []ast.Stmt, env FinEnv) (*FinOutcome, error) {
	out, ctl, err := it.block(stmts, env)
	if err != nil {
		return nil, err
	}
	if ctl == ctlDone {
		return out, nil
	}
	return &FinOutcome{Kind: "fallthrough-end", Env: env}, nil
}

func (it *FinInterp) block(stmts []ast.Stmt, env FinEnv) (*FinOutcome, finCtl, error) {
	for _, s := range stmts {
		out, ctl, err := it.stmt(s, env)
		if err != nil {
			return nil, ctlNext, err
		}
		if ctl != ctlNext {
			return out, ctl, nil
		}
	}
	return nil, ctlNext, nil
}

func (it *FinInterp) stmt(s ast.Stmt, env FinEnv) (*FinOutcome, finCtl, error) {
	if it.StopAt != nil && it.StopAt(s) {
		return &FinOutcome{Kind: "stop", Stop: s, Env: env}, ctlDone, nil
	}
	switch x := s.(type) {
	case *ast.BlockStmt:
		return it.block(x.List, env)
	case *ast.ReturnStmt:
		return &FinOutcome{Kind: "return", Ret: x, Env: env}, ctlDone, nil
	case *ast.EmptyStmt:
		return nil, ctlNext, nil
	case *ast.ExprStmt:
		return nil, ctlNext, nil // calls for effect are opaque
	case *ast.DeclStmt:
		gd, ok := x.Decl.(*ast.GenDecl)
		if !ok || gd.Tok != token.VAR {
			return nil, ctlNext, nil
		}
		for _, sp := range gd.Specs {
			vs := sp.(*ast.ValueSpec)
			for i, id := range vs.Names {
				obj := it.Info.Defs[id]
				if i < len(vs.Values) {
					v, err := it.Eval(vs.Values[i], env)
					if err != nil {
						return nil, ctlNext, err
					}
					env[obj] = v
				} else {
					env[obj] = zeroOf(obj.Type())
				}
			}
		}
		return nil, ctlNext, nil
	case *ast.AssignStmt:
		if it.BindAssign != nil {
			handled, err := it.BindAssign(x, env)
			if err != nil {
				return nil, ctlNext, err
			}
			if handled {
				return nil, ctlNext, nil
			}
		}
		if len(x.Lhs) != len(x.Rhs) {
			// multi-value call: results are opaque
			for _, l := range x.Lhs {
				if id, ok := unparen(l).(*ast.Ident); ok && id.Name != "_" {
					if o := ObjOf(it.Info, id); o != nil {
						env[o] = Sym{Name: "result of " + ExprString(x.Rhs[0])}
					}
				}
			}
			return nil, ctlNext, nil
		}
		if (x.Tok == token.ADD_ASSIGN || x.Tok == token.SUB_ASSIGN) && len(x.Lhs) == 1 {
			o := ObjOf(it.Info, x.Lhs[0])
			cur, isInt := env[o].(int64)
			d, err := it.Eval(x.Rhs[0], env)
			if err != nil {
				return nil, ctlNext, err
			}
			dv, ok := d.(int64)
			if o == nil || !isInt || !ok {
				return nil, ctlNext, fmt.Errorf("%s on a value that is not an integer over the atoms", x.Tok)
			}
			if x.Tok == token.SUB_ASSIGN {
				dv = -dv
			}
			env[o] = cur + dv
			return nil, ctlNext, nil
		}
		if x.Tok != token.ASSIGN && x.Tok != token.DEFINE {
			return nil, ctlNext, fmt.Errorf("assignment operator %s outside the subset", x.Tok)
		}
		vals := make([]interface{}, len(x.Rhs))
		for i, r := range x.Rhs {
			v, err := it.Eval(r, env)
			if err != nil {
				return nil, ctlNext, err
			}
			vals[i] = v
		}
		for i, l := range x.Lhs {
			id, ok := unparen(l).(*ast.Ident)
			if !ok {
				if it.Store != nil {
					it.Store(l, vals[i])
				}
				continue // stores to fields/maps are otherwise opaque effects
			}
			if id.Name == "_" {
				continue
			}
			if o := ObjOf(it.Info, id); o != nil {
				env[o] = vals[i]
			}
		}
		return nil, ctlNext, nil
	case *ast.IfStmt:
		if x.Init != nil {
			if _, _, err := it.stmt(x.Init, env); err != nil {
				return nil, ctlNext, err
			}
		}
		c, err := it.Eval(x.Cond, env)
		if err != nil {
			return nil, ctlNext, err
		}
		b, ok := c.(bool)
		if !ok {
			return nil, ctlNext, fmt.Errorf("condition %s does not evaluate to a boolean over the atoms", ExprString(x.Cond))
		}
		if b {
			return it.block(x.Body.List, env)
		}
		if x.Else != nil {
			return it.stmt(x.Else, env)
		}
		return nil, ctlNext, nil
	case *ast.SwitchStmt:
		if x.Init != nil {
			if _, _, err := it.stmt(x.Init, env); err != nil {
				return nil, ctlNext, err
			}
		}
		var tag interface{} = true
		if x.Tag != nil {
			v, err := it.Eval(x.Tag, env)
			if err != nil {
				return nil, ctlNext, err
			}
			tag = v
		}
		var def *ast.CaseClause
		var chosen *ast.CaseClause
	clauses:
		for _, c := range x.Body.List {
			cc := c.(*ast.CaseClause)
			if cc.List == nil {
				def = cc
				continue
			}
			for _, e := range cc.List {
				v, err := it.Eval(e, env)
				if err != nil {
					return nil, ctlNext, err
				}
				eq, err := finEqual(tag, v)
				if err != nil {
					return nil, ctlNext, fmt.Errorf("switch case %s: %v", ExprString(e), err)
				}
				if eq {
					chosen = cc
					break clauses
				}
			}
		}
		if chosen == nil {
			chosen = def
		}
		if chosen == nil {
			return nil, ctlNext, nil
		}
		for _, bs := range chosen.Body {
			if br, ok := bs.(*ast.BranchStmt); ok && br.Tok == token.FALLTHROUGH {
				return nil, ctlNext, fmt.Errorf("fallthrough outside the subset")
			}
		}
		out, ctl, err := it.block(chosen.Body, env)
		if err != nil {
			return nil, ctlNext, err
		}
		if ctl == ctlBreak {
			return nil, ctlNext, nil
		}
		return out, ctl, nil
	case *ast.BranchStmt:
		if x.Tok == token.BREAK && x.Label == nil {
			return nil, ctlBreak, nil
		}
		if x.Tok == token.CONTINUE && x.Label == nil {
			return nil, ctlContinue, nil
		}
		return nil, ctlNext, fmt.Errorf("branch statement %s outside the subset", x.Tok)
	case *ast.IncDecStmt:
		if o := ObjOf(it.Info, x.X); o != nil {
			if cur, isInt := env[o].(int64); isInt {
				if x.Tok == token.INC {
					env[o] = cur + 1
				} else {
					env[o] = cur - 1
				}
			} else if _, tracked := env[o]; tracked {
				env[o] = Sym{Name: ExprString(x.X) + " after " + x.Tok.String()}
			}
		}
		return nil, ctlNext, nil
	case *ast.RangeStmt:
		// a loop over a list whose elements evaluate over the atoms (or over an integer) is unrolled
		xs, err := it.Eval(x.X, env)
		if err != nil {
			return nil, ctlNext, err
		}
		var items []interface{}
		switch v := xs.(type) {
		case []interface{}:
			items = v
		case int64:
			if v > finLoopBound {
				return nil, ctlNext, fmt.Errorf("range over %d values outside the subset", v)
			}
			for i := int64(0); i < v; i++ {
				items = append(items, nil)
			}
		default:
			return nil, ctlNext, fmt.Errorf("range over %s, which is not a list over the atoms, outside the subset", ExprString(x.X))
		}
		for i, item := range items {
			if x.Key != nil {
				if o := ObjOf(it.Info, x.Key); o != nil {
					env[o] = int64(i)
				}
			}
			if x.Value != nil {
				if o := ObjOf(it.Info, x.Value); o != nil {
					env[o] = item
				}
			}
			out, ctl, err := it.block(x.Body.List, env)
			if err != nil {
				return nil, ctlNext, err
			}
			if ctl == ctlDone {
				return out, ctl, nil
			}
			if ctl == ctlBreak {
				break
			}
		}
		return nil, ctlNext, nil
	case *ast.ForStmt:
		if x.Init != nil {
			if _, _, err := it.stmt(x.Init, env); err != nil {
				return nil, ctlNext, err
			}
		}
		for n := 0; ; n++ {
			if n > finLoopBound {
				return nil, ctlNext, fmt.Errorf("loop does not end within %d iterations over the atoms", finLoopBound)
			}
			if x.Cond != nil {
				c, err := it.Eval(x.Cond, env)
				if err != nil {
					return nil, ctlNext, err
				}
				b, ok := c.(bool)
				if !ok {
					return nil, ctlNext, fmt.Errorf("loop condition %s does not evaluate to a boolean over the atoms", ExprString(x.Cond))
				}
				if !b {
					break
				}
			}
			out, ctl, err := it.block(x.Body.List, env)
			if err != nil {
				return nil, ctlNext, err
			}
			if ctl == ctlDone {
				return out, ctl, nil
			}
			if ctl == ctlBreak {
				break
			}
			if x.Post != nil {
				if _, _, err := it.stmt(x.Post, env); err != nil {
					return nil, ctlNext, err
				}
			}
		}
		return nil, ctlNext, nil
	}
	return nil, ctlNext, fmt.Errorf("statement %T outside the subset", s)
}

func zeroOf(t types.Type) interface{} {
	switch u := t.Underlying().(type) {
	case *types.Basic:
		switch {
		case u.Info()&types.IsBoolean != 0:
			return false
		case u.Info()&types.IsString != 0:
			return ""
		case u.Info()&types.IsInteger != 0:
			return int64(0)
		}
	}
	return Sym{Name: "zero " + t.String(), Nil: true}
}

func finEqual(a, b interface{}) (bool, error) {
	switch x := a.(type) {
	case bool:
		if y, ok := b.(bool); ok {
			return x == y, nil
		}
	case string:
		if y, ok := b.(string); ok {
			return x == y, nil
		}
	case int64:
		if y, ok := b.(int64); ok {
			return x == y, nil
		}
	case Sym:
		if y, ok := b.(Sym); ok {
			if x.Nil || y.Nil {
				return x.Nil && y.Nil, nil
			}
			return x.Name == y.Name, nil
		}
	}
	return false, fmt.Errorf("cannot compare %v with %v over the atoms", a, b)
}

// Eval evaluates an expression.
func (it *FinInterp) Eval(e ast.Expr, env FinEnv) (interface{}, error) {
	e = unparen(e)
	if it.Bind != nil {
		if v, ok := it.Bind(e, env); ok {
			return v, nil
		}
	}
	if tv, ok := it.Info.Types[e]; ok && tv.Value != nil {
		switch tv.Value.Kind() {
		case constant.Bool:
			return constant.BoolVal(tv.Value), nil
		case constant.String:
			return constant.StringVal(tv.Value), nil
		case constant.Int:
			v, _ := constant.Int64Val(tv.Value)
			return v, nil
		}
	}
	switch x := e.(type) {
	case *ast.Ident:
		if IsNil(it.Info, x) {
			return Sym{Name: "nil", Nil: true}, nil
		}
		if o := ObjOf(it.Info, x); o != nil {
			if v, ok := env[o]; ok {
				return v, nil
			}
			return Sym{Name: x.Name}, nil
		}
	case *ast.UnaryExpr:
		if x.Op == token.NOT {
			v, err := it.Eval(x.X, env)
			if err != nil {
				return nil, err
			}
			b, ok := v.(bool)
			if !ok {
				return nil, fmt.Errorf("operand of ! is not boolean: %s", ExprString(x.X))
			}
			return !b, nil
		}
		return Sym{Name: ExprString(e)}, nil
	case *ast.BinaryExpr:
		switch x.Op {
		case token.LAND, token.LOR:
			l, err := it.Eval(x.X, env)
			if err != nil {
				return nil, err
			}
			lb, ok := l.(bool)
			if !ok {
				// an operand outside the atoms (a field read): the result is known only if the other operand decides it
				r, err := it.Eval(x.Y, env)
				if err != nil {
					return nil, err
				}
				if rb, isBool := r.(bool); isBool && ((x.Op == token.LOR && rb) || (x.Op == token.LAND && !rb)) {
					return rb, nil
				}
				return Sym{Name: ExprString(e)}, nil
			}
			if x.Op == token.LAND && !lb {
				return false, nil
			}
			if x.Op == token.LOR && lb {
				return true, nil
			}
			r, err := it.Eval(x.Y, env)
			if err != nil {
				return nil, err
			}
			rb, ok := r.(bool)
			if !ok {
				return Sym{Name: ExprString(e)}, nil
			}
			return rb, nil
		case token.EQL, token.NEQ:
			l, err := it.Eval(x.X, env)
			if err != nil {
				return nil, err
			}
			r, err := it.Eval(x.Y, env)
			if err != nil {
				return nil, err
			}
			eq, err := finEqual(l, r)
			if err != nil {
				return nil, fmt.Errorf("%s: %v", ExprString(e), err)
			}
			if x.Op == token.NEQ {
				return !eq, nil
			}
			return eq, nil
		case token.LSS, token.LEQ, token.GTR, token.GEQ, token.ADD, token.SUB:
			l, err := it.Eval(x.X, env)
			if err != nil {
				return nil, err
			}
			r, err := it.Eval(x.Y, env)
			if err != nil {
				return nil, err
			}
			li, lok := l.(int64)
			ri, rok := r.(int64)
			if lok && rok {
				switch x.Op {
				case token.LSS:
					return li < ri, nil
				case token.LEQ:
					return li <= ri, nil
				case token.GTR:
					return li > ri, nil
				case token.GEQ:
					return li >= ri, nil
				case token.ADD:
					return li + ri, nil
				case token.SUB:
					return li - ri, nil
				}
			}
		}
		return Sym{Name: ExprString(e)}, nil
	case *ast.CompositeLit:
		// a list literal whose elements evaluate over the atoms
		switch it.Info.Types[x].Type.Underlying().(type) {
		case *types.Array, *types.Slice:
			var items []interface{}
			for _, el := range x.Elts {
				if _, keyed := el.(*ast.KeyValueExpr); keyed {
					return Sym{Name: ExprString(e)}, nil
				}
				v, err := it.Eval(el, env)
				if err != nil {
					return nil, err
				}
				items = append(items, v)
			}
			return items, nil
		}
	case *ast.IndexExpr:
		if t := it.table(ObjOf(it.Info, x.X)); t != nil {
			if i, err := it.Eval(x.Index, env); err == nil {
				switch i.(type) {
				case int64, string, bool:
					if v, ok := t.entries[i]; ok {
						return v, nil
					}
					return t.zero, nil
				}
			}
		}
		if l, err := it.Eval(x.X, env); err == nil {
			if items, ok := l.([]interface{}); ok {
				if i, err := it.Eval(x.Index, env); err == nil {
					if iv, ok := i.(int64); ok && iv >= 0 && int(iv) < len(items) {
						return items[iv], nil
					}
				}
			}
		}
	case *ast.CallExpr:
		if b, ok := ObjOf(it.Info, x.Fun).(*types.Builtin); ok && b.Name() == "len" && len(x.Args) == 1 {
			if l, err := it.Eval(x.Args[0], env); err == nil {
				if items, ok := l.([]interface{}); ok {
					return int64(len(items)), nil
				}
			}
		}
	}
	return Sym{Name: ExprString(e)}, nil
}
