package core

import (
	"fmt"
	"go/ast"
	"go/constant"
	"go/token"
	"go/types"
)

// A-finite: an evaluator for a loop-free statement fragment over concrete
// values of a finite abstract input domain.  It interprets if / switch /
// assignment / return over booleans, strings, integer constants and symbolic
// objects; anything else makes the evaluation fail (the obligation is then
// undecided).  This is interpretation of the *source* over enumerated atoms,
// not execution of the program.

// Sym is a symbolic object: only its identity and nil-ness are known.
type Sym struct {
	Name string
	Nil  bool
}

// FinEnv maps variables to values (bool, string, int64, Sym).
type FinEnv map[types.Object]interface{}

// FinOutcome is the result of evaluating a fragment.
type FinOutcome struct {
	Kind string // "return", "stop", "fallthrough-end"
	Ret  *ast.ReturnStmt
	Stop ast.Stmt
	Env  FinEnv
}

// FinInterp evaluates statement lists.
type FinInterp struct {
	Info *types.Info
	// Bind gives rule-specific meaning to an expression (atoms); ok=false
	// means "no special meaning, evaluate structurally".
	Bind func(e ast.Expr, env FinEnv) (v interface{}, ok bool)
	// BindAssign intercepts an assignment/define statement as a whole (for
	// comma-ok forms); handled=true means env was updated.
	BindAssign func(s *ast.AssignStmt, env FinEnv) (handled bool, err error)
	// StopAt ends the evaluation with outcome "stop" when it returns true.
	StopAt func(s ast.Stmt) bool
	// Store observes assignments whose target is not a plain identifier
	// (field / map / index stores).
	Store func(lhs ast.Expr, v interface{})
}

type finCtl int

const (
	ctlNext finCtl = iota
	ctlBreak
	ctlDone
)

// Exec runs the statements; it returns the outcome or an error when a
// construct is outside the subset.
func (it *FinInterp) Exec(stmts []ast.Stmt, env FinEnv) (*FinOutcome, error) {
	out, ctl, err := it.block(stmts, env)
	if err != nil {
		return nil, err
	}
	if ctl == ctlDone {
		return out, nil
	}
	return &FinOutcome{Kind: "fallthrough-end", Env: env}, nil
}

func (it *FinInterp) block(stmts []ast.Stmt, env FinEnv) (*FinOutcome, finCtl, error) {
	for _, s := range stmts {
		out, ctl, err := it.stmt(s, env)
		if err != nil {
			return nil, ctlNext, err
		}
		if ctl != ctlNext {
			return out, ctl, nil
		}
	}
	return nil, ctlNext, nil
}

func (it *FinInterp) stmt(s ast.Stmt, env FinEnv) (*FinOutcome, finCtl, error) {
	if it.StopAt != nil && it.StopAt(s) {
		return &FinOutcome{Kind: "stop", Stop: s, Env: env}, ctlDone, nil
	}
	switch x := s.(type) {
	case *ast.BlockStmt:
		return it.block(x.List, env)
	case *ast.ReturnStmt:
		return &FinOutcome{Kind: "return", Ret: x, Env: env}, ctlDone, nil
	case *ast.EmptyStmt:
		return nil, ctlNext, nil
	case *ast.ExprStmt:
		return nil, ctlNext, nil // calls for effect are opaque
	case *ast.DeclStmt:
		gd, ok := x.Decl.(*ast.GenDecl)
		if !ok || gd.Tok != token.VAR {
			return nil, ctlNext, nil
		}
		for _, sp := range gd.Specs {
			vs := sp.(*ast.ValueSpec)
			for i, id := range vs.Names {
				obj := it.Info.Defs[id]
				if i < len(vs.Values) {
					v, err := it.Eval(vs.Values[i], env)
					if err != nil {
						return nil, ctlNext, err
					}
					env[obj] = v
				} else {
					env[obj] = zeroOf(obj.Type())
				}
			}
		}
		return nil, ctlNext, nil
	case *ast.AssignStmt:
		if it.BindAssign != nil {
			handled, err := it.BindAssign(x, env)
			if err != nil {
				return nil, ctlNext, err
			}
			if handled {
				return nil, ctlNext, nil
			}
		}
		if len(x.Lhs) != len(x.Rhs) {
			// multi-value call: results are opaque
			for _, l := range x.Lhs {
				if id, ok := unparen(l).(*ast.Ident); ok && id.Name != "_" {
					if o := ObjOf(it.Info, id); o != nil {
						env[o] = Sym{Name: "result of " + ExprString(x.Rhs[0])}
					}
				}
			}
			return nil, ctlNext, nil
		}
		if x.Tok != token.ASSIGN && x.Tok != token.DEFINE {
			return nil, ctlNext, fmt.Errorf("assignment operator %s outside the subset", x.Tok)
		}
		vals := make([]interface{}, len(x.Rhs))
		for i, r := range x.Rhs {
			v, err := it.Eval(r, env)
			if err != nil {
				return nil, ctlNext, err
			}
			vals[i] = v
		}
		for i, l := range x.Lhs {
			id, ok := unparen(l).(*ast.Ident)
			if !ok {
				if it.Store != nil {
					it.Store(l, vals[i])
				}
				continue // stores to fields/maps are otherwise opaque effects
			}
			if id.Name == "_" {
				continue
			}
			if o := ObjOf(it.Info, id); o != nil {
				env[o] = vals[i]
			}
		}
		return nil, ctlNext, nil
	case *ast.IfStmt:
		if x.Init != nil {
			if _, _, err := it.stmt(x.Init, env); err != nil {
				return nil, ctlNext, err
			}
		}
		c, err := it.Eval(x.Cond, env)
		if err != nil {
			return nil, ctlNext, err
		}
		b, ok := c.(bool)
		if !ok {
			return nil, ctlNext, fmt.Errorf("condition %s does not evaluate to a boolean over the atoms", ExprString(x.Cond))
		}
		if b {
			return it.block(x.Body.List, env)
		}
		if x.Else != nil {
			return it.stmt(x.Else, env)
		}
		return nil, ctlNext, nil
	case *ast.SwitchStmt:
		if x.Init != nil {
			if _, _, err := it.stmt(x.Init, env); err != nil {
				return nil, ctlNext, err
			}
		}
		var tag interface{} = true
		if x.Tag != nil {
			v, err := it.Eval(x.Tag, env)
			if err != nil {
				return nil, ctlNext, err
			}
			tag = v
		}
		var def *ast.CaseClause
		var chosen *ast.CaseClause
	clauses:
		for _, c := range x.Body.List {
			cc := c.(*ast.CaseClause)
			if cc.List == nil {
				def = cc
				continue
			}
			for _, e := range cc.List {
				v, err := it.Eval(e, env)
				if err != nil {
					return nil, ctlNext, err
				}
				eq, err := finEqual(tag, v)
				if err != nil {
					return nil, ctlNext, fmt.Errorf("switch case %s: %v", ExprString(e), err)
				}
				if eq {
					chosen = cc
					break clauses
				}
			}
		}
		if chosen == nil {
			chosen = def
		}
		if chosen == nil {
			return nil, ctlNext, nil
		}
		for _, bs := range chosen.Body {
			if br, ok := bs.(*ast.BranchStmt); ok && br.Tok == token.FALLTHROUGH {
				return nil, ctlNext, fmt.Errorf("fallthrough outside the subset")
			}
		}
		out, ctl, err := it.block(chosen.Body, env)
		if err != nil {
			return nil, ctlNext, err
		}
		if ctl == ctlBreak {
			return nil, ctlNext, nil
		}
		return out, ctl, nil
	case *ast.BranchStmt:
		if x.Tok == token.BREAK && x.Label == nil {
			return nil, ctlBreak, nil
		}
		return nil, ctlNext, fmt.Errorf("branch statement %s outside the subset", x.Tok)
	case *ast.IncDecStmt:
		return nil, ctlNext, nil
	}
	return nil, ctlNext, fmt.Errorf("statement %T outside the subset", s)
}

func zeroOf(t types.Type) interface{} {
	switch u := t.Underlying().(type) {
	case *types.Basic:
		switch {
		case u.Info()&types.IsBoolean != 0:
			return false
		case u.Info()&types.IsString != 0:
			return ""
		case u.Info()&types.IsInteger != 0:
			return int64(0)
		}
	}
	return Sym{Name: "zero " + t.String(), Nil: true}
}

func finEqual(a, b interface{}) (bool, error) {
	switch x := a.(type) {
	case bool:
		if y, ok := b.(bool); ok {
			return x == y, nil
		}
	case string:
		if y, ok := b.(string); ok {
			return x == y, nil
		}
	case int64:
		if y, ok := b.(int64); ok {
			return x == y, nil
		}
	case Sym:
		if y, ok := b.(Sym); ok {
			if x.Nil || y.Nil {
				return x.Nil && y.Nil, nil
			}
			return x.Name == y.Name, nil
		}
	}
	return false, fmt.Errorf("cannot compare %v with %v over the atoms", a, b)
}

// Eval evaluates an expression.
func (it *FinInterp) Eval(e ast.Expr, env FinEnv) (interface{}, error) {
	e = unparen(e)
	if it.Bind != nil {
		if v, ok := it.Bind(e, env); ok {
			return v, nil
		}
	}
	if tv, ok := it.Info.Types[e]; ok && tv.Value != nil {
		switch tv.Value.Kind() {
		case constant.Bool:
			return constant.BoolVal(tv.Value), nil
		case constant.String:
			return constant.StringVal(tv.Value), nil
		case constant.Int:
			v, _ := constant.Int64Val(tv.Value)
			return v, nil
		}
	}
	switch x := e.(type) {
	case *ast.Ident:
		if IsNil(it.Info, x) {
			return Sym{Name: "nil", Nil: true}, nil
		}
		if o := ObjOf(it.Info, x); o != nil {
			if v, ok := env[o]; ok {
				return v, nil
			}
			return Sym{Name: x.Name}, nil
		}
	case *ast.UnaryExpr:
		if x.Op == token.NOT {
			v, err := it.Eval(x.X, env)
			if err != nil {
				return nil, err
			}
			b, ok := v.(bool)
			if !ok {
				return nil, fmt.Errorf("operand of ! is not boolean: %s", ExprString(x.X))
			}
			return !b, nil
		}
		return Sym{Name: ExprString(e)}, nil
	case *ast.BinaryExpr:
		switch x.Op {
		case token.LAND, token.LOR:
			l, err := it.Eval(x.X, env)
			if err != nil {
				return nil, err
			}
			lb, ok := l.(bool)
			if !ok {
				return nil, fmt.Errorf("operand not boolean: %s", ExprString(x.X))
			}
			if x.Op == token.LAND && !lb {
				return false, nil
			}
			if x.Op == token.LOR && lb {
				return true, nil
			}
			r, err := it.Eval(x.Y, env)
			if err != nil {
				return nil, err
			}
			rb, ok := r.(bool)
			if !ok {
				return nil, fmt.Errorf("operand not boolean: %s", ExprString(x.Y))
			}
			return rb, nil
		case token.EQL, token.NEQ:
			l, err := it.Eval(x.X, env)
			if err != nil {
				return nil, err
			}
			r, err := it.Eval(x.Y, env)
			if err != nil {
				return nil, err
			}
			eq, err := finEqual(l, r)
			if err != nil {
				return nil, fmt.Errorf("%s: %v", ExprString(e), err)
			}
			if x.Op == token.NEQ {
				return !eq, nil
			}
			return eq, nil
		}
		return Sym{Name: ExprString(e)}, nil
	}
	return Sym{Name: ExprString(e)}, nil
}
