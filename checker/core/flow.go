package core

import (
	"fmt"
	"go/ast"
	"go/constant"
	"go/token"
	"go/types"
	"os"
	"sort"

	"golang.org/x/tools/go/cfg"
	"golang.org/x/tools/go/types/typeutil"
)

// Flow is the go/cfg view of one function body plus what the automaton engine
// needs to interpret branch edges.
type Flow struct {
	M    *Module
	Info *types.Info
	Body *ast.BlockStmt
	G    *cfg.CFG
	// switchOf maps each case clause to its switch statement.
	switchOf map[*ast.CaseClause]ast.Stmt
	// Inlined (NewFlowInlined only): return statements that belong to spliced-in helpers.
	Inlined map[*ast.ReturnStmt]bool
	// Alias (NewFlowInlined only): helper parameter -> caller-side object of the identifier passed for it.
	Alias    map[types.Object]types.Object
	skipCall map[ast.Node]bool
	// End is the synthetic return statement standing for falling off the end of the body (see Automaton.AtEnd).
	End *ast.ReturnStmt
}

// fallsOffEnd reports whether b is a live block through which control leaves the body without a return statement.
func (f *Flow) fallsOffEnd(b *cfg.Block) bool {
	if len(b.Succs) != 0 || !b.Live {
		return false
	}
	if len(b.Nodes) == 0 {
		return true
	}
	switch x := b.Nodes[len(b.Nodes)-1].(type) {
	case *ast.ReturnStmt:
		return false
	case *ast.ExprStmt:
		if call, ok := unparen(x.X).(*ast.CallExpr); ok && NoReturn(f.Info, call) {
			return false
		}
	}
	return true
}

// NoReturn reports whether a call never returns (panic, os.Exit, log.Fatal*,
// log.Panic*, (*log.Logger).Fatal*/Panic*, runtime.Goexit).
func NoReturn(info *types.Info, call *ast.CallExpr) bool {
	if id, ok := unparen(call.Fun).(*ast.Ident); ok {
		if b, ok := info.Uses[id].(*types.Builtin); ok && b.Name() == "panic" {
			return true
		}
	}
	f, _ := typeutil.Callee(info, call).(*types.Func)
	if f == nil || f.Pkg() == nil {
		return false
	}
	switch f.Pkg().Path() {
	case "os":
		return f.Name() == "Exit"
	case "runtime":
		return f.Name() == "Goexit"
	case "log":
		switch f.Name() {
		case "Fatal", "Fatalf", "Fatalln", "Panic", "Panicf", "Panicln":
			return true
		}
	}
	return false
}

// NewFlow builds the CFG of body.
func NewFlow(m *Module, info *types.Info, body *ast.BlockStmt) *Flow {
	f := &Flow{M: m, Info: info, Body: body, switchOf: map[*ast.CaseClause]ast.Stmt{}, End: &ast.ReturnStmt{Return: body.Rbrace}}
	f.G = cfg.New(body, func(call *ast.CallExpr) bool { return !NoReturn(info, call) })
	ast.Inspect(body, func(n ast.Node) bool {
		switch s := n.(type) {
		case *ast.FuncLit:
			return false
		case *ast.SwitchStmt:
			for _, c := range s.Body.List {
				f.switchOf[c.(*ast.CaseClause)] = s
			}
		case *ast.TypeSwitchStmt:
			for _, c := range s.Body.List {
				f.switchOf[c.(*ast.CaseClause)] = s
			}
		}
		return true
	})
	return f
}

// Fact is an expression known to be true or false on an edge.
type Fact struct {
	Expr ast.Expr
	Val  bool
	// Tag is set for switch-case edges: the fact is Tag == Expr (Val) .
	Tag ast.Expr
}

func unparen(e ast.Expr) ast.Expr {
	for {
		p, ok := e.(*ast.ParenExpr)
		if !ok {
			return e
		}
		e = p.X
	}
}

// Unparen strips parentheses.
func Unparen(e ast.Expr) ast.Expr { return unparen(e) }

// Decompose splits a condition with the given truth value into the atomic
// facts it implies (conjunctive part only).
func Decompose(e ast.Expr, val bool, out []Fact) []Fact {
	e = unparen(e)
	switch x := e.(type) {
	case *ast.UnaryExpr:
		if x.Op == token.NOT {
			return Decompose(x.X, !val, out)
		}
	case *ast.BinaryExpr:
		if x.Op == token.LAND && val {
			out = Decompose(x.X, true, out)
			return Decompose(x.Y, true, out)
		}
		if x.Op == token.LOR && !val {
			out = Decompose(x.X, false, out)
			return Decompose(x.Y, false, out)
		}
	}
	return append(out, Fact{Expr: e, Val: val})
}

// EdgeFacts returns the facts implied by leaving block b through successor i.
//
// Equivalent source forms yield the same facts, so that rules do not depend on which one the code uses:
//   - a tagged switch `switch t { case c: … }` yields, besides the legacy Fact{Expr: c, Tag: t}, the synthetic comparison
//     `t == c` (true on the edge into the clause, false on the edge to the next clause);
//   - a type switch `switch v := s.(type) { case T: … }` yields the synthetic assertion `s.(T)` (or `s == nil` for `case nil`);
//   - emptiness tests are expanded both ways (`x == ""` <-> `len(x) == 0`, see expandFacts).
func (f *Flow) EdgeFacts(b *cfg.Block, i int) []Fact {
	return expandFacts(f.Info, f.edgeFacts(b, i))
}

func (f *Flow) edgeFacts(b *cfg.Block, i int) []Fact {
	if len(b.Succs) != 2 {
		return nil
	}
	succ0 := b.Succs[0]
	if succ0.Kind == cfg.KindSwitchCaseBody {
		if cc, _ := succ0.Stmt.(*ast.CaseClause); cc != nil {
			if ts, _ := f.switchOf[cc].(*ast.TypeSwitchStmt); ts != nil {
				subj := TypeSwitchSubject(ts)
				if subj == nil || len(cc.List) != 1 {
					return nil // several types in one clause: no single fact
				}
				if id, ok := unparen(cc.List[0]).(*ast.Ident); ok && id.Name == "nil" {
					return []Fact{{Expr: &ast.BinaryExpr{X: subj, Op: token.EQL, Y: cc.List[0], OpPos: cc.Pos()}, Val: i == 0}}
				}
				return []Fact{{Expr: &ast.TypeAssertExpr{X: subj, Type: cc.List[0], Lparen: cc.Pos()}, Val: i == 0}}
			}
		}
	}
	if len(b.Nodes) == 0 {
		return nil
	}
	last, ok := b.Nodes[len(b.Nodes)-1].(ast.Expr)
	if !ok {
		return nil
	}
	switch succ0.Kind {
	case cfg.KindRangeBody:
		return nil
	case cfg.KindSwitchCaseBody:
		cc, _ := succ0.Stmt.(*ast.CaseClause)
		sw, _ := f.switchOf[cc].(*ast.SwitchStmt)
		if sw == nil {
			return nil
		}
		// the last node must be one of the clause's expressions
		found := false
		for _, ce := range cc.List {
			if ce == last {
				found = true
			}
		}
		if !found {
			return nil
		}
		if sw.Tag == nil {
			return Decompose(last, i == 0, nil)
		}
		return []Fact{
			{Expr: last, Val: i == 0, Tag: sw.Tag},
			{Expr: &ast.BinaryExpr{X: sw.Tag, Op: token.EQL, Y: last, OpPos: last.Pos()}, Val: i == 0},
		}
	case cfg.KindIfThen, cfg.KindForBody:
		return Decompose(last, i == 0, nil)
	}
	// `if` without else: Succs[0] is IfThen; other shapes (e.g. IfDone as
	// false successor) are covered above because Succs[0] is always the
	// true branch.
	return Decompose(last, i == 0, nil)
}

// TypeSwitchSubject returns the expression whose dynamic type a type switch inspects.
func TypeSwitchSubject(ts *ast.TypeSwitchStmt) ast.Expr {
	var e ast.Expr
	switch a := ts.Assign.(type) {
	case *ast.AssignStmt:
		if len(a.Rhs) == 1 {
			e = a.Rhs[0]
		}
	case *ast.ExprStmt:
		e = a.X
	}
	if ta, ok := unparen(e).(*ast.TypeAssertExpr); ok {
		return ta.X
	}
	return nil
}

// expandFacts adds, for every emptiness test, its equivalent spelling (synthetic nodes; operands are the original
// nodes, so type information is available for them):
//
//	x == ""  <->  len(x) == 0        x != ""  <->  len(x) != 0, len(x) > 0
func expandFacts(info *types.Info, facts []Fact) []Fact {
	out := facts
	for _, f := range facts {
		be, ok := unparen(f.Expr).(*ast.BinaryExpr)
		if !ok || f.Tag != nil {
			continue
		}
		x, y, op := be.X, be.Y, be.Op
		// normalise constant on the right
		if ConstOf(info, x) != nil && ConstOf(info, y) == nil {
			x, y = y, x
			switch op {
			case token.LSS:
				op = token.GTR
			case token.GTR:
				op = token.LSS
			case token.LEQ:
				op = token.GEQ
			case token.GEQ:
				op = token.LEQ
			}
		}
		cv := ConstOf(info, y)
		if cv == nil {
			continue
		}
		lenArg := func(e ast.Expr) ast.Expr {
			call, ok := unparen(e).(*ast.CallExpr)
			if !ok || len(call.Args) != 1 {
				return nil
			}
			if id, ok := unparen(call.Fun).(*ast.Ident); ok && id.Name == "len" {
				return call.Args[0]
			}
			return nil
		}
		isString := func(e ast.Expr) bool {
			if info == nil {
				return false
			}
			tv, ok := info.Types[e]
			if !ok || tv.Type == nil {
				return false
			}
			b, ok := tv.Type.Underlying().(*types.Basic)
			return ok && b.Info()&types.IsString != 0
		}
		empty := &ast.BasicLit{Kind: token.STRING, Value: `""`, ValuePos: be.Pos()}
		zero := &ast.BasicLit{Kind: token.INT, Value: "0", ValuePos: be.Pos()}
		if a := lenArg(x); a != nil && isString(a) {
			// len(a) <op> const
			s := cv.ExactString()
			switch {
			case (op == token.EQL && s == "0") || (op == token.LSS && s == "1") || (op == token.LEQ && s == "0"):
				out = append(out, Fact{Expr: &ast.BinaryExpr{X: a, Op: token.EQL, Y: empty, OpPos: be.OpPos}, Val: f.Val})
			case (op == token.NEQ && s == "0") || (op == token.GTR && s == "0") || (op == token.GEQ && s == "1"):
				out = append(out, Fact{Expr: &ast.BinaryExpr{X: a, Op: token.NEQ, Y: empty, OpPos: be.OpPos}, Val: f.Val})
			}
		} else if isString(x) && cv.ExactString() == `""` && (op == token.EQL || op == token.NEQ) {
			lenCall := &ast.CallExpr{Fun: &ast.Ident{Name: "len", NamePos: be.Pos()}, Args: []ast.Expr{x}, Lparen: be.Pos(), Rparen: be.End()}
			out = append(out, Fact{Expr: &ast.BinaryExpr{X: lenCall, Op: op, Y: zero, OpPos: be.OpPos}, Val: f.Val})
		}
	}
	return out
}

// Automaton is a finite-state forward analysis over the CFG.  States are
// small non-negative ints (< 64).  Node is called for every CFG node with
// every state that can reach it and returns the state after it; returning a
// negative value kills the path.  Edge (optional) refines the state on a
// conditional edge; returning ok=false kills the path (infeasible).
type Automaton struct {
	Init int
	Node func(state int, n ast.Node) int
	Edge func(state int, facts []Fact) (int, bool)
	// Block (optional) is called when a block is entered, before its nodes (loop heads and bodies are recognised by
	// Block.Kind and Block.Stmt); a negative value kills the path.
	Block func(state int, b *cfg.Block) int
	// AtEnd makes Run present a synthetic, result-less *ast.ReturnStmt (Flow.End, positioned at the closing brace) to
	// Node where control falls off the end of the body, so that rules about "every exit" see that exit too.
	AtEnd bool
	// valsTracked: the automaton is already a TrackVals product.
	valsTracked bool
}

// StateSet is a set of automaton states (small non-negative ints; it grows as needed up to MaxState).
type StateSet struct {
	bits []uint64
	// big holds the states at and above denseStates (product automata): sparse.
	big map[int]struct{}
}

// MaxState bounds automaton states: a product automaton that exceeds it is a programming error.
const MaxState = 1 << 28

const denseStates = 1 << 14

func (s *StateSet) add(i int) bool {
	if i < 0 || i >= MaxState {
		panic("automaton state out of range")
	}
	if i >= denseStates {
		if _, ok := s.big[i]; ok {
			return false
		}
		if s.big == nil {
			s.big = map[int]struct{}{}
		}
		s.big[i] = struct{}{}
		return true
	}
	w, b := i/64, uint(i%64)
	for len(s.bits) <= w {
		s.bits = append(s.bits, 0)
	}
	if s.bits[w]&(1<<b) != 0 {
		return false
	}
	s.bits[w] |= 1 << b
	return true
}

// Has reports membership.
func (s *StateSet) Has(i int) bool {
	if i >= denseStates {
		_, ok := s.big[i]
		return ok
	}
	return i >= 0 && i/64 < len(s.bits) && s.bits[i/64]&(1<<uint(i%64)) != 0
}

func (s *StateSet) each(fn func(int)) {
	for w, word := range s.bits {
		for b := 0; word != 0; b, word = b+1, word>>1 {
			if word&1 != 0 {
				fn(w*64 + b)
			}
		}
	}
	if len(s.big) > 0 {
		keys := make([]int, 0, len(s.big))
		for k := range s.big {
			keys = append(keys, k)
		}
		sort.Ints(keys)
		for _, k := range keys {
			fn(k)
		}
	}
}

// Run iterates the automaton to a fixed point.  It returns, per block, the
// set of states at block entry.
func (f *Flow) Run(a *Automaton) map[*cfg.Block]*StateSet {
	in := map[*cfg.Block]*StateSet{}
	if len(f.G.Blocks) == 0 {
		return in
	}
	if f.Info != nil && f.Body != nil && !a.valsTracked {
		// every path property is decided over the feasible paths only: see TrackVals
		a = TrackVals(f.Info, f.Body, a)
	}
	entry := f.G.Blocks[0]
	in[entry] = &StateSet{}
	in[entry].add(a.Init)
	work := []*cfg.Block{entry}
	inWork := map[*cfg.Block]bool{entry: true}
	for len(work) > 0 {
		b := work[0]
		work = work[1:]
		inWork[b] = false
		var outStates []int
		in[b].each(func(s int) {
			cur := s
			if a.Block != nil {
				if cur = a.Block(cur, b); cur < 0 {
					return
				}
			}
			for _, n := range b.Nodes {
				if r, ok := n.(*ast.ReturnStmt); ok && f.Inlined[r] {
					// the end of a spliced-in helper, not of the analysed function: only its expressions are evaluated
					for _, e := range r.Results {
						cur = a.Node(cur, e)
						if cur < 0 {
							break
						}
					}
					if cur < 0 {
						break
					}
					continue
				}
				cur = a.Node(cur, n)
				if cur < 0 {
					break
				}
			}
			if cur >= 0 && a.AtEnd && f.End != nil && f.fallsOffEnd(b) {
				cur = a.Node(cur, f.End)
			}
			if cur >= 0 {
				outStates = append(outStates, cur)
			}
		})
		for i, succ := range b.Succs {
			var facts []Fact
			if a.Edge != nil {
				facts = f.EdgeFacts(b, i)
			}
			if in[succ] == nil {
				in[succ] = &StateSet{}
			}
			changed := false
			for _, s := range outStates {
				ns := s
				if a.Edge != nil && len(facts) > 0 {
					var ok bool
					ns, ok = a.Edge(s, facts)
					if !ok {
						continue
					}
				}
				if in[succ].add(ns) {
					changed = true
				}
			}
			if changed && !inWork[succ] {
				work = append(work, succ)
				inWork[succ] = true
			}
		}
	}
	return in
}

// Callee resolves the static callee of a call (function, method — possibly an
// interface method — or nil for dynamic calls and conversions).
func Callee(info *types.Info, call *ast.CallExpr) *types.Func {
	f, _ := typeutil.Callee(info, call).(*types.Func)
	return f
}

// RecvNamed returns the named type of a method's receiver (pointer stripped).
func RecvNamed(f *types.Func) *types.Named {
	if f == nil {
		return nil
	}
	sig, _ := f.Type().(*types.Signature)
	if sig == nil || sig.Recv() == nil {
		return nil
	}
	t := sig.Recv().Type()
	if p, ok := t.(*types.Pointer); ok {
		t = p.Elem()
	}
	n, _ := t.(*types.Named)
	return n
}

// IsFunc reports whether f is the package-level function pkgPath.name.
func IsFunc(f *types.Func, pkgPath, name string) bool {
	if f == nil || f.Pkg() == nil || OldName(f) != name || f.Pkg().Path() != pkgPath {
		return false
	}
	sig, _ := f.Type().(*types.Signature)
	return sig != nil && sig.Recv() == nil
}

// IsMethod reports whether f is method name on the named type pkgPath.typ
// (typ == "" matches any receiver type of that package; pkgPath == "" any package).
func IsMethod(f *types.Func, pkgPath, typ, name string) bool {
	if f == nil || OldName(f) != name {
		return false
	}
	n := RecvNamed(f)
	if n == nil {
		// interface method: receiver is the interface type itself
		sig, _ := f.Type().(*types.Signature)
		if sig == nil || sig.Recv() == nil {
			return false
		}
		if f.Pkg() == nil {
			return false
		}
		if pkgPath != "" && f.Pkg().Path() != pkgPath {
			return false
		}
		return typ == ""
	}
	if n.Obj().Pkg() == nil {
		return false
	}
	if pkgPath != "" && n.Obj().Pkg().Path() != pkgPath {
		return false
	}
	return typ == "" || NameOf(n.Obj()) == typ
}

// WalkNoFuncLit visits the nodes below n without entering function literals.
func WalkNoFuncLit(n ast.Node, fn func(ast.Node) bool) {
	ast.Inspect(n, func(x ast.Node) bool {
		if x == nil {
			return false
		}
		if _, ok := x.(*ast.FuncLit); ok && x != n {
			return false
		}
		return fn(x)
	})
}

// CallsIn lists the calls inside a CFG node in evaluation (post) order,
// without entering function literals.
func CallsIn(n ast.Node) []*ast.CallExpr {
	var out []*ast.CallExpr
	var stack []ast.Node
	ast.Inspect(n, func(x ast.Node) bool {
		if x == nil {
			top := stack[len(stack)-1]
			stack = stack[:len(stack)-1]
			if c, ok := top.(*ast.CallExpr); ok {
				out = append(out, c)
			}
			return false
		}
		if _, ok := x.(*ast.FuncLit); ok && x != n {
			return false
		}
		stack = append(stack, x)
		return true
	})
	return out
}

// ConstOf returns the constant value of an expression, if any.
func ConstOf(info *types.Info, e ast.Expr) constant.Value {
	if tv, ok := info.Types[e]; ok && tv.Value != nil {
		return tv.Value
	}
	return nil
}

// ObjOf returns the object an identifier or selector denotes.
func ObjOf(info *types.Info, e ast.Expr) types.Object {
	switch x := unparen(e).(type) {
	case *ast.Ident:
		if o := info.Uses[x]; o != nil {
			return o
		}
		return info.Defs[x]
	case *ast.SelectorExpr:
		if s, ok := info.Selections[x]; ok {
			return s.Obj()
		}
		return info.Uses[x.Sel]
	}
	return nil
}

// SameExpr reports structural equality of two side-effect-free expressions
// with identifiers compared by object.
func SameExpr(info *types.Info, a, b ast.Expr) bool {
	a, b = unparen(a), unparen(b)
	switch x := a.(type) {
	case *ast.Ident:
		y, ok := b.(*ast.Ident)
		if !ok {
			return false
		}
		ox, oy := ObjOf(info, x), ObjOf(info, y)
		if ox == nil || oy == nil {
			return x.Name == y.Name
		}
		return ox == oy
	case *ast.SelectorExpr:
		y, ok := b.(*ast.SelectorExpr)
		return ok && x.Sel.Name == y.Sel.Name && ObjOf(info, x) == ObjOf(info, y) && SameExpr(info, x.X, y.X)
	case *ast.StarExpr:
		y, ok := b.(*ast.StarExpr)
		return ok && SameExpr(info, x.X, y.X)
	case *ast.UnaryExpr:
		y, ok := b.(*ast.UnaryExpr)
		return ok && x.Op == y.Op && SameExpr(info, x.X, y.X)
	case *ast.BinaryExpr:
		y, ok := b.(*ast.BinaryExpr)
		return ok && x.Op == y.Op && SameExpr(info, x.X, y.X) && SameExpr(info, x.Y, y.Y)
	case *ast.IndexExpr:
		y, ok := b.(*ast.IndexExpr)
		return ok && SameExpr(info, x.X, y.X) && SameExpr(info, x.Index, y.Index)
	case *ast.BasicLit:
		y, ok := b.(*ast.BasicLit)
		return ok && x.Kind == y.Kind && x.Value == y.Value
	case *ast.CallExpr:
		y, ok := b.(*ast.CallExpr)
		if !ok || len(x.Args) != len(y.Args) || !SameExpr(info, x.Fun, y.Fun) {
			return false
		}
		for i := range x.Args {
			if !SameExpr(info, x.Args[i], y.Args[i]) {
				return false
			}
		}
		return true
	}
	return false
}

// IsNil reports whether e is the predeclared nil.
func IsNil(info *types.Info, e ast.Expr) bool {
	id, ok := unparen(e).(*ast.Ident)
	if !ok {
		return false
	}
	_, isNil := info.Uses[id].(*types.Nil)
	return isNil
}

// NilTest recognises `x != nil` / `x == nil` (either operand order) inside a
// fact and returns x and whether the fact establishes x != nil.
func NilTest(info *types.Info, f Fact) (x ast.Expr, nonNil bool, ok bool) {
	be, isBin := unparen(f.Expr).(*ast.BinaryExpr)
	if !isBin || (be.Op != token.NEQ && be.Op != token.EQL) {
		return nil, false, false
	}
	var other ast.Expr
	switch {
	case IsNil(info, be.Y):
		other = be.X
	case IsNil(info, be.X):
		other = be.Y
	default:
		return nil, false, false
	}
	nonNil = (be.Op == token.NEQ) == f.Val
	return other, nonNil, true
}

// AssignedObjs lists the objects (variables) assigned or defined by node n
// (AssignStmt, IncDec, range key/value, ValueSpec), not entering FuncLits.
func AssignedObjs(info *types.Info, n ast.Node) []types.Object {
	var out []types.Object
	add := func(e ast.Expr) {
		if id, ok := unparen(e).(*ast.Ident); ok {
			if o := ObjOf(info, id); o != nil {
				out = append(out, o)
			}
		}
	}
	switch s := n.(type) {
	case *ast.AssignStmt:
		for _, l := range s.Lhs {
			add(l)
		}
	case *ast.IncDecStmt:
		add(s.X)
	case *ast.ValueSpec:
		for _, id := range s.Names {
			add(id)
		}
	case *ast.DeclStmt:
		if gd, ok := s.Decl.(*ast.GenDecl); ok {
			for _, sp := range gd.Specs {
				if vs, ok := sp.(*ast.ValueSpec); ok {
					for _, id := range vs.Names {
						add(id)
					}
				}
			}
		}
	}
	return out
}

// ReturnsIn lists every return statement of a body (not entering FuncLits).
func ReturnsIn(body ast.Node) []*ast.ReturnStmt {
	var out []*ast.ReturnStmt
	WalkNoFuncLit(body, func(n ast.Node) bool {
		if r, ok := n.(*ast.ReturnStmt); ok {
			out = append(out, r)
		}
		return true
	})
	return out
}

// FuncLitsIn lists function literals directly inside n (not nested ones).
// AllFuncLits returns every function literal inside n, nested ones included.
func AllFuncLits(n ast.Node) []*ast.FuncLit {
	var out []*ast.FuncLit
	ast.Inspect(n, func(x ast.Node) bool {
		if fl, ok := x.(*ast.FuncLit); ok {
			out = append(out, fl)
		}
		return true
	})
	return out
}

func FuncLitsIn(n ast.Node) []*ast.FuncLit {
	var out []*ast.FuncLit
	ast.Inspect(n, func(x ast.Node) bool {
		if fl, ok := x.(*ast.FuncLit); ok {
			out = append(out, fl)
			return false
		}
		return true
	})
	return out
}

// LatticeOps describes a forward dataflow analysis with an arbitrary state.
type LatticeOps[S any] struct {
	Init  S
	Node  func(S, ast.Node) S
	Edge  func(S, []Fact) (S, bool)
	Join  func(a, b S) S
	Equal func(a, b S) bool
}

// RunLattice iterates to a fixed point and returns the state at the entry of
// every reached block.  The caller typically replays Node over the blocks with
// the final states to collect obligations.
func RunLattice[S any](f *Flow, ops LatticeOps[S]) map[*cfg.Block]S {
	in := map[*cfg.Block]S{}
	if len(f.G.Blocks) == 0 {
		return in
	}
	entry := f.G.Blocks[0]
	in[entry] = ops.Init
	work := []*cfg.Block{entry}
	inWork := map[*cfg.Block]bool{entry: true}
	iter := 0
	for len(work) > 0 {
		iter++
		if iter > 100000 {
			panic("RunLattice: no fixed point")
		}
		b := work[0]
		work = work[1:]
		inWork[b] = false
		cur := in[b]
		for _, n := range b.Nodes {
			cur = ops.Node(cur, n)
		}
		for i, succ := range b.Succs {
			s := cur
			if ops.Edge != nil {
				if facts := f.EdgeFacts(b, i); len(facts) > 0 {
					var ok bool
					s, ok = ops.Edge(cur, facts)
					if !ok {
						continue
					}
				}
			}
			old, seen := in[succ]
			var nw S
			if seen {
				nw = ops.Join(old, s)
				if ops.Equal(old, nw) {
					continue
				}
			} else {
				nw = s
			}
			in[succ] = nw
			if !inWork[succ] {
				work = append(work, succ)
				inWork[succ] = true
			}
		}
	}
	return in
}

// TrackNil wraps an automaton so that what is known about one variable being nil is part of every path's state: the
// assignments `v = nil`, `v = <error constructed here>` and `v = v` are followed, branch conditions on v refine it, and
// edges that contradict it are not taken.  Rules written over the inner states become insensitive to where a test is
// written (the same variable tested again after a join, a flag-like `err` threaded through an if / else) without
// changing them.  Inner states must stay below 85.
func TrackNil(info *types.Info, obj types.Object, a *Automaton) *Automaton {
	if obj == nil {
		return a
	}
	const (
		unknown = 0
		isNil   = 1
		nonNil  = 2
	)
	enc := func(inner, k int) int {
		if inner < 0 {
			return inner
		}
		return inner*3 + k
	}
	return &Automaton{
		Init: enc(a.Init, unknown),
		Node: func(st int, n ast.Node) int {
			inner, k := st/3, st%3
			inner = a.Node(inner, n)
			if inner < 0 {
				return inner
			}
			upd := func(lhs, rhs ast.Expr) {
				if ObjOf(info, lhs) != obj {
					return
				}
				switch {
				case rhs == nil:
					k = unknown
				case IsNil(info, rhs):
					k = isNil
				case NonNilErrorExpr(info, rhs):
					k = nonNil
				case ObjOf(info, rhs) == obj:
					// v = v
				default:
					k = unknown
				}
			}
			switch x := n.(type) {
			case *ast.AssignStmt:
				if len(x.Lhs) == len(x.Rhs) {
					for i := range x.Lhs {
						upd(x.Lhs[i], x.Rhs[i])
					}
				} else {
					for _, l := range x.Lhs {
						upd(l, nil)
					}
				}
			case *ast.ValueSpec:
				for i, nm := range x.Names {
					if info.Defs[nm] == obj {
						if i < len(x.Values) {
							upd(nm, x.Values[i])
						} else {
							k = isNil // var err error
						}
					}
				}
			case *ast.DeclStmt:
				if gd, ok := x.Decl.(*ast.GenDecl); ok {
					for _, sp := range gd.Specs {
						if vs, ok := sp.(*ast.ValueSpec); ok {
							for i, nm := range vs.Names {
								if info.Defs[nm] == obj {
									if i < len(vs.Values) {
										upd(nm, vs.Values[i])
									} else {
										k = isNil
									}
								}
							}
						}
					}
				}
			}
			return enc(inner, k)
		},
		Edge: func(st int, facts []Fact) (int, bool) {
			inner, k := st/3, st%3
			for _, f := range facts {
				if e, nn, ok := NilTest(info, f); ok && ObjOf(info, e) == obj {
					switch {
					case nn && k == isNil, !nn && k == nonNil:
						return st, false
					case nn:
						k = nonNil
					default:
						k = isNil
					}
				}
			}
			if a.Edge != nil {
				var ok bool
				inner, ok = a.Edge(inner, facts)
				if !ok {
					return st, false
				}
			}
			return enc(inner, k), true
		},
		AtEnd: a.AtEnd,
		Block: wrapBlock(a, enc),
	}
}

func wrapBlock(a *Automaton, enc func(inner, k int) int) func(int, *cfg.Block) int {
	if a.Block == nil {
		return nil
	}
	return func(st int, b *cfg.Block) int {
		inner := a.Block(st/3, b)
		if inner < 0 {
			return inner
		}
		return enc(inner, st%3)
	}
}

// TrackVals wraps an automaton so that it also follows, along every path, what is known about a few local variables
// that are only ever assigned simple values: booleans assigned true / false (or tested), pointers, interfaces, maps,
// slices and funcs assigned nil or a freshly built value (or tested against nil).  Edges whose condition contradicts
// what is known are infeasible.  This makes `ignore = true; …; if ignore { return }` equivalent to the early return it
// stands for.  Variables assigned inside function literals or whose address is taken are not tracked.
func TrackVals(info *types.Info, body ast.Node, a *Automaton) *Automaton {
	const (
		unknown = iota
		yes     // true / non-nil
		no      // false / nil
	)
	// candidates: locals with at least one assignment from a constant true/false or nil
	cand := map[types.Object]bool{}
	bad := map[types.Object]bool{}
	classify := func(rhs ast.Expr) int {
		switch {
		case rhs == nil:
			return unknown
		case IsNil(info, rhs):
			return no
		}
		if cv := ConstOf(info, rhs); cv != nil && cv.Kind() == constant.Bool {
			if constant.BoolVal(cv) {
				return yes
			}
			return no
		}
		switch x := unparen(rhs).(type) {
		case *ast.UnaryExpr:
			if _, ok := unparen(x.X).(*ast.CompositeLit); ok && x.Op == token.AND {
				return yes
			}
		case *ast.CallExpr:
			if b, ok := ObjOf(info, x.Fun).(*types.Builtin); ok && (b.Name() == "new" || b.Name() == "make") {
				return yes
			}
		case *ast.FuncLit:
			return yes
		}
		if NonNilErrorExpr(info, rhs) {
			return yes
		}
		return unknown
	}
	var walk func(n ast.Node, inLit bool)
	walk = func(n ast.Node, inLit bool) {
		ast.Inspect(n, func(x ast.Node) bool {
			switch y := x.(type) {
			case *ast.FuncLit:
				if !inLit {
					walk(y.Body, true)
					return false
				}
			case *ast.AssignStmt:
				for i, l := range y.Lhs {
					o := ObjOf(info, l)
					if _, isId := unparen(l).(*ast.Ident); !isId || o == nil {
						continue
					}
					if inLit {
						bad[o] = true
					}
					if len(y.Lhs) == len(y.Rhs) && classify(y.Rhs[i]) != unknown {
						cand[o] = true
					}
				}
			case *ast.UnaryExpr:
				if y.Op == token.AND {
					if o := ObjOf(info, y.X); o != nil {
						bad[o] = true
					}
				}
			case *ast.IncDecStmt:
				if o := ObjOf(info, y.X); o != nil {
					bad[o] = true
				}
			case *ast.RangeStmt:
				for _, e := range []ast.Expr{y.Key, y.Value} {
					if e != nil {
						if o := ObjOf(info, e); o != nil {
							bad[o] = true
						}
					}
				}
			}
			return true
		})
	}
	walk(body, false)
	// a variable copied into a candidate is followed as well: `if err := f(); err != nil { outer = err }` (what a spliced-in
	// helper's `return err` becomes) makes outer non-nil on that path
	for round := 0; round < 2; round++ {
		ast.Inspect(body, func(x ast.Node) bool {
			if _, isLit := x.(*ast.FuncLit); isLit {
				return false
			}
			as, ok := x.(*ast.AssignStmt)
			if !ok || len(as.Lhs) != len(as.Rhs) {
				return true
			}
			for i, l := range as.Lhs {
				lo := ObjOf(info, l)
				if _, isId := unparen(l).(*ast.Ident); !isId || lo == nil || !cand[lo] {
					continue
				}
				if rid, isId := unparen(as.Rhs[i]).(*ast.Ident); isId {
					if ro, ok := ObjOf(info, rid).(*types.Var); ok && !ro.IsField() && ro.Pkg() != nil && ro.Parent() != ro.Pkg().Scope() && !IsNil(info, rid) {
						cand[ro] = true
					}
				}
			}
			return true
		})
	}
	var objs []types.Object
	for o := range cand {
		if v, ok := o.(*types.Var); ok && !bad[o] && !v.IsField() {
			objs = append(objs, o)
		}
	}
	sort.Slice(objs, func(i, j int) bool { return ObjPos(objs[i]) < ObjPos(objs[j]) })
	if len(objs) > 6 {
		objs = objs[:6]
	}
	if len(objs) == 0 {
		return a
	}
	if os.Getenv("VERIF_DEBUG_TRACKVALS") != "" {
		for _, o := range objs {
			fmt.Fprintf(os.Stderr, "TrackVals: %s at %v\n", o.Name(), ObjPos(o))
		}
	}
	idx := map[types.Object]int{}
	pow := 1
	for i, o := range objs {
		idx[o] = i
		pow *= 3
	}
	get := func(v, i int) int {
		for ; i > 0; i-- {
			v /= 3
		}
		return v % 3
	}
	set := func(v, i, k int) int {
		m := 1
		for j := 0; j < i; j++ {
			m *= 3
		}
		return v - get(v, i)*m + k*m
	}
	zero := func(o types.Object) int {
		switch u := o.Type().Underlying().(type) {
		case *types.Basic:
			if u.Info()&types.IsBoolean != 0 {
				return no
			}
			return unknown
		case *types.Pointer, *types.Interface, *types.Map, *types.Slice, *types.Signature, *types.Chan:
			return no
		}
		return unknown
	}
	assign := func(v int, lhs, rhs ast.Expr) int {
		o := ObjOf(info, lhs)
		i, tracked := idx[o]
		if _, isId := unparen(lhs).(*ast.Ident); !isId || !tracked {
			return v
		}
		if rhs != nil && ObjOf(info, rhs) == o {
			return v
		}
		if rhs != nil {
			if j, ok := idx[ObjOf(info, rhs)]; ok {
				if _, isId := unparen(rhs).(*ast.Ident); isId {
					return set(v, i, get(v, j))
				}
			}
		}
		return set(v, i, classify(rhs))
	}
	return &Automaton{
		valsTracked: true,

		Init:  a.Init * pow,
		AtEnd: a.AtEnd,
		Block: func() func(int, *cfg.Block) int {
			if a.Block == nil {
				return nil
			}
			return func(st int, b *cfg.Block) int {
				inner := a.Block(st/pow, b)
				if inner < 0 {
					return inner
				}
				return inner*pow + st%pow
			}
		}(),
		Node: func(st int, n ast.Node) int {
			inner, v := st/pow, st%pow
			inner = a.Node(inner, n)
			if inner < 0 {
				return inner
			}
			switch x := n.(type) {
			case *ast.AssignStmt:
				if len(x.Lhs) == len(x.Rhs) {
					// right-hand sides are evaluated before any assignment
					nv := v
					for i := range x.Lhs {
						o := ObjOf(info, x.Lhs[i])
						if k, tracked := idx[o]; tracked {
							if _, isId := unparen(x.Lhs[i]).(*ast.Ident); isId {
								val := unknown
								if j, ok := idx[ObjOf(info, x.Rhs[i])]; ok {
									if _, isId := unparen(x.Rhs[i]).(*ast.Ident); isId {
										val = get(v, j)
									}
								} else {
									val = classify(x.Rhs[i])
								}
								nv = set(nv, k, val)
							}
						}
					}
					v = nv
				} else {
					for _, l := range x.Lhs {
						v = assign(v, l, nil)
					}
				}
			case *ast.DeclStmt:
				if gd, ok := x.Decl.(*ast.GenDecl); ok {
					for _, sp := range gd.Specs {
						vs, ok := sp.(*ast.ValueSpec)
						if !ok {
							continue
						}
						for i, nm := range vs.Names {
							if k, tracked := idx[info.Defs[nm]]; tracked {
								if i < len(vs.Values) && len(vs.Values) == len(vs.Names) {
									v = set(v, k, classify(vs.Values[i]))
								} else if len(vs.Values) == 0 {
									v = set(v, k, zero(info.Defs[nm]))
								} else {
									v = set(v, k, unknown)
								}
							}
						}
					}
				}
			}
			return inner*pow + v
		},
		Edge: func(st int, facts []Fact) (int, bool) {
			inner, v := st/pow, st%pow
			for _, f := range facts {
				if f.Tag != nil {
					continue
				}
				if id, ok := unparen(f.Expr).(*ast.Ident); ok {
					if k, tracked := idx[ObjOf(info, id)]; tracked {
						want := no
						if f.Val {
							want = yes
						}
						if cur := get(v, k); cur != unknown && cur != want {
							return st, false
						}
						v = set(v, k, want)
					}
				}
				if e, nonNil, ok := NilTest(info, f); ok {
					if k, tracked := idx[ObjOf(info, e)]; tracked {
						if _, isId := unparen(e).(*ast.Ident); isId {
							want := no
							if nonNil {
								want = yes
							}
							if cur := get(v, k); cur != unknown && cur != want {
								return st, false
							}
							v = set(v, k, want)
						}
					}
				}
			}
			if a.Edge != nil {
				var ok bool
				inner, ok = a.Edge(inner, facts)
				if !ok {
					return st, false
				}
			}
			return inner*pow + v, true
		},
	}
}

// MainErrorVar returns the error-typed variable of fd that is tested against nil most often (ties: the named result).
func MainErrorVar(info *types.Info, fd *ast.FuncDecl) types.Object {
	count := map[types.Object]int{}
	ast.Inspect(fd.Body, func(n ast.Node) bool {
		var cond ast.Expr
		switch x := n.(type) {
		case *ast.IfStmt:
			cond = x.Cond
		case *ast.CaseClause:
			for _, e := range x.List {
				for _, f := range Decompose(e, true, nil) {
					if v, _, ok := NilTest(info, f); ok {
						if o := ObjOf(info, v); o != nil && IsErrorType(o.Type()) {
							count[o]++
						}
					}
				}
			}
		case *ast.SwitchStmt:
			if x.Tag != nil {
				if o := ObjOf(info, x.Tag); o != nil && IsErrorType(o.Type()) {
					count[o]++
				}
			}
		}
		if cond != nil {
			for _, f := range append(Decompose(cond, true, nil), Decompose(cond, false, nil)...) {
				if v, _, ok := NilTest(info, f); ok {
					if o := ObjOf(info, v); o != nil && IsErrorType(o.Type()) {
						count[o]++
					}
				}
			}
		}
		return true
	})
	var best types.Object
	for o, n := range count {
		if best == nil || n > count[best] || (n == count[best] && o.Pos() < best.Pos()) {
			best = o
		}
	}
	return best
}

// EnumLocals returns the local variables of body (nested literals excluded) that are only ever assigned constants, at
// least twice with different values: flags and small result codes (`sep = sepClose`) that a later switch or comparison
// reads.  Sorted by position.
func EnumLocals(info *types.Info, body ast.Node) []types.Object {
	vals := map[types.Object]map[string]bool{}
	bad := map[types.Object]bool{}
	note := func(lhs ast.Expr, rhs ast.Expr) {
		id, ok := unparen(lhs).(*ast.Ident)
		if !ok {
			return
		}
		v, ok := ObjOf(info, id).(*types.Var)
		if !ok || v.IsField() || v.Pkg() == nil || v.Parent() == v.Pkg().Scope() {
			return
		}
		if rhs == nil {
			bad[v] = true
			return
		}
		tv, ok := info.Types[rhs]
		if !ok || tv.Value == nil {
			bad[v] = true
			return
		}
		if vals[v] == nil {
			vals[v] = map[string]bool{}
		}
		vals[v][tv.Value.ExactString()] = true
	}
	WalkNoFuncLit(body, func(n ast.Node) bool {
		switch x := n.(type) {
		case *ast.AssignStmt:
			for i, l := range x.Lhs {
				if len(x.Lhs) == len(x.Rhs) {
					note(l, x.Rhs[i])
				} else {
					note(l, nil)
				}
			}
		case *ast.IncDecStmt:
			note(x.X, nil)
		case *ast.RangeStmt:
			if x.Key != nil {
				note(x.Key, nil)
			}
			if x.Value != nil {
				note(x.Value, nil)
			}
		case *ast.UnaryExpr:
			if x.Op == token.AND {
				note(x.X, nil) // address taken: written elsewhere
			}
		}
		return true
	})
	var out []types.Object
	for v, s := range vals {
		if !bad[v] && len(s) >= 2 && len(s) <= 7 {
			out = append(out, v)
		}
	}
	sort.Slice(out, func(i, j int) bool { return out[i].Pos() < out[j].Pos() })
	return out
}

// TrackEnum wraps an automaton so that the constant last assigned to obj (one of EnumLocals) is part of every path's
// state: comparisons and switch cases on obj refine it, and edges that contradict it are not taken.
func TrackEnum(info *types.Info, obj types.Object, a *Automaton) *Automaton {
	if obj == nil {
		return a
	}
	const base = 9
	index := map[string]int{}
	idx := func(e ast.Expr) int {
		tv, ok := info.Types[e]
		if !ok || tv.Value == nil {
			return 0
		}
		s := tv.Value.ExactString()
		if index[s] == 0 {
			if len(index) >= base-2 {
				return 0
			}
			index[s] = len(index) + 1
		}
		return index[s]
	}
	enc := func(inner, k int) int {
		if inner < 0 {
			return inner
		}
		return inner*base + k
	}
	return &Automaton{
		Init: enc(a.Init, 0),
		Node: func(st int, n ast.Node) int {
			inner, k := st/base, st%base
			inner = a.Node(inner, n)
			if inner < 0 {
				return inner
			}
			switch x := n.(type) {
			case *ast.AssignStmt:
				for i, l := range x.Lhs {
					if ObjOf(info, l) == obj {
						k = 0
						if len(x.Lhs) == len(x.Rhs) {
							k = idx(x.Rhs[i])
						}
					}
				}
			case *ast.DeclStmt:
				if gd, ok := x.Decl.(*ast.GenDecl); ok {
					for _, sp := range gd.Specs {
						if vs, ok := sp.(*ast.ValueSpec); ok {
							for i, nm := range vs.Names {
								if info.Defs[nm] == obj {
									k = 0
									if i < len(vs.Values) {
										k = idx(vs.Values[i])
									}
								}
							}
						}
					}
				}
			}
			return enc(inner, k)
		},
		Edge: func(st int, facts []Fact) (int, bool) {
			inner, k := st/base, st%base
			for _, f := range facts {
				be, ok := unparen(f.Expr).(*ast.BinaryExpr)
				if !ok || (be.Op != token.EQL && be.Op != token.NEQ) {
					continue
				}
				var other ast.Expr
				switch {
				case ObjOf(info, be.X) == obj:
					other = be.Y
				case ObjOf(info, be.Y) == obj:
					other = be.X
				default:
					continue
				}
				j := idx(other)
				if j == 0 {
					continue
				}
				equal := (be.Op == token.EQL) == f.Val
				switch {
				case k != 0 && equal && k != j, k != 0 && !equal && k == j:
					return st, false
				case k == 0 && equal:
					k = j
				}
			}
			if a.Edge != nil {
				var ok bool
				inner, ok = a.Edge(inner, facts)
				if !ok {
					return st, false
				}
			}
			return enc(inner, k), true
		},
		AtEnd: a.AtEnd,
		Block: func() func(int, *cfg.Block) int {
			if a.Block == nil {
				return nil
			}
			return func(st int, b *cfg.Block) int {
				inner := a.Block(st/base, b)
				if inner < 0 {
					return inner
				}
				return enc(inner, st%base)
			}
		}(),
	}
}
