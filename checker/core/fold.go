package core

import (
	"bufio"
	"go/ast"
	"go/printer"
	"go/token"
	"go/types"
	"os"
	"reflect"
	"sort"
	"strings"
	"sync"

	"golang.org/x/tools/go/ast/astutil"
	"golang.org/x/tools/go/packages"
)

// Helper folding.
//
// The rules were confirmed against the functions that exist in /repo today (KnownFuncs, written by
// `restlicheck -dump-funcs`).  A behaviour-preserving refactoring typically introduces NEW functions: a block extracted
// into a helper, a closure turned into a named function or method, a long function split in two.  Before any rule runs,
// every function that is not in the known list and is only used inside its own package is folded back into its users,
// on the loaded syntax trees (never on disk):
//
//   - a call in statement position (`h(x)`, `a, b := h(x)`, `return h(x)`) is replaced by a copy of h's body with the
//     parameters replaced by the arguments; `return`s of the copy become assignments to the call's targets (structured
//     return elimination; a return inside a loop makes the call unfoldable);
//   - a use of h as a value (`visit(h)`, `x.m` as a callback) is replaced by a function literal with h's body;
//   - h's declaration is dropped from the tree once nothing refers to it any more.
//
// Type information is carried over to the copies, so rules see the shape the code had before the refactoring and need
// no knowledge of it.  Functions that already exist today are never folded: rules name them as anchors.

// KnownFuncsFile is set by the command to /verif/checker/known_funcs.txt.
var KnownFuncsFile string

func loadKnownFuncs() map[string]bool {
	if KnownFuncsFile == "" {
		return nil
	}
	f, err := os.Open(KnownFuncsFile)
	if err != nil {
		return nil
	}
	defer f.Close()
	out := map[string]bool{}
	sc := bufio.NewScanner(f)
	for sc.Scan() {
		if l := strings.TrimSpace(sc.Text()); l != "" && !strings.HasPrefix(l, "#") {
			out[l] = true
		}
	}
	return out
}

// FuncKey is the line format of the known-functions file.
func FuncKey(module, rel string, fd *ast.FuncDecl) string {
	return module + "\t" + rel + "\t" + DeclName(fd)
}

// FoldNewHelpers performs helper folding on m (see above) and returns a description of what was folded.
func FoldNewHelpers(m *Module) []string {
	known := loadKnownFuncs()
	if known == nil {
		return nil
	}
	var log []string
	for _, p := range m.Roots {
		rel := m.Rel(p.PkgPath)
		fo := &folder{m: m, p: p, info: p.TypesInfo, fresh: map[*types.Func]*ast.FuncDecl{}}
		for _, file := range p.Syntax {
			if strings.HasSuffix(m.Fset.File(file.Pos()).Name(), "_test.go") {
				continue
			}
			for _, d := range file.Decls {
				fd, ok := d.(*ast.FuncDecl)
				if !ok || fd.Body == nil || known[FuncKey(m.Name, rel, fd)] {
					continue
				}
				if f, ok := p.TypesInfo.Defs[fd.Name].(*types.Func); ok {
					fo.fresh[f] = fd
				}
			}
		}
		if len(fo.fresh) == 0 {
			continue
		}
		// the SSA program and call graph are built from the trees as loaded: build them before any tree is changed
		m.CallGraph()
		// functions referenced from other packages are part of the API: leave them alone
		for _, q := range m.Roots {
			if q == p {
				continue
			}
			for id, o := range q.TypesInfo.Uses {
				_ = id
				if f, ok := o.(*types.Func); ok {
					delete(fo.fresh, f.Origin())
				}
			}
		}
		for round := 0; round < 4; round++ {
			if !fo.foldRound() {
				break
			}
		}
		for fd := range fo.touched {
			fo.renumber(fd)
		}
		// drop declarations nothing refers to any more
		for f, fd := range fo.fresh {
			if fo.references(f) == 0 && !fd.Name.IsExported() {
				for _, file := range p.Syntax {
					for i, d := range file.Decls {
						if d == ast.Decl(fd) {
							file.Decls = append(file.Decls[:i:i], file.Decls[i+1:]...)
							break
						}
					}
				}
				log = append(log, rel+"."+DeclName(fd)+" folded into its users")
			} else if fo.folded[f] > 0 {
				log = append(log, rel+"."+DeclName(fd)+" partly folded")
			}
		}
	}
	return log
}

type folder struct {
	m      *Module
	p      *packages.Package
	info   *types.Info
	fresh  map[*types.Func]*ast.FuncDecl
	folded map[*types.Func]int
	// prefix: for every copied node, the positions of the call sites it was spliced in at (outermost first): the key
	// of the inlined source order.  touched: functions that received a copy and whose positions are renumbered.
	prefix  map[ast.Node][]token.Pos
	touched map[*ast.FuncDecl]bool
}

func (fo *folder) references(f *types.Func) int {
	n := 0
	for _, file := range fo.p.Syntax {
		ast.Inspect(file, func(x ast.Node) bool {
			if id, ok := x.(*ast.Ident); ok {
				if u, ok := fo.info.Uses[id].(*types.Func); ok && u.Origin() == f {
					n++
				}
			}
			return true
		})
	}
	return n
}

func (fo *folder) freshCallee(call *ast.CallExpr) (*types.Func, *ast.FuncDecl) {
	f := Callee(fo.info, call)
	if f == nil {
		return nil, nil
	}
	fd := fo.fresh[f.Origin()]
	if fd == nil {
		return nil, nil
	}
	return f.Origin(), fd
}

func (fo *folder) recursive(f *types.Func, fd *ast.FuncDecl) bool {
	rec := false
	ast.Inspect(fd.Body, func(x ast.Node) bool {
		if id, ok := x.(*ast.Ident); ok {
			if u, ok := fo.info.Uses[id].(*types.Func); ok && u.Origin() == f {
				rec = true
			}
		}
		return !rec
	})
	return rec
}

func (fo *folder) foldRound() bool {
	if fo.folded == nil {
		fo.folded = map[*types.Func]int{}
	}
	changed := false
	for _, file := range fo.p.Syntax {
		if strings.HasSuffix(fo.m.Fset.File(file.Pos()).Name(), "_test.go") {
			continue
		}
		for _, d := range file.Decls {
			fd, ok := d.(*ast.FuncDecl)
			if !ok || fd.Body == nil {
				continue
			}
			if fo.foldBlock(fd.Body, fd) {
				changed = true
			}
		}
		// calls in expression position of helpers that are a single `return <expr>`: replaced by the expression
		astutil.Apply(file, func(c *astutil.Cursor) bool {
			call, ok := c.Node().(*ast.CallExpr)
			if !ok || call.Ellipsis.IsValid() {
				return true
			}
			f, hd := fo.freshCallee(call)
			if hd == nil || fo.recursive(f, hd) || len(hd.Body.List) != 1 {
				return true
			}
			ret, ok := hd.Body.List[0].(*ast.ReturnStmt)
			if !ok || len(ret.Results) != 1 {
				return true
			}
			if efd := enclosingDecl(file, call.Pos(), c); efd == hd || efd == nil {
				return true
			}
			cl := fo.newCloner(call)
			bindOK := true
			bind := func(param *ast.Ident, arg ast.Expr) {
				po := fo.info.Defs[param]
				if po == nil || param.Name == "_" {
					return
				}
				uses := 0
				ast.Inspect(ret, func(x ast.Node) bool {
					if id, ok := x.(*ast.Ident); ok && fo.info.Uses[id] == po {
						uses++
					}
					return true
				})
				if !pureExpr(arg) && uses > 1 {
					bindOK = false
				}
				cl.subst[po] = arg
			}
			if hd.Recv != nil && len(hd.Recv.List) == 1 && len(hd.Recv.List[0].Names) == 1 {
				sel, ok := unparen(call.Fun).(*ast.SelectorExpr)
				if !ok {
					return true
				}
				bind(hd.Recv.List[0].Names[0], sel.X)
			}
			k := 0
			if hd.Type.Params != nil {
				for _, fl := range hd.Type.Params.List {
					if _, variadic := fl.Type.(*ast.Ellipsis); variadic {
						return true
					}
					for _, nm := range fl.Names {
						if k >= len(call.Args) {
							return true
						}
						bind(nm, call.Args[k])
						k++
					}
					if len(fl.Names) == 0 {
						k++
					}
				}
			}
			if !bindOK || k != len(call.Args) {
				return true
			}
			e := cl.node(ret.Results[0]).(ast.Expr)
			pe := &ast.ParenExpr{X: e, Lparen: e.Pos(), Rparen: e.End()}
			if tv, ok := fo.info.Types[call]; ok {
				fo.info.Types[pe] = tv
			}
			fo.prefix[pe] = cl.prefix
			c.Replace(pe)
			fo.folded[f]++
			if efd := enclosingDecl(file, call.Pos(), c); efd != nil {
				fo.touch(efd)
			}
			changed = true
			return false
		}, nil)
		// value uses: h passed or stored as a function value
		astutil.Apply(file, func(c *astutil.Cursor) bool {
			var id *ast.Ident
			var recv ast.Expr
			switch e := c.Node().(type) {
			case *ast.Ident:
				id = e
			case *ast.SelectorExpr:
				if _, isPkg := fo.info.Uses[identOf(e.X)].(*types.PkgName); !isPkg {
					id, recv = e.Sel, e.X
				} else {
					return true
				}
			default:
				return true
			}
			u, ok := fo.info.Uses[id].(*types.Func)
			if !ok {
				return true
			}
			hd := fo.fresh[u.Origin()]
			if hd == nil || fo.recursive(u.Origin(), hd) {
				return true
			}
			// skip when this is the function operand of a call, or the Sel of a selector we handle at the selector level
			switch par := c.Parent().(type) {
			case *ast.CallExpr:
				if par.Fun == c.Node() {
					return true
				}
			case *ast.SelectorExpr:
				if par.Sel == c.Node() {
					return true
				}
			case *ast.FuncDecl:
				return true
			}
			if _, isSel := c.Node().(*ast.SelectorExpr); !isSel && hd.Recv != nil {
				return true // method expression T.m: leave
			}
			cl := fo.newCloner(c.Node())
			if hd.Recv != nil && recv != nil && len(hd.Recv.List) == 1 && len(hd.Recv.List[0].Names) == 1 {
				if !pureExpr(recv) {
					return true
				}
				cl.subst[fo.info.Defs[hd.Recv.List[0].Names[0]]] = recv
			}
			lit := &ast.FuncLit{Type: cl.node(hd.Type).(*ast.FuncType), Body: cl.node(hd.Body).(*ast.BlockStmt)}
			if tv, ok := fo.info.Types[c.Node().(ast.Expr)]; ok {
				fo.info.Types[lit] = tv
			}
			fo.prefix[lit] = cl.prefix
			c.Replace(lit)
			fo.folded[u.Origin()]++
			if efd := enclosingDecl(file, lit.Type.Pos(), c); efd != nil {
				fo.touch(efd)
			}
			changed = true
			return false
		}, nil)
	}
	return changed
}

func identOf(e ast.Expr) *ast.Ident {
	id, _ := unparen(e).(*ast.Ident)
	return id
}

// pureExpr: evaluating the expression (possibly several times) has no effect.
func pureExpr(e ast.Expr) bool {
	switch x := unparen(e).(type) {
	case *ast.Ident, *ast.BasicLit, *ast.FuncLit:
		return true
	case *ast.SelectorExpr:
		return pureExpr(x.X)
	case *ast.StarExpr:
		return pureExpr(x.X)
	case *ast.UnaryExpr:
		return x.Op != token.ARROW && pureExpr(x.X)
	case *ast.IndexExpr:
		return pureExpr(x.X) && pureExpr(x.Index)
	case *ast.CompositeLit:
		for _, el := range x.Elts {
			if kv, ok := el.(*ast.KeyValueExpr); ok {
				el = kv.Value
			}
			if !pureExpr(el) {
				return false
			}
		}
		return true
	case *ast.BinaryExpr:
		return pureExpr(x.X) && pureExpr(x.Y)
	case *ast.TypeAssertExpr:
		return false
	}
	return false
}

// foldBlock folds statement-position calls of fresh helpers in every statement list below n.
func (fo *folder) foldBlock(n ast.Node, within *ast.FuncDecl) bool {
	changed := false
	var lists func(n ast.Node)
	fix := func(list []ast.Stmt) []ast.Stmt {
		var out []ast.Stmt
		for _, s := range list {
			if repl, ok := fo.foldStmt(s, within); ok {
				out = append(out, repl...)
				changed = true
				continue
			}
			out = append(out, s)
		}
		return out
	}
	lists = func(n ast.Node) {
		ast.Inspect(n, func(x ast.Node) bool {
			switch b := x.(type) {
			case *ast.BlockStmt:
				b.List = fix(b.List)
			case *ast.CaseClause:
				b.Body = fix(b.Body)
			case *ast.CommClause:
				b.Body = fix(b.Body)
			}
			return true
		})
	}
	lists(n)
	return changed
}

func (fo *folder) foldStmt(s ast.Stmt, within *ast.FuncDecl) ([]ast.Stmt, bool) {
	var call *ast.CallExpr
	var targets []ast.Expr
	tok := token.ASSIGN
	tail := false
	retSlot := -1
	var retTemplate []ast.Expr
	switch x := s.(type) {
	case *ast.ExprStmt:
		call, _ = unparen(x.X).(*ast.CallExpr)
	case *ast.AssignStmt:
		if len(x.Rhs) == 1 {
			call, _ = unparen(x.Rhs[0]).(*ast.CallExpr)
			targets, tok = x.Lhs, x.Tok
		}
	case *ast.ReturnStmt:
		if len(x.Results) == 1 {
			call, _ = unparen(x.Results[0]).(*ast.CallExpr)
			tail = true
		} else {
			// `return a, h(x)`: exactly one result is a call of a fresh helper, the others are side-effect free
			for j, r := range x.Results {
				if c, ok := unparen(r).(*ast.CallExpr); ok {
					if _, hd := fo.freshCallee(c); hd != nil && call == nil {
						call, retSlot, retTemplate = c, j, x.Results
						continue
					}
				}
				if !pureExpr(r) {
					call = nil
					break
				}
			}
			if call != nil {
				tail = true
			}
		}
	}
	if call == nil || call.Ellipsis.IsValid() {
		return nil, false
	}
	f, hd := fo.freshCallee(call)
	if hd == nil || hd == within || fo.recursive(f, hd) {
		return nil, false
	}
	// defer / labelled statements in the helper change meaning when moved: leave such helpers alone
	bad := false
	ast.Inspect(hd.Body, func(x ast.Node) bool {
		switch x.(type) {
		case *ast.FuncLit:
			return false
		case *ast.DeferStmt, *ast.LabeledStmt:
			bad = true
		}
		return !bad
	})
	if bad {
		return nil, false
	}
	cl := fo.newCloner(s)
	var prologue []ast.Stmt
	bind := func(param *ast.Ident, arg ast.Expr) bool {
		po := fo.info.Defs[param]
		if po == nil || param.Name == "_" {
			return true
		}
		uses, assigned := 0, false
		ast.Inspect(hd.Body, func(x ast.Node) bool {
			switch y := x.(type) {
			case *ast.Ident:
				if fo.info.Uses[y] == po {
					uses++
				}
			case *ast.AssignStmt:
				for _, l := range y.Lhs {
					if id := identOf(l); id != nil && fo.info.Uses[id] == po {
						assigned = true
					}
				}
			case *ast.IncDecStmt:
				if id := identOf(y.X); id != nil && fo.info.Uses[id] == po {
					assigned = true
				}
			case *ast.UnaryExpr:
				if y.Op == token.AND {
					if id := identOf(y.X); id != nil && fo.info.Uses[id] == po {
						assigned = true
					}
				}
			}
			return true
		})
		if !assigned && (pureExpr(arg) || uses <= 1) {
			cl.subst[po] = arg
			return true
		}
		// param := arg
		prologue = append(prologue, &ast.AssignStmt{Lhs: []ast.Expr{param}, Tok: token.DEFINE, Rhs: []ast.Expr{arg}, TokPos: arg.Pos()})
		return true
	}
	if hd.Recv != nil && len(hd.Recv.List) == 1 && len(hd.Recv.List[0].Names) == 1 {
		sel, ok := unparen(call.Fun).(*ast.SelectorExpr)
		if !ok {
			return nil, false
		}
		bind(hd.Recv.List[0].Names[0], sel.X)
	}
	k := 0
	if hd.Type.Params != nil {
		for _, fl := range hd.Type.Params.List {
			if _, variadic := fl.Type.(*ast.Ellipsis); variadic {
				return nil, false
			}
			for _, nm := range fl.Names {
				if k >= len(call.Args) {
					return nil, false
				}
				bind(nm, call.Args[k])
				k++
			}
			if len(fl.Names) == 0 {
				k++
			}
		}
	}
	if k != len(call.Args) {
		return nil, false
	}
	body := cl.node(hd.Body).(*ast.BlockStmt)
	// named results of the helper become locals of the copy
	var named []ast.Expr
	var namedTypes []ast.Expr
	var namedOrig []types.Object
	if hd.Type.Results != nil {
		for _, fl := range hd.Type.Results.List {
			for _, nm := range fl.Names {
				named = append(named, cl.node(nm).(ast.Expr))
				namedTypes = append(namedTypes, cl.node(fl.Type).(ast.Expr))
				namedOrig = append(namedOrig, fo.info.Defs[nm])
			}
		}
	}
	stmts := body.List
	if !tail && tok == token.DEFINE && len(named) == len(targets) && len(named) > 0 {
		// `a, b := h()` with h's results named: the caller's new variables ARE h's result variables from now on
		// (one object each), so that a flag set inside the copy and tested after it is recognised as the same variable
		unified := true
		for _, t := range targets {
			if identOf(t) == nil {
				unified = false
			}
		}
		if unified {
			for i, t := range targets {
				tid := identOf(t)
				if tid.Name == "_" {
					continue
				}
				old := fo.info.Defs[tid]
				neu := ObjOf(fo.info, named[i])
				if old == nil || neu == nil {
					continue
				}
				ast.Inspect(within.Body, func(x ast.Node) bool {
					if id, ok := x.(*ast.Ident); ok && fo.info.Uses[id] == old {
						fo.info.Uses[id] = neu
					}
					return true
				})
				fo.info.Defs[tid] = neu
			}
			tok = token.ASSIGN
		}
	}
	if !tail && len(targets) > 0 {
		// `u, err := h()` (or `err = h()`) where every return of h yields the same local at a slot (`return nil, err` …
		// `return x, err`): the caller's variable and that local are one variable from now on
		slot := make([]map[types.Object]bool, len(targets))
		okSlots := true
		ast.Inspect(body, func(x ast.Node) bool {
			switch r := x.(type) {
			case *ast.FuncLit:
				return false
			case *ast.ReturnStmt:
				results := r.Results
				if len(results) == 0 && len(named) == len(targets) {
					results = named // bare return of named results
				}
				if len(results) != len(targets) {
					return true // a multi-valued call: says nothing about the slots
				}
				for j, e := range results {
					if slot[j] == nil {
						slot[j] = map[types.Object]bool{}
					}
					if id := identOf(e); id != nil && !IsNil(fo.info, e) {
						if v, ok := fo.info.Uses[id].(*types.Var); ok && !v.IsField() && v.Parent() != nil && v.Pkg() != nil && v.Parent() != v.Pkg().Scope() {
							slot[j][v] = true
							continue
						}
					}
					if ConstOf(fo.info, e) != nil || IsNil(fo.info, e) {
						continue // constants do not identify a variable
					}
					slot[j][nil] = true
				}
			}
			return true
		})
		_ = okSlots
		for j, t := range targets {
			tid := identOf(t)
			if tid == nil || tid.Name == "_" || len(slot[j]) != 1 {
				continue
			}
			var neu types.Object
			for o := range slot[j] {
				neu = o
			}
			if neu == nil {
				continue
			}
			if _, isParam := cl.subst[neu]; isParam {
				continue
			}
			if tok == token.DEFINE {
				old := fo.info.Defs[tid]
				if old == nil {
					continue
				}
				ast.Inspect(within.Body, func(x ast.Node) bool {
					if id, ok := x.(*ast.Ident); ok && fo.info.Uses[id] == old {
						fo.info.Uses[id] = neu
					}
					return true
				})
				fo.info.Defs[tid] = neu
			} else {
				// plain assignment to an existing variable of the caller: the copy's local becomes that variable
				callerObj := fo.info.Uses[tid]
				if callerObj == nil {
					continue
				}
				ast.Inspect(body, func(x ast.Node) bool {
					if id, ok := x.(*ast.Ident); ok {
						if fo.info.Uses[id] == neu {
							fo.info.Uses[id] = callerObj
						}
						if fo.info.Defs[id] == neu {
							fo.info.Defs[id] = callerObj
						}
					}
					return true
				})
				for k, nm := range named {
					if id := identOf(nm); id != nil && (fo.info.Defs[id] == neu || fo.info.Uses[id] == neu) {
						fo.info.Defs[id] = callerObj
						_ = k
					}
				}
			}
		}
	}
	if !tail {
		var ok bool
		stmts, ok = eliminateReturns(fo.info, stmts, targets, tok, named, cl)
		if !ok {
			return nil, false
		}
	} else if retSlot >= 0 {
		// every `return e` of the copy becomes `return a, e` (the caller's other results around it)
		okAll := true
		ast.Inspect(body, func(x ast.Node) bool {
			switch r := x.(type) {
			case *ast.FuncLit:
				return false
			case *ast.ReturnStmt:
				var val ast.Expr
				switch {
				case len(r.Results) == 1:
					val = r.Results[0]
				case len(r.Results) == 0 && len(named) == 1:
					val = named[0]
				default:
					okAll = false
					return false
				}
				res := make([]ast.Expr, len(retTemplate))
				for j, t := range retTemplate {
					if j == retSlot {
						res[j] = val
					} else {
						cl.depth++ // plain copy, no substitution: these live in the caller
						res[j] = cl.node(t).(ast.Expr)
						cl.depth--
					}
				}
				r.Results = res
			}
			return true
		})
		if !okAll {
			return nil, false
		}
	} else if len(named) > 0 {
		// bare returns of a helper with named results cannot simply become the caller's returns
		bare := false
		ast.Inspect(body, func(x ast.Node) bool {
			if r, ok := x.(*ast.ReturnStmt); ok && len(r.Results) == 0 {
				bare = true
			}
			return !bare
		})
		if bare {
			return nil, false
		}
	}
	// named results that were not identified with a variable of the caller are locals of the copy: declare them there
	for i, nm := range named {
		id := identOf(nm)
		if id == nil || id.Name == "_" || fo.info.Defs[id] != namedOrig[i] || namedOrig[i] == nil {
			continue
		}
		prologue = append(prologue, &ast.DeclStmt{Decl: &ast.GenDecl{Tok: token.VAR, TokPos: id.Pos(), Specs: []ast.Spec{&ast.ValueSpec{Names: []*ast.Ident{id}, Type: namedTypes[i]}}}})
	}
	fo.folded[f]++
	out := append(prologue, stmts...)
	// statements synthesised while eliminating returns belong to the copy as well
	for _, st := range out {
		ast.Inspect(st, func(x ast.Node) bool {
			if x != nil {
				if _, ok := fo.prefix[x]; !ok {
					fo.prefix[x] = cl.prefix
				}
			}
			return true
		})
	}
	fo.touch(within)
	return out, true
}

func (fo *folder) touch(fd *ast.FuncDecl) {
	if fo.touched == nil {
		fo.touched = map[*ast.FuncDecl]bool{}
	}
	fo.touched[fd] = true
}

func enclosingDecl(file *ast.File, _ token.Pos, c *astutil.Cursor) *ast.FuncDecl {
	// the cursor has no ancestor chain: find the declaration whose subtree contains the cursor's parent
	var found *ast.FuncDecl
	for _, d := range file.Decls {
		fd, ok := d.(*ast.FuncDecl)
		if !ok || fd.Body == nil {
			continue
		}
		ast.Inspect(fd, func(x ast.Node) bool {
			if x == c.Parent() {
				found = fd
			}
			return found == nil
		})
		if found != nil {
			break
		}
	}
	return found
}

// ObjPos gives the position of an object's declaration in the renumbered position space (see renumber); for objects
// outside folded functions it is o.Pos().
func ObjPos(o types.Object) token.Pos {
	if o == nil {
		return token.NoPos
	}
	if p, ok := objPos.Load(o); ok {
		return p.(token.Pos)
	}
	return o.Pos()
}

var objPos sync.Map

// renumber gives every position inside fd a fresh value in a synthetic file, in inlined source order (copies come where
// the call they replace stood), and registers the original file/line of each so that reports still point at real source.
func (fo *folder) renumber(fd *ast.FuncDecl) {
	type rec struct {
		field reflect.Value
		key   []token.Pos
	}
	var recs []rec
	posType := reflect.TypeOf(token.NoPos)
	ast.Inspect(fd, func(n ast.Node) bool {
		if n == nil {
			return false
		}
		rv := reflect.ValueOf(n)
		if rv.Kind() != reflect.Ptr || rv.IsNil() {
			return true
		}
		ev := rv.Elem()
		if ev.Kind() != reflect.Struct {
			return true
		}
		pre := fo.prefix[n]
		for i := 0; i < ev.NumField(); i++ {
			f := ev.Field(i)
			if f.Type() == posType && f.CanSet() && token.Pos(f.Int()).IsValid() {
				recs = append(recs, rec{f, append(append([]token.Pos{}, pre...), token.Pos(f.Int()))})
			}
		}
		return true
	})
	if len(recs) == 0 {
		return
	}
	less := func(a, b []token.Pos) bool {
		for i := 0; i < len(a) && i < len(b); i++ {
			if a[i] != b[i] {
				return a[i] < b[i]
			}
		}
		return len(a) < len(b)
	}
	sort.SliceStable(recs, func(i, j int) bool { return less(recs[i].key, recs[j].key) })
	origFile := fo.m.Fset.File(fd.Name.Pos())
	name := "folded.go"
	if origFile != nil {
		name = origFile.Name()
	}
	const step = 64
	file := fo.m.Fset.AddFile(name, -1, step*(len(recs)+2))
	same := func(a, b []token.Pos) bool { return !less(a, b) && !less(b, a) }
	idx := 0
	for i := range recs {
		if i > 0 && !same(recs[i].key, recs[i-1].key) {
			idx++
		}
		off := step * (idx + 1)
		orig := fo.m.Fset.Position(recs[i].key[len(recs[i].key)-1])
		if i == 0 || !same(recs[i].key, recs[i-1].key) {
			file.AddLineColumnInfo(off, orig.Filename, orig.Line, orig.Column)
		}
		recs[i].field.SetInt(int64(file.Pos(off)))
	}
	ast.Inspect(fd, func(n ast.Node) bool {
		if id, ok := n.(*ast.Ident); ok {
			if o := fo.info.Defs[id]; o != nil {
				if _, dup := objPos.Load(o); !dup {
					objPos.Store(o, id.NamePos)
				}
			}
		}
		return true
	})
}

// eliminateReturns rewrites a statement list whose returns end a spliced-in helper: `return a, b` becomes
// `targets = a, b`, and the statements that would run after a conditional return are moved (copied, when several
// branches fall through) into the branches that do not return.  ok is false when the shape cannot be expressed without
// jumps (a return inside a loop or select) or the copy would grow unreasonably.
func eliminateReturns(info *types.Info, list []ast.Stmt, targets []ast.Expr, tok token.Token, named []ast.Expr, cl *cloner) ([]ast.Stmt, bool) {
	budget := 600
	assign := func(r *ast.ReturnStmt) []ast.Stmt {
		res := r.Results
		if len(res) == 0 {
			res = named
		}
		if len(targets) == 0 || len(res) == 0 {
			// the values are dropped, but calls among them still run
			var out []ast.Stmt
			for _, e := range res {
				if _, isCall := unparen(e).(*ast.CallExpr); isCall {
					out = append(out, &ast.ExprStmt{X: e})
				}
			}
			return out
		}
		// drop `x = x` pairs (a named result returned into the variable it was unified with)
		if len(res) == len(targets) {
			var l, rr []ast.Expr
			for i := range res {
				if lo, ro := ObjOf(info, targets[i]), ObjOf(info, res[i]); lo != nil && lo == ro {
					continue
				}
				l, rr = append(l, targets[i]), append(rr, res[i])
			}
			if len(l) == 0 {
				return nil
			}
			return []ast.Stmt{&ast.AssignStmt{Lhs: l, Tok: tok, Rhs: rr, TokPos: r.Pos()}}
		}
		return []ast.Stmt{&ast.AssignStmt{Lhs: targets, Tok: tok, Rhs: res, TokPos: r.Pos()}}
	}
	hasReturn := func(n ast.Node) bool {
		found := false
		ast.Inspect(n, func(x ast.Node) bool {
			switch x.(type) {
			case *ast.FuncLit:
				return false
			case *ast.ReturnStmt:
				found = true
			}
			return !found
		})
		return found
	}
	used := map[ast.Stmt]bool{}
	// fresh returns the continuation, copied if it was already placed somewhere
	fresh := func(cont []ast.Stmt) []ast.Stmt {
		var out []ast.Stmt
		for _, s := range cont {
			if used[s] {
				cl.depth++
				c := cl.node(s).(ast.Stmt)
				cl.depth--
				out = append(out, c)
				budget -= 5
			} else {
				used[s] = true
				out = append(out, s)
			}
		}
		return out
	}
	var process func(list, cont []ast.Stmt) ([]ast.Stmt, bool)
	process = func(list, cont []ast.Stmt) ([]ast.Stmt, bool) {
		if budget <= 0 {
			return nil, false
		}
		var out []ast.Stmt
		for i, s := range list {
			budget--
			if !hasReturn(s) {
				out = append(out, s)
				continue
			}
			after := append(append([]ast.Stmt{}, list[i+1:]...), cont...)
			switch x := s.(type) {
			case *ast.ReturnStmt:
				return append(out, assign(x)...), true
			case *ast.BlockStmt:
				inner, ok := process(x.List, after)
				if !ok {
					return nil, false
				}
				return append(out, inner...), true
			case *ast.IfStmt:
				thenL, ok1 := process(x.Body.List, after)
				var elseStmts []ast.Stmt
				switch e := x.Else.(type) {
				case *ast.BlockStmt:
					elseStmts = e.List
				case *ast.IfStmt:
					elseStmts = []ast.Stmt{e}
				}
				elseL, ok2 := process(elseStmts, after)
				if !ok1 || !ok2 {
					return nil, false
				}
				n := &ast.IfStmt{If: x.If, Init: x.Init, Cond: x.Cond, Body: &ast.BlockStmt{Lbrace: x.Body.Lbrace, List: thenL, Rbrace: x.Body.Rbrace}}
				if len(elseL) > 0 {
					n.Else = &ast.BlockStmt{List: elseL}
				}
				return append(out, n), true
			case *ast.SwitchStmt, *ast.TypeSwitchStmt:
				var body *ast.BlockStmt
				if sw, ok := x.(*ast.SwitchStmt); ok {
					body = sw.Body
				} else {
					body = x.(*ast.TypeSwitchStmt).Body
				}
				hasDefault := false
				for _, c := range body.List {
					cc := c.(*ast.CaseClause)
					if cc.List == nil {
						hasDefault = true
					}
					for _, bs := range cc.Body {
						if br, ok := bs.(*ast.BranchStmt); ok && br.Tok == token.FALLTHROUGH {
							return nil, false
						}
					}
					nl, ok := process(cc.Body, after)
					if !ok {
						return nil, false
					}
					cc.Body = nl
				}
				if !hasDefault && len(after) > 0 {
					body.List = append(body.List, &ast.CaseClause{Case: body.Rbrace, Body: fresh(after)})
				}
				return append(out, s), true
			default:
				return nil, false // return inside a loop, select, …
			}
		}
		if len(cont) == 0 {
			return out, true
		}
		// the list fell through: what follows the enclosing statement runs next (and may itself return)
		more, ok := process(fresh(cont), nil)
		if !ok {
			return nil, false
		}
		return append(out, more...), true
	}
	out, ok := process(list, nil)
	return out, ok && budget > 0
}

// ---- cloning with type information ---------------------------------------------------

type cloner struct {
	info   *types.Info
	subst  map[types.Object]ast.Expr
	depth  int
	fo     *folder
	prefix []token.Pos
}

func (fo *folder) newCloner(at ast.Node) *cloner {
	if fo.prefix == nil {
		fo.prefix = map[ast.Node][]token.Pos{}
	}
	pre := append(append([]token.Pos{}, fo.prefix[at]...), at.Pos())
	return &cloner{info: fo.info, subst: map[types.Object]ast.Expr{}, fo: fo, prefix: pre}
}

var (
	nodeType         = reflect.TypeOf((*ast.Node)(nil)).Elem()
	commentGroupType = reflect.TypeOf((*ast.CommentGroup)(nil))
	objectType       = reflect.TypeOf((*ast.Object)(nil))
	scopeType        = reflect.TypeOf((*ast.Scope)(nil))
)

// node returns a deep copy of n with parameter uses replaced by (copies of) their arguments and the type information of
// every copied node recorded.
func (cl *cloner) node(n ast.Node) ast.Node {
	if n == nil || reflect.ValueOf(n).IsNil() {
		return n
	}
	if id, ok := n.(*ast.Ident); ok && cl.depth == 0 {
		if arg, ok := cl.subst[cl.info.Uses[id]]; ok && cl.info.Uses[id] != nil {
			// a copy of the argument, without further substitution (it lives in the caller's scope)
			cl.depth++
			c := cl.node(arg).(ast.Expr)
			cl.depth--
			// the copy stands where the parameter stood: rules order constructs by position
			ast.Inspect(c, func(x ast.Node) bool {
				switch y := x.(type) {
				case *ast.FuncLit, *ast.CompositeLit, *ast.CallExpr:
					return false
				case *ast.Ident:
					y.NamePos = id.Pos()
				case *ast.BasicLit:
					y.ValuePos = id.Pos()
				case *ast.StarExpr:
					y.Star = id.Pos()
				case *ast.UnaryExpr:
					y.OpPos = id.Pos()
				}
				return true
			})
			if _, simple := unparen(c).(*ast.Ident); !simple {
				if _, simple := unparen(c).(*ast.SelectorExpr); !simple {
					if _, simple := unparen(c).(*ast.BasicLit); !simple {
						if _, simple := unparen(c).(*ast.FuncLit); !simple {
							c = &ast.ParenExpr{X: c, Lparen: c.Pos(), Rparen: c.End()}
							if tv, ok := cl.info.Types[arg]; ok {
								cl.info.Types[c] = tv
							}
						}
					}
				}
			}
			return c
		}
	}
	rv := reflect.ValueOf(n).Elem()
	nv := reflect.New(rv.Type())
	for i := 0; i < rv.NumField(); i++ {
		nv.Elem().Field(i).Set(cl.value(rv.Field(i)))
	}
	out := nv.Interface().(ast.Node)
	cl.copyInfo(n, out)
	cl.fo.prefix[out] = cl.prefix
	return out
}

func (cl *cloner) value(v reflect.Value) reflect.Value {
	switch v.Kind() {
	case reflect.Interface:
		if v.IsNil() {
			return v
		}
		if n, ok := v.Interface().(ast.Node); ok {
			c := cl.node(n)
			out := reflect.New(v.Type()).Elem()
			out.Set(reflect.ValueOf(c))
			return out
		}
		return v
	case reflect.Ptr:
		if v.IsNil() {
			return v
		}
		switch v.Type() {
		case commentGroupType:
			return reflect.Zero(v.Type())
		case objectType, scopeType:
			return v
		}
		if n, ok := v.Interface().(ast.Node); ok {
			c := cl.node(n)
			cv := reflect.ValueOf(c)
			if cv.Type() != v.Type() {
				// a substituted identifier in a position that wants *ast.Ident (a declared name): keep the original
				return v
			}
			return cv
		}
		return v
	case reflect.Slice:
		if v.IsNil() {
			return v
		}
		out := reflect.MakeSlice(v.Type(), v.Len(), v.Len())
		for i := 0; i < v.Len(); i++ {
			out.Index(i).Set(cl.value(v.Index(i)))
		}
		return out
	}
	return v
}

func (cl *cloner) copyInfo(old, neu ast.Node) {
	info := cl.info
	if oe, ok := old.(ast.Expr); ok {
		if tv, ok := info.Types[oe]; ok {
			info.Types[neu.(ast.Expr)] = tv
		}
	}
	switch o := old.(type) {
	case *ast.Ident:
		n := neu.(*ast.Ident)
		if d, ok := info.Defs[o]; ok {
			info.Defs[n] = d
		}
		if u, ok := info.Uses[o]; ok {
			info.Uses[n] = u
		}
		if inst, ok := info.Instances[o]; ok {
			info.Instances[n] = inst
		}
	case *ast.SelectorExpr:
		if s, ok := info.Selections[o]; ok {
			info.Selections[neu.(*ast.SelectorExpr)] = s
		}
	}
	if im, ok := info.Implicits[old]; ok {
		info.Implicits[neu] = im
	}
}

// DebugPrintFunc prints the (possibly folded) syntax of a function (development aid, VERIF_PRINT=<pkgrel>.<DeclName>).
func DebugPrintFunc(m *Module) {
	want := os.Getenv("VERIF_PRINT")
	if want == "" {
		return
	}
	for _, p := range m.Roots {
		for _, f := range p.Syntax {
			for _, d := range f.Decls {
				if fd, ok := d.(*ast.FuncDecl); ok && m.Rel(p.PkgPath)+"."+DeclName(fd) == want {
					printer.Fprint(os.Stderr, token.NewFileSet(), fd)
					os.Stderr.WriteString("\n")
				}
			}
		}
	}
}
