package core

import (
	"bufio"
	"fmt"
	"go/ast"
	"go/constant"
	"go/printer"
	"go/token"
	"go/types"
	"golang.org/x/tools/go/types/typeutil"
	"os"
	"reflect"
	"sort"
	"strings"
	"sync"

	"golang.org/x/tools/go/ast/astutil"
	"golang.org/x/tools/go/packages"
)

// Helper folding.
//
// The rules were confirmed against the functions that exist in /repo today (KnownFuncs, written by
// `restlicheck -dump-funcs`).  A behaviour-preserving refactoring typically introduces NEW functions: a block extracted
// into a helper, a closure turned into a named function or method, a long function split in two.  Before any rule runs,
// every function that is not in the known list and is only used inside its own package is folded back into its users,
// on the loaded syntax trees (never on disk):
//
//   - a call in statement position (`h(x)`, `a, b := h(x)`, `return h(x)`) is replaced by a copy of h's body with the
//     parameters replaced by the arguments; `return`s of the copy become assignments to the call's targets (structured
//     return elimination; a return inside a loop makes the call unfoldable);
//   - a use of h as a value (`visit(h)`, `x.m` as a callback) is replaced by a function literal with h's body;
//   - h's declaration is dropped from the tree once nothing refers to it any more.
//
// Type information is carried over to the copies, so rules see the shape the code had before the refactoring and need
// no knowledge of it.  Functions that already exist today are never folded: rules name them as anchors.

// KnownFuncsFile is set by the command to /verif/checker/known_funcs.txt.
var KnownFuncsFile string

// knownFingerprints: key -> body fingerprint of the known function (or, for variables, the literals of its initialiser).
var knownFingerprints = map[string][]string{}

// loadKnownFuncs reads the known-functions file: key (module, package, declaration name) -> signature shape.
func loadKnownFuncs() map[string]string {
	// the two modules are loaded concurrently: the file is read once and the tables are read-only afterwards
	knownOnce.Do(func() { knownTable = readKnownFuncs() })
	return knownTable
}

var (
	knownOnce  sync.Once
	knownTable map[string]string
)

func readKnownFuncs() map[string]string {
	if KnownFuncsFile == "" {
		return nil
	}
	f, err := os.Open(KnownFuncsFile)
	if err != nil {
		return nil
	}
	defer f.Close()
	out := map[string]string{}
	sc := bufio.NewScanner(f)
	sc.Buffer(make([]byte, 1<<20), 1<<20)
	for sc.Scan() {
		l := strings.TrimRight(sc.Text(), " \r\n")
		if l == "" || strings.HasPrefix(l, "#") {
			continue
		}
		parts := strings.SplitN(l, "\t", 5)
		if len(parts) < 3 {
			continue
		}
		sig := ""
		if len(parts) >= 4 {
			sig = parts[3]
		}
		key := strings.Join(parts[:3], "\t")
		out[key] = sig
		if len(parts) == 5 && parts[4] != "" {
			knownFingerprints[key] = strings.Split(parts[4], "\x1f")
		}
	}
	return out
}

// FuncKey is the key of the known-functions file.
func FuncKey(module, rel string, fd *ast.FuncDecl) string {
	return module + "\t" + rel + "\t" + DeclName(fd)
}

// SigShape renders the parameter and result types of a function (no names), relative to its package: what a rename
// leaves unchanged.
func SigShape(f *types.Func) string {
	sig, _ := f.Type().(*types.Signature)
	if sig == nil {
		return ""
	}
	q := types.RelativeTo(f.Pkg())
	var b strings.Builder
	b.WriteString("(")
	for i := 0; i < sig.Params().Len(); i++ {
		if i > 0 {
			b.WriteString(", ")
		}
		if sig.Variadic() && i == sig.Params().Len()-1 {
			b.WriteString("...")
		}
		b.WriteString(types.TypeString(sig.Params().At(i).Type(), q))
	}
	b.WriteString(") (")
	for i := 0; i < sig.Results().Len(); i++ {
		if i > 0 {
			b.WriteString(", ")
		}
		b.WriteString(types.TypeString(sig.Results().At(i).Type(), q))
	}
	b.WriteString(")")
	return strings.Join(strings.Fields(b.String()), " ")
}

// NameOf is o.Name(), except that a function recognised as the renamed successor of a known function answers with the
// name the rules know it by.
func NameOf(o interface{ Name() string }) string {
	if f, ok := o.(*types.Func); ok {
		return OldName(f)
	}
	if obj, ok := o.(types.Object); ok && obj != nil {
		if v, ok := obj.(*types.Var); ok {
			obj = v.Origin()
		}
		if n, ok := renamedObjs.Load(obj); ok {
			return n.(string)
		}
	}
	return o.Name()
}

// VarInitLiterals returns the string and character literals of the initialiser of a package-level variable.
func VarInitLiterals(p *packages.Package, o types.Object) []string {
	var out []string
	for _, file := range p.Syntax {
		for _, d := range file.Decls {
			gd, ok := d.(*ast.GenDecl)
			if !ok || gd.Tok != token.VAR {
				continue
			}
			for _, sp := range gd.Specs {
				vs := sp.(*ast.ValueSpec)
				for i, nm := range vs.Names {
					if p.TypesInfo.Defs[nm] != o || i >= len(vs.Values) {
						continue
					}
					ast.Inspect(vs.Values[i], func(n ast.Node) bool {
						if bl, ok := n.(*ast.BasicLit); ok && (bl.Kind == token.STRING || bl.Kind == token.CHAR) && !strings.ContainsAny(bl.Value, "\n\t\x1f") {
							out = append(out, bl.Value)
						}
						return true
					})
				}
			}
		}
	}
	sort.Strings(out)
	return out
}

// TypeShape renders what a rename of a type leaves unchanged: the underlying type with struct field names dropped.
func TypeShape(tn *types.TypeName) string {
	q := types.RelativeTo(tn.Pkg())
	u := tn.Type().Underlying()
	if st, ok := u.(*types.Struct); ok {
		var parts []string
		for i := 0; i < st.NumFields(); i++ {
			parts = append(parts, types.TypeString(st.Field(i).Type(), q))
		}
		return "struct{" + strings.Join(parts, "; ") + "}"
	}
	if it, ok := u.(*types.Interface); ok {
		// method names dropped as well (a rename of the interface usually comes with renames of its methods): the sorted
		// signatures of the explicit methods and the embedded types
		var parts []string
		for i := 0; i < it.NumExplicitMethods(); i++ {
			parts = append(parts, SigShape(it.ExplicitMethod(i)))
		}
		for i := 0; i < it.NumEmbeddeds(); i++ {
			parts = append(parts, "embeds "+types.TypeString(it.EmbeddedType(i), q))
		}
		sort.Strings(parts)
		return "interface{" + strings.Join(parts, "; ") + "}"
	}
	return strings.Join(strings.Fields(types.TypeString(u, q)), " ")
}

// FuncFingerprint is what a rename, a change of signature or of receiver leaves (mostly) unchanged in a function: the
// functions of other modules it calls, the literals it mentions, and the shape of its control flow.
func FuncFingerprint(info *types.Info, modulePath string, fd *ast.FuncDecl) []string {
	if fd.Body == nil {
		return nil
	}
	var toks []string
	kinds := map[string]int{}
	ast.Inspect(fd.Body, func(n ast.Node) bool {
		switch x := n.(type) {
		case *ast.CallExpr:
			if f, _ := typeutil.Callee(info, x).(*types.Func); f != nil && f.Pkg() != nil {
				if !strings.HasPrefix(f.Pkg().Path(), modulePath) {
					name := f.Pkg().Path() + "." + f.Name()
					if r := RecvNamed(f); r != nil {
						name = f.Pkg().Path() + "." + r.Obj().Name() + "." + f.Name()
					}
					toks = append(toks, "c:"+name)
				} else {
					// functions of the module itself, by the name the rules know them by: they only tell tiny bodies apart
					// (fingerprintSimilarity ignores them, a rename of a callee must not make its callers look different)
					toks = append(toks, "m:"+OldName(f))
				}
			} else if id, ok := unparen(x.Fun).(*ast.Ident); ok {
				if _, isB := info.Uses[id].(*types.Builtin); isB {
					toks = append(toks, "b:"+id.Name)
				}
			}
		case *ast.BasicLit:
			if x.Value != "0" && x.Value != "1" && len(x.Value) < 80 && !strings.ContainsAny(x.Value, "\n\t\x1f") {
				toks = append(toks, "l:"+x.Value)
			}
		case *ast.IfStmt:
			kinds["if"]++
		case *ast.ForStmt, *ast.RangeStmt:
			kinds["loop"]++
		case *ast.SwitchStmt, *ast.TypeSwitchStmt:
			kinds["switch"]++
		case *ast.ReturnStmt:
			kinds["return"]++
		case *ast.DeferStmt:
			kinds["defer"]++
		case *ast.SelectorExpr:
			// selections of exported fields and methods of other modules' types
			if sel := info.Selections[x]; sel != nil && sel.Obj().Pkg() != nil && !strings.HasPrefix(sel.Obj().Pkg().Path(), modulePath) {
				toks = append(toks, "s:"+sel.Obj().Name())
			}
		}
		return true
	})
	for k, n := range kinds {
		// control-flow counts are coarse on purpose: a refactoring may add or remove one or two branches
		toks = append(toks, fmt.Sprintf("k:%s%d", k, (n+1)/2))
	}
	sort.Strings(toks)
	if len(toks) > 120 {
		toks = toks[:120]
	}
	return toks
}

// CallerTokens gives, for every function declared in p, the tokens "by:<DeclName>" of the functions of p that mention it
// (call it or use it as a value), in the spelling the rules know: who uses a function changes less under refactoring than
// its signature or its body.
func CallerTokens(p *packages.Package) map[*types.Func][]string {
	out := map[*types.Func]map[string]bool{}
	for _, file := range p.Syntax {
		for _, d := range file.Decls {
			fd, ok := d.(*ast.FuncDecl)
			if !ok || fd.Body == nil {
				continue
			}
			self, _ := p.TypesInfo.Defs[fd.Name].(*types.Func)
			name := DeclName(fd)
			ast.Inspect(fd.Body, func(x ast.Node) bool {
				if id, ok := x.(*ast.Ident); ok {
					if f, ok := p.TypesInfo.Uses[id].(*types.Func); ok && f.Pkg() == p.Types && f.Origin() != self {
						if out[f.Origin()] == nil {
							out[f.Origin()] = map[string]bool{}
						}
						out[f.Origin()]["by:"+name] = true
					}
				}
				return true
			})
		}
	}
	res := map[*types.Func][]string{}
	for f, set := range out {
		for t := range set {
			res[f] = append(res[f], t)
		}
		sort.Strings(res[f])
	}
	return res
}

func contextToken(t string) bool { return strings.HasPrefix(t, "m:") || strings.HasPrefix(t, "by:") }

// externalTokens counts the tokens of a fingerprint that do not name functions of the module itself.
func externalTokens(fp []string) int {
	n := 0
	for _, t := range fp {
		if !contextToken(t) {
			n++
		}
	}
	return n
}

// fingerprintSimilarity is the Jaccard index of two token multisets.
func fingerprintSimilarity(a, b []string) float64 {
	if len(a) == 0 || len(b) == 0 {
		return 0
	}
	ca := map[string]int{}
	na, nb := 0, 0
	for _, t := range a {
		if !contextToken(t) {
			ca[t]++
			na++
		}
	}
	inter := 0
	for _, t := range b {
		if contextToken(t) {
			continue
		}
		nb++
		if ca[t] > 0 {
			ca[t]--
			inter++
		}
	}
	if na == 0 || nb == 0 {
		return 0
	}
	return float64(inter) / float64(na+nb-inter)
}

// renamedFuncs maps a function that was recognised as the renamed successor of a known function to the old simple
// name (process-wide: *types.Func values are unique per load).  renamedObjs does the same for types and struct fields.
var renamedFuncs sync.Map
var renamedObjs sync.Map

// OldName returns the name under which the rules know f: its own, unless f is a recognised rename.
func OldName(f *types.Func) string {
	if f == nil {
		return ""
	}
	if v, ok := renamedFuncs.Load(f.Origin()); ok {
		return v.(string)
	}
	return f.Name()
}

// ExplicitReturns rewrites every bare `return` of a function (or function literal) with named results into the
// equivalent `return r1, r2, …`, on the loaded trees: rules then see what is returned without knowing about the
// spelling.
func ExplicitReturns(m *Module) {
	for _, p := range m.Roots {
		info := p.TypesInfo
		fix := func(ft *ast.FuncType, body *ast.BlockStmt) {
			if ft.Results == nil || body == nil {
				return
			}
			var names []*ast.Ident
			for _, f := range ft.Results.List {
				if len(f.Names) == 0 {
					return
				}
				names = append(names, f.Names...)
			}
			var walk func(n ast.Node)
			walk = func(n ast.Node) {
				ast.Inspect(n, func(x ast.Node) bool {
					switch y := x.(type) {
					case *ast.FuncLit:
						return false // handled on its own
					case *ast.ReturnStmt:
						if len(y.Results) == 0 {
							for _, nm := range names {
								o := info.Defs[nm]
								id := &ast.Ident{Name: nm.Name, NamePos: y.Return}
								if o != nil {
									info.Uses[id] = o
									tv := types.TypeAndValue{Type: o.Type()}
									// take the mode of an existing use of the variable, if any
									for use, uo := range info.Uses {
										if uo == o && use != id {
											if t, ok := info.Types[use]; ok {
												tv = t
												break
											}
										}
									}
									info.Types[id] = tv
								}
								y.Results = append(y.Results, id)
							}
						}
					}
					return true
				})
			}
			walk(body)
		}
		for _, file := range p.Syntax {
			ast.Inspect(file, func(n ast.Node) bool {
				switch x := n.(type) {
				case *ast.FuncDecl:
					fix(x.Type, x.Body)
				case *ast.FuncLit:
					fix(x.Type, x.Body)
				}
				return true
			})
		}
	}
}

// SimplifyTypeSwitches rewrites, on the loaded trees, every type switch that binds a variable and has exactly one
// single-type clause and a default clause
//
//	switch e := x.(type) { case T: A; default: B }
//
// into the comma-ok form it is equivalent to
//
//	if e, ok := x.(T); ok { A } else { e := x; B }
//
// (x a plain identifier, no `break` out of the switch): rules then see one spelling of "is it a T?".  It returns the
// number of switches rewritten.
func SimplifyTypeSwitches(m *Module) int {
	count := 0
	for _, p := range m.Roots {
		info := p.TypesInfo
		for _, file := range p.Syntax {
			var cands []*ast.TypeSwitchStmt
			ast.Inspect(file, func(n ast.Node) bool {
				ts, ok := n.(*ast.TypeSwitchStmt)
				if !ok || ts.Init != nil || len(ts.Body.List) != 2 {
					return true
				}
				as, ok := ts.Assign.(*ast.AssignStmt)
				if !ok || len(as.Lhs) != 1 || len(as.Rhs) != 1 {
					return true
				}
				ta, ok := unparen(as.Rhs[0]).(*ast.TypeAssertExpr)
				if !ok || ta.Type != nil {
					return true
				}
				if _, isId := unparen(ta.X).(*ast.Ident); !isId {
					return true
				}
				typed, deflt := 0, 0
				for _, c := range ts.Body.List {
					cc := c.(*ast.CaseClause)
					switch {
					case cc.List == nil:
						deflt++
					case len(cc.List) == 1:
						if id, isId := unparen(cc.List[0]).(*ast.Ident); isId && id.Name == "nil" {
							return true
						}
						typed++
					}
				}
				if typed != 1 || deflt != 1 {
					return true
				}
				// no break out of the switch
				breaks := false
				var scan func(n ast.Node)
				scan = func(n ast.Node) {
					ast.Inspect(n, func(y ast.Node) bool {
						switch z := y.(type) {
						case *ast.ForStmt, *ast.RangeStmt, *ast.SwitchStmt, *ast.TypeSwitchStmt, *ast.SelectStmt, *ast.FuncLit:
							return false
						case *ast.BranchStmt:
							if z.Tok == token.BREAK && z.Label == nil {
								breaks = true
							}
						}
						return true
					})
				}
				for _, c := range ts.Body.List {
					for _, st := range c.(*ast.CaseClause).Body {
						scan(st)
					}
				}
				if !breaks {
					cands = append(cands, ts)
				}
				return true
			})
			if len(cands) == 0 {
				continue
			}
			// the SSA program is built from the trees as loaded
			m.CallGraph()
			isCand := map[*ast.TypeSwitchStmt]bool{}
			for _, ts := range cands {
				isCand[ts] = true
			}
			astutil.Apply(file, nil, func(c *astutil.Cursor) bool {
				ts, ok := c.Node().(*ast.TypeSwitchStmt)
				if !ok || !isCand[ts] {
					return true
				}
				as := ts.Assign.(*ast.AssignStmt)
				bound := as.Lhs[0].(*ast.Ident)
				x := unparen(unparen(as.Rhs[0]).(*ast.TypeAssertExpr).X).(*ast.Ident)
				xObj := info.Uses[x]
				var typedC, defC *ast.CaseClause
				for _, cl := range ts.Body.List {
					cc := cl.(*ast.CaseClause)
					if cc.List == nil {
						defC = cc
					} else {
						typedC = cc
					}
				}
				useX := func(pos token.Pos) *ast.Ident {
					id := &ast.Ident{Name: x.Name, NamePos: pos}
					if xObj != nil {
						info.Uses[id] = xObj
					}
					if tv, ok := info.Types[x]; ok {
						info.Types[id] = tv
					}
					return id
				}
				okVar := types.NewVar(ts.Pos(), p.Types, "ok", types.Typ[types.Bool])
				okDef := &ast.Ident{Name: "ok", NamePos: ts.Pos()}
				info.Defs[okDef] = okVar
				okUse := &ast.Ident{Name: "ok", NamePos: ts.Pos()}
				info.Uses[okUse] = okVar
				info.Types[okUse] = types.TypeAndValue{Type: types.Typ[types.Bool]}
				eDef := &ast.Ident{Name: bound.Name, NamePos: typedC.Pos()}
				if o := info.Implicits[typedC]; o != nil {
					info.Defs[eDef] = o
				}
				assert := &ast.TypeAssertExpr{X: useX(typedC.Pos()), Lparen: typedC.Pos(), Type: typedC.List[0], Rparen: typedC.Pos()}
				if tv, ok := info.Types[typedC.List[0]]; ok {
					info.Types[assert] = types.TypeAndValue{Type: tv.Type}
				}
				init := &ast.AssignStmt{Lhs: []ast.Expr{eDef, okDef}, Tok: token.DEFINE, TokPos: typedC.Pos(), Rhs: []ast.Expr{assert}}
				eDef2 := &ast.Ident{Name: bound.Name, NamePos: defC.Pos()}
				if o := info.Implicits[defC]; o != nil {
					info.Defs[eDef2] = o
				}
				copyStmt := &ast.AssignStmt{Lhs: []ast.Expr{eDef2}, Tok: token.DEFINE, TokPos: defC.Pos(), Rhs: []ast.Expr{useX(defC.Pos())}}
				elseBody := append([]ast.Stmt{copyStmt}, defC.Body...)
				ifs := &ast.IfStmt{
					If:   ts.Pos(),
					Init: init,
					Cond: okUse,
					Body: &ast.BlockStmt{Lbrace: typedC.Colon, List: typedC.Body, Rbrace: ts.End()},
					Else: &ast.BlockStmt{Lbrace: defC.Colon, List: elseBody, Rbrace: ts.End()},
				}
				c.Replace(ifs)
				count++
				return true
			})
		}
	}
	return count
}

// FoldNewHelpers performs helper folding on m (see above) and returns a description of what was folded.
func FoldNewHelpers(m *Module) []string {
	known := loadKnownFuncs()
	if known == nil {
		return nil
	}
	var log []string
	for _, p := range m.Roots {
		rel := m.Rel(p.PkgPath)
		fo := &folder{m: m, p: p, info: p.TypesInfo, fresh: map[*types.Func]*ast.FuncDecl{}}
		fo.typeAndFieldRenames(m, rel, known, &log)
		for _, file := range p.Syntax {
			if strings.HasSuffix(m.Fset.File(file.Pos()).Name(), "_test.go") {
				continue
			}
			for _, d := range file.Decls {
				fd, ok := d.(*ast.FuncDecl)
				if !ok || fd.Body == nil {
					continue
				}
				if _, isKnown := known[FuncKey(m.Name, rel, fd)]; isKnown {
					continue
				}
				if f, ok := p.TypesInfo.Defs[fd.Name].(*types.Func); ok {
					// a method with a value receiver works on a copy of its receiver; splicing its body into a caller that holds a
					// pointer would make it work on the original.  That difference is the whole point when the receiver contains a
					// lock or a wait group, so such methods are never folded (the rules see the copy being made).
					if sig, _ := f.Type().(*types.Signature); sig != nil && sig.Recv() != nil {
						if _, isPtr := sig.Recv().Type().(*types.Pointer); !isPtr && ContainsSyncByValue(sig.Recv().Type(), 0) {
							continue
						}
					}
					fo.fresh[f] = fd
				}
			}
		}
		if len(fo.fresh) == 0 && len(fo.typeFresh) == 0 && len(fo.typeOld) == 0 {
			continue
		}
		// renamed types: a known type that is gone and exactly one new type of the same shape (both ways); renamed fields:
		// in a known struct type, a known field that is gone and exactly one new field of the same type (both ways).  The
		// identifiers that refer to a renamed type or field get their old spelling back on the loaded trees, and
		// core.NameOf answers with the old name, so that rules keep recognising them.
		// renames: a known function that is gone, and exactly one new function with the same receiver and the same
		// parameter and result types, which in turn matches no other vanished function.  The new function takes the old
		// one's place as an anchor and is not folded.
		present := map[string]bool{}
		for _, file := range p.Syntax {
			for _, d := range file.Decls {
				if fd, ok := d.(*ast.FuncDecl); ok {
					present[FuncKey(m.Name, rel, fd)] = true
				}
			}
		}
		recvOf := func(declName string) string {
			if i := strings.LastIndex(declName, "."); i >= 0 {
				return declName[:i]
			}
			return ""
		}
		prefix := m.Name + "\t" + rel + "\t"
		simpleOf := func(declName string) string {
			if i := strings.LastIndex(declName, "."); i >= 0 {
				return declName[i+1:]
			}
			return declName
		}
		recordRename := func(key string, f *types.Func, how string) {
			oldDecl := strings.TrimPrefix(key, prefix)
			if m.Renamed == nil {
				m.Renamed = map[string]*types.Func{}
			}
			m.Renamed[rel+"\t"+oldDecl] = f
			renamedFuncs.Store(f, simpleOf(oldDecl))
			log = append(log, rel+"."+oldDecl+" "+how+" "+f.Name())
			delete(fo.fresh, f)
			present[key] = true
		}
		// stage 0, method names: a rename of a method that several types implement (the methods behind an interface) renames
		// it on every receiver.  A vanished name and a new name are the same method when they have the same receivers, the
		// same signature on each, and on each receiver the bodies have the same fingerprint (tiny bodies: exactly the same
		// tokens) — the conjunction over the receivers tells apart what a single body cannot (`)` closes maps and arrays
		// alike in one syntax, but not in the other).
		for again := true; again; {
			again = false
			vanishedByName := map[string]map[string]string{} // simple name -> receiver -> key
			for key, shape := range known {
				if !strings.HasPrefix(key, prefix) || present[key] || shape == "" {
					continue
				}
				d := strings.TrimPrefix(key, prefix)
				if strings.Contains(d, " ") || recvOf(d) == "" {
					continue
				}
				if vanishedByName[simpleOf(d)] == nil {
					vanishedByName[simpleOf(d)] = map[string]string{}
				}
				vanishedByName[simpleOf(d)][recvOf(d)] = key
			}
			freshByName := map[string]map[string]*types.Func{}
			for f, fd := range fo.fresh {
				d := DeclName(fd)
				if recvOf(d) == "" {
					continue
				}
				if freshByName[f.Name()] == nil {
					freshByName[f.Name()] = map[string]*types.Func{}
				}
				freshByName[f.Name()][recvOf(d)] = f
			}
			sameTokens := func(a, b []string) bool {
				strip := func(in []string) []string {
					var out []string
					for _, t := range in {
						if !strings.HasPrefix(t, "by:") {
							out = append(out, t)
						}
					}
					return out
				}
				a, b = strip(a), strip(b)
				if len(a) != len(b) {
					return false
				}
				for i := range a {
					if a[i] != b[i] {
						return false
					}
				}
				return true
			}
			compatible := func(v map[string]string, f map[string]*types.Func) bool {
				if len(v) != len(f) {
					return false
				}
				for r, key := range v {
					g := f[r]
					if g == nil || fo.newSide(SigShape(g)) != fo.oldSide(known[key]) {
						return false
					}
					a, b := knownFingerprints[key], FuncFingerprint(fo.info, m.Path, fo.fresh[g])
					if len(a) < 6 || len(b) < 6 {
						if !sameTokens(a, b) {
							return false
						}
					} else if fingerprintSimilarity(a, b) < 0.7 {
						return false
					}
				}
				return true
			}
			vc := map[string][]string{}
			fh := map[string]int{}
			for vn, v := range vanishedByName {
				for fn, f := range freshByName {
					if compatible(v, f) {
						vc[vn] = append(vc[vn], fn)
						fh[fn]++
					}
				}
			}
			var vns []string
			for vn := range vc {
				vns = append(vns, vn)
			}
			sort.Strings(vns)
			for _, vn := range vns {
				if len(vc[vn]) != 1 || fh[vc[vn][0]] != 1 {
					continue
				}
				fn := vc[vn][0]
				var rs []string
				for r := range vanishedByName[vn] {
					rs = append(rs, r)
				}
				sort.Strings(rs)
				for _, r := range rs {
					recordRename(vanishedByName[vn][r], freshByName[fn][r], "renamed (on every receiver) to")
				}
				again = true // what was recognised changes how the callers of these methods are spelled
			}
		}
		cands := map[string][]*types.Func{} // vanished key -> candidates
		hits := map[*types.Func]int{}
		for key, shape := range known {
			if !strings.HasPrefix(key, prefix) || present[key] || shape == "" {
				continue
			}
			oldDecl := strings.TrimPrefix(key, prefix)
			for f, fd := range fo.fresh {
				if recvOf(DeclName(fd)) == recvOf(oldDecl) && fo.newSide(SigShape(f)) == fo.oldSide(shape) {
					cands[key] = append(cands[key], f)
					hits[f]++
				}
			}
		}
		for key, fs := range cands {
			if len(fs) != 1 || hits[fs[0]] != 1 {
				continue
			}
			oldDecl := strings.TrimPrefix(key, prefix)
			oldSimple := oldDecl
			if i := strings.LastIndex(oldDecl, "."); i >= 0 {
				oldSimple = oldDecl[i+1:]
			}
			if m.Renamed == nil {
				m.Renamed = map[string]*types.Func{}
			}
			m.Renamed[rel+"\t"+oldDecl] = fs[0]
			renamedFuncs.Store(fs[0], oldSimple)
			log = append(log, rel+"."+oldDecl+" renamed to "+fs[0].Name())
			delete(fo.fresh, fs[0])
			present[key] = true
		}
		// second stage, for functions whose signature or receiver changed as well: a vanished function and a new one are
		// the same function when their bodies have (nearly) the same fingerprint — the same calls into other modules, the
		// same literals, the same control-flow shape — and each is the other's best match by a clear margin
		{
			type fpOf struct {
				key string
				fp  []string
			}
			var vanished []fpOf
			for key := range known {
				if !strings.HasPrefix(key, prefix) || present[key] || strings.Contains(strings.TrimPrefix(key, prefix), " ") {
					continue
				}
				if fp := knownFingerprints[key]; externalTokens(fp) >= 3 {
					vanished = append(vanished, fpOf{key, fp})
				}
			}
			freshFP := map[*types.Func][]string{}
			for f, fd := range fo.fresh {
				freshFP[f] = FuncFingerprint(fo.info, m.Path, fd)
			}
			best := func(fp []string, among map[*types.Func][]string) (*types.Func, float64, float64) {
				var bf *types.Func
				b1, b2 := 0.0, 0.0
				for f, g := range among {
					if s := fingerprintSimilarity(fp, g); s > b1 {
						bf, b2, b1 = f, b1, s
					} else if s > b2 {
						b2 = s
					}
				}
				return bf, b1, b2
			}
			for _, v := range vanished {
				f, s1, s2 := best(v.fp, freshFP)
				if f == nil || s1 < 0.7 || s1-s2 < 0.1 {
					continue
				}
				// mutual: no other vanished function fits f better
				mutual := true
				for _, w := range vanished {
					if w.key != v.key && fingerprintSimilarity(w.fp, freshFP[f]) >= s1 {
						mutual = false
					}
				}
				if !mutual {
					continue
				}
				oldDecl := strings.TrimPrefix(v.key, prefix)
				oldSimple := oldDecl
				if i := strings.LastIndex(oldDecl, "."); i >= 0 {
					oldSimple = oldDecl[i+1:]
				}
				if m.Renamed == nil {
					m.Renamed = map[string]*types.Func{}
				}
				m.Renamed[rel+"\t"+oldDecl] = f
				renamedFuncs.Store(f, oldSimple)
				log = append(log, fmt.Sprintf("%s.%s is now %s (body similarity %.2f)", rel, oldDecl, f.Name(), s1))
				delete(fo.fresh, f)
				delete(freshFP, f)
			}
		}
		// third stage, for functions whose signature and body both changed: a vanished function and a new one that are used
		// by exactly the same functions of the package (a non-empty set, in the old spelling) and by no others are the same
		// function, when each is the other's only such match
		{
			oldDecl := map[*types.Func]string{}
			for key, f := range m.Renamed {
				if strings.HasPrefix(key, rel+"\t") {
					oldDecl[f] = strings.TrimPrefix(key, rel+"\t")
				}
			}
			users := map[*types.Func]map[string]bool{}
			for _, file := range p.Syntax {
				if strings.HasSuffix(m.Fset.File(file.Pos()).Name(), "_test.go") {
					continue
				}
				for _, d := range file.Decls {
					cfd, ok := d.(*ast.FuncDecl)
					if !ok || cfd.Body == nil {
						continue
					}
					self, _ := fo.info.Defs[cfd.Name].(*types.Func)
					name := DeclName(cfd)
					if o, ok := oldDecl[self]; ok {
						name = o
					}
					ast.Inspect(cfd.Body, func(x ast.Node) bool {
						if id, ok := x.(*ast.Ident); ok {
							if g, ok := fo.info.Uses[id].(*types.Func); ok && g.Pkg() == p.Types && g.Origin() != self {
								if users[g.Origin()] == nil {
									users[g.Origin()] = map[string]bool{}
								}
								users[g.Origin()]["by:"+name] = true
							}
						}
						return true
					})
				}
			}
			setKey := func(set map[string]bool) string {
				var ts []string
				for t := range set {
					ts = append(ts, t)
				}
				sort.Strings(ts)
				return strings.Join(ts, "\x1f")
			}
			vanishedBy := map[string][]string{} // caller set -> vanished keys
			for key := range known {
				if !strings.HasPrefix(key, prefix) || present[key] || strings.Contains(strings.TrimPrefix(key, prefix), " ") {
					continue
				}
				set := map[string]bool{}
				for _, t := range knownFingerprints[key] {
					if strings.HasPrefix(t, "by:") {
						set[t] = true
					}
				}
				if len(set) > 0 {
					vanishedBy[setKey(set)] = append(vanishedBy[setKey(set)], key)
				}
			}
			freshBy := map[string][]*types.Func{}
			for f := range fo.fresh {
				if len(users[f]) > 0 {
					freshBy[setKey(users[f])] = append(freshBy[setKey(users[f])], f)
				}
			}
			var sets []string
			for k := range vanishedBy {
				sets = append(sets, k)
			}
			sort.Strings(sets)
			for _, k := range sets {
				if len(vanishedBy[k]) == 1 && len(freshBy[k]) == 1 {
					recordRename(vanishedBy[k][0], freshBy[k][0], "is now (same users: "+strings.ReplaceAll(strings.ReplaceAll(k, "\x1f", ", "), "by:", "")+")")
				}
			}
		}
		// interface methods follow their implementations: if every renamed method old -> new has an interface of the package
		// declaring new (and not old), that interface method is known to the rules as old
		ifaceRenamed := map[*types.Func]string{}
		for key, f := range m.Renamed {
			if !strings.HasPrefix(key, rel+"\t") {
				continue
			}
			oldSimple, _ := renamedFuncs.Load(f)
			if oldSimple == nil || oldSimple.(string) == f.Name() {
				continue
			}
			for _, name := range p.Types.Scope().Names() {
				tn, ok := p.Types.Scope().Lookup(name).(*types.TypeName)
				if !ok {
					continue
				}
				it, ok := tn.Type().Underlying().(*types.Interface)
				if !ok {
					continue
				}
				hasOld := false
				var newM *types.Func
				for i := 0; i < it.NumMethods(); i++ {
					if it.Method(i).Name() == oldSimple.(string) {
						hasOld = true
					}
					if it.Method(i).Name() == f.Name() {
						newM = it.Method(i)
					}
				}
				if newM != nil && !hasOld {
					renamedFuncs.Store(newM, oldSimple.(string))
					ifaceRenamed[newM] = oldSimple.(string)
				}
			}
		}
		// the identifiers of a renamed function (its declaration, calls, method values, the interface method) get their old
		// spelling back on the loaded trees, like those of renamed types and fields: rules that look at names in the syntax
		// see the names they were written for
		{
			respell := map[*types.Func]string{}
			for key, f := range m.Renamed {
				if strings.HasPrefix(key, rel+"\t") {
					if o, ok := renamedFuncs.Load(f); ok && o.(string) != f.Name() {
						respell[f] = o.(string)
					}
				}
			}
			for f, n := range ifaceRenamed {
				respell[f] = n
			}
			if len(respell) > 0 {
				m.CallGraph()
				for _, q := range m.Roots {
					for id, o := range q.TypesInfo.Uses {
						if fn, ok := o.(*types.Func); ok {
							if n, ok := respell[fn.Origin()]; ok {
								id.Name = n
							}
						}
					}
					for id, o := range q.TypesInfo.Defs {
						if fn, ok := o.(*types.Func); ok {
							if n, ok := respell[fn.Origin()]; ok {
								id.Name = n
							}
						}
					}
				}
			}
		}
		// the SSA program and call graph are built from the trees as loaded: build them before any tree is changed
		m.CallGraph()
		// functions referenced from other packages are part of the API: leave them alone
		for _, q := range m.Roots {
			if q == p {
				continue
			}
			for id, o := range q.TypesInfo.Uses {
				_ = id
				if f, ok := o.(*types.Func); ok {
					delete(fo.fresh, f.Origin())
				}
			}
		}
		for round := 0; round < 6; round++ {
			if !fo.foldRound() {
				break
			}
		}
		// a known function whose parameters were reordered (same types, all different, another order) gets the old order
		// back, in its declaration and at every call: rules that look at "the second argument" keep looking at the status
		for _, file := range p.Syntax {
			if strings.HasSuffix(m.Fset.File(file.Pos()).Name(), "_test.go") {
				continue
			}
			for _, d := range file.Decls {
				if fd, ok := d.(*ast.FuncDecl); ok && fd.Body != nil {
					if shape, isKnown := known[FuncKey(m.Name, rel, fd)]; isKnown && shape != "" {
						if fo.restoreParamOrder(fd, shape) {
							fo.touch(fd)
							log = append(log, fmt.Sprintf("%s.%s: parameters put back in their old order", rel, DeclName(fd)))
						}
					}
				}
			}
		}
		// a parameter of a struct type that did not exist when the rules were confirmed ("introduce parameter object") is
		// taken apart again: one parameter per field, the struct rebuilt as a local (which the next step replaces by its fields)
		for _, file := range p.Syntax {
			if strings.HasSuffix(m.Fset.File(file.Pos()).Name(), "_test.go") {
				continue
			}
			for _, d := range file.Decls {
				if fd, ok := d.(*ast.FuncDecl); ok && fd.Body != nil {
					if n := fo.expandParamObjects(fd, func(tn *types.TypeName) bool {
						_, isKnown := known[m.Name+"\t"+rel+"\ttype "+tn.Name()]
						return !isKnown && tn.Pkg() == p.Types
					}); n > 0 {
						fo.touch(fd)
						log = append(log, fmt.Sprintf("%s.%s: %d parameter object(s) replaced by their fields", rel, DeclName(fd), n))
					}
				}
			}
		}
		// locals of struct types that did not exist when the rules were confirmed (the captured variables of a closure
		// moved into a small state struct) are replaced by one variable per field
		for _, file := range p.Syntax {
			if strings.HasSuffix(m.Fset.File(file.Pos()).Name(), "_test.go") {
				continue
			}
			for _, d := range file.Decls {
				if fd, ok := d.(*ast.FuncDecl); ok && fd.Body != nil {
					if n := fo.scalarReplace(fd, func(tn *types.TypeName) bool {
						_, isKnown := known[m.Name+"\t"+rel+"\ttype "+tn.Name()]
						return !isKnown && tn.Pkg() == p.Types
					}); n > 0 {
						fo.touch(fd)
						log = append(log, fmt.Sprintf("%s.%s: %d struct local(s) replaced by their fields", rel, DeclName(fd), n))
					}
				}
			}
		}
		// a local that is nothing but a copy of a parameter which is not used otherwise (`method := httpMethod` at the top of
		// a function, what is left of `wire := request{method: httpMethod}`) is that parameter
		for fd := range fo.touched {
			if n := fo.coalesceParamCopies(fd); n > 0 {
				log = append(log, fmt.Sprintf("%s.%s: %d copy(ies) of a parameter merged with it", rel, DeclName(fd), n))
			}
		}
		for fd := range fo.touched {
			fo.renumber(fd)
		}
		// drop declarations nothing refers to any more
		for f, fd := range fo.fresh {
			if fo.references(f) == 0 && !fd.Name.IsExported() && fo.folded[f] > 0 {
				for _, file := range p.Syntax {
					for i, d := range file.Decls {
						if d == ast.Decl(fd) {
							file.Decls = append(file.Decls[:i:i], file.Decls[i+1:]...)
							break
						}
					}
				}
				log = append(log, rel+"."+DeclName(fd)+" folded into its users")
			} else if fo.folded[f] > 0 {
				log = append(log, rel+"."+DeclName(fd)+" partly folded")
			}
		}
	}
	return log
}

// ContainsSyncByValue reports whether a value of type t contains (not through a pointer) one of sync's primitives.
func ContainsSyncByValue(t types.Type, depth int) bool {
	if depth > 4 {
		return false
	}
	switch u := t.(type) {
	case *types.Named:
		if u.Obj().Pkg() != nil && u.Obj().Pkg().Path() == "sync" {
			switch u.Obj().Name() {
			case "WaitGroup", "Mutex", "RWMutex", "Once", "Cond", "Map", "Pool":
				return true
			}
		}
		return ContainsSyncByValue(u.Underlying(), depth+1)
	case *types.Struct:
		for i := 0; i < u.NumFields(); i++ {
			if ContainsSyncByValue(u.Field(i).Type(), depth+1) {
				return true
			}
		}
	case *types.Array:
		return ContainsSyncByValue(u.Elem(), depth+1)
	}
	return false
}

// respellTypes rewrites the unqualified type names in a rendered type: names in subst are replaced by their value, names
// in unknown by "?".  A name is unqualified when it is not part of a package path or a selector.
func respellTypes(s string, subst map[string]string, unknown map[string]bool) string {
	if len(subst) == 0 && len(unknown) == 0 {
		return s
	}
	isWord := func(c byte) bool {
		return c == '_' || c >= '0' && c <= '9' || c >= 'a' && c <= 'z' || c >= 'A' && c <= 'Z' || c >= 0x80
	}
	var b strings.Builder
	for i := 0; i < len(s); {
		if !isWord(s[i]) {
			b.WriteByte(s[i])
			i++
			continue
		}
		j := i
		for j < len(s) && isWord(s[j]) {
			j++
		}
		w := s[i:j]
		qualified := (i > 0 && (s[i-1] == '.' || s[i-1] == '/')) || (j < len(s) && (s[j] == '.' || s[j] == '/'))
		switch {
		case qualified:
			b.WriteString(w)
		case subst[w] != "":
			b.WriteString(subst[w])
		case unknown[w]:
			b.WriteByte('?')
		default:
			b.WriteString(w)
		}
		i = j
	}
	return b.String()
}

type folder struct {
	// typeOld: new name -> old name of the types recognised as renamed; typeFresh / typeGone: the names of new types
	// that are not recognised and of known types that no longer exist (both render as "?" when shapes are compared).
	typeOld   map[string]string
	typeFresh map[string]bool
	typeGone  map[string]bool

	m      *Module
	p      *packages.Package
	info   *types.Info
	fresh  map[*types.Func]*ast.FuncDecl
	folded map[*types.Func]int
	// prefix: for every copied node, the positions of the call sites it was spliced in at (outermost first): the key
	// of the inlined source order.  touched: functions that received a copy and whose positions are renumbered.
	prefix  map[ast.Node][]token.Pos
	touched map[*ast.FuncDecl]bool
	hoisted int
}

func (fo *folder) references(f *types.Func) int {
	n := 0
	for _, file := range fo.p.Syntax {
		ast.Inspect(file, func(x ast.Node) bool {
			if id, ok := x.(*ast.Ident); ok {
				if u, ok := fo.info.Uses[id].(*types.Func); ok && u.Origin() == f {
					n++
				}
			}
			return true
		})
	}
	return n
}

func (fo *folder) freshCallee(call *ast.CallExpr) (*types.Func, *ast.FuncDecl) {
	f := Callee(fo.info, call)
	if f == nil {
		return nil, nil
	}
	fd := fo.fresh[f.Origin()]
	if fd == nil {
		return nil, nil
	}
	return f.Origin(), fd
}

// recursive reports whether f can reach itself through references to itself or to other fresh functions: splicing such
// a function into its callers would unroll the recursion instead of removing the call.
func (fo *folder) recursive(f *types.Func, fd *ast.FuncDecl) bool {
	seen := map[*types.Func]bool{}
	var visit func(g *types.Func, gd *ast.FuncDecl) bool
	visit = func(g *types.Func, gd *ast.FuncDecl) bool {
		rec := false
		ast.Inspect(gd.Body, func(x ast.Node) bool {
			if rec {
				return false
			}
			if id, ok := x.(*ast.Ident); ok {
				if u, ok := fo.info.Uses[id].(*types.Func); ok {
					u = u.Origin()
					if u == f {
						rec = true
						return false
					}
					if ud := fo.fresh[u]; ud != nil && !seen[u] {
						seen[u] = true
						if visit(u, ud) {
							rec = true
							return false
						}
					}
				}
			}
			return true
		})
		return rec
	}
	return visit(f, fd)
}

func (fo *folder) foldRound() bool {
	if fo.folded == nil {
		fo.folded = map[*types.Func]int{}
	}
	changed := false
	for _, file := range fo.p.Syntax {
		if strings.HasSuffix(fo.m.Fset.File(file.Pos()).Name(), "_test.go") {
			continue
		}
		for _, d := range file.Decls {
			fd, ok := d.(*ast.FuncDecl)
			if !ok || fd.Body == nil {
				continue
			}
			if fo.foldBlock(fd.Body, fd) {
				changed = true
			}
		}
		// calls in expression position of helpers that are a single `return <expr>`: replaced by the expression
		astutil.Apply(file, func(c *astutil.Cursor) bool {
			call, ok := c.Node().(*ast.CallExpr)
			if !ok || call.Ellipsis.IsValid() {
				return true
			}
			f, hd := fo.freshCallee(call)
			if hd == nil || fo.recursive(f, hd) || len(hd.Body.List) != 1 {
				return true
			}
			ret, ok := hd.Body.List[0].(*ast.ReturnStmt)
			if !ok || len(ret.Results) != 1 {
				return true
			}
			if efd := enclosingDecl(file, call.Pos(), c); efd == hd || efd == nil {
				return true
			}
			cl := fo.newCloner(call)
			bindOK := true
			bind := func(param *ast.Ident, arg ast.Expr) {
				po := fo.info.Defs[param]
				if po == nil || param.Name == "_" {
					return
				}
				uses := 0
				ast.Inspect(ret, func(x ast.Node) bool {
					if id, ok := x.(*ast.Ident); ok && fo.info.Uses[id] == po {
						uses++
					}
					return true
				})
				if !pureExpr(arg) && uses > 1 {
					bindOK = false
				}
				cl.subst[po] = arg
			}
			if hd.Recv != nil && len(hd.Recv.List) == 1 && len(hd.Recv.List[0].Names) == 1 {
				sel, ok := unparen(call.Fun).(*ast.SelectorExpr)
				if !ok {
					return true
				}
				bind(hd.Recv.List[0].Names[0], sel.X)
			}
			k := 0
			if hd.Type.Params != nil {
				for _, fl := range hd.Type.Params.List {
					if _, variadic := fl.Type.(*ast.Ellipsis); variadic {
						return true
					}
					for _, nm := range fl.Names {
						if k >= len(call.Args) {
							return true
						}
						bind(nm, call.Args[k])
						k++
					}
					if len(fl.Names) == 0 {
						k++
					}
				}
			}
			if !bindOK || k != len(call.Args) {
				return true
			}
			e := cl.node(ret.Results[0]).(ast.Expr)
			pe := &ast.ParenExpr{X: e, Lparen: e.Pos(), Rparen: e.End()}
			if tv, ok := fo.info.Types[call]; ok {
				fo.info.Types[pe] = tv
			}
			fo.prefix[pe] = cl.prefix
			c.Replace(pe)
			fo.folded[f]++
			if efd := enclosingDecl(file, call.Pos(), c); efd != nil {
				fo.touch(efd)
			}
			changed = true
			return false
		}, nil)
		// a function literal that is called on the spot and only returns an expression (what `compute()` becomes once a
		// literal was substituted for the parameter `compute`) is that expression
		astutil.Apply(file, func(c *astutil.Cursor) bool {
			call, ok := c.Node().(*ast.CallExpr)
			if !ok || len(call.Args) != 0 {
				return true
			}
			lit, ok := unparen(call.Fun).(*ast.FuncLit)
			if !ok || (lit.Type.Params != nil && len(lit.Type.Params.List) > 0) || len(lit.Body.List) != 1 {
				return true
			}
			ret, ok := lit.Body.List[0].(*ast.ReturnStmt)
			if !ok || len(ret.Results) != 1 {
				return true
			}
			efd := enclosingDecl(file, call.Pos(), c)
			if efd == nil || !fo.touched[efd] {
				return true
			}
			e := ret.Results[0]
			pe := &ast.ParenExpr{X: e, Lparen: e.Pos(), Rparen: e.End()}
			if tv, ok := fo.info.Types[call]; ok {
				fo.info.Types[pe] = tv
			}
			if pre, ok := fo.prefix[lit]; ok {
				fo.prefix[pe] = pre
			}
			c.Replace(pe)
			changed = true
			return false
		}, nil)
		// value uses: h passed or stored as a function value
		astutil.Apply(file, func(c *astutil.Cursor) bool {
			var id *ast.Ident
			var recv ast.Expr
			switch e := c.Node().(type) {
			case *ast.Ident:
				id = e
			case *ast.SelectorExpr:
				if _, isPkg := fo.info.Uses[identOf(e.X)].(*types.PkgName); !isPkg {
					id, recv = e.Sel, e.X
				} else {
					return true
				}
			default:
				return true
			}
			u, ok := fo.info.Uses[id].(*types.Func)
			if !ok {
				return true
			}
			hd := fo.fresh[u.Origin()]
			if hd == nil || fo.recursive(u.Origin(), hd) {
				return true
			}
			// skip when this is the function operand of a call, or the Sel of a selector we handle at the selector level
			switch par := c.Parent().(type) {
			case *ast.CallExpr:
				if par.Fun == c.Node() {
					return true
				}
			case *ast.SelectorExpr:
				if par.Sel == c.Node() {
					return true
				}
			case *ast.FuncDecl:
				return true
			}
			if _, isSel := c.Node().(*ast.SelectorExpr); !isSel && hd.Recv != nil {
				return true // method expression T.m: leave
			}
			cl := fo.newCloner(c.Node())
			if hd.Recv != nil && recv != nil && len(hd.Recv.List) == 1 && len(hd.Recv.List[0].Names) == 1 {
				if !pureExpr(recv) {
					return true
				}
				cl.subst[fo.info.Defs[hd.Recv.List[0].Names[0]]] = recv
			}
			lit := &ast.FuncLit{Type: cl.node(hd.Type).(*ast.FuncType), Body: cl.node(hd.Body).(*ast.BlockStmt)}
			if tv, ok := fo.info.Types[c.Node().(ast.Expr)]; ok {
				fo.info.Types[lit] = tv
			}
			fo.prefix[lit] = cl.prefix
			c.Replace(lit)
			fo.folded[u.Origin()]++
			if efd := enclosingDecl(file, lit.Type.Pos(), c); efd != nil {
				fo.touch(efd)
			}
			changed = true
			return false
		}, nil)
	}
	return changed
}

func identOf(e ast.Expr) *ast.Ident {
	id, _ := unparen(e).(*ast.Ident)
	return id
}

// pureExpr: evaluating the expression (possibly several times) has no effect.
func pureExpr(e ast.Expr) bool {
	switch x := unparen(e).(type) {
	case *ast.Ident, *ast.BasicLit, *ast.FuncLit:
		return true
	case *ast.SelectorExpr:
		return pureExpr(x.X)
	case *ast.StarExpr:
		return pureExpr(x.X)
	case *ast.UnaryExpr:
		return x.Op != token.ARROW && pureExpr(x.X)
	case *ast.IndexExpr:
		return pureExpr(x.X) && pureExpr(x.Index)
	case *ast.CompositeLit:
		for _, el := range x.Elts {
			if kv, ok := el.(*ast.KeyValueExpr); ok {
				el = kv.Value
			}
			if !pureExpr(el) {
				return false
			}
		}
		return true
	case *ast.BinaryExpr:
		return pureExpr(x.X) && pureExpr(x.Y)
	case *ast.TypeAssertExpr:
		return false
	}
	return false
}

// foldBlock folds statement-position calls of fresh helpers in every statement list below n.
func (fo *folder) foldBlock(n ast.Node, within *ast.FuncDecl) bool {
	changed := false
	var lists func(n ast.Node)
	fix := func(list []ast.Stmt) []ast.Stmt {
		var out []ast.Stmt
		for _, s := range list {
			if pre, ok := fo.hoist(s, within); ok {
				out = append(out, pre)
				out = append(out, s)
				changed = true
				continue
			}
			if repl, ok := fo.foldStmt(s, within); ok {
				out = append(out, repl...)
				changed = true
				continue
			}
			out = append(out, s)
		}
		return out
	}
	lists = func(n ast.Node) {
		ast.Inspect(n, func(x ast.Node) bool {
			switch b := x.(type) {
			case *ast.BlockStmt:
				b.List = fix(b.List)
			case *ast.CaseClause:
				b.Body = fix(b.Body)
			case *ast.CommClause:
				b.Body = fix(b.Body)
			}
			return true
		})
	}
	lists(n)
	return changed
}

// hoist moves the call of a fresh helper that is the first thing a statement evaluates (`if h(x) {`, `if h(x) != nil {`,
// `switch h(x) {`, `return h(x) == y`, `v := !h(x)`, `g(h(x), y)`) out into `t := h(x)` placed before the statement,
// where the statement fold can then splice the helper in.
func (fo *folder) hoist(s ast.Stmt, within *ast.FuncDecl) (ast.Stmt, bool) {
	var head ast.Expr
	switch x := s.(type) {
	case *ast.IfStmt:
		if x.Init == nil {
			head = x.Cond
		}
	case *ast.SwitchStmt:
		if x.Init == nil {
			head = x.Tag
		}
	case *ast.ReturnStmt:
		if len(x.Results) >= 1 {
			head = x.Results[0]
		}
	case *ast.AssignStmt:
		if len(x.Rhs) >= 1 {
			lhsPure := true
			for _, l := range x.Lhs {
				if _, isId := l.(*ast.Ident); !isId {
					lhsPure = false
				}
			}
			if lhsPure {
				head = x.Rhs[0]
			}
		}
	case *ast.ExprStmt:
		head = x.X
	}
	if head == nil {
		return nil, false
	}
	// a direct call in statement position is the statement fold's business
	switch x := s.(type) {
	case *ast.ReturnStmt:
		if _, isCall := unparen(head).(*ast.CallExpr); isCall && len(x.Results) == 1 {
			if _, hd := fo.freshCallee(unparen(head).(*ast.CallExpr)); hd != nil {
				return nil, false
			}
		}
	case *ast.AssignStmt:
		if c, isCall := unparen(head).(*ast.CallExpr); isCall && len(x.Rhs) == 1 {
			if _, hd := fo.freshCallee(c); hd != nil {
				return nil, false
			}
		}
	case *ast.ExprStmt:
		if c, isCall := unparen(head).(*ast.CallExpr); isCall {
			if _, hd := fo.freshCallee(c); hd != nil {
				return nil, false
			}
		}
	}
	var first func(e ast.Expr) *ast.CallExpr
	first = func(e ast.Expr) *ast.CallExpr {
		switch x := e.(type) {
		case *ast.ParenExpr:
			return first(x.X)
		case *ast.UnaryExpr:
			if x.Op == token.ARROW {
				return nil
			}
			return first(x.X)
		case *ast.BinaryExpr:
			return first(x.X)
		case *ast.StarExpr:
			return first(x.X)
		case *ast.SelectorExpr:
			return first(x.X)
		case *ast.TypeAssertExpr:
			return first(x.X)
		case *ast.IndexExpr:
			return first(x.X)
		case *ast.SliceExpr:
			return first(x.X)
		case *ast.CallExpr:
			if x.Ellipsis.IsValid() {
				return nil
			}
			if f, hd := fo.freshCallee(x); hd != nil && hd != within && !fo.recursive(f, hd) {
				if len(hd.Body.List) == 1 {
					if _, single := hd.Body.List[0].(*ast.ReturnStmt); single {
						return nil // a single-expression helper is substituted in place
					}
				}
				sig, _ := f.Type().(*types.Signature)
				if sig == nil || sig.Results().Len() != 1 {
					return nil
				}
				for _, a := range x.Args {
					if !pureExpr(a) {
						return nil
					}
				}
				if sel, ok := unparen(x.Fun).(*ast.SelectorExpr); ok && !pureExpr(sel.X) {
					return nil
				}
				return x
			}
			// another call: its function operand, then its first argument, come first
			if !pureExpr(x.Fun) {
				if sel, ok := unparen(x.Fun).(*ast.SelectorExpr); !ok || !pureExpr(sel.X) {
					return nil
				}
			}
			if len(x.Args) > 0 {
				return first(x.Args[0])
			}
		}
		return nil
	}
	c := first(head)
	if c == nil {
		return nil, false
	}
	tv, ok := fo.info.Types[c]
	if !ok || tv.Type == nil {
		return nil, false
	}
	if _, isTuple := tv.Type.(*types.Tuple); isTuple {
		return nil, false
	}
	if fo.prefix == nil {
		fo.prefix = map[ast.Node][]token.Pos{}
	}
	fo.hoisted++
	pos := s.Pos() - 1
	v := types.NewVar(pos, fo.p.Types, fmt.Sprintf("hoisted%d", fo.hoisted), tv.Type)
	def := &ast.Ident{Name: v.Name(), NamePos: pos}
	fo.info.Defs[def] = v
	use := &ast.Ident{Name: v.Name(), NamePos: c.Pos()}
	fo.info.Uses[use] = v
	fo.info.Types[use] = tv
	replaced := false
	astutil.Apply(s, func(cur *astutil.Cursor) bool {
		if cur.Node() == ast.Node(c) && !replaced {
			cur.Replace(use)
			replaced = true
			return false
		}
		return !replaced
	}, nil)
	if !replaced {
		return nil, false
	}
	as := &ast.AssignStmt{Lhs: []ast.Expr{def}, Tok: token.DEFINE, TokPos: pos, Rhs: []ast.Expr{c}}
	pre := fo.prefix[s]
	fo.prefix[as], fo.prefix[def], fo.prefix[use] = pre, pre, fo.prefix[c]
	fo.touch(within)
	return as, true
}

func (fo *folder) foldStmt(s ast.Stmt, within *ast.FuncDecl) ([]ast.Stmt, bool) {
	var call *ast.CallExpr
	var targets []ast.Expr
	tok := token.ASSIGN
	tail := false
	retSlot := -1
	var retTemplate []ast.Expr
	switch x := s.(type) {
	case *ast.ExprStmt:
		call, _ = unparen(x.X).(*ast.CallExpr)
	case *ast.AssignStmt:
		if len(x.Rhs) == 1 {
			call, _ = unparen(x.Rhs[0]).(*ast.CallExpr)
			targets, tok = x.Lhs, x.Tok
		}
	case *ast.ReturnStmt:
		if len(x.Results) == 1 {
			call, _ = unparen(x.Results[0]).(*ast.CallExpr)
			tail = true
		} else {
			// `return a, h(x)`: exactly one result is a call of a fresh helper, the others are side-effect free
			for j, r := range x.Results {
				if c, ok := unparen(r).(*ast.CallExpr); ok {
					if _, hd := fo.freshCallee(c); hd != nil && call == nil {
						call, retSlot, retTemplate = c, j, x.Results
						continue
					}
				}
				if !pureExpr(r) {
					call = nil
					break
				}
			}
			if call != nil {
				tail = true
			}
		}
	}
	if call == nil || call.Ellipsis.IsValid() {
		return nil, false
	}
	f, hd := fo.freshCallee(call)
	if hd == nil || hd == within || fo.recursive(f, hd) {
		return nil, false
	}
	// defer / labelled statements in the helper change meaning when moved: leave such helpers alone
	bad := false
	ast.Inspect(hd.Body, func(x ast.Node) bool {
		switch x.(type) {
		case *ast.FuncLit:
			return false
		case *ast.LabeledStmt:
			bad = true
		case *ast.DeferStmt:
			// a deferred call of a helper invoked as `return h(…)` still runs when the caller returns: the copy keeps
			// its meaning there, and nowhere else
			if !tail {
				bad = true
			}
		}
		return !bad
	})
	if bad {
		return nil, false
	}
	cl := fo.newCloner(s)
	var prologue []ast.Stmt
	bind := func(param *ast.Ident, arg ast.Expr) bool {
		po := fo.info.Defs[param]
		if po == nil || param.Name == "_" {
			return true
		}
		uses, assigned := 0, false
		ast.Inspect(hd.Body, func(x ast.Node) bool {
			switch y := x.(type) {
			case *ast.Ident:
				if fo.info.Uses[y] == po {
					uses++
				}
			case *ast.AssignStmt:
				for _, l := range y.Lhs {
					if id := identOf(l); id != nil && fo.info.Uses[id] == po {
						assigned = true
					}
				}
			case *ast.IncDecStmt:
				if id := identOf(y.X); id != nil && fo.info.Uses[id] == po {
					assigned = true
				}
			case *ast.UnaryExpr:
				if y.Op == token.AND {
					if id := identOf(y.X); id != nil && fo.info.Uses[id] == po {
						assigned = true
					}
				}
			}
			return true
		})
		// an argument with effects may replace the parameter only where that keeps when and how often it is evaluated:
		// a single use, in the helper's first statement, outside loops and function literals
		early := false
		if !pureExpr(arg) && uses == 1 && len(hd.Body.List) > 0 {
			var scan func(n ast.Node, ok bool)
			scan = func(n ast.Node, ok bool) {
				ast.Inspect(n, func(x ast.Node) bool {
					switch y := x.(type) {
					case *ast.ForStmt, *ast.RangeStmt, *ast.FuncLit:
						if ok {
							scan(y, false)
							return false
						}
					case *ast.Ident:
						if fo.info.Uses[y] == po && ok {
							early = true
						}
					}
					return true
				})
			}
			switch first := hd.Body.List[0].(type) {
			case *ast.ForStmt, *ast.RangeStmt:
			default:
				scan(first, true)
			}
		}
		if !assigned && (pureExpr(arg) || early) {
			cl.subst[po] = arg
			return true
		}
		// param := arg
		prologue = append(prologue, &ast.AssignStmt{Lhs: []ast.Expr{param}, Tok: token.DEFINE, Rhs: []ast.Expr{arg}, TokPos: arg.Pos()})
		return true
	}
	if hd.Recv != nil && len(hd.Recv.List) == 1 && len(hd.Recv.List[0].Names) == 1 {
		sel, ok := unparen(call.Fun).(*ast.SelectorExpr)
		if !ok {
			return nil, false
		}
		bind(hd.Recv.List[0].Names[0], sel.X)
	}
	k := 0
	if hd.Type.Params != nil {
		for _, fl := range hd.Type.Params.List {
			if _, variadic := fl.Type.(*ast.Ellipsis); variadic {
				return nil, false
			}
			for _, nm := range fl.Names {
				if k >= len(call.Args) {
					return nil, false
				}
				bind(nm, call.Args[k])
				k++
			}
			if len(fl.Names) == 0 {
				k++
			}
		}
	}
	if k != len(call.Args) {
		return nil, false
	}
	body := cl.node(hd.Body).(*ast.BlockStmt)
	// named results of the helper become locals of the copy
	var named []ast.Expr
	var namedTypes []ast.Expr
	var namedOrig []types.Object
	if hd.Type.Results != nil {
		for _, fl := range hd.Type.Results.List {
			for _, nm := range fl.Names {
				named = append(named, cl.node(nm).(ast.Expr))
				namedTypes = append(namedTypes, cl.node(fl.Type).(ast.Expr))
				namedOrig = append(namedOrig, fo.info.Defs[nm])
			}
		}
	}
	stmts := body.List
	if !tail && tok == token.DEFINE && len(named) == len(targets) && len(named) > 0 {
		// `a, b := h()` with h's results named: the caller's new variables ARE h's result variables from now on
		// (one object each), so that a flag set inside the copy and tested after it is recognised as the same variable
		unified := true
		for _, t := range targets {
			if identOf(t) == nil {
				unified = false
			}
		}
		if unified {
			for i, t := range targets {
				tid := identOf(t)
				if tid.Name == "_" {
					continue
				}
				old := fo.info.Defs[tid]
				neu := ObjOf(fo.info, named[i])
				if old == nil || neu == nil {
					continue
				}
				ast.Inspect(within.Body, func(x ast.Node) bool {
					if id, ok := x.(*ast.Ident); ok && fo.info.Uses[id] == old {
						fo.info.Uses[id] = neu
					}
					return true
				})
				fo.info.Defs[tid] = neu
			}
			tok = token.ASSIGN
		}
	}
	if !tail && len(targets) > 0 {
		// `u, err := h()` (or `err = h()`) where every return of h yields the same local at a slot (`return nil, err` …
		// `return x, err`): the caller's variable and that local are one variable from now on
		slot := make([]map[types.Object]bool, len(targets))
		okSlots := true
		ast.Inspect(body, func(x ast.Node) bool {
			switch r := x.(type) {
			case *ast.FuncLit:
				return false
			case *ast.ReturnStmt:
				results := r.Results
				if len(results) == 0 && len(named) == len(targets) {
					results = named // bare return of named results
				}
				if len(results) != len(targets) {
					return true // a multi-valued call: says nothing about the slots
				}
				for j, e := range results {
					if slot[j] == nil {
						slot[j] = map[types.Object]bool{}
					}
					if id := identOf(e); id != nil && !IsNil(fo.info, e) {
						if v, ok := fo.info.Uses[id].(*types.Var); ok && !v.IsField() && v.Parent() != nil && v.Pkg() != nil && v.Parent() != v.Pkg().Scope() {
							slot[j][v] = true
							continue
						}
					}
					if ConstOf(fo.info, e) != nil || IsNil(fo.info, e) {
						continue // constants do not identify a variable
					}
					slot[j][nil] = true
				}
			}
			return true
		})
		_ = okSlots
		for j, t := range targets {
			tid := identOf(t)
			if tid == nil || tid.Name == "_" || len(slot[j]) != 1 {
				continue
			}
			var neu types.Object
			for o := range slot[j] {
				neu = o
			}
			if neu == nil {
				continue
			}
			if _, isParam := cl.subst[neu]; isParam {
				continue
			}
			if tok == token.DEFINE {
				old := fo.info.Defs[tid]
				if old == nil {
					continue
				}
				ast.Inspect(within.Body, func(x ast.Node) bool {
					if id, ok := x.(*ast.Ident); ok && fo.info.Uses[id] == old {
						fo.info.Uses[id] = neu
					}
					return true
				})
				fo.info.Defs[tid] = neu
			} else {
				// plain assignment to an existing variable of the caller: the copy's local becomes that variable
				callerObj := fo.info.Uses[tid]
				if callerObj == nil {
					continue
				}
				ast.Inspect(body, func(x ast.Node) bool {
					if id, ok := x.(*ast.Ident); ok {
						if fo.info.Uses[id] == neu {
							fo.info.Uses[id] = callerObj
						}
						if fo.info.Defs[id] == neu {
							fo.info.Defs[id] = callerObj
						}
					}
					return true
				})
				for k, nm := range named {
					if id := identOf(nm); id != nil && (fo.info.Defs[id] == neu || fo.info.Uses[id] == neu) {
						fo.info.Defs[id] = callerObj
						_ = k
					}
				}
			}
		}
	}
	if !tail {
		var ok bool
		stmts, ok = eliminateReturns(fo.info, stmts, targets, tok, named, cl)
		if !ok {
			return nil, false
		}
	} else if retSlot >= 0 {
		// every `return e` of the copy becomes `return a, e` (the caller's other results around it)
		okAll := true
		ast.Inspect(body, func(x ast.Node) bool {
			switch r := x.(type) {
			case *ast.FuncLit:
				return false
			case *ast.ReturnStmt:
				var val ast.Expr
				switch {
				case len(r.Results) == 1:
					val = r.Results[0]
				case len(r.Results) == 0 && len(named) == 1:
					val = named[0]
				default:
					okAll = false
					return false
				}
				res := make([]ast.Expr, len(retTemplate))
				for j, t := range retTemplate {
					if j == retSlot {
						res[j] = val
					} else {
						cl.depth++ // plain copy, no substitution: these live in the caller
						res[j] = cl.node(t).(ast.Expr)
						cl.depth--
					}
				}
				r.Results = res
			}
			return true
		})
		if !okAll {
			return nil, false
		}
	} else if len(named) > 0 {
		// bare returns of a helper with named results cannot simply become the caller's returns
		bare := false
		ast.Inspect(body, func(x ast.Node) bool {
			if r, ok := x.(*ast.ReturnStmt); ok && len(r.Results) == 0 {
				bare = true
			}
			return !bare
		})
		if bare {
			return nil, false
		}
	}
	// named results that were not identified with a variable of the caller are locals of the copy: declare them there
	for i, nm := range named {
		id := identOf(nm)
		if id == nil || id.Name == "_" || fo.info.Defs[id] != namedOrig[i] || namedOrig[i] == nil {
			continue
		}
		prologue = append(prologue, &ast.DeclStmt{Decl: &ast.GenDecl{Tok: token.VAR, TokPos: id.Pos(), Specs: []ast.Spec{&ast.ValueSpec{Names: []*ast.Ident{id}, Type: namedTypes[i]}}}})
	}
	fo.folded[f]++
	out := append(prologue, stmts...)
	// statements synthesised while eliminating returns belong to the copy as well
	for _, st := range out {
		ast.Inspect(st, func(x ast.Node) bool {
			if x != nil {
				if _, ok := fo.prefix[x]; !ok {
					fo.prefix[x] = cl.prefix
				}
			}
			return true
		})
	}
	fo.touch(within)
	return out, true
}

// newSide renders a type string computed on the current tree the way the known-functions file spells it; oldSide
// prepares a string of that file for the comparison (see typeAndFieldRenames).
func (fo *folder) newSide(s string) string { return respellTypes(s, fo.typeOld, fo.typeFresh) }
func (fo *folder) oldSide(s string) string { return respellTypes(s, nil, fo.typeGone) }

func (fo *folder) typeAndFieldRenames(m *Module, rel string, known map[string]string, log *[]string) {
	p := fo.p
	prefix := m.Name + "\t" + rel + "\t"
	scope := p.Types.Scope()
	// types
	var freshTypes []*types.TypeName
	oldOf := map[*types.TypeName]string{}
	for _, name := range scope.Names() {
		if tn, ok := scope.Lookup(name).(*types.TypeName); ok && !tn.IsAlias() {
			if _, isKnown := known[prefix+"type "+name]; !isKnown {
				freshTypes = append(freshTypes, tn)
			}
		}
	}
	renamed := map[types.Object]string{}
	fo.typeOld, fo.typeFresh, fo.typeGone = map[string]string{}, map[string]bool{}, map[string]bool{}
	for _, tn := range freshTypes {
		fo.typeFresh[tn.Name()] = true
	}
	for key := range known {
		if strings.HasPrefix(key, prefix+"type ") {
			if n := strings.TrimPrefix(key, prefix+"type "); scope.Lookup(n) == nil {
				fo.typeGone[n] = true
			}
		}
	}
	// a type that is gone and exactly one new type of the same shape (both ways).  Shapes mention other types of the
	// package, which may be renamed as well: the names of types not (yet) matched compare as "?", and matching is
	// repeated with what is known so far until nothing new is found.
	for progress := true; progress; {
		progress = false
		typeCands := map[string][]*types.TypeName{}
		typeHits := map[*types.TypeName]int{}
		for key, shape := range known {
			if !strings.HasPrefix(key, prefix+"type ") || shape == "" {
				continue
			}
			oldName := strings.TrimPrefix(key, prefix+"type ")
			if !fo.typeGone[oldName] {
				continue
			}
			for _, tn := range freshTypes {
				if fo.typeFresh[tn.Name()] && fo.newSide(TypeShape(tn)) == fo.oldSide(shape) {
					typeCands[oldName] = append(typeCands[oldName], tn)
					typeHits[tn]++
				}
			}
		}
		var names []string
		for oldName := range typeCands {
			names = append(names, oldName)
		}
		sort.Strings(names)
		for _, oldName := range names {
			tns := typeCands[oldName]
			if len(tns) == 1 && typeHits[tns[0]] == 1 {
				oldOf[tns[0]] = oldName
				renamed[tns[0]] = oldName
				if m.RenamedObjs == nil {
					m.RenamedObjs = map[string]types.Object{}
				}
				m.RenamedObjs[rel+"\t"+oldName] = tns[0]
				*log = append(*log, rel+".type "+oldName+" renamed to "+tns[0].Name())
				fo.typeOld[tns[0].Name()] = oldName
				delete(fo.typeFresh, tns[0].Name())
				delete(fo.typeGone, oldName)
				progress = true
			}
		}
	}
	// package-level constants (same type and value) and variables (same type)
	shapeOf := func(o types.Object) (kind, shape string) {
		q := types.RelativeTo(p.Types)
		switch x := o.(type) {
		case *types.Const:
			return "const", types.TypeString(x.Type(), q) + "=" + x.Val().ExactString()
		case *types.Var:
			return "var", types.TypeString(x.Type(), q)
		}
		return "", ""
	}
	for _, kind := range []string{"const", "var"} {
		var freshObjs []types.Object
		for _, name := range scope.Names() {
			o := scope.Lookup(name)
			if k, _ := shapeOf(o); k == kind {
				if _, isKnown := known[prefix+kind+" "+name]; !isKnown {
					freshObjs = append(freshObjs, o)
				}
			}
		}
		cands := map[string][]types.Object{}
		hits := map[types.Object]int{}
		for key, shape := range known {
			if !strings.HasPrefix(key, prefix+kind+" ") || shape == "" {
				continue
			}
			oldName := strings.TrimPrefix(key, prefix+kind+" ")
			if scope.Lookup(oldName) != nil {
				continue
			}
			for _, o := range freshObjs {
				if _, sh := shapeOf(o); fo.newSide(sh) == fo.oldSide(shape) {
					cands[oldName] = append(cands[oldName], o)
					hits[o]++
				}
			}
		}
		matched := map[string]bool{}
		for oldName, os := range cands {
			if len(os) == 1 && hits[os[0]] == 1 {
				renamed[os[0]] = oldName
				matched[oldName] = true
				if m.RenamedObjs == nil {
					m.RenamedObjs = map[string]types.Object{}
				}
				m.RenamedObjs[rel+"\t"+oldName] = os[0]
				*log = append(*log, rel+"."+kind+" "+oldName+" renamed to "+os[0].Name())
			}
		}
		// a variable whose type changed too (a map used as a set turned into a lookup table) is recognised by the
		// literals of its initialiser
		if kind == "var" {
			for key := range known {
				if !strings.HasPrefix(key, prefix+"var ") {
					continue
				}
				oldName := strings.TrimPrefix(key, prefix+"var ")
				fp := knownFingerprints[key]
				if scope.Lookup(oldName) != nil || matched[oldName] || len(fp) == 0 {
					continue
				}
				var hit types.Object
				n := 0
				for _, o := range freshObjs {
					if _, done := renamed[o]; done {
						continue
					}
					if g := VarInitLiterals(p, o); len(g) > 0 && fingerprintSimilarity(fp, g) >= 0.99 {
						hit = o
						n++
					}
				}
				if n == 1 {
					renamed[hit] = oldName
					if m.RenamedObjs == nil {
						m.RenamedObjs = map[string]types.Object{}
					}
					m.RenamedObjs[rel+"\t"+oldName] = hit
					*log = append(*log, rel+".var "+oldName+" is now "+hit.Name()+" (same initialiser literals)")
				}
			}
		}
	}
	// fields of known (or renamed) struct types
	for _, name := range scope.Names() {
		tn, ok := scope.Lookup(name).(*types.TypeName)
		if !ok || tn.IsAlias() {
			continue
		}
		typeName := name
		if o, ok := oldOf[tn]; ok {
			typeName = o
		} else if _, isKnown := known[prefix+"type "+name]; !isKnown {
			continue
		}
		st, ok := tn.Type().Underlying().(*types.Struct)
		if !ok {
			continue
		}
		q := types.RelativeTo(p.Types)
		present := map[string]bool{}
		for i := 0; i < st.NumFields(); i++ {
			present[st.Field(i).Name()] = true
		}
		fprefix := prefix + "field " + typeName + "."
		cands := map[string][]*types.Var{}
		hits := map[*types.Var]int{}
		for key, ft := range known {
			if !strings.HasPrefix(key, fprefix) {
				continue
			}
			oldField := strings.TrimPrefix(key, fprefix)
			if present[oldField] {
				continue
			}
			for i := 0; i < st.NumFields(); i++ {
				f := st.Field(i)
				if _, isKnown := known[fprefix+f.Name()]; isKnown || f.Embedded() {
					continue
				}
				if fo.newSide(types.TypeString(f.Type(), q)) == fo.oldSide(ft) {
					cands[oldField] = append(cands[oldField], f)
					hits[f]++
				}
			}
		}
		for oldField, fs := range cands {
			if len(fs) == 1 && hits[fs[0]] == 1 {
				renamed[fs[0]] = oldField
				*log = append(*log, rel+"."+typeName+"."+oldField+" renamed to "+fs[0].Name())
			}
		}
	}
	if len(renamed) == 0 {
		return
	}
	// the SSA program and call graph are built from the trees as loaded: build them before any identifier is respelled
	m.CallGraph()
	for o, n := range renamed {
		renamedObjs.Store(o, n)
	}
	// give the identifiers their old spelling back, in every analysed package
	for _, q := range m.Roots {
		for id, o := range q.TypesInfo.Uses {
			if v, ok := o.(*types.Var); ok {
				o = v.Origin()
			}
			if n, ok := renamed[o]; ok {
				id.Name = n
			}
		}
		for id, o := range q.TypesInfo.Defs {
			if o == nil {
				continue
			}
			if n, ok := renamed[o]; ok {
				id.Name = n
			}
		}
	}
}

// splitTopLevel splits "a, func(b, c) d, e" at the commas that are not nested in brackets.
func splitTopLevel(s string) []string {
	var out []string
	depth, start := 0, 0
	for i := 0; i < len(s); i++ {
		switch s[i] {
		case '(', '[', '{':
			depth++
		case ')', ']', '}':
			depth--
		case ',':
			if depth == 0 {
				out = append(out, strings.TrimSpace(s[start:i]))
				start = i + 1
			}
		}
	}
	if strings.TrimSpace(s[start:]) != "" {
		out = append(out, strings.TrimSpace(s[start:]))
	}
	return out
}

// restoreParamOrder: fd is a known function (possibly renamed) whose recorded signature has the same parameter types as
// today's, all distinct, in another order.  The declaration and every call get the recorded order back.
func (fo *folder) restoreParamOrder(fd *ast.FuncDecl, knownShape string) bool {
	info := fo.info
	f, _ := info.Defs[fd.Name].(*types.Func)
	if f == nil {
		return false
	}
	cur := fo.newSide(SigShape(f))
	old := fo.oldSide(knownShape)
	if cur == old {
		return false
	}
	params := func(shape string) ([]string, string, bool) {
		if !strings.HasPrefix(shape, "(") {
			return nil, "", false
		}
		depth := 0
		for i := 0; i < len(shape); i++ {
			switch shape[i] {
			case '(':
				depth++
			case ')':
				depth--
				if depth == 0 {
					return splitTopLevel(shape[1:i]), shape[i+1:], true
				}
			}
		}
		return nil, "", false
	}
	cp, cr, ok1 := params(cur)
	op, or, ok2 := params(old)
	if !ok1 || !ok2 || cr != or || len(cp) != len(op) || len(cp) < 2 {
		return false
	}
	pos := map[string]int{}
	for i, t := range cp {
		if _, dup := pos[t]; dup {
			return false
		}
		pos[t] = i
	}
	perm := make([]int, len(op)) // old position -> current position
	same := true
	for i, t := range op {
		j, ok := pos[t]
		if !ok {
			return false
		}
		perm[i] = j
		if i != j {
			same = false
		}
	}
	if same {
		return false
	}
	if strings.HasPrefix(cp[len(cp)-1], "...") != strings.HasPrefix(op[len(op)-1], "...") || (strings.HasPrefix(cp[len(cp)-1], "...") && perm[len(op)-1] != len(cp)-1) {
		return false
	}
	// one parameter per field in the declaration
	var single []*ast.Field
	for _, fl := range fd.Type.Params.List {
		if len(fl.Names) == 0 {
			return false
		}
		for _, nm := range fl.Names {
			single = append(single, &ast.Field{Names: []*ast.Ident{nm}, Type: fl.Type})
		}
	}
	if len(single) != len(cp) {
		return false
	}
	// every reference is a plain call with one argument per parameter
	var calls []*ast.CallExpr
	okAll := true
	for _, q := range fo.m.Roots {
		for _, file := range q.Syntax {
			par := Parents(file)
			ast.Inspect(file, func(x ast.Node) bool {
				id, ok := x.(*ast.Ident)
				if !ok {
					return true
				}
				u, _ := q.TypesInfo.Uses[id].(*types.Func)
				if u == nil || u.Origin() != f {
					return true
				}
				var fun ast.Expr = id
				if sel, ok := par[id].(*ast.SelectorExpr); ok && sel.Sel == id {
					fun = sel
				}
				for {
					if pe, ok := par[fun].(*ast.ParenExpr); ok {
						fun = pe
						continue
					}
					if ie, ok := par[fun].(*ast.IndexExpr); ok && ie.X == fun {
						fun = ie
						continue
					}
					if ie, ok := par[fun].(*ast.IndexListExpr); ok && ie.X == fun {
						fun = ie
						continue
					}
					break
				}
				call, ok := par[fun].(*ast.CallExpr)
				if !ok || call.Fun != fun || len(call.Args) < len(cp)-1 || (len(call.Args) == 1 && len(cp) > 1) {
					okAll = false
					return true
				}
				calls = append(calls, call)
				return true
			})
		}
	}
	if !okAll {
		return false
	}
	variadic := strings.HasPrefix(cp[len(cp)-1], "...")
	fixed := len(cp)
	if variadic {
		fixed--
	}
	for _, call := range calls {
		if len(call.Args) < fixed {
			return false
		}
	}
	reordered := make([]*ast.Field, len(single))
	for i := range op {
		reordered[i] = single[perm[i]]
	}
	fd.Type.Params.List = reordered
	for _, call := range calls {
		args := make([]ast.Expr, 0, len(call.Args))
		for i := 0; i < fixed; i++ {
			args = append(args, call.Args[perm[i]])
		}
		args = append(args, call.Args[fixed:]...)
		call.Args = args
		for _, q := range fo.m.Roots {
			for _, file := range q.Syntax {
				if file.Pos() <= call.Pos() && call.Pos() <= file.End() && q == fo.p {
					for _, d := range file.Decls {
						if cfd, ok := d.(*ast.FuncDecl); ok && cfd.Pos() <= call.Pos() && call.Pos() <= cfd.End() {
							fo.touch(cfd)
						}
					}
				}
			}
		}
	}
	return true
}

// zeroValueExpr builds the expression of the zero value of t with its type information, or nil for types whose zero value
// needs a type expression (structs, arrays).
func (fo *folder) zeroValueExpr(t types.Type, pos token.Pos) ast.Expr {
	switch u := t.Underlying().(type) {
	case *types.Basic:
		switch {
		case u.Info()&types.IsString != 0:
			l := &ast.BasicLit{Kind: token.STRING, Value: `""`, ValuePos: pos}
			fo.info.Types[l] = types.TypeAndValue{Type: t, Value: constant.MakeString("")}
			return l
		case u.Info()&types.IsBoolean != 0:
			id := &ast.Ident{Name: "false", NamePos: pos}
			fo.info.Uses[id] = types.Universe.Lookup("false")
			fo.info.Types[id] = types.TypeAndValue{Type: t, Value: constant.MakeBool(false)}
			return id
		case u.Info()&types.IsNumeric != 0:
			l := &ast.BasicLit{Kind: token.INT, Value: "0", ValuePos: pos}
			fo.info.Types[l] = types.TypeAndValue{Type: t, Value: constant.MakeInt64(0)}
			return l
		}
	case *types.Pointer, *types.Slice, *types.Map, *types.Interface, *types.Signature, *types.Chan:
		id := &ast.Ident{Name: "nil", NamePos: pos}
		fo.info.Uses[id] = types.Universe.Lookup("nil")
		fo.info.Types[id] = types.TypeAndValue{Type: types.Typ[types.UntypedNil]}
		return id
	}
	return nil
}

// expandParamObjects rewrites fd and its call sites when fd has a parameter of a fresh named struct type that the body
// only uses field by field and every call site passes as a keyed composite literal: the parameter becomes one parameter
// per field and the struct is rebuilt as a local at the top of the body.
func (fo *folder) expandParamObjects(fd *ast.FuncDecl, fresh func(*types.TypeName) bool) int {
	info := fo.info
	f, _ := info.Defs[fd.Name].(*types.Func)
	if f == nil || fd.Type.Params == nil {
		return 0
	}
	if fo.prefix == nil {
		fo.prefix = map[ast.Node][]token.Pos{}
	}
	count := 0
	for pi := 0; pi < len(fd.Type.Params.List); pi++ {
		fl := fd.Type.Params.List[pi]
		if len(fl.Names) != 1 {
			continue
		}
		pobj := info.Defs[fl.Names[0]]
		if pobj == nil {
			continue
		}
		named, ok := pobj.Type().(*types.Named)
		if !ok || !fresh(named.Obj()) {
			continue
		}
		st, ok := named.Underlying().(*types.Struct)
		if !ok || st.NumFields() == 0 {
			continue
		}
		// index of this parameter among the arguments
		argIdx := 0
		for _, g := range fd.Type.Params.List[:pi] {
			if len(g.Names) == 0 {
				argIdx++
			}
			argIdx += len(g.Names)
		}
		// every reference to the function is a call with a composite literal in that position
		type site struct {
			call *ast.CallExpr
			lit  *ast.CompositeLit
		}
		var sites []site
		okAll := true
		for _, file := range fo.p.Syntax {
			par := Parents(file)
			ast.Inspect(file, func(x ast.Node) bool {
				id, ok := x.(*ast.Ident)
				if !ok {
					return true
				}
				u, _ := info.Uses[id].(*types.Func)
				if u == nil || u.Origin() != f {
					return true
				}
				var fun ast.Expr = id
				if sel, ok := par[id].(*ast.SelectorExpr); ok && sel.Sel == id {
					fun = sel
				}
				for {
					if pe, ok := par[fun].(*ast.ParenExpr); ok {
						fun = pe
						continue
					}
					if ie, ok := par[fun].(*ast.IndexExpr); ok && ie.X == fun {
						fun = ie
						continue
					}
					break
				}
				call, ok := par[fun].(*ast.CallExpr)
				if !ok || call.Fun != fun || call.Ellipsis.IsValid() || argIdx >= len(call.Args) {
					okAll = false
					return true
				}
				lit, ok := unparen(call.Args[argIdx]).(*ast.CompositeLit)
				if !ok {
					okAll = false
					return true
				}
				for _, el := range lit.Elts {
					kv, isKV := el.(*ast.KeyValueExpr)
					if !isKV {
						okAll = false
						continue
					}
					if _, isId := kv.Key.(*ast.Ident); !isId {
						okAll = false
					}
				}
				sites = append(sites, site{call, lit})
				return true
			})
		}
		// other packages must not call it
		for _, q := range fo.m.Roots {
			if q == fo.p {
				continue
			}
			for _, o := range q.TypesInfo.Uses {
				if u, ok := o.(*types.Func); ok && u.Origin() == f {
					okAll = false
				}
			}
		}
		if !okAll || len(sites) == 0 {
			continue
		}
		// the field type expressions and zero values
		var fieldType []ast.Expr
		for _, file := range fo.p.Syntax {
			ast.Inspect(file, func(n ast.Node) bool {
				ts, ok := n.(*ast.TypeSpec)
				if !ok || info.Defs[ts.Name] != types.Object(named.Obj()) {
					return true
				}
				if stt, ok := ts.Type.(*ast.StructType); ok {
					for _, fld := range stt.Fields.List {
						k := len(fld.Names)
						if k == 0 {
							k = 1
						}
						for j := 0; j < k; j++ {
							fieldType = append(fieldType, fld.Type)
						}
					}
				}
				return false
			})
		}
		if len(fieldType) != st.NumFields() {
			continue
		}
		zeroOK := true
		for j := 0; j < st.NumFields(); j++ {
			if fo.zeroValueExpr(st.Field(j).Type(), fd.Pos()) == nil {
				zeroOK = false
			}
		}
		if !zeroOK {
			continue
		}
		// new parameters, and the local that rebuilds the struct
		pos := fl.Pos()
		var newFields []*ast.Field
		var elts []ast.Expr
		for j := 0; j < st.NumFields(); j++ {
			fv := st.Field(j)
			nv := types.NewParam(pos, fv.Pkg(), pobj.Name()+"_"+fv.Name(), fv.Type())
			nid := &ast.Ident{Name: nv.Name(), NamePos: pos}
			info.Defs[nid] = nv
			cl := fo.newCloner(fd)
			newFields = append(newFields, &ast.Field{Names: []*ast.Ident{nid}, Type: cl.node(fieldType[j]).(ast.Expr)})
			use := &ast.Ident{Name: nv.Name(), NamePos: fd.Body.Lbrace}
			info.Uses[use] = nv
			info.Types[use] = types.TypeAndValue{Type: fv.Type()}
			key := &ast.Ident{Name: fv.Name(), NamePos: fd.Body.Lbrace}
			info.Uses[key] = fv
			elts = append(elts, &ast.KeyValueExpr{Key: key, Value: use})
		}
		tcl := fo.newCloner(fd)
		lit := &ast.CompositeLit{Type: tcl.node(fl.Type).(ast.Expr), Lbrace: fd.Body.Lbrace, Elts: elts, Rbrace: fd.Body.Lbrace}
		info.Types[lit] = types.TypeAndValue{Type: named}
		lv := types.NewVar(fd.Body.Lbrace, fo.p.Types, pobj.Name(), named)
		lid := &ast.Ident{Name: lv.Name(), NamePos: fd.Body.Lbrace}
		info.Defs[lid] = lv
		def := &ast.AssignStmt{Lhs: []ast.Expr{lid}, Tok: token.DEFINE, TokPos: fd.Body.Lbrace, Rhs: []ast.Expr{lit}}
		ast.Inspect(fd.Body, func(x ast.Node) bool {
			if id, ok := x.(*ast.Ident); ok && info.Uses[id] == pobj {
				info.Uses[id] = lv
			}
			return true
		})
		fd.Body.List = append([]ast.Stmt{def}, fd.Body.List...)
		params := append([]*ast.Field{}, fd.Type.Params.List[:pi]...)
		params = append(params, newFields...)
		params = append(params, fd.Type.Params.List[pi+1:]...)
		fd.Type.Params.List = params
		// the call sites
		for _, s := range sites {
			vals := make([]ast.Expr, st.NumFields())
			for _, el := range s.lit.Elts {
				kv := el.(*ast.KeyValueExpr)
				for j := 0; j < st.NumFields(); j++ {
					if st.Field(j).Name() == kv.Key.(*ast.Ident).Name {
						vals[j] = kv.Value
					}
				}
			}
			for j := range vals {
				if vals[j] == nil {
					vals[j] = fo.zeroValueExpr(st.Field(j).Type(), s.lit.Pos())
				}
			}
			args := append([]ast.Expr{}, s.call.Args[:argIdx]...)
			args = append(args, vals...)
			args = append(args, s.call.Args[argIdx+1:]...)
			s.call.Args = args
			for _, file := range fo.p.Syntax {
				if file.Pos() <= s.call.Pos() && s.call.Pos() <= file.End() {
					for _, d := range file.Decls {
						if cfd, ok := d.(*ast.FuncDecl); ok && cfd.Pos() <= s.call.Pos() && s.call.Pos() <= cfd.End() {
							fo.touch(cfd)
						}
					}
				}
			}
		}
		pi += len(newFields) - 1
		count++
	}
	return count
}

// coalesceParamCopies merges, in fd, every local `x := p` declared at the top level of the body, where p is a parameter
// that is mentioned nowhere else in the function, with p: the uses of x become uses of p and the declaration is dropped.
func (fo *folder) coalesceParamCopies(fd *ast.FuncDecl) int {
	if fd.Type.Params == nil || fd.Body == nil {
		return 0
	}
	params := map[types.Object]*ast.Ident{}
	for _, fl := range fd.Type.Params.List {
		for _, nm := range fl.Names {
			if o := fo.info.Defs[nm]; o != nil && nm.Name != "_" {
				params[o] = nm
			}
		}
	}
	uses := map[types.Object]int{}
	ast.Inspect(fd.Body, func(x ast.Node) bool {
		if id, ok := x.(*ast.Ident); ok {
			if o := fo.info.Uses[id]; o != nil && params[o] != nil {
				uses[o]++
			}
		}
		return true
	})
	n := 0
	for i, st := range fd.Body.List {
		as, ok := st.(*ast.AssignStmt)
		if !ok || as.Tok != token.DEFINE || len(as.Lhs) != 1 || len(as.Rhs) != 1 {
			continue
		}
		lid, ok := as.Lhs[0].(*ast.Ident)
		rid, ok2 := unparen(as.Rhs[0]).(*ast.Ident)
		if !ok || !ok2 {
			continue
		}
		x, p := fo.info.Defs[lid], fo.info.Uses[rid]
		if x == nil || p == nil || params[p] == nil || uses[p] != 1 || !types.Identical(x.Type(), p.Type()) {
			continue
		}
		ast.Inspect(fd.Body, func(y ast.Node) bool {
			if id, ok := y.(*ast.Ident); ok && fo.info.Uses[id] == x {
				fo.info.Uses[id] = p
				id.Name = params[p].Name
			}
			return true
		})
		fd.Body.List[i] = &ast.EmptyStmt{Semicolon: as.Pos(), Implicit: true}
		n++
	}
	return n
}

// scalarReplace replaces, in fd, every local variable v of a fresh named struct type T (or *T) that is created in place
// (`v := T{…}`, `v := &T{…}`, `v := new(T)`, `var v T`) and used only through direct field selections `v.f` by one
// variable per field; it returns the number of locals replaced.  This undoes "closure capturing locals -> method on a
// small state struct" once the method value has been folded back into a function literal.
func (fo *folder) scalarReplace(fd *ast.FuncDecl, fresh func(*types.TypeName) bool) int {
	info := fo.info
	if fo.prefix == nil {
		fo.prefix = map[ast.Node][]token.Pos{}
	}
	count := 0
	done := map[types.Object]bool{}
	for iter := 0; iter < 8; iter++ {
		// candidate definitions
		type cand struct {
			stmt  ast.Stmt
			v     types.Object
			named *types.Named
			lit   *ast.CompositeLit
		}
		var cands []cand
		structOf := func(t types.Type) *types.Named {
			if p, ok := t.(*types.Pointer); ok {
				t = p.Elem()
			}
			n, ok := t.(*types.Named)
			if !ok || !fresh(n.Obj()) {
				return nil
			}
			if _, isStruct := n.Underlying().(*types.Struct); !isStruct {
				return nil
			}
			return n
		}
		ast.Inspect(fd.Body, func(n ast.Node) bool {
			switch x := n.(type) {
			case *ast.AssignStmt:
				if x.Tok != token.DEFINE || len(x.Lhs) != 1 || len(x.Rhs) != 1 {
					return true
				}
				id, ok := x.Lhs[0].(*ast.Ident)
				if !ok || info.Defs[id] == nil || done[info.Defs[id]] {
					return true
				}
				v := info.Defs[id]
				named := structOf(v.Type())
				if named == nil {
					return true
				}
				e := unparen(x.Rhs[0])
				if u, ok := e.(*ast.UnaryExpr); ok && u.Op == token.AND {
					e = unparen(u.X)
				}
				switch y := e.(type) {
				case *ast.CompositeLit:
					cands = append(cands, cand{x, v, named, y})
				case *ast.CallExpr:
					if b, ok := info.Uses[identOf(y.Fun)].(*types.Builtin); ok && b.Name() == "new" {
						cands = append(cands, cand{x, v, named, nil})
					}
				}
			case *ast.DeclStmt:
				gd, ok := x.Decl.(*ast.GenDecl)
				if !ok || gd.Tok != token.VAR || len(gd.Specs) != 1 {
					return true
				}
				vs := gd.Specs[0].(*ast.ValueSpec)
				if len(vs.Names) != 1 || len(vs.Values) != 0 || info.Defs[vs.Names[0]] == nil || done[info.Defs[vs.Names[0]]] {
					return true
				}
				v := info.Defs[vs.Names[0]]
				if _, isPtr := v.Type().(*types.Pointer); isPtr {
					return true // a nil pointer, not a struct in place
				}
				if named := structOf(v.Type()); named != nil {
					cands = append(cands, cand{x, v, named, nil})
				}
			}
			return true
		})
		var pick *cand
		for i := range cands {
			c := &cands[i]
			done[c.v] = true
			ok, uses := true, 0
			selOf := map[*ast.Ident]bool{}
			ast.Inspect(fd.Body, func(n ast.Node) bool {
				if sel, isSel := n.(*ast.SelectorExpr); isSel {
					if id, isId := sel.X.(*ast.Ident); isId && info.Uses[id] == c.v {
						s := info.Selections[sel]
						if s != nil && s.Kind() == types.FieldVal && len(s.Index()) == 1 {
							selOf[id] = true
						}
					}
				}
				return true
			})
			ast.Inspect(fd.Body, func(n ast.Node) bool {
				if id, isId := n.(*ast.Ident); isId && info.Uses[id] == c.v {
					uses++
					if !selOf[id] {
						ok = false
					}
				}
				return true
			})
			if c.lit != nil {
				for _, el := range c.lit.Elts {
					if kv, isKV := el.(*ast.KeyValueExpr); isKV {
						if _, isId := kv.Key.(*ast.Ident); !isId {
							ok = false
						}
					}
				}
			}
			if ok {
				pick = c
				break
			}
		}
		if pick == nil {
			break
		}
		st := pick.named.Underlying().(*types.Struct)
		// the type's declaration, for the field type expressions
		var fieldType []ast.Expr
		for _, file := range fo.p.Syntax {
			ast.Inspect(file, func(n ast.Node) bool {
				ts, ok := n.(*ast.TypeSpec)
				if !ok || info.Defs[ts.Name] != types.Object(pick.named.Obj()) {
					return true
				}
				if stt, ok := ts.Type.(*ast.StructType); ok {
					for _, f := range stt.Fields.List {
						k := len(f.Names)
						if k == 0 {
							k = 1
						}
						for j := 0; j < k; j++ {
							fieldType = append(fieldType, f.Type)
						}
					}
				}
				return false
			})
		}
		if len(fieldType) != st.NumFields() {
			continue
		}
		vars := make([]*types.Var, st.NumFields())
		inits := make([]ast.Expr, st.NumFields())
		if pick.lit != nil {
			for i, el := range pick.lit.Elts {
				if kv, isKV := el.(*ast.KeyValueExpr); isKV {
					for j := 0; j < st.NumFields(); j++ {
						if st.Field(j).Name() == kv.Key.(*ast.Ident).Name {
							inits[j] = kv.Value
						}
					}
				} else if i < len(inits) {
					inits[i] = el
				}
			}
		}
		pre := fo.prefix[pick.stmt]
		// a field that is initialised with a plain variable which is never assigned again, and is itself never written,
		// simply stands for that variable
		direct := make([]types.Object, st.NumFields())
		{
			written := map[int]bool{}
			assignedObj := map[types.Object]int{}
			ast.Inspect(fd.Body, func(n ast.Node) bool {
				mark := func(e ast.Expr) {
					e = unparen(e)
					if sel, ok := e.(*ast.SelectorExpr); ok {
						if id, ok := sel.X.(*ast.Ident); ok && info.Uses[id] == pick.v {
							if sl := info.Selections[sel]; sl != nil && len(sl.Index()) == 1 {
								written[sl.Index()[0]] = true
							}
						}
					}
					if id, ok := e.(*ast.Ident); ok {
						if o := info.Uses[id]; o != nil {
							assignedObj[o]++
						}
					}
				}
				switch x := n.(type) {
				case *ast.AssignStmt:
					if x.Tok != token.DEFINE {
						for _, l := range x.Lhs {
							mark(l)
						}
					}
				case *ast.IncDecStmt:
					mark(x.X)
				case *ast.UnaryExpr:
					if x.Op == token.AND {
						mark(x.X)
					}
				case *ast.RangeStmt:
					if x.Tok == token.ASSIGN {
						if x.Key != nil {
							mark(x.Key)
						}
						if x.Value != nil {
							mark(x.Value)
						}
					}
				}
				return true
			})
			for j := range inits {
				if inits[j] == nil || written[j] {
					continue
				}
				if id, ok := unparen(inits[j]).(*ast.Ident); ok {
					if o, isVar := info.Uses[id].(*types.Var); isVar && !o.IsField() && assignedObj[o] == 0 && o.Pkg() == fo.p.Types && o.Parent() != fo.p.Types.Scope() {
						direct[j] = o
					}
				}
			}
		}
		var repl []ast.Stmt
		for j := 0; j < st.NumFields(); j++ {
			if direct[j] != nil {
				continue
			}
			f := st.Field(j)
			pos := pick.stmt.Pos()
			if inits[j] != nil {
				pos = inits[j].Pos()
			}
			vars[j] = types.NewVar(pos, f.Pkg(), pick.v.Name()+"_"+f.Name(), f.Type())
			id := &ast.Ident{Name: vars[j].Name(), NamePos: pos}
			info.Defs[id] = vars[j]
			fo.prefix[id] = pre
			var stn ast.Stmt
			if inits[j] != nil {
				stn = &ast.AssignStmt{Lhs: []ast.Expr{id}, Tok: token.DEFINE, TokPos: pos, Rhs: []ast.Expr{inits[j]}}
			} else {
				cl := fo.newCloner(pick.stmt)
				te := cl.node(fieldType[j]).(ast.Expr)
				vs := &ast.ValueSpec{Names: []*ast.Ident{id}, Type: te}
				fo.prefix[vs] = pre
				gd := &ast.GenDecl{Tok: token.VAR, TokPos: pos, Specs: []ast.Spec{vs}}
				fo.prefix[gd] = pre
				stn = &ast.DeclStmt{Decl: gd}
			}
			fo.prefix[stn] = pre
			repl = append(repl, stn)
		}
		replaced := false
		astutil.Apply(fd.Body, func(c *astutil.Cursor) bool {
			switch x := c.Node().(type) {
			case *ast.SelectorExpr:
				if id, isId := x.X.(*ast.Ident); isId && info.Uses[id] == pick.v {
					s := info.Selections[x]
					var nv types.Object = vars[s.Index()[0]]
					if d := direct[s.Index()[0]]; d != nil {
						nv = d
					}
					nid := &ast.Ident{Name: nv.Name(), NamePos: x.Pos()}
					info.Uses[nid] = nv
					if tv, ok := info.Types[x]; ok {
						info.Types[nid] = tv
					}
					fo.prefix[nid] = fo.prefix[x]
					c.Replace(nid)
					return false
				}
			case ast.Stmt:
				if x == pick.stmt && c.Index() >= 0 {
					for _, r := range repl {
						c.InsertBefore(r)
					}
					c.Delete()
					replaced = true
					return false
				}
			}
			return true
		}, nil)
		if replaced {
			count++
		}
	}
	return count
}

func (fo *folder) touch(fd *ast.FuncDecl) {
	if fo.touched == nil {
		fo.touched = map[*ast.FuncDecl]bool{}
	}
	fo.touched[fd] = true
}

func enclosingDecl(file *ast.File, _ token.Pos, c *astutil.Cursor) *ast.FuncDecl {
	// the cursor has no ancestor chain: find the declaration whose subtree contains the cursor's parent
	var found *ast.FuncDecl
	for _, d := range file.Decls {
		fd, ok := d.(*ast.FuncDecl)
		if !ok || fd.Body == nil {
			continue
		}
		ast.Inspect(fd, func(x ast.Node) bool {
			if x == c.Parent() {
				found = fd
			}
			return found == nil
		})
		if found != nil {
			break
		}
	}
	return found
}

// ObjPos gives the position of an object's declaration in the renumbered position space (see renumber); for objects
// outside folded functions it is o.Pos().
func ObjPos(o types.Object) token.Pos {
	if o == nil {
		return token.NoPos
	}
	if p, ok := objPos.Load(o); ok {
		return p.(token.Pos)
	}
	return o.Pos()
}

var objPos sync.Map

// renumber gives every position inside fd a fresh value in a synthetic file, in inlined source order (copies come where
// the call they replace stood), and registers the original file/line of each so that reports still point at real source.
func (fo *folder) renumber(fd *ast.FuncDecl) {
	type rec struct {
		field reflect.Value
		key   []token.Pos
	}
	var recs []rec
	posType := reflect.TypeOf(token.NoPos)
	ast.Inspect(fd, func(n ast.Node) bool {
		if n == nil {
			return false
		}
		rv := reflect.ValueOf(n)
		if rv.Kind() != reflect.Ptr || rv.IsNil() {
			return true
		}
		ev := rv.Elem()
		if ev.Kind() != reflect.Struct {
			return true
		}
		pre := fo.prefix[n]
		for i := 0; i < ev.NumField(); i++ {
			f := ev.Field(i)
			if f.Type() == posType && f.CanSet() && token.Pos(f.Int()).IsValid() {
				recs = append(recs, rec{f, append(append([]token.Pos{}, pre...), token.Pos(f.Int()))})
			}
		}
		return true
	})
	if len(recs) == 0 {
		return
	}
	less := func(a, b []token.Pos) bool {
		for i := 0; i < len(a) && i < len(b); i++ {
			if a[i] != b[i] {
				return a[i] < b[i]
			}
		}
		return len(a) < len(b)
	}
	sort.SliceStable(recs, func(i, j int) bool { return less(recs[i].key, recs[j].key) })
	origFile := fo.m.Fset.File(fd.Name.Pos())
	name := "folded.go"
	if origFile != nil {
		name = origFile.Name()
	}
	const step = 64
	file := fo.m.Fset.AddFile(name, -1, step*(len(recs)+2))
	same := func(a, b []token.Pos) bool { return !less(a, b) && !less(b, a) }
	idx := 0
	for i := range recs {
		if i > 0 && !same(recs[i].key, recs[i-1].key) {
			idx++
		}
		off := step * (idx + 1)
		orig := fo.m.Fset.Position(recs[i].key[len(recs[i].key)-1])
		if i == 0 || !same(recs[i].key, recs[i-1].key) {
			file.AddLineColumnInfo(off, orig.Filename, orig.Line, orig.Column)
		}
		recs[i].field.SetInt(int64(file.Pos(off)))
	}
	ast.Inspect(fd, func(n ast.Node) bool {
		if id, ok := n.(*ast.Ident); ok {
			if o := fo.info.Defs[id]; o != nil {
				if _, dup := objPos.Load(o); !dup {
					objPos.Store(o, id.NamePos)
				}
			}
		}
		return true
	})
}

// eliminateReturns rewrites a statement list whose returns end a spliced-in helper: `return a, b` becomes
// `targets = a, b`, and the statements that would run after a conditional return are moved (copied, when several
// branches fall through) into the branches that do not return.  ok is false when the shape cannot be expressed without
// jumps (a return inside a loop or select) or the copy would grow unreasonably.
func eliminateReturns(info *types.Info, list []ast.Stmt, targets []ast.Expr, tok token.Token, named []ast.Expr, cl *cloner) ([]ast.Stmt, bool) {
	budget := 600
	assign := func(r *ast.ReturnStmt) []ast.Stmt {
		res := r.Results
		if len(res) == 0 {
			res = named
		}
		if len(targets) == 0 || len(res) == 0 {
			// the values are dropped, but calls among them still run
			var out []ast.Stmt
			for _, e := range res {
				if _, isCall := unparen(e).(*ast.CallExpr); isCall {
					out = append(out, &ast.ExprStmt{X: e})
				}
			}
			return out
		}
		// drop `x = x` pairs (a named result returned into the variable it was unified with)
		if len(res) == len(targets) {
			var l, rr []ast.Expr
			for i := range res {
				if lo, ro := ObjOf(info, targets[i]), ObjOf(info, res[i]); lo != nil && lo == ro {
					continue
				}
				l, rr = append(l, targets[i]), append(rr, res[i])
			}
			if len(l) == 0 {
				return nil
			}
			return []ast.Stmt{&ast.AssignStmt{Lhs: l, Tok: tok, Rhs: rr, TokPos: r.Pos()}}
		}
		return []ast.Stmt{&ast.AssignStmt{Lhs: targets, Tok: tok, Rhs: res, TokPos: r.Pos()}}
	}
	hasReturn := func(n ast.Node) bool {
		found := false
		ast.Inspect(n, func(x ast.Node) bool {
			switch x.(type) {
			case *ast.FuncLit:
				return false
			case *ast.ReturnStmt:
				found = true
			}
			return !found
		})
		return found
	}
	used := map[ast.Stmt]bool{}
	// fresh returns the continuation, copied if it was already placed somewhere
	fresh := func(cont []ast.Stmt) []ast.Stmt {
		var out []ast.Stmt
		for _, s := range cont {
			if used[s] {
				cl.depth++
				c := cl.node(s).(ast.Stmt)
				cl.depth--
				out = append(out, c)
				budget -= 5
			} else {
				used[s] = true
				out = append(out, s)
			}
		}
		return out
	}
	var process func(list, cont []ast.Stmt) ([]ast.Stmt, bool)
	process = func(list, cont []ast.Stmt) ([]ast.Stmt, bool) {
		if budget <= 0 {
			return nil, false
		}
		var out []ast.Stmt
		for i, s := range list {
			budget--
			if !hasReturn(s) {
				out = append(out, s)
				continue
			}
			after := append(append([]ast.Stmt{}, list[i+1:]...), cont...)
			switch x := s.(type) {
			case *ast.ReturnStmt:
				return append(out, assign(x)...), true
			case *ast.BlockStmt:
				inner, ok := process(x.List, after)
				if !ok {
					return nil, false
				}
				return append(out, inner...), true
			case *ast.IfStmt:
				thenL, ok1 := process(x.Body.List, after)
				var elseStmts []ast.Stmt
				switch e := x.Else.(type) {
				case *ast.BlockStmt:
					elseStmts = e.List
				case *ast.IfStmt:
					elseStmts = []ast.Stmt{e}
				}
				elseL, ok2 := process(elseStmts, after)
				if !ok1 || !ok2 {
					return nil, false
				}
				n := &ast.IfStmt{If: x.If, Init: x.Init, Cond: x.Cond, Body: &ast.BlockStmt{Lbrace: x.Body.Lbrace, List: thenL, Rbrace: x.Body.Rbrace}}
				if len(elseL) > 0 {
					n.Else = &ast.BlockStmt{List: elseL}
				}
				return append(out, n), true
			case *ast.SwitchStmt, *ast.TypeSwitchStmt:
				var body *ast.BlockStmt
				if sw, ok := x.(*ast.SwitchStmt); ok {
					body = sw.Body
				} else {
					body = x.(*ast.TypeSwitchStmt).Body
				}
				hasDefault := false
				for _, c := range body.List {
					cc := c.(*ast.CaseClause)
					if cc.List == nil {
						hasDefault = true
					}
					for _, bs := range cc.Body {
						if br, ok := bs.(*ast.BranchStmt); ok && br.Tok == token.FALLTHROUGH {
							return nil, false
						}
					}
					nl, ok := process(cc.Body, after)
					if !ok {
						return nil, false
					}
					cc.Body = nl
				}
				if !hasDefault && len(after) > 0 {
					body.List = append(body.List, &ast.CaseClause{Case: body.Rbrace, Body: fresh(after)})
				}
				return append(out, s), true
			default:
				return nil, false // return inside a loop, select, …
			}
		}
		if len(cont) == 0 {
			return out, true
		}
		// the list fell through: what follows the enclosing statement runs next (and may itself return)
		more, ok := process(fresh(cont), nil)
		if !ok {
			return nil, false
		}
		return append(out, more...), true
	}
	out, ok := process(list, nil)
	return out, ok && budget > 0
}

// ---- cloning with type information ---------------------------------------------------

type cloner struct {
	info   *types.Info
	subst  map[types.Object]ast.Expr
	depth  int
	fo     *folder
	prefix []token.Pos
}

func (fo *folder) newCloner(at ast.Node) *cloner {
	if fo.prefix == nil {
		fo.prefix = map[ast.Node][]token.Pos{}
	}
	pre := append(append([]token.Pos{}, fo.prefix[at]...), at.Pos())
	return &cloner{info: fo.info, subst: map[types.Object]ast.Expr{}, fo: fo, prefix: pre}
}

var (
	nodeType         = reflect.TypeOf((*ast.Node)(nil)).Elem()
	commentGroupType = reflect.TypeOf((*ast.CommentGroup)(nil))
	objectType       = reflect.TypeOf((*ast.Object)(nil))
	scopeType        = reflect.TypeOf((*ast.Scope)(nil))
)

// node returns a deep copy of n with parameter uses replaced by (copies of) their arguments and the type information of
// every copied node recorded.
func (cl *cloner) node(n ast.Node) ast.Node {
	if n == nil || reflect.ValueOf(n).IsNil() {
		return n
	}
	if id, ok := n.(*ast.Ident); ok && cl.depth == 0 {
		if arg, ok := cl.subst[cl.info.Uses[id]]; ok && cl.info.Uses[id] != nil {
			// a copy of the argument, without further substitution (it lives in the caller's scope)
			cl.depth++
			c := cl.node(arg).(ast.Expr)
			cl.depth--
			// the copy stands where the parameter stood: rules order constructs by position
			ast.Inspect(c, func(x ast.Node) bool {
				switch y := x.(type) {
				case *ast.FuncLit, *ast.CompositeLit, *ast.CallExpr:
					return false
				case *ast.Ident:
					y.NamePos = id.Pos()
				case *ast.BasicLit:
					y.ValuePos = id.Pos()
				case *ast.StarExpr:
					y.Star = id.Pos()
				case *ast.UnaryExpr:
					y.OpPos = id.Pos()
				}
				return true
			})
			if _, simple := unparen(c).(*ast.Ident); !simple {
				if _, simple := unparen(c).(*ast.SelectorExpr); !simple {
					if _, simple := unparen(c).(*ast.BasicLit); !simple {
						if _, simple := unparen(c).(*ast.FuncLit); !simple {
							c = &ast.ParenExpr{X: c, Lparen: c.Pos(), Rparen: c.End()}
							if tv, ok := cl.info.Types[arg]; ok {
								cl.info.Types[c] = tv
							}
						}
					}
				}
			}
			return c
		}
	}
	rv := reflect.ValueOf(n).Elem()
	nv := reflect.New(rv.Type())
	for i := 0; i < rv.NumField(); i++ {
		nv.Elem().Field(i).Set(cl.value(rv.Field(i)))
	}
	out := nv.Interface().(ast.Node)
	cl.copyInfo(n, out)
	cl.fo.prefix[out] = cl.prefix
	return out
}

func (cl *cloner) value(v reflect.Value) reflect.Value {
	switch v.Kind() {
	case reflect.Interface:
		if v.IsNil() {
			return v
		}
		if n, ok := v.Interface().(ast.Node); ok {
			c := cl.node(n)
			out := reflect.New(v.Type()).Elem()
			out.Set(reflect.ValueOf(c))
			return out
		}
		return v
	case reflect.Ptr:
		if v.IsNil() {
			return v
		}
		switch v.Type() {
		case commentGroupType:
			return reflect.Zero(v.Type())
		case objectType, scopeType:
			return v
		}
		if n, ok := v.Interface().(ast.Node); ok {
			c := cl.node(n)
			cv := reflect.ValueOf(c)
			if cv.Type() != v.Type() {
				// a substituted identifier in a position that wants *ast.Ident (a declared name): keep the original
				return v
			}
			return cv
		}
		return v
	case reflect.Slice:
		if v.IsNil() {
			return v
		}
		out := reflect.MakeSlice(v.Type(), v.Len(), v.Len())
		for i := 0; i < v.Len(); i++ {
			out.Index(i).Set(cl.value(v.Index(i)))
		}
		return out
	}
	return v
}

func (cl *cloner) copyInfo(old, neu ast.Node) {
	info := cl.info
	if oe, ok := old.(ast.Expr); ok {
		if tv, ok := info.Types[oe]; ok {
			info.Types[neu.(ast.Expr)] = tv
		}
	}
	switch o := old.(type) {
	case *ast.Ident:
		n := neu.(*ast.Ident)
		if d, ok := info.Defs[o]; ok {
			info.Defs[n] = d
		}
		if u, ok := info.Uses[o]; ok {
			info.Uses[n] = u
		}
		if inst, ok := info.Instances[o]; ok {
			info.Instances[n] = inst
		}
	case *ast.SelectorExpr:
		if s, ok := info.Selections[o]; ok {
			info.Selections[neu.(*ast.SelectorExpr)] = s
		}
	}
	if im, ok := info.Implicits[old]; ok {
		info.Implicits[neu] = im
	}
}

// DebugPrintFunc prints the (possibly folded) syntax of a function (development aid, VERIF_PRINT=<pkgrel>.<DeclName>).
func DebugPrintFunc(m *Module) {
	want := os.Getenv("VERIF_PRINT")
	if want == "" {
		return
	}
	for _, p := range m.Roots {
		for _, f := range p.Syntax {
			for _, d := range f.Decls {
				if fd, ok := d.(*ast.FuncDecl); ok && m.Rel(p.PkgPath)+"."+DeclName(fd) == want {
					printer.Fprint(os.Stderr, token.NewFileSet(), fd)
					os.Stderr.WriteString("\n")
				}
			}
		}
	}
}
