// Package core holds the loader, the obligation model and the reporting
// plumbing shared by every rule of the go-restli checker.
package core

import (
	"fmt"
	"go/ast"
	"go/token"
	"go/types"
	"os"
	"path/filepath"
	"sort"
	"strings"
	"sync"

	"golang.org/x/tools/go/callgraph"
	"golang.org/x/tools/go/callgraph/cha"
	"golang.org/x/tools/go/callgraph/vta"
	"golang.org/x/tools/go/packages"
	"golang.org/x/tools/go/ssa"
	"golang.org/x/tools/go/ssa/ssautil"
)

// Module is one loaded Go module of the repository (root or v2), or a
// generated corpus module analysed against it.
type Module struct {
	// Renamed maps "pkgrel\tDeclName" of a known function that was renamed to its successor (see fold.go); RenamedObjs
	// does the same for package-level types ("pkgrel\tName").
	Renamed     map[string]*types.Func
	RenamedObjs map[string]types.Object
	Name        string // "v2", "root", or a corpus name
	Dir         string
	Path        string // module import path
	Fset        *token.FileSet
	// Pkgs maps the import path relative to the module path ("restlicodec",
	// "restli/batchkeyset", "" for the module root) to the package.
	Pkgs map[string]*packages.Package
	// Roots are the packages matched by the load pattern, sorted by path.
	Roots []*packages.Package
	// AllByPath contains every package in the import closure.
	AllByPath map[string]*packages.Package
	// Folded describes the helper functions folded back into their users before analysis (see fold.go).
	Folded []string

	ssaOnce sync.Once
	prog    *ssa.Program
	cgOnce  sync.Once
	cg      *callgraph.Graph

	declOnce sync.Once
	decls    map[*types.Func]*ast.FuncDecl
	declFile map[*types.Func]*ast.File
}

// LoadError is a failure of the analysis infrastructure (not a verdict).
type LoadError struct{ Msg string }

func (e *LoadError) Error() string { return e.Msg }

// Env is the offline environment used for every go/packages call.
func Env() []string {
	env := []string{}
	for _, kv := range os.Environ() {
		if strings.HasPrefix(kv, "GOWORK=") || strings.HasPrefix(kv, "GOFLAGS=") ||
			strings.HasPrefix(kv, "GOPROXY=") || strings.HasPrefix(kv, "GOSUMDB=") ||
			strings.HasPrefix(kv, "GOTOOLCHAIN=") {
			continue
		}
		env = append(env, kv)
	}
	env = append(env, "GOFLAGS=-mod=mod", "GOPROXY=off", "GOSUMDB=off", "GOTOOLCHAIN=local", "GOWORK=off", "CGO_ENABLED=0")
	if RepoRoot != "/repo" {
		env = append(env, "VERIF_REPO="+RepoRoot) // development: the generator harness writes it into the generated go.mod
	}
	return env
}

// LoadModule loads the packages matched by patterns in dir with full syntax
// for the whole import closure.  skip reports module-relative package paths
// that are not analysed (and whose type errors are therefore tolerated).
func LoadModule(name, dir string, patterns []string, skip func(rel string) bool) (*Module, error) {
	fset := token.NewFileSet()
	cfg := &packages.Config{
		Mode:  packages.LoadAllSyntax | packages.NeedModule,
		Dir:   dir,
		Fset:  fset,
		Env:   Env(),
		Tests: false,
	}
	pkgs, err := packages.Load(cfg, patterns...)
	if err != nil {
		return nil, &LoadError{fmt.Sprintf("load %s: %v", dir, err)}
	}
	if len(pkgs) == 0 {
		return nil, &LoadError{fmt.Sprintf("load %s: zero packages", dir)}
	}
	m := &Module{Name: name, Dir: dir, Fset: fset, Pkgs: map[string]*packages.Package{}, AllByPath: map[string]*packages.Package{}}
	for _, p := range pkgs {
		if p.Module != nil && p.Module.Main {
			m.Path = p.Module.Path
			break
		}
	}
	if m.Path == "" {
		return nil, &LoadError{fmt.Sprintf("load %s: cannot determine module path", dir)}
	}
	var errs []string
	packages.Visit(pkgs, nil, func(p *packages.Package) {
		m.AllByPath[p.PkgPath] = p
	})
	for _, p := range pkgs {
		rel, ok := m.rel(p.PkgPath)
		if !ok {
			continue
		}
		if skip != nil && skip(rel) {
			continue
		}
		for _, e := range p.Errors {
			errs = append(errs, fmt.Sprintf("%s: %v", p.PkgPath, e))
		}
		if p.Types == nil || p.TypesInfo == nil {
			errs = append(errs, fmt.Sprintf("%s: no type information", p.PkgPath))
			continue
		}
		m.Pkgs[rel] = p
		m.Roots = append(m.Roots, p)
	}
	sort.Slice(m.Roots, func(i, j int) bool { return m.Roots[i].PkgPath < m.Roots[j].PkgPath })
	if len(errs) > 0 {
		sort.Strings(errs)
		if len(errs) > 12 {
			errs = append(errs[:12], fmt.Sprintf("… %d more", len(errs)-12))
		}
		return nil, &LoadError{"type errors in analysed packages:\n  " + strings.Join(errs, "\n  ")}
	}
	if len(m.Roots) == 0 {
		return nil, &LoadError{fmt.Sprintf("load %s: zero analysed packages", dir)}
	}
	if name == "v2" || name == "root" {
		ExplicitReturns(m)
		nts := SimplifyTypeSwitches(m)
		m.Folded = FoldNewHelpers(m)
		if nts > 0 {
			m.Folded = append(m.Folded, fmt.Sprintf("%d two-clause type switch(es) with a bound variable read as comma-ok assertions", nts))
		}
		DebugPrintFunc(m)
	}
	return m, nil
}

func (m *Module) rel(pkgPath string) (string, bool) {
	if pkgPath == m.Path {
		return "", true
	}
	if strings.HasPrefix(pkgPath, m.Path+"/") {
		rel := pkgPath[len(m.Path)+1:]
		// the root module must not claim v2's packages
		return rel, true
	}
	return "", false
}

// Rel returns the module-relative path of a package of this module.
func (m *Module) Rel(pkgPath string) string {
	r, _ := m.rel(pkgPath)
	return r
}

// InModule reports whether the object is declared in an analysed package.
func (m *Module) InModule(pkg *types.Package) bool {
	if pkg == nil {
		return false
	}
	rel, ok := m.rel(pkg.Path())
	if !ok {
		return false
	}
	_, ok = m.Pkgs[rel]
	return ok
}

// Pkg returns the analysed package with the given module-relative path or nil.
func (m *Module) Pkg(rel string) *packages.Package { return m.Pkgs[rel] }

// Prog returns the SSA program (built on first use) for the whole closure.
func (m *Module) Prog() *ssa.Program {
	m.ssaOnce.Do(func() {
		var initial []*packages.Package
		initial = append(initial, m.Roots...)
		prog, _ := ssautil.AllPackages(initial, ssa.InstantiateGenerics)
		prog.Build()
		m.prog = prog
	})
	return m.prog
}

// CallGraph returns the VTA call graph refined from CHA.
func (m *Module) CallGraph() *callgraph.Graph {
	m.cgOnce.Do(func() {
		prog := m.Prog()
		fns := ssautil.AllFunctions(prog)
		m.cg = vta.CallGraph(fns, cha.CallGraph(prog))
	})
	return m.cg
}

// SSAFunc returns the SSA function for a types.Func declared in the module.
func (m *Module) SSAFunc(f *types.Func) *ssa.Function {
	if f == nil {
		return nil
	}
	return m.Prog().FuncValue(f)
}

func (m *Module) buildDecls() {
	m.declOnce.Do(func() {
		m.decls = map[*types.Func]*ast.FuncDecl{}
		m.declFile = map[*types.Func]*ast.File{}
		for _, p := range m.Roots {
			for _, f := range p.Syntax {
				for _, d := range f.Decls {
					if fd, ok := d.(*ast.FuncDecl); ok {
						if obj, ok := p.TypesInfo.Defs[fd.Name].(*types.Func); ok {
							m.decls[obj] = fd
							m.declFile[obj] = f
						}
					}
				}
			}
		}
	})
}

// Decl returns the syntax of a function declared in an analysed package.
func (m *Module) Decl(f *types.Func) *ast.FuncDecl {
	m.buildDecls()
	return m.decls[f]
}

// FuncDecls returns every function declaration of a package, sorted by position.
func (m *Module) FuncDecls(rel string) []*ast.FuncDecl {
	p := m.Pkgs[rel]
	if p == nil {
		return nil
	}
	var out []*ast.FuncDecl
	for _, f := range p.Syntax {
		for _, d := range f.Decls {
			if fd, ok := d.(*ast.FuncDecl); ok {
				out = append(out, fd)
			}
		}
	}
	sort.Slice(out, func(i, j int) bool { return out[i].Pos() < out[j].Pos() })
	return out
}

// LookupFunc resolves "Name" (package-level function) or "(*T).M" / "(T).M" /
// "T.M" (method) in the package with module-relative path rel.
func (m *Module) LookupFunc(rel, name string) *types.Func {
	if f := m.lookupFunc(rel, name); f != nil {
		return f
	}
	// a recognised rename of the anchor
	keys := []string{name}
	if i := strings.LastIndex(name, "."); i >= 0 {
		tn := strings.TrimPrefix(strings.TrimSuffix(strings.TrimPrefix(name[:i], "("), ")"), "*")
		keys = []string{"(*" + tn + ")." + name[i+1:], tn + "." + name[i+1:]}
	}
	for _, k := range keys {
		if f := m.Renamed[rel+"\t"+k]; f != nil {
			return f
		}
	}
	return nil
}

func (m *Module) lookupFunc(rel, name string) *types.Func {
	p := m.Pkgs[rel]
	if p == nil {
		return nil
	}
	scope := p.Types.Scope()
	if !strings.Contains(name, ".") {
		f, _ := scope.Lookup(name).(*types.Func)
		return f
	}
	i := strings.LastIndex(name, ".")
	tn, mn := name[:i], name[i+1:]
	tn = strings.TrimPrefix(tn, "(")
	tn = strings.TrimSuffix(tn, ")")
	tn = strings.TrimPrefix(tn, "*")
	obj, _ := scope.Lookup(tn).(*types.TypeName)
	if obj == nil {
		obj, _ = m.RenamedObjs[rel+"\t"+tn].(*types.TypeName)
	}
	if obj == nil {
		return nil
	}
	named, _ := obj.Type().(*types.Named)
	if named == nil {
		return nil
	}
	for i := 0; i < named.NumMethods(); i++ {
		if named.Method(i).Name() == mn {
			return named.Method(i)
		}
	}
	return nil
}

// LookupObj resolves a package-level object.
func (m *Module) LookupObj(rel, name string) types.Object {
	p := m.Pkgs[rel]
	if p == nil {
		return nil
	}
	if o := p.Types.Scope().Lookup(name); o != nil {
		return o
	}
	return m.RenamedObjs[rel+"\t"+name]
}

// PkgOf returns the analysed package that declares obj.
func (m *Module) PkgOf(obj types.Object) *packages.Package {
	if obj == nil || obj.Pkg() == nil {
		return nil
	}
	return m.AllByPath[obj.Pkg().Path()]
}

// InfoFor returns the types.Info of the package containing pos.
func (m *Module) InfoFor(pos token.Pos) *types.Info {
	file := m.Fset.File(pos)
	if file == nil {
		return nil
	}
	dir := filepath.Dir(file.Name())
	for _, p := range m.Roots {
		if len(p.GoFiles) > 0 && filepath.Dir(p.GoFiles[0]) == dir {
			return p.TypesInfo
		}
	}
	return nil
}

// Position renders a position relative to the repository root.
func (m *Module) Position(pos token.Pos) string {
	if !pos.IsValid() {
		return "-"
	}
	p := m.Fset.Position(pos)
	name := p.Filename
	if strings.HasPrefix(m.Name, "corpus:") && m.Dir != "" {
		if r, err := filepath.Rel(m.Dir, name); err == nil && !strings.HasPrefix(r, "..") {
			return fmt.Sprintf("generated(%s)/%s:%d", strings.TrimPrefix(m.Name, "corpus:"), r, p.Line)
		}
	}
	if r, err := filepath.Rel(RepoRoot, name); err == nil && !strings.HasPrefix(r, "..") {
		name = r
	}
	return fmt.Sprintf("%s:%d", name, p.Line)
}

// RepoRoot is the repository being analysed.
var RepoRoot = "/repo"

// FuncName renders a function the way obligations name it: "(*T).M" or "F".
func FuncName(f *types.Func) string {
	if f == nil {
		return "?"
	}
	sig, _ := f.Type().(*types.Signature)
	if sig != nil && sig.Recv() != nil {
		t := sig.Recv().Type()
		ptr := false
		if p, ok := t.(*types.Pointer); ok {
			t = p.Elem()
			ptr = true
		}
		n := "?"
		if nt, ok := t.(*types.Named); ok {
			n = nt.Obj().Name()
		}
		if ptr {
			return "(*" + n + ")." + f.Name()
		}
		return n + "." + f.Name()
	}
	return f.Name()
}

// DeclName renders a FuncDecl name like FuncName without needing types.
func DeclName(fd *ast.FuncDecl) string {
	if fd.Recv == nil || len(fd.Recv.List) == 0 {
		return fd.Name.Name
	}
	t := fd.Recv.List[0].Type
	ptr := false
	if s, ok := t.(*ast.StarExpr); ok {
		ptr = true
		t = s.X
	}
	for {
		switch x := t.(type) {
		case *ast.IndexExpr:
			t = x.X
			continue
		case *ast.IndexListExpr:
			t = x.X
			continue
		}
		break
	}
	n := "?"
	if id, ok := t.(*ast.Ident); ok {
		n = id.Name
	}
	if ptr {
		return "(*" + n + ")." + fd.Name.Name
	}
	return n + "." + fd.Name.Name
}

// EmptyModule is a placeholder for a corpus entry whose generation failed.
func EmptyModule(name string) *Module {
	return &Module{Name: name, Fset: token.NewFileSet(), Pkgs: map[string]*packages.Package{}, AllByPath: map[string]*packages.Package{}}
}
