package core

import (
	"encoding/json"
	"fmt"
	"go/token"
	"os"
	"sort"
	"strings"
	"sync"
)

// Verdict of one obligation.
type Verdict int

const (
	Discharged Verdict = iota
	Violated
	Undecided
)

func (v Verdict) String() string {
	switch v {
	case Discharged:
		return "discharged"
	case Violated:
		return "violated"
	}
	return "undecided"
}

// Obligation is one construct a rule quantified over, with its verdict.
type Obligation struct {
	Rule      string `json:"rule"`
	Module    string `json:"module"`
	Pkg       string `json:"package"`
	Func      string `json:"function"`
	Construct string `json:"construct"`
	Pos       string `json:"pos"`
	Verdict   string `json:"verdict"`
	Detail    string `json:"detail,omitempty"`
	verdict   Verdict
}

// Key identifies an obligation independently of positions.
func (o *Obligation) Key() string {
	return strings.Join([]string{o.Rule, o.Module, o.Pkg, o.Func, o.Construct}, "|")
}

// Rule is one static rule; Run adds obligations through the context.
type Rule struct {
	ID    string
	Title string
	// Text is the rule statement printed in evidence.
	Text string
	// Props lists the properties the rule serves.
	Props []string
	// Modules restricts the rule to these module names (nil = v2 and root).
	Modules []string
	// Floor is the minimum number of obligations per module name.
	Floor map[string]int
	// Generated: the rule runs on corpus modules ([G] rules).
	Generated bool
	// Thorough: only run in the thorough tier.
	Thorough bool
	Run      func(c *Ctx)
}

// Ctx is what a rule sees when it runs on one module.
type Ctx struct {
	M    *Module
	Rule *Rule
	Tier string
	// Corpus is set for [G] rules: the manifest and generated module.
	Corpus *Corpus
	mu     *sync.Mutex
	out    *[]*Obligation
	// Notes collects free-text evidence lines (assumptions, counted scopes).
	notes *[]string
}

// Corpus describes one generated module under analysis.
type Corpus struct {
	Name     string
	Manifest map[string]interface{}
	Raw      []byte
	// Runtime is the repo module whose generator produced it ("v2"/"root").
	Runtime string
	OutDir  string
	// Failure is set when generation or type-checking failed.
	Failure string
	// Failing marks manifests kept under corpus/v2/failing (recorded generator defects).
	Failing bool
	// SecondRunDiff names the first file that differed between two generator runs.
	SecondRunDiff string
}

func (c *Ctx) add(v Verdict, pkg, fn, construct string, pos token.Pos, detail string) {
	o := &Obligation{
		Rule: c.Rule.ID, Module: c.M.Name, Pkg: pkg, Func: fn, Construct: construct,
		Pos: c.M.Position(pos), Verdict: v.String(), Detail: detail, verdict: v,
	}
	c.mu.Lock()
	*c.out = append(*c.out, o)
	c.mu.Unlock()
}

// OK records a discharged obligation.
func (c *Ctx) OK(pkg, fn, construct string, pos token.Pos, detail string) {
	c.add(Discharged, pkg, fn, construct, pos, detail)
}

// Bad records a violated obligation.
func (c *Ctx) Bad(pkg, fn, construct string, pos token.Pos, detail string) {
	c.add(Violated, pkg, fn, construct, pos, detail)
}

// Unknown records an obligation the rule could not decide.
func (c *Ctx) Unknown(pkg, fn, construct string, pos token.Pos, detail string) {
	c.add(Undecided, pkg, fn, construct, pos, detail)
}

// Check records OK or Bad depending on cond.
func (c *Ctx) Check(cond bool, pkg, fn, construct string, pos token.Pos, okDetail, badDetail string) {
	if cond {
		c.OK(pkg, fn, construct, pos, okDetail)
	} else {
		c.Bad(pkg, fn, construct, pos, badDetail)
	}
}

// Note adds a free-text line to the evidence.
func (c *Ctx) Note(format string, args ...interface{}) {
	c.mu.Lock()
	*c.notes = append(*c.notes, fmt.Sprintf("[%s/%s] ", c.Rule.ID, c.M.Name)+fmt.Sprintf(format, args...))
	c.mu.Unlock()
}

// KnownFinding is one entry of /verif/known_findings.json.
type KnownFinding struct {
	Property  string `json:"property"`
	Rule      string `json:"rule"`
	Module    string `json:"module"`
	Pkg       string `json:"package"`
	Func      string `json:"function"`
	Construct string `json:"construct"`
	WhatFails string `json:"what_fails"`
	ID        string `json:"id,omitempty"`
}

func (k *KnownFinding) Key() string {
	return strings.Join([]string{k.Rule, k.Module, k.Pkg, k.Func, k.Construct}, "|")
}

// KnownFile is the layout of known_findings.json.
type KnownFile struct {
	Comment  string         `json:"comment"`
	Findings []KnownFinding `json:"findings"`
	Fixed    []string       `json:"fixed"`
}

// LoadKnown reads the known-findings file (absent = empty).
func LoadKnown(path string) (*KnownFile, error) {
	b, err := os.ReadFile(path)
	if os.IsNotExist(err) {
		return &KnownFile{}, nil
	}
	if err != nil {
		return nil, err
	}
	var k KnownFile
	if err := json.Unmarshal(b, &k); err != nil {
		return nil, fmt.Errorf("%s: %v", path, err)
	}
	return &k, nil
}

// Result of running the rules of one property.
type Result struct {
	Property    string
	Tier        string
	Obligations []*Obligation
	Notes       []string
	RuleCounts  map[string]map[string]int // rule -> module -> count
	Rules       []*Rule
	FloorFails  []string
	Known       []*Obligation
	Violations  []*Obligation // violated or undecided, not known
	Packages    map[string]int
}

// SortObligations orders obligations deterministically.
func SortObligations(obs []*Obligation) {
	sort.SliceStable(obs, func(i, j int) bool {
		a, b := obs[i], obs[j]
		if a.Rule != b.Rule {
			return a.Rule < b.Rule
		}
		if a.Module != b.Module {
			return a.Module < b.Module
		}
		if a.Pkg != b.Pkg {
			return a.Pkg < b.Pkg
		}
		if a.Func != b.Func {
			return a.Func < b.Func
		}
		return a.Construct < b.Construct
	})
}
