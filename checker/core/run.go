package core

import (
	"encoding/json"
	"fmt"
	"os"
	"path/filepath"
	"sort"
	"strings"
	"sync"
	"time"
)

// Registry of all rules, filled by package rules' init functions.
var Registry []*Rule

// Register adds a rule.
func Register(r *Rule) { Registry = append(Registry, r) }

// PropertyInfo carries the per-property text printed in evidence.
type PropertyInfo struct {
	ID          string
	Explanation string
	NotCovered  string
	Assumptions []string
	// Exhaustive is set when one of the property's rules enumerated a finite
	// table completely; it is reported per rule in the evidence.
	ExhaustiveRules []string
}

// Properties is filled by package rules.
var Properties = map[string]*PropertyInfo{}

// Patterns computes the load patterns of a repo module: every top-level
// package tree except internal/tests (which needs generated bindings that are
// not checked in).
func Patterns(dir string) ([]string, error) {
	ents, err := os.ReadDir(dir)
	if err != nil {
		return nil, err
	}
	pats := []string{"."}
	for _, e := range ents {
		if !e.IsDir() || strings.HasPrefix(e.Name(), ".") || e.Name() == "v2" || e.Name() == "spec-parser" || e.Name() == "testdata" || e.Name() == "vendor" {
			continue
		}
		if e.Name() == "internal" {
			sub, err := os.ReadDir(filepath.Join(dir, "internal"))
			if err != nil {
				return nil, err
			}
			for _, s := range sub {
				if s.IsDir() && s.Name() != "tests" {
					pats = append(pats, "./internal/"+s.Name()+"/...")
				}
			}
			continue
		}
		pats = append(pats, "./"+e.Name()+"/...")
	}
	return pats, nil
}

// LoadRepo loads the v2 and root modules (those named in want).
func LoadRepo(want map[string]bool) (map[string]*Module, error) {
	mods := map[string]*Module{}
	var mu sync.Mutex
	var wg sync.WaitGroup
	var firstErr error
	for name, dir := range map[string]string{"v2": filepath.Join(RepoRoot, "v2"), "root": RepoRoot} {
		if !want[name] {
			continue
		}
		wg.Add(1)
		go func(name, dir string) {
			defer wg.Done()
			pats, err := Patterns(dir)
			var m *Module
			if err == nil {
				m, err = LoadModule(name, dir, pats, func(rel string) bool { return strings.HasPrefix(rel, "internal/tests") })
			}
			mu.Lock()
			defer mu.Unlock()
			if err != nil {
				if firstErr == nil {
					firstErr = err
				}
				return
			}
			mods[name] = m
		}(name, dir)
	}
	wg.Wait()
	return mods, firstErr
}

func ruleModules(r *Rule) []string {
	if r.Modules != nil {
		return r.Modules
	}
	return []string{"v2", "root"}
}

// RulesFor returns the rules serving a property for a tier.
func RulesFor(prop, tier string) []*Rule {
	var out []*Rule
	for _, r := range Registry {
		if r.Thorough && tier != "thorough" {
			continue
		}
		if prop == "ALL" { // development: every rule once (used to test benign changes against the whole rule set)
			out = append(out, r)
			continue
		}
		for _, p := range r.Props {
			if p == prop {
				out = append(out, r)
				break
			}
		}
	}
	sort.Slice(out, func(i, j int) bool { return out[i].ID < out[j].ID })
	return out
}

// RunRule executes one rule on one module, converting a panic into an
// undecided obligation (a crashed rule must never pass silently).
func RunRule(r *Rule, m *Module, tier string, corpus *Corpus, mu *sync.Mutex, out *[]*Obligation, notes *[]string) {
	c := &Ctx{M: m, Rule: r, Tier: tier, Corpus: corpus, mu: mu, out: out, notes: notes}
	defer func() {
		if rec := recover(); rec != nil {
			if ae, ok := rec.(*AnchorError); ok {
				c.Unknown(ae.Pkg, ae.Name, "anchor", 0, "anchor cannot be resolved: "+ae.Error())
				return
			}
			c.Unknown("-", "-", "rule panicked", 0, fmt.Sprintf("%v", rec))
			if os.Getenv("VERIF_DEBUG") != "" {
				panic(rec)
			}
		}
	}()
	r.Run(c)
}

// AnchorError is raised (by panic) when a rule's anchor does not resolve.
type AnchorError struct{ Pkg, Name, What string }

func (e *AnchorError) Error() string { return fmt.Sprintf("%s %s.%s", e.What, e.Pkg, e.Name) }

// Evidence is the JSON written to /verif/evidence/<id>.json.
type Evidence struct {
	PropertyID  string                 `json:"property_id"`
	Tier        string                 `json:"tier"`
	Seed        int                    `json:"seed"`
	Level       string                 `json:"level"`
	Coverage    map[string]interface{} `json:"coverage"`
	Assumptions []string               `json:"assumptions"`
	WallS       float64                `json:"wall_s"`
	Violations  int                    `json:"violations"`
}

// Finish applies floors and known findings, prints the report, writes the
// evidence and returns the process exit code.
func Finish(prop, tier string, rules []*Rule, obs []*Obligation, notes []string, pkgCount map[string]int,
	known *KnownFile, verifDir string, start time.Time, seed int, extra map[string]interface{}) int {

	SortObligations(obs)
	counts := map[string]map[string]int{}
	for _, o := range obs {
		if counts[o.Rule] == nil {
			counts[o.Rule] = map[string]int{}
		}
		counts[o.Rule][o.Module]++
	}
	var floorFails []string
	for _, r := range rules {
		for mod, fl := range r.Floor {
			if _, loaded := pkgCount[mod]; !loaded && !r.Generated {
				continue
			}
			if r.Generated {
				// floors of [G] rules are totals over the corpus, keyed "corpus"
				total := 0
				for _, n := range counts[r.ID] {
					total += n
				}
				if mod == "corpus" && total < fl {
					floorFails = append(floorFails, fmt.Sprintf("%s: %d obligations over the corpus, floor %d", r.ID, total, fl))
				}
				continue
			}
			if counts[r.ID][mod] < fl {
				floorFails = append(floorFails, fmt.Sprintf("%s/%s: %d obligations, floor %d", r.ID, mod, counts[r.ID][mod], fl))
			}
		}
	}
	knownKeys := map[string]*KnownFinding{}
	for i := range known.Findings {
		k := &known.Findings[i]
		knownKeys[k.Key()] = k
	}
	var viol, knownHit []*Obligation
	discharged, undecided := 0, 0
	for _, o := range obs {
		switch o.verdict {
		case Discharged:
			discharged++
		case Violated:
			if k, ok := knownKeys[o.Key()]; ok && (k.Property == "" || k.Property == prop || true) {
				knownHit = append(knownHit, o)
				fmt.Printf("KNOWN-FINDING: property=%s %s %s — %s\n", prop, o.Key(), o.Pos, k.WhatFails)
			} else {
				viol = append(viol, o)
			}
		case Undecided:
			undecided++
			viol = append(viol, o)
		}
	}
	fmt.Printf("property %s tier %s: %d rules, %d obligations (%d discharged, %d known findings, %d violated/undecided), %d floor failures\n",
		prop, tier, len(rules), len(obs), discharged, len(knownHit), len(viol), len(floorFails))
	for _, r := range rules {
		var parts []string
		mods := make([]string, 0, len(counts[r.ID]))
		for m := range counts[r.ID] {
			mods = append(mods, m)
		}
		sort.Strings(mods)
		for _, m := range mods {
			parts = append(parts, fmt.Sprintf("%s=%d", m, counts[r.ID][m]))
		}
		fmt.Printf("  %-7s %-58s %s\n", r.ID, r.Title, strings.Join(parts, " "))
	}
	if os.Getenv("VERIF_VERBOSE") != "" {
		for _, o := range obs {
			fmt.Printf("    %s [%s] %s %s.%s: %s — %s (%s)\n", o.Verdict, o.Rule, o.Module, o.Pkg, o.Func, o.Construct, o.Detail, o.Pos)
		}
	}
	for _, o := range viol {
		fmt.Printf("%s: %s [%s] %s %s.%s: %s — %s\n", o.Pos, strings.ToUpper(o.Verdict), o.Rule, o.Module, o.Pkg, o.Func, o.Construct, o.Detail)
	}
	for _, f := range floorFails {
		fmt.Printf("FLOOR: %s (a rule that matches fewer instances than confirmed by hand cannot pass)\n", f)
	}

	// evidence
	samples := []interface{}{}
	perRule := map[string]int{}
	for _, o := range obs {
		if perRule[o.Rule] < 4 || o.verdict != Discharged {
			samples = append(samples, o)
			perRule[o.Rule]++
		}
		if len(samples) >= 120 {
			break
		}
	}
	ruleTexts := []map[string]interface{}{}
	for _, r := range rules {
		ruleTexts = append(ruleTexts, map[string]interface{}{"id": r.ID, "title": r.Title, "rule": r.Text, "instances": counts[r.ID], "floor": r.Floor, "generated_corpus": r.Generated})
	}
	info := Properties[prop]
	if info == nil {
		info = &PropertyInfo{ID: prop, Explanation: "static rules", NotCovered: ""}
	}
	cov := map[string]interface{}{
		"explanation": info.Explanation + "  NOT COVERED (part of the claim): " + info.NotCovered,
		"obligations": len(obs),
		"discharged":  discharged,
		"undecided":   undecided,
		"known_findings": func() []string {
			s := []string{}
			for _, o := range knownHit {
				s = append(s, o.Key())
			}
			return s
		}(),
		"rules":             ruleTexts,
		"packages_analysed": pkgCount,
		"samples":           samples,
		"notes":             notes,
		"floor_failures":    floorFails,
		"exhaustive":        false,
		"exhaustive_rules":  info.ExhaustiveRules,
		"checker_cmd":       fmt.Sprintf("./check %s %s", prop, tier),
	}
	for k, v := range extra {
		cov[k] = v
	}
	ev := Evidence{PropertyID: prop, Tier: tier, Seed: seed, Level: "other", Coverage: cov,
		Assumptions: info.Assumptions, WallS: time.Since(start).Seconds(), Violations: len(viol) + len(floorFails)}
	if ev.Assumptions == nil {
		ev.Assumptions = []string{}
	}
	evDir := filepath.Join(verifDir, "evidence")
	os.MkdirAll(evDir, 0o755)
	b, _ := json.MarshalIndent(ev, "", " ")
	if err := os.WriteFile(filepath.Join(evDir, prop+".json"), append(b, '\n'), 0o644); err != nil {
		fmt.Fprintf(os.Stderr, "cannot write evidence: %v\n", err)
		return 2
	}
	if len(viol) > 0 || len(floorFails) > 0 {
		vpath := filepath.Join(evDir, prop+".violations.json")
		vb, _ := json.MarshalIndent(map[string]interface{}{"property": prop, "tier": tier, "violations": viol, "floor_failures": floorFails}, "", " ")
		os.WriteFile(vpath, append(vb, '\n'), 0o644)
		fmt.Printf("VIOLATION property=%s replay=%s\n", prop, vpath)
		return 1
	}
	os.Remove(filepath.Join(evDir, prop+".violations.json"))
	return 0
}
