package core

import (
	"go/ast"
	"go/token"
	"go/types"

	"golang.org/x/tools/go/cfg"
)

// Virtual is the "inlined view" of a function: its own body plus the bodies of the same-module helper functions,
// methods and local closures it calls statically (transitively, depth-bounded, recursion cut), in the order an inliner
// would produce.  Rules that ask "does F do X", "does X precede Y in F" or "which object reaches this call" use it so
// that extracting a helper, turning a closure into a named function, or splitting a long function in two does not change
// their verdict.
type Virtual struct {
	M    *Module
	Root *ast.FuncDecl
	// Frames in inlining order; Frames[0] is the root body.
	Frames []*VFrame
	// alias maps a helper's parameter (or receiver) object to the object of the identifier passed for it at the
	// (single) inlined call site, so that identities can be compared across the call boundary.
	alias map[types.Object]types.Object
	vpos  map[ast.Node][]token.Pos
}

// VFrame is one function body in the inlined view.
type VFrame struct {
	Fn     *types.Func   // nil for a closure
	Decl   *ast.FuncDecl // nil for a closure
	Lit    *ast.FuncLit  // non-nil for a closure
	Body   *ast.BlockStmt
	Info   *types.Info
	Call   *ast.CallExpr // the call that brought this frame in (nil for the root)
	Parent *VFrame
	prefix []token.Pos
}

// NewVirtual builds the inlined view of fd (depth bound 4).
func NewVirtual(m *Module, fd *ast.FuncDecl) *Virtual {
	v := &Virtual{M: m, Root: fd, alias: map[types.Object]types.Object{}, vpos: map[ast.Node][]token.Pos{}}
	if fd == nil || fd.Body == nil {
		return v
	}
	inf := m.InfoFor(fd.Pos())
	root := &VFrame{Decl: fd, Body: fd.Body, Info: inf}
	if f, ok := inf.Defs[fd.Name].(*types.Func); ok {
		root.Fn = f
	}
	v.addFrame(root, map[*ast.BlockStmt]bool{}, 0)
	return v
}

func (v *Virtual) addFrame(fr *VFrame, onStack map[*ast.BlockStmt]bool, depth int) {
	v.Frames = append(v.Frames, fr)
	onStack[fr.Body] = true
	defer delete(onStack, fr.Body)
	inf := fr.Info
	// closures bound once to a local variable
	closures := map[types.Object]*ast.FuncLit{}
	ast.Inspect(fr.Body, func(n ast.Node) bool {
		if as, ok := n.(*ast.AssignStmt); ok && len(as.Lhs) == len(as.Rhs) {
			for i, l := range as.Lhs {
				if fl, ok := unparen(as.Rhs[i]).(*ast.FuncLit); ok {
					if o := ObjOf(inf, l); o != nil {
						closures[o] = fl
					}
				}
			}
		}
		return true
	})
	var walk func(n ast.Node)
	walk = func(n ast.Node) {
		ast.Inspect(n, func(x ast.Node) bool {
			if x == nil {
				return false
			}
			v.vpos[x] = append(append([]token.Pos{}, fr.prefix...), x.Pos())
			call, ok := x.(*ast.CallExpr)
			if !ok || depth >= 4 {
				return true
			}
			var sub *VFrame
			if f := Callee(inf, call); f != nil && f.Pkg() != nil && v.M.InModule(f.Pkg()) {
				if d := v.M.Decl(f.Origin()); d != nil && d.Body != nil && !onStack[d.Body] {
					sub = &VFrame{Fn: f.Origin(), Decl: d, Body: d.Body, Info: v.M.InfoFor(d.Pos())}
				}
			} else if id, ok := unparen(call.Fun).(*ast.Ident); ok {
				if fl := closures[inf.Uses[id]]; fl != nil && !onStack[fl.Body] {
					sub = &VFrame{Lit: fl, Body: fl.Body, Info: inf}
				}
			}
			if sub == nil || sub.Info == nil {
				return true
			}
			sub.Call, sub.Parent = call, fr
			sub.prefix = append(append([]token.Pos{}, fr.prefix...), call.Pos())
			// parameter / receiver aliases for identifier arguments
			var ft *ast.FuncType
			if sub.Decl != nil {
				ft = sub.Decl.Type
				if sub.Decl.Recv != nil && len(sub.Decl.Recv.List) == 1 && len(sub.Decl.Recv.List[0].Names) == 1 {
					if sel, ok := unparen(call.Fun).(*ast.SelectorExpr); ok {
						if ro := ObjOf(inf, sel.X); ro != nil {
							v.setAlias(sub.Info.Defs[sub.Decl.Recv.List[0].Names[0]], ro)
						}
					}
				}
			} else {
				ft = sub.Lit.Type
			}
			k := 0
			if ft.Params != nil {
				for _, fl := range ft.Params.List {
					for _, nm := range fl.Names {
						if k < len(call.Args) {
							if ao := ObjOf(inf, call.Args[k]); ao != nil {
								v.setAlias(sub.Info.Defs[nm], ao)
							}
						}
						k++
					}
					if len(fl.Names) == 0 {
						k++
					}
				}
			}
			v.addFrame(sub, onStack, depth+1)
			return true
		})
	}
	walk(fr.Body)
}

func (v *Virtual) setAlias(param, arg types.Object) {
	if param == nil || arg == nil {
		return
	}
	if _, dup := v.alias[param]; dup {
		// the helper is inlined at more than one site with different arguments: no identity can be claimed
		if v.alias[param] != v.Resolve(arg) {
			v.alias[param] = nil
		}
		return
	}
	v.alias[param] = v.Resolve(arg)
}

// Resolve follows parameter aliases to the caller-side object.
func (v *Virtual) Resolve(o types.Object) types.Object {
	for i := 0; i < 8 && o != nil; i++ {
		a, ok := v.alias[o]
		if !ok || a == nil {
			return o
		}
		o = a
	}
	return o
}

// ObjOf is core.ObjOf followed by alias resolution.
func (v *Virtual) ObjOf(inf *types.Info, e ast.Expr) types.Object {
	return v.Resolve(ObjOf(inf, e))
}

// Inspect walks every frame (root first, then helpers in inlining order); fn receives the frame of the node.
func (v *Virtual) Inspect(fn func(fr *VFrame, n ast.Node) bool) {
	for _, fr := range v.Frames {
		fr := fr
		ast.Inspect(fr.Body, func(n ast.Node) bool {
			if n == nil {
				return false
			}
			return fn(fr, n)
		})
	}
}

// Before reports whether a comes before b in the inlined order (both must belong to the view).
func (v *Virtual) Before(a, b ast.Node) bool {
	pa, pb := v.vpos[a], v.vpos[b]
	for i := 0; i < len(pa) && i < len(pb); i++ {
		if pa[i] != pb[i] {
			return pa[i] < pb[i]
		}
	}
	return len(pa) < len(pb)
}

// FrameOf returns the innermost frame whose body contains n.
func (v *Virtual) FrameOf(n ast.Node) *VFrame {
	var best *VFrame
	for _, fr := range v.Frames {
		if fr.Body.Pos() <= n.Pos() && n.End() <= fr.Body.End() {
			if best == nil || (fr.Body.Pos() >= best.Body.Pos() && fr.Body.End() <= best.Body.End()) {
				best = fr
			}
		}
	}
	return best
}

// Name of a frame for messages.
func (fr *VFrame) Name() string {
	if fr.Decl != nil {
		return DeclName(fr.Decl)
	}
	return "closure"
}

// ---- inlined control-flow graphs ----------------------------------------------------

// InlineOpts selects which calls NewFlowInlined expands.
type InlineOpts struct {
	// Depth bounds nested expansion (default 2).
	Depth int
	// Only, when non-nil, restricts expansion to these callees; by default every same-package function or method with a
	// body is expanded when the call is a statement of its own (`h(x)`, `a, b := h(x)`, `return h(x)`), recursion cut.
	Only func(*types.Func) bool
}

// NewFlowInlined builds the CFG of fd's body with the bodies of same-package helpers spliced in at their call
// statements, so that path rules see through "extract helper" refactorings.  The call statement itself stays in the
// graph, after the helper's body (its assignments take effect when the helper returns).  Return statements of inlined
// helpers are recorded in Inlined: they end the helper, not the analysed function; the engine hands their result
// expressions to the automaton instead of the statement.
func NewFlowInlined(m *Module, info *types.Info, fd *ast.FuncDecl, opts InlineOpts) *Flow {
	f := NewFlow(m, info, fd.Body)
	if opts.Depth == 0 {
		opts.Depth = 2
	}
	f.Inlined = map[*ast.ReturnStmt]bool{}
	f.Alias = map[types.Object]types.Object{}
	self, _ := info.Defs[fd.Name].(*types.Func)
	stack := map[*types.Func]bool{}
	if self != nil {
		stack[self.Origin()] = true
	}
	f.inline(f.G.Blocks, opts, stack, 0)
	return f
}

func standaloneCall(n ast.Node) *ast.CallExpr {
	switch s := n.(type) {
	case *ast.ExprStmt:
		c, _ := unparen(s.X).(*ast.CallExpr)
		return c
	case *ast.AssignStmt:
		if len(s.Rhs) == 1 {
			c, _ := unparen(s.Rhs[0]).(*ast.CallExpr)
			return c
		}
	case *ast.ReturnStmt:
		if len(s.Results) == 1 {
			c, _ := unparen(s.Results[0]).(*ast.CallExpr)
			return c
		}
	}
	return nil
}

func (f *Flow) inline(blocks []*cfg.Block, opts InlineOpts, stack map[*types.Func]bool, depth int) {
	if depth >= opts.Depth {
		return
	}
	for bi := 0; bi < len(blocks); bi++ {
		b := blocks[bi]
		for i := 0; i < len(b.Nodes); i++ {
			if f.skipCall[b.Nodes[i]] {
				continue
			}
			call := standaloneCall(b.Nodes[i])
			if call == nil {
				continue
			}
			callee := Callee(f.Info, call)
			if callee == nil || callee.Pkg() == nil || !f.M.InModule(callee.Pkg()) || stack[callee.Origin()] {
				continue
			}
			if opts.Only != nil && !opts.Only(callee.Origin()) {
				continue
			}
			d := f.M.Decl(callee.Origin())
			if d == nil || d.Body == nil || f.M.InfoFor(d.Pos()) != f.Info {
				continue // other package: a different types.Info
			}
			sub := cfg.New(d.Body, func(c *ast.CallExpr) bool { return !NoReturn(f.Info, c) })
			if len(sub.Blocks) == 0 {
				continue
			}
			ast.Inspect(d.Body, func(n ast.Node) bool {
				switch s := n.(type) {
				case *ast.FuncLit:
					return false
				case *ast.SwitchStmt:
					for _, c := range s.Body.List {
						f.switchOf[c.(*ast.CaseClause)] = s
					}
				case *ast.TypeSwitchStmt:
					for _, c := range s.Body.List {
						f.switchOf[c.(*ast.CaseClause)] = s
					}
				case *ast.ReturnStmt:
					f.Inlined[s] = true
				}
				return true
			})
			// parameter aliases (identifier arguments and receiver)
			if d.Recv != nil && len(d.Recv.List) == 1 && len(d.Recv.List[0].Names) == 1 {
				if sel, ok := unparen(call.Fun).(*ast.SelectorExpr); ok {
					if ro := ObjOf(f.Info, sel.X); ro != nil {
						f.Alias[f.Info.Defs[d.Recv.List[0].Names[0]]] = f.ResolveObj(ro)
					}
				}
			}
			k := 0
			if d.Type.Params != nil {
				for _, fl := range d.Type.Params.List {
					for _, nm := range fl.Names {
						if k < len(call.Args) {
							if ao := ObjOf(f.Info, call.Args[k]); ao != nil {
								f.Alias[f.Info.Defs[nm]] = f.ResolveObj(ao)
							}
						}
						k++
					}
					if len(fl.Names) == 0 {
						k++
					}
				}
			}
			// split b at i: head keeps Nodes[:i], tail gets the call statement and the rest
			tail := &cfg.Block{Nodes: append([]ast.Node{}, b.Nodes[i:]...), Succs: b.Succs, Live: b.Live, Kind: b.Kind, Stmt: b.Stmt, Index: int32(len(f.G.Blocks))}
			f.G.Blocks = append(f.G.Blocks, tail)
			b.Nodes = b.Nodes[:i:i]
			b.Succs = []*cfg.Block{sub.Blocks[0]}
			if f.skipCall == nil {
				f.skipCall = map[ast.Node]bool{}
			}
			f.skipCall[tail.Nodes[0]] = true // already expanded: do not expand again when the tail is scanned
			for _, sb := range sub.Blocks {
				sb.Index = int32(len(f.G.Blocks))
				f.G.Blocks = append(f.G.Blocks, sb)
				if len(sb.Succs) == 0 && sb.Live {
					noret := false
					if len(sb.Nodes) > 0 {
						if es, ok := sb.Nodes[len(sb.Nodes)-1].(*ast.ExprStmt); ok {
							if c, ok := unparen(es.X).(*ast.CallExpr); ok && NoReturn(f.Info, c) {
								noret = true
							}
						}
					}
					if !noret {
						sb.Succs = []*cfg.Block{tail}
					}
				}
			}
			stack[callee.Origin()] = true
			f.inline(sub.Blocks, opts, stack, depth+1)
			delete(stack, callee.Origin())
			// continue scanning in the tail (skipping the call statement itself)
			blocks = append(blocks, tail)
			break
		}
	}
}

// ResolveObj follows the parameter aliases recorded while inlining.
func (f *Flow) ResolveObj(o types.Object) types.Object {
	for i := 0; i < 8 && o != nil && f.Alias != nil; i++ {
		a, ok := f.Alias[o]
		if !ok || a == nil {
			return o
		}
		o = a
	}
	return o
}

// ObjOf is core.ObjOf followed by alias resolution.
func (f *Flow) ObjOf(e ast.Expr) types.Object { return f.ResolveObj(ObjOf(f.Info, e)) }
