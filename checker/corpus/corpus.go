// Package corpus materialises generated bindings (by running the repository's
// own generator as a build step) and loads them for the [G] rules.
package corpus

import (
	"encoding/json"
	"fmt"
	"os"
	"os/exec"
	"path/filepath"
	"sort"
	"strings"
	"sync"

	"verif/checker/core"
)

// Generated is one generated module loaded for analysis.
type Generated struct {
	Corpus *core.Corpus
	Module *core.Module
}

var quickSet = map[string]bool{"t-prims": true, "t-incl": true, "t-union": true, "t-named": true, "r-annot": true, "r-simple": true, "t-ckey": true, "checked-in": true}

var scratchRoot string

// Build builds the generator harness from the current tree, generates the
// corpus for the tier and loads every generated module.
func Build(verifDir, tier string) ([]*Generated, error) {
	var err error
	base := os.Getenv("VERIF_SCRATCH")
	if base == "" {
		base = filepath.Join(os.Getenv("HOME"), "scratch")
	}
	if err = os.MkdirAll(base, 0o755); err != nil {
		base = os.TempDir()
	}
	scratchRoot, err = os.MkdirTemp(base, "restlicheck-corpus-")
	if err != nil {
		return nil, &core.LoadError{Msg: "cannot create scratch dir: " + err.Error()}
	}
	gen := filepath.Join(scratchRoot, "gen-v2")
	cmd := exec.Command("go", "build", "-o", gen, ".")
	cmd.Dir = filepath.Join(verifDir, "gen", "v2")
	if core.RepoRoot != "/repo" {
		// development (-repo): the harness module names /repo/v2 in its replace directive; build a copy that names the
		// tree being analysed
		alt := filepath.Join(scratchRoot, "gen-src")
		if err := os.MkdirAll(alt, 0o755); err != nil {
			return nil, &core.LoadError{Msg: err.Error()}
		}
		for _, f := range []string{"go.mod", "go.sum", "main.go"} {
			// (main.go reads VERIF_REPO for the go.mod of the generated modules)
			b, err := os.ReadFile(filepath.Join(cmd.Dir, f))
			if err != nil {
				return nil, &core.LoadError{Msg: err.Error()}
			}
			if f == "go.mod" {
				b = []byte(strings.Replace(string(b), "=> /repo/v2", "=> "+filepath.Join(core.RepoRoot, "v2"), 1))
			}
			if err := os.WriteFile(filepath.Join(alt, f), b, 0o644); err != nil {
				return nil, &core.LoadError{Msg: err.Error()}
			}
		}
		cmd.Dir = alt
	}
	cmd.Env = core.Env()
	if out, err := cmd.CombinedOutput(); err != nil {
		return nil, &core.LoadError{Msg: "the generator harness does not build against the current tree (the generator packages of /repo/v2 do not compile):\n" + string(out)}
	}
	type job struct {
		name, manifest, overlay string
		failing                 bool
	}
	var jobs []job
	dir := filepath.Join(verifDir, "corpus", "v2")
	ents, err := os.ReadDir(dir)
	if err != nil {
		return nil, &core.LoadError{Msg: err.Error()}
	}
	for _, e := range ents {
		if !strings.HasSuffix(e.Name(), ".json") {
			continue
		}
		name := strings.TrimSuffix(e.Name(), ".json")
		if tier == "quick" && !quickSet[name] {
			continue
		}
		j := job{name: name, manifest: filepath.Join(dir, e.Name())}
		if st, err := os.Stat(filepath.Join(dir, "overlays", name)); err == nil && st.IsDir() {
			j.overlay = filepath.Join(dir, "overlays", name)
		}
		jobs = append(jobs, j)
	}
	// the checked-in manifest
	jobs = append(jobs, job{name: "checked-in", manifest: filepath.Join(core.RepoRoot, "v2", "restlidata", "generated", "go-restli-manifest.gr.json")})
	if tier == "thorough" {
		fents, _ := os.ReadDir(filepath.Join(dir, "failing"))
		for _, e := range fents {
			if strings.HasSuffix(e.Name(), ".json") {
				jobs = append(jobs, job{name: "failing/" + strings.TrimSuffix(e.Name(), ".json"), manifest: filepath.Join(dir, "failing", e.Name()), failing: true})
			}
		}
	}
	if len(jobs) < 3 {
		return nil, &core.LoadError{Msg: fmt.Sprintf("corpus has only %d manifests", len(jobs))}
	}
	out := make([]*Generated, len(jobs))
	var wg sync.WaitGroup
	sem := make(chan struct{}, 8)
	for i, j := range jobs {
		wg.Add(1)
		go func(i int, j job) {
			defer wg.Done()
			sem <- struct{}{}
			defer func() { <-sem }()
			g := &Generated{}
			out[i] = g
			raw, _ := os.ReadFile(j.manifest)
			var m map[string]interface{}
			_ = json.Unmarshal(raw, &m)
			outDir := filepath.Join(scratchRoot, strings.ReplaceAll(j.name, "/", "_"))
			g.Corpus = &core.Corpus{Name: j.name, Manifest: m, Raw: raw, Runtime: "v2", OutDir: outDir, Failing: j.failing}
			run := func(dst string) (string, error) {
				args := []string{j.manifest, dst}
				if j.overlay != "" {
					args = append(args, j.overlay)
				}
				c := exec.Command(gen, args...)
				c.Env = core.Env()
				b, err := c.CombinedOutput()
				return string(b), err
			}
			if msg, err := run(outDir); err != nil {
				g.Corpus.Failure = "generator failed: " + lastLines(msg, 6)
				g.Module = core.EmptyModule("corpus:" + j.name)
				return
			}
			if tier == "thorough" {
				// determinism as a build-step observation: a second run must produce the same bytes
				second := outDir + "_second"
				if _, err := run(second); err == nil {
					g.Corpus.SecondRunDiff = diffTrees(outDir, second)
				}
				os.RemoveAll(second)
			}
			if j.name == "checked-in" {
				// its packages are part of the v2 module itself (type-checked there); only the bytes are compared (R12.2)
				g.Module = core.EmptyModule("corpus:" + j.name)
				return
			}
			mod, err := core.LoadModule("corpus:"+j.name, outDir, []string{"./..."}, nil)
			if err != nil {
				g.Corpus.Failure = "generated code does not type-check: " + lastLines(err.Error(), 8)
				g.Module = core.EmptyModule("corpus:" + j.name)
				return
			}
			g.Module = mod
		}(i, j)
	}
	wg.Wait()
	sort.Slice(out, func(a, b int) bool { return out[a].Corpus.Name < out[b].Corpus.Name })
	return out, nil
}

func lastLines(s string, n int) string {
	lines := strings.Split(strings.TrimSpace(s), "\n")
	if len(lines) > n {
		lines = lines[len(lines)-n:]
	}
	return strings.Join(lines, " | ")
}

// diffTrees returns the first differing file ("" when identical).
func diffTrees(a, b string) string {
	res := ""
	filepath.Walk(a, func(p string, info os.FileInfo, err error) error {
		if err != nil || info.IsDir() || res != "" {
			return nil
		}
		rel, _ := filepath.Rel(a, p)
		x, _ := os.ReadFile(p)
		y, err2 := os.ReadFile(filepath.Join(b, rel))
		if err2 != nil || string(x) != string(y) {
			res = rel
		}
		return nil
	})
	return res
}

// Cleanup removes scratch directories.
func Cleanup(gs []*Generated) {
	if scratchRoot != "" && os.Getenv("VERIF_KEEP_CORPUS") != "" {
		// development aid: leave the generated bindings in place for inspection
		scratchRoot = ""
		return
	}
	if scratchRoot != "" {
		os.RemoveAll(scratchRoot)
		scratchRoot = ""
	}
}
