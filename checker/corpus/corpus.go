// Package corpus materialises generated bindings (by running the repository's
// own generator as a build step) and loads them for the [G] rules.
package corpus

import (
	"verif/checker/core"
)

// Generated is one generated module loaded for analysis.
type Generated struct {
	Corpus *core.Corpus
	Module *core.Module
}

// Build generates and loads the corpus for the tier.
func Build(verifDir, tier string) ([]*Generated, error) {
	return nil, nil
}

// Cleanup removes scratch directories.
func Cleanup(gs []*Generated) {}
