package rules

import (
	"fmt"
	"go/ast"
	"go/constant"
	"go/token"
	"go/types"
	"sort"
	"strings"

	"verif/checker/core"
)

func init() {
	core.Register(&core.Rule{
		ID:    "R01.1",
		Title: "ROR2 escape tables cover every structural byte of the paired reader",
		Text: "By constant evaluation of the initialisers: the unescaped-byte sets of the path and query escapers contain none of ( ) , : ' % nor any byte < 0x21 or >= 0x80; the query set also excludes + & = # " +
			"(the query reader decodes with url.QueryUnescape and splits on & and =); the path set excludes / ? #; the header replacer's old strings include % , ( ) ' : and each new string is url.QueryEscape of its old one; " +
			"hexEscape emits % followed by the two upper-case hex digits; each writer constructor passes the escaper whose reader constructor installs the inverse decoder (path/header <-> url.PathUnescape, query <-> url.QueryUnescape).",
		Props: []string{"C01", "C03", "C02", "C16"},
		Floor: map[string]int{"v2": 8, "root": 8},
		Run:   runR011,
	})
	core.Register(&core.Rule{
		ID:    "R01.2",
		Title: "empty-string sentinel shared by ROR2 writer and reader",
		Text:  "ror2Writer.WriteString emits the constant object emptyString exactly on the len(v)==0 branch, and ror2Reader.ReadString compares the raw token with that same constant object before decoding (the comparison precedes the decoder call on every path).",
		Props: []string{"C01"},
		Floor: map[string]int{"v2": 2, "root": 2},
		Run:   runR012,
	})
	core.Register(&core.Rule{
		ID:    "R01.3",
		Title: "map keys and parameter names are escaped like strings",
		Text: "Taint rule: in every rawWriter.writeKey implementation the key parameter reaches the buffer only through the flavour's string escaper (jwriter.Writer.String for JSON, the stringEscaper field for ROR2) — never through RawString/RawByte/Raw directly; " +
			"readFieldName decodes the raw name with the reader's decoder; the JSON reader asks the lexer for unescaped names (UnsafeFieldName(false)); BuildQueryParams escapes parameter names.",
		Props: []string{"C01", "C03", "C02"},
		Floor: map[string]int{"v2": 5, "root": 5},
		Run:   runR013,
	})
	core.Register(&core.Rule{
		ID:    "R01.4",
		Title: "byte strings are not routed through a UTF-8 text escaper",
		Text:  "In each WriteBytes the []byte parameter converted with string(v) must not flow into a sink that interprets its argument as UTF-8 text (jwriter.Writer.String replaces invalid sequences with U+FFFD); the byte-wise percent escaper of ROR2 is accepted.",
		Props: []string{"C01", "C03"},
		Floor: map[string]int{"v2": 2, "root": 2},
		Run:   runR014,
	})
	core.Register(&core.Rule{
		ID:    "R01.6",
		Title: "hand-written envelopes write and read the same key constants",
		Text:  "For every hand-written envelope type of the data package (and batchEntities / action results in restli): the set of …Field constant objects referenced by its marshal methods equals the set referenced by its unmarshal methods.",
		Props: []string{"C01", "C02", "C03"},
		Floor: map[string]int{"v2": 6, "root": 6},
		Run:   runR016,
	})
	core.Register(&core.Rule{
		ID:    "R01.7",
		Title: "primitive width and kind duality in the raw codecs",
		Text: "Table check: every rawWriter.WriteX calls the buffer method of the same kind and width (Int32->Int32, Int64->Int64, Bool->Bool, Float32 only via float64(v) into the type's own WriteFloat64); " +
			"every reader ReadX parses with the matching kind and bit size (JSON lexer.Int32/Int64/Bool/String; ROR2 ParseInt(_,10,32|64), ParseFloat(_,32|64), ParseBool; any reader: the generic instantiation equals the result type); every ReadBytes is readBytes(ReadString()).",
		Props: []string{"C01"},
		Floor: map[string]int{"v2": 24, "root": 24},
		Run:   runR017,
	})
	core.Register(&core.Rule{
		ID:    "R03.1",
		Title: "delimiter tables equal the protocol's",
		Text: "The constant each rawWriter method emits (folded argument of RawByte/RawString): compact JSON { } [ ] : , and \"…\" around keys; ROR2 ( ) List( , :; empty containers are start+end; " +
			"pretty JSON: the constant parts are a delimiter plus JSON whitespace only and the one non-constant operand is the indent field, whose only writes append or reslice a whitespace constant.",
		Props: []string{"C03"},
		Floor: map[string]int{"v2": 20, "root": 20},
		Run:   runR031,
	})
	core.Register(&core.Rule{
		ID:    "R03.2",
		Title: "reserved names, headers and special float strings",
		Text: "Constant values: envelope fields (elements paging metadata value entities results statuses errors id location status error entity), headers (X-RestLi-Protocol-Version = 2.0.0, X-RestLi-Method, X-RestLi-Id, X-RestLi-Error-Response, X-HTTP-Method-Override), " +
			"the 13 method names produced by the stringer table for each Method constant, patch / ids; every WriteFloat64 has the three guarded branches (> MaxFloat64, < -MaxFloat64, NaN) emitting exactly Infinity, -Infinity, NaN (quoted in JSON, bare in ROR2).",
		Props: []string{"C03"},
		Floor: map[string]int{"v2": 30, "root": 28},
		Run:   runR032,
	})
	core.Register(&core.Rule{
		ID:    "R11.5",
		Title: "partial-update field legality predicate (16-row table)",
		Text:  "PartialUpdateFieldChecker.CheckField interpreted over all combinations of (excluded, delete, set, patch) equals the reference: no-op when nothing is set; error if the field is excluded; error if more than one of delete/set/patch; otherwise nil with HasDeletes/HasSets recorded for delete/set.",
		Props: []string{"C11", "C07"},
		Floor: map[string]int{"v2": 16, "root": 16},
		Run:   runR115,
	})
}

// constCharsOf extracts the string constant iterated by the initialiser of a
// package-level `map[byte]struct{}` table built by a function literal.
func constCharsOf(c *core.Ctx, rel, varName string) (string, token.Pos, bool) {
	p := c.M.Pkg(rel)
	obj := mustObj(c, rel, varName)
	for _, f := range p.Syntax {
		var found string
		var ok bool
		var pos token.Pos
		ast.Inspect(f, func(n ast.Node) bool {
			vs, isVS := n.(*ast.ValueSpec)
			if !isVS {
				return true
			}
			for i, id := range vs.Names {
				if p.TypesInfo.Defs[id] != obj || i >= len(vs.Values) {
					continue
				}
				// the table is built from one constant string: whatever builds it (a loop in a function literal, a helper
				// such as newByteSet(chars), a composite of both), the initialiser mentions exactly one long string constant
				seen := map[string]token.Pos{}
				ast.Inspect(vs.Values[i], func(m ast.Node) bool {
					if e, isExpr := m.(ast.Expr); isExpr {
						if cv := core.ConstOf(p.TypesInfo, e); cv != nil && cv.Kind() == constant.String && len(constant.StringVal(cv)) >= 8 {
							if _, dup := seen[constant.StringVal(cv)]; !dup {
								seen[constant.StringVal(cv)] = e.Pos()
							}
							return false
						}
					}
					return true
				})
				if len(seen) == 1 {
					for k, v := range seen {
						found, ok, pos = k, true, v
					}
				}
			}
			return true
		})
		if ok {
			return found, pos, true
		}
	}
	return "", obj.Pos(), false
}

// reachableBodies returns the body of fd and of the functions of its package it reaches through static calls (to the
// given depth): what a rule about "this function decides …" has to look at when part of it sits in a helper that cannot
// be folded back (a helper that returns from inside a loop).
func reachableBodies(c *core.Ctx, rel string, fd *ast.FuncDecl, depth int) []*ast.BlockStmt {
	inf := info(c, rel)
	seen := map[*ast.FuncDecl]bool{fd: true}
	out := []*ast.BlockStmt{fd.Body}
	frontier := []*ast.FuncDecl{fd}
	for d := 0; d < depth && len(frontier) > 0; d++ {
		var next []*ast.FuncDecl
		for _, cur := range frontier {
			ast.Inspect(cur.Body, func(n ast.Node) bool {
				call, ok := n.(*ast.CallExpr)
				if !ok {
					return true
				}
				f := core.Callee(inf, call)
				if f == nil || f.Pkg() == nil || c.M.Rel(f.Pkg().Path()) != rel {
					return true
				}
				if cd := c.M.Decl(f.Origin()); cd != nil && cd.Body != nil && !seen[cd] {
					seen[cd] = true
					out = append(out, cd.Body)
					next = append(next, cd)
				}
				return true
			})
		}
		frontier = next
	}
	return out
}

func runR011(c *core.Ctx) {
	const rel = "restlicodec"
	inf := info(c, rel)
	structural := "(),:'%"
	for _, tab := range []struct{ name, extra string }{{"unescapedPathCharacters", "/?#"}, {"unescapedQueryCharacters", "+&=#"}} {
		chars, pos, ok := constCharsOf(c, rel, tab.name)
		if !ok {
			c.Unknown(rel, tab.name, "unescaped byte table", pos, "initialiser shape not understood (expected a loop over a constant string)")
			continue
		}
		var bad []string
		for i := 0; i < len(chars); i++ {
			b := chars[i]
			if strings.IndexByte(structural, b) >= 0 || strings.IndexByte(tab.extra, b) >= 0 || b < 0x21 || b >= 0x80 {
				bad = append(bad, fmt.Sprintf("%q", string(b)))
			}
		}
		c.Check(len(bad) == 0, rel, tab.name, "no structural or unsafe byte is left unescaped", pos, fmt.Sprintf("%d unescaped bytes", len(chars)),
			"left unescaped: "+strings.Join(bad, " ")+" — the matching reader treats it as a delimiter / decodes it differently")
	}
	// escapers consult their table and otherwise hexEscape
	hex := mustFunc(c, rel, "hexEscape")
	for _, e := range []struct{ fn, tab string }{{"Ror2PathEscape", "unescapedPathCharacters"}, {"Ror2QueryEscape", "unescapedQueryCharacters"}} {
		_, fd := mustDecl(c, rel, e.fn)
		tabObj := mustObj(c, rel, e.tab)
		usesTab, usesHex, rawWrites := false, false, 0
		ast.Inspect(fd.Body, func(n ast.Node) bool {
			switch x := n.(type) {
			case *ast.IndexExpr:
				if mentions(inf, x.X, tabObj) {
					usesTab = true
				}
			case *ast.CallExpr:
				f := core.Callee(inf, x)
				if f == hex {
					usesHex = true
				}
				if f != nil && core.NameOf(f) == "WriteByte" {
					rawWrites++
				}
			}
			return true
		})
		c.Check(usesTab && usesHex && rawWrites == 1, rel, e.fn, "bytes outside the table are hex-escaped, bytes inside are copied", fd.Pos(), "", fmt.Sprintf("table consulted=%v hexEscape used=%v raw writes=%d (expected 1)", usesTab, usesHex, rawWrites))
		// … and no other escaper's table decides anything here (a shared "nothing to escape" shortcut built on the path
		// table lets + & = through in queries)
		var foreign []string
		for _, other := range []string{"unescapedPathCharacters", "unescapedQueryCharacters"} {
			if other == e.tab {
				continue
			}
			oo := c.M.LookupObj(rel, other)
			for _, body := range reachableBodies(c, rel, fd, 3) {
				ast.Inspect(body, func(n ast.Node) bool {
					if x, ok := n.(*ast.IndexExpr); ok && oo != nil && mentions(inf, x.X, oo) {
						foreign = append(foreign, c.M.Position(x.Pos()))
					}
					return true
				})
			}
		}
		c.Check(len(foreign) == 0, rel, e.fn, "only the escaper's own table decides what is copied unescaped", fd.Pos(), "", "consults "+"another context's table at "+strings.Join(foreign, ", ")+": bytes that are safe there but reserved here are copied unescaped")
		// the input is walked byte by byte: ranging over a string decodes runes and replaces every byte that is not part of
		// well-formed UTF-8 by U+FFFD, so byte strings (written through WriteString(string(v))) do not survive
		var runeWalks []string
		ast.Inspect(fd.Body, func(n ast.Node) bool {
			switch x := n.(type) {
			case *ast.RangeStmt:
				if b, ok := inf.Types[x.X].Type.Underlying().(*types.Basic); ok && b.Info()&types.IsString != 0 && x.Value != nil {
					runeWalks = append(runeWalks, "range over the string "+core.ExprString(x.X))
				}
			case *ast.CallExpr:
				if f := core.Callee(inf, x); f != nil && f.Pkg() != nil && f.Pkg().Path() == "unicode/utf8" && strings.HasPrefix(core.NameOf(f), "DecodeRune") {
					runeWalks = append(runeWalks, "utf8."+core.NameOf(f))
				}
				if tv, ok := inf.Types[x.Fun]; ok && tv.IsType() {
					if sl, ok := tv.Type.Underlying().(*types.Slice); ok && types.Identical(sl.Elem(), types.Typ[types.Rune]) {
						runeWalks = append(runeWalks, "conversion to []rune")
					}
				}
			}
			return true
		})
		c.Check(len(runeWalks) == 0, rel, e.fn, "the input is walked byte by byte, never rune by rune", fd.Pos(), "", strings.Join(runeWalks, "; ")+": bytes outside well-formed UTF-8 become U+FFFD before they are escaped")
	}
	// hexEscape shape
	_, hd := mustDecl(c, rel, "hexEscape")
	okHex := false
	var emitted []string
	ast.Inspect(hd.Body, func(n ast.Node) bool {
		if call, ok := n.(*ast.CallExpr); ok {
			if f := core.Callee(inf, call); f != nil && core.NameOf(f) == "WriteByte" && len(call.Args) == 1 {
				emitted = append(emitted, core.ExprString(call.Args[0]))
			}
		}
		return true
	})
	hexConst := ""
	ast.Inspect(hd.Body, func(n ast.Node) bool {
		if vs, ok := n.(*ast.ValueSpec); ok && len(vs.Values) == 1 {
			if cv := core.ConstOf(inf, vs.Values[0]); cv != nil && cv.Kind() == constant.String {
				hexConst = constant.StringVal(cv)
			}
		}
		return true
	})
	if len(emitted) == 3 && emitted[0] == "'%'" && strings.Contains(emitted[1], ">> 4") && (strings.Contains(emitted[2], "& 15") || strings.Contains(emitted[2], "& 0xf") || strings.Contains(emitted[2], "& 0x0F")) && hexConst == "0123456789ABCDEF" {
		okHex = true
	}
	c.Check(okHex, rel, "hexEscape", "emits % and the two upper-case hex digits of the byte", hd.Pos(), strings.Join(emitted, " "), "hexEscape does not emit %, hex[c>>4], hex[c&15] over 0123456789ABCDEF: "+strings.Join(emitted, " "))
	// header replacer
	hobj := mustObj(c, rel, "headerEncodingEscaper")
	p := c.M.Pkg(rel)
	var repl *ast.CallExpr
	for _, f := range p.Syntax {
		ast.Inspect(f, func(n ast.Node) bool {
			vs, ok := n.(*ast.ValueSpec)
			if !ok {
				return true
			}
			for i, id := range vs.Names {
				if inf.Defs[id] == hobj && i < len(vs.Values) {
					ast.Inspect(vs.Values[i], func(m ast.Node) bool {
						if call, ok := m.(*ast.CallExpr); ok && core.IsFunc(core.Callee(inf, call), "strings", "NewReplacer") {
							repl = call
						}
						return true
					})
				}
			}
			return true
		})
	}
	if repl == nil || len(repl.Args)%2 != 0 {
		c.Unknown(rel, "headerEncodingEscaper", "replacer pairs", hobj.Pos(), "initialiser is not strings.NewReplacer(old, new, …)")
	} else {
		olds := map[string]bool{}
		okPairs := true
		why := ""
		for i := 0; i < len(repl.Args); i += 2 {
			ov := core.ConstOf(inf, repl.Args[i])
			if ov == nil {
				okPairs, why = false, "non-constant old string"
				continue
			}
			old := constant.StringVal(ov)
			olds[old] = true
			// new: url.QueryEscape(<same const>) or a constant equal to %XX
			want := fmt.Sprintf("%%%02X", old[0])
			switch nv := core.Unparen(repl.Args[i+1]).(type) {
			case *ast.CallExpr:
				if !core.IsFunc(core.Callee(inf, nv), "net/url", "QueryEscape") || len(nv.Args) != 1 {
					okPairs, why = false, "replacement of "+old+" is not url.QueryEscape"
				} else if av := core.ConstOf(inf, nv.Args[0]); av == nil || constant.StringVal(av) != old {
					okPairs, why = false, "replacement of "+old+" escapes a different string"
				}
			default:
				if cv := core.ConstOf(inf, repl.Args[i+1]); cv == nil || !strings.EqualFold(constant.StringVal(cv), want) {
					okPairs, why = false, "replacement of "+old+" is not "+want
				}
			}
		}
		var missing []string
		for _, b := range structural {
			if !olds[string(b)] {
				missing = append(missing, string(b))
			}
		}
		c.Check(okPairs && len(missing) == 0, rel, "headerEncodingEscaper", "reduced escaper escapes every ROR2 structural byte with its %XX form", repl.Pos(), "", "missing: "+strings.Join(missing, " ")+" "+why)
	}
	// writer/reader decoder pairing
	bind := func(fn string, wantCallee string, what string) {
		_, fd := mustDecl(c, rel, fn)
		found := false
		ast.Inspect(fd.Body, func(n ast.Node) bool {
			switch x := n.(type) {
			case *ast.KeyValueExpr:
				if id, ok := x.Key.(*ast.Ident); ok && id.Name == "decoder" {
					if f, ok := core.ObjOf(inf, x.Value).(*types.Func); ok && f.FullName() == wantCallee {
						found = true
					}
				}
				if id, ok := x.Key.(*ast.Ident); ok && id.Name == "stringEscaper" {
					if o := core.ObjOf(inf, x.Value); o != nil && core.NameOf(o) == wantCallee {
						found = true
					}
				}
			case *ast.CallExpr:
				for _, a := range x.Args {
					if o := core.ObjOf(inf, a); o != nil && (core.NameOf(o) == wantCallee) {
						found = true
					}
				}
			}
			return true
		})
		c.Check(found, rel, fn, what, fd.Pos(), "", fn+" does not install/pass "+wantCallee)
	}
	bind("NewRor2ReaderWithExcludedFields", "net/url.PathUnescape", "path/header reader decodes with url.PathUnescape")
	bind("ParseQueryParams", "net/url.QueryUnescape", "query reader decodes with url.QueryUnescape")
	bind("NewRor2PathWriter", "Ror2PathEscape", "path writer escapes with Ror2PathEscape")
	bind("NewRestLiQueryParamsWriter", "Ror2QueryEscape", "query writer escapes with Ror2QueryEscape")
	bind("NewRor2HeaderWriter", "headerEncodingEscaper", "header writer escapes with the reduced escaper")
}

func runR012(c *core.Ctx) {
	const rel = "restlicodec"
	inf := info(c, rel)
	empty := mustObj(c, rel, "emptyString")
	_, wd := mustDecl(c, rel, "(*ror2Writer).WriteString")
	par := core.Parents(wd)
	okW := false
	ast.Inspect(wd.Body, func(n ast.Node) bool {
		if call, ok := n.(*ast.CallExpr); ok && len(call.Args) == 1 && core.ObjOf(inf, call.Args[0]) == empty {
			okW = core.GuardedByFact(inf, par, core.EnclosingStmt(par, call), func(f core.Fact) bool {
				be, ok := core.Unparen(f.Expr).(*ast.BinaryExpr)
				if !ok || !f.Val || be.Op != token.EQL {
					return false
				}
				lc, isLen := core.Unparen(be.X).(*ast.CallExpr)
				cv := core.ConstOf(inf, be.Y)
				if isLen && cv != nil && cv.ExactString() == "0" {
					return true
				}
				// v == ""
				if cv != nil && cv.ExactString() == `""` {
					return true
				}
				_ = lc
				return false
			}, nil)
		}
		return true
	})
	c.Check(okW, rel, "(*ror2Writer).WriteString", "the empty string is written as the sentinel constant, only when empty", wd.Pos(), "", "emptyString is not emitted exactly on the len(v)==0 branch")
	_, rd := mustDecl(c, rel, "(*ror2Reader).ReadString")
	var cmpPos, decPos token.Pos
	ast.Inspect(rd.Body, func(n ast.Node) bool {
		switch x := n.(type) {
		case *ast.BinaryExpr:
			if x.Op == token.EQL && (core.ObjOf(inf, x.Y) == empty || core.ObjOf(inf, x.X) == empty) && cmpPos == 0 {
				cmpPos = x.Pos()
			}
		case *ast.CaseClause:
			// switch s { case emptyString: … }
			for _, ce := range x.List {
				if core.ObjOf(inf, ce) == empty && cmpPos == 0 {
					cmpPos = ce.Pos()
				}
			}
		case *ast.CallExpr:
			if sel, ok := core.Unparen(x.Fun).(*ast.SelectorExpr); ok && sel.Sel.Name == "decoder" && decPos == 0 {
				decPos = x.Pos()
			}
		}
		return true
	})
	c.Check(cmpPos != 0 && decPos != 0 && cmpPos < decPos, rel, "(*ror2Reader).ReadString", "the raw token is compared with the sentinel before decoding", rd.Pos(), "", "no comparison with emptyString before the decoder runs")
}

func runR013(c *core.Ctx) {
	const rel = "restlicodec"
	inf := info(c, rel)
	p := c.M.Pkg(rel)
	n := 0
	for _, fd := range c.M.FuncDecls(rel) {
		if fd.Body == nil || fd.Name.Name != "writeKey" || fd.Recv == nil {
			continue
		}
		n++
		fn := core.DeclName(fd)
		key := inf.Defs[fd.Type.Params.List[0].Names[0]]
		raw := ""
		escaped := false
		ast.Inspect(fd.Body, func(x ast.Node) bool {
			call, ok := x.(*ast.CallExpr)
			if !ok {
				return true
			}
			f := core.Callee(inf, call)
			for _, a := range call.Args {
				if core.ObjOf(inf, a) != key {
					continue
				}
				name := ""
				if f != nil {
					name = core.NameOf(f)
				}
				switch {
				case f != nil && (name == "RawString" || name == "RawByte" || name == "Raw" || name == "WriteByte" ||
					(name == "WriteString" && (core.RecvNamed(f) == nil || core.RecvNamed(f) != core.RecvNamed(funcOfDecl(inf, fd))))):
					raw = name
				case f != nil && name == "String" && core.IsMethod(f, "github.com/mailru/easyjson/jwriter", "Writer", "String"):
					escaped = true
				case f != nil && name == "writeKey":
					escaped = true // delegation to the embedded writer, which is checked itself
				case f != nil && name == "WriteString" && core.RecvNamed(f) != nil && core.RecvNamed(f) == core.RecvNamed(funcOfDecl(inf, fd)):
					escaped = true // the flavour's own string writer (escapes, handles the empty string)
					raw = ""
				default:
					// call through a func-typed field (stringEscaper)
					if sel, ok := core.Unparen(call.Fun).(*ast.SelectorExpr); ok {
						if fv, ok := core.ObjOf(inf, sel).(*types.Var); ok && fv.IsField() && strings.Contains(strings.ToLower(core.NameOf(fv)), "escape") {
							escaped = true
						}
					}
				}
			}
			return true
		})
		c.Check(raw == "" && escaped, rel, fn, "key goes through the flavour's string escaper", fd.Pos(), "",
			fmt.Sprintf("the key reaches the buffer through %s without escaping: a key containing a quote / delimiter produces a malformed document", raw))
	}
	if n < 2 {
		c.Unknown(rel, "-", "writeKey implementations", token.NoPos, fmt.Sprintf("found %d", n))
	}
	// readFieldName decodes
	_, rfd := mustDecl(c, rel, "(*ror2Reader).readFieldName")
	dec := false
	ast.Inspect(rfd.Body, func(x ast.Node) bool {
		if call, ok := x.(*ast.CallExpr); ok {
			if sel, ok := core.Unparen(call.Fun).(*ast.SelectorExpr); ok && sel.Sel.Name == "decoder" {
				dec = true
			}
		}
		return true
	})
	c.Check(dec, rel, "(*ror2Reader).readFieldName", "field names are decoded with the reader's decoder", rfd.Pos(), "", "the raw bytes of the name are returned undecoded: escaped keys do not round-trip")
	// the JSON reader takes its keys unescaped from the lexer
	nNames := 0
	for _, fd := range c.M.FuncDecls(rel) {
		if fd.Body == nil {
			continue
		}
		ast.Inspect(fd.Body, func(x ast.Node) bool {
			call, ok := x.(*ast.CallExpr)
			if !ok {
				return true
			}
			f := core.Callee(inf, call)
			if f == nil || !core.IsMethod(f, "github.com/mailru/easyjson/jlexer", "Lexer", "UnsafeFieldName") || len(call.Args) != 1 {
				return true
			}
			nNames++
			v := core.ConstOf(inf, call.Args[0])
			c.Check(v != nil && v.String() == "false", rel, core.DeclName(fd), fmt.Sprintf("JSON member name #%d is unescaped by the lexer", ordinal(fd, call)), call.Pos(), "UnsafeFieldName(false)",
				"UnsafeFieldName("+core.ExprString(call.Args[0])+") may skip unescaping: a key containing an escaped quote, backslash or \\uXXXX arrives in its wire form")
			return true
		})
	}
	if nNames == 0 {
		c.Unknown(rel, "-", "jlexer.UnsafeFieldName call sites", token.NoPos, "none found")
	}
	// the query builder escapes parameter names (BuildQueryParams in v2, queryParamsWriter.WriteParams in the root module)
	bqName := "BuildQueryParams"
	if c.M.LookupFunc(rel, bqName) == nil {
		bqName = "(*queryParamsWriter).WriteParams"
	}
	_, bq := mustDecl(c, rel, bqName)
	rawParam := false
	ast.Inspect(bq.Body, func(x ast.Node) bool {
		if call, ok := x.(*ast.CallExpr); ok {
			if f := core.Callee(inf, call); f != nil && (core.NameOf(f) == "WriteString" || core.NameOf(f) == "RawString") && len(call.Args) == 1 {
				if sel, ok := core.Unparen(call.Args[0]).(*ast.SelectorExpr); ok && sel.Sel.Name == "param" {
					rawParam = true
				}
				if v, ok := core.ObjOf(inf, call.Args[0]).(*types.Var); ok && strings.HasPrefix(strings.ToLower(core.NameOf(v)), "param") {
					rawParam = true
				}
			}
		}
		return true
	})
	c.Check(!rawParam, rel, bqName, "parameter names are escaped", bq.Pos(), "", "parameter names are written raw: a name containing & = or # breaks the query string")
	_ = p
}

func runR014(c *core.Ctx) {
	const rel = "restlicodec"
	inf := info(c, rel)
	n := 0
	for _, fd := range c.M.FuncDecls(rel) {
		if fd.Body == nil || fd.Name.Name != "WriteBytes" || fd.Recv == nil || len(fd.Type.Params.List) != 1 {
			continue
		}
		recvT := core.DeclName(fd)
		if strings.Contains(recvT, "noop") || strings.Contains(recvT, "Noop") {
			continue
		}
		n++
		param := inf.Defs[fd.Type.Params.List[0].Names[0]]
		bad := ""
		ast.Inspect(fd.Body, func(x ast.Node) bool {
			call, ok := x.(*ast.CallExpr)
			if !ok {
				return true
			}
			f := core.Callee(inf, call)
			if f == nil || !core.IsMethod(f, "github.com/mailru/easyjson/jwriter", "Writer", "String") {
				return true
			}
			for _, a := range call.Args {
				if conv, ok := core.Unparen(a).(*ast.CallExpr); ok && len(conv.Args) == 1 && core.ObjOf(inf, conv.Args[0]) == param {
					bad = "string(v) is passed to jwriter.Writer.String, which replaces invalid UTF-8 by U+FFFD: bytes >= 0x80 are corrupted"
				}
			}
			return true
		})
		c.Check(bad == "", rel, recvT, "bytes do not pass through a UTF-8 text escaper", fd.Pos(), "", bad)
	}
	if n < 2 {
		c.Unknown(rel, "-", "WriteBytes implementations", token.NoPos, fmt.Sprintf("found %d", n))
	}
}

func fieldConstsUsed(inf *types.Info, pkgPath string, n ast.Node, into map[types.Object]bool) {
	ast.Inspect(n, func(x ast.Node) bool {
		if id, ok := x.(*ast.Ident); ok {
			if k, ok := inf.Uses[id].(*types.Const); ok && k.Pkg() != nil && k.Pkg().Path() == pkgPath && strings.HasSuffix(core.NameOf(k), "Field") {
				into[k] = true
			}
		}
		return true
	})
}

func runR016(c *core.Ctx) {
	data := dataPkgRel(c)
	dp := c.M.Pkg(data)
	inf := dp.TypesInfo
	dataPath := dp.PkgPath
	type sides struct{ m, u map[types.Object]bool }
	byType := map[string]*sides{}
	for _, file := range dp.Syntax {
		if strings.HasSuffix(c.M.Fset.File(file.Pos()).Name(), ".gr.go") {
			continue
		}
		for _, d := range file.Decls {
			fd, ok := d.(*ast.FuncDecl)
			if !ok || fd.Body == nil || fd.Recv == nil {
				continue
			}
			tn := strings.TrimPrefix(strings.Split(core.DeclName(fd), ")")[0], "(*")
			tn = strings.TrimPrefix(tn, "(")
			tn = strings.Split(tn, ".")[0]
			s := byType[tn]
			if s == nil {
				s = &sides{map[types.Object]bool{}, map[types.Object]bool{}}
				byType[tn] = s
			}
			lower := strings.ToLower(fd.Name.Name)
			switch {
			case strings.HasPrefix(lower, "unmarshal"):
				fieldConstsUsed(inf, dataPath, fd.Body, s.u)
			case strings.HasPrefix(lower, "marshal"):
				fieldConstsUsed(inf, dataPath, fd.Body, s.m)
			}
		}
	}
	// CreatedAndReturnedEntity embeds CreatedEntity: its helpers belong to both
	if ce, ok := byType["CreatedEntity"]; ok {
		if cr, ok := byType["CreatedAndReturnedEntity"]; ok {
			for k := range ce.m {
				cr.m[k] = true
			}
			for k := range ce.u {
				cr.u[k] = true
			}
		}
	}
	names := []string{}
	for n := range byType {
		names = append(names, n)
	}
	sort.Strings(names)
	for _, n := range names {
		s := byType[n]
		if len(s.m) == 0 && len(s.u) == 0 {
			continue
		}
		var diff []string
		for k := range s.m {
			if !s.u[k] {
				diff = append(diff, core.NameOf(k)+" written but never read")
			}
		}
		for k := range s.u {
			if !s.m[k] {
				diff = append(diff, core.NameOf(k)+" read but never written")
			}
		}
		sort.Strings(diff)
		c.Check(len(diff) == 0, data, n, "marshal and unmarshal use the same envelope key constants", token.NoPos, fmt.Sprintf("%d keys", len(s.m)), strings.Join(diff, "; "))
	}
	// restli: batchEntities and action value
	rinf := info(c, "restli")
	for _, pair := range []struct{ name, w, r string }{
		{"batchEntities", "batchEntities.MarshalRestLi", "batchEntities.UnmarshalRestLi"},
		{"action result", "registerAction", "DoActionRequestWithResults"},
		{"batch create request", "batchCreate", ""},
	} {
		_, wd := mustDecl(c, "restli", pair.w)
		w := map[types.Object]bool{}
		fieldConstsUsed(rinf, dataPath, wd.Body, w)
		if pair.r == "" {
			for _, mb := range constructedTypeMethods(c, rinf, wd.Body) {
				if c.M.PkgOf(mb.typ) == c.M.Pkg("restli") {
					fieldConstsUsed(mb.inf, dataPath, mb.body, w)
				}
			}
			// read side is Elements.unmarshalRestLi in the data package
			r := byType["Elements"]
			okAll := r != nil
			for k := range w {
				if r == nil || !r.u[k] {
					okAll = false
				}
			}
			c.Check(okAll && len(w) > 0, "restli", pair.w, pair.name+": keys written by the client are the ones Elements reads", wd.Pos(), "", "the batch create envelope key is not one Elements.UnmarshalRestLi reads")
			continue
		}
		_, rd := mustDecl(c, "restli", pair.r)
		r := map[types.Object]bool{}
		fieldConstsUsed(rinf, dataPath, rd.Body, r)
		// the writer may build its envelope through a named marshaler type instead of a closure: the methods of the
		// package-local types it instantiates (literal or conversion) write on its behalf
		for _, mb := range constructedTypeMethods(c, rinf, wd.Body) {
			fieldConstsUsed(mb.inf, dataPath, mb.body, w)
		}
		for _, mb := range constructedTypeMethods(c, rinf, rd.Body) {
			fieldConstsUsed(mb.inf, dataPath, mb.body, r)
		}
		same := len(w) == len(r) && len(w) > 0
		for k := range w {
			if !r[k] {
				same = false
			}
		}
		c.Check(same, "restli", pair.name, "writer and reader use the same envelope key constants", wd.Pos(), "", "the key constants differ between "+pair.w+" and "+pair.r)
	}
}

func runR017(c *core.Ctx) {
	const rel = "restlicodec"
	inf := info(c, rel)
	jw := "github.com/mailru/easyjson/jwriter"
	// writers
	wtable := map[string]string{"WriteInt": "Int", "WriteInt32": "Int32", "WriteInt64": "Int64", "WriteBool": "Bool"}
	for _, recv := range []string{"compactJsonWriter", "ror2Writer"} {
		for m, want := range wtable {
			f := c.M.LookupFunc(rel, "(*"+recv+")."+m)
			if f == nil {
				panic(&core.AnchorError{Pkg: rel, Name: recv + "." + m, What: "method"})
			}
			fd := c.M.Decl(f)
			got := ""
			ast.Inspect(fd.Body, func(n ast.Node) bool {
				if call, ok := n.(*ast.CallExpr); ok {
					if cf := core.Callee(inf, call); cf != nil && core.IsMethod(cf, jw, "Writer", core.NameOf(cf)) {
						got = core.NameOf(cf)
					}
				}
				return true
			})
			c.Check(got == want, rel, "(*"+recv+")."+m, "writes with the buffer method of the same kind and width", fd.Pos(), got, "calls jwriter."+got+" (expected "+want+"): silent truncation / re-typing")
		}
		// Float32 -> own WriteFloat64(float64(v))
		f := mustFunc(c, rel, "(*"+recv+").WriteFloat32")
		fd := c.M.Decl(f)
		okF := false
		ast.Inspect(fd.Body, func(n ast.Node) bool {
			if call, ok := n.(*ast.CallExpr); ok && len(call.Args) == 1 {
				if cf := core.Callee(inf, call); cf != nil && core.NameOf(cf) == "WriteFloat64" {
					if conv, ok := core.Unparen(call.Args[0]).(*ast.CallExpr); ok {
						if tv, ok := inf.Types[conv.Fun]; ok && tv.IsType() && types.Identical(tv.Type, types.Typ[types.Float64]) {
							okF = true
						}
					}
				}
			}
			return true
		})
		c.Check(okF, rel, "(*"+recv+").WriteFloat32", "float32 is widened exactly via float64(v)", fd.Pos(), "", "WriteFloat32 does not delegate to WriteFloat64(float64(v))")
		// Float64 default branch: shortest round-trip formatting at 64 bits (jwriter.Float64 or strconv.Format/AppendFloat(v, fmt, -1, 64));
		// the ROR2 flavours must pass the text through their escaper ('+' of the exponent is reserved in query strings)
		f64 := mustFunc(c, rel, "(*"+recv+").WriteFloat64")
		fd64 := c.M.Decl(f64)
		got, escaped := "", false
		par64 := core.Parents(fd64.Body)
		ast.Inspect(fd64.Body, func(n ast.Node) bool {
			call, ok := n.(*ast.CallExpr)
			if !ok {
				return true
			}
			cf := core.Callee(inf, call)
			switch {
			case cf != nil && core.IsMethod(cf, jw, "Writer", core.NameOf(cf)) && strings.HasPrefix(core.NameOf(cf), "Float"):
				got = core.NameOf(cf)
			case cf != nil && (core.IsFunc(cf, "strconv", "FormatFloat") || core.IsFunc(cf, "strconv", "AppendFloat")):
				a := call.Args
				if core.NameOf(cf) == "AppendFloat" {
					a = a[1:]
				}
				prec, bits := core.ConstOf(inf, a[2]), core.ConstOf(inf, a[3])
				if prec != nil && bits != nil && prec.ExactString() == "-1" && bits.ExactString() == "64" {
					got = "Float64"
				} else {
					got = core.NameOf(cf) + "(" + core.ExprString(a[2]) + ", " + core.ExprString(a[3]) + ")"
				}
				if outer, ok := par64[call].(*ast.CallExpr); ok {
					if sel, ok := core.Unparen(outer.Fun).(*ast.SelectorExpr); ok {
						if fv, ok := core.ObjOf(inf, sel).(*types.Var); ok && fv.IsField() && strings.Contains(strings.ToLower(core.NameOf(fv)), "escape") {
							escaped = true
						}
					}
				}
			}
			return true
		})
		c.Check(got == "Float64", rel, "(*"+recv+").WriteFloat64", "finite values are written with Float64", fd64.Pos(), got, "formats with "+got+": not the shortest 64-bit round-trip form")
		if recv == "ror2Writer" {
			c.Check(escaped, rel, "(*"+recv+").WriteFloat64", "the formatted number passes through the flavour's escaper", fd64.Pos(), "",
				"finite values reach the buffer unescaped: the exponent sign of 1e+21 is a space after query unescaping and the value does not decode")
		}
	}
	// JSON reader
	jl := "github.com/mailru/easyjson/jlexer"
	for m, want := range map[string]string{"ReadInt": "Int", "ReadInt32": "Int32", "ReadInt64": "Int64", "ReadBool": "Bool", "ReadString": "String"} {
		f := mustFunc(c, rel, "(*jsonReader)."+m)
		fd := c.M.Decl(f)
		got := ""
		ast.Inspect(fd.Body, func(n ast.Node) bool {
			if call, ok := n.(*ast.CallExpr); ok {
				if cf := core.Callee(inf, call); cf != nil && core.IsMethod(cf, jl, "Lexer", core.NameOf(cf)) {
					got = core.NameOf(cf)
				}
			}
			return true
		})
		c.Check(got == want, rel, "(*jsonReader)."+m, "reads with the lexer method of the same kind and width", fd.Pos(), got, "calls jlexer."+got+" (expected "+want+")")
	}
	// ROR2 reader
	for m, want := range map[string][2]string{"ReadInt32": {"ParseInt", "32"}, "ReadInt64": {"ParseInt", "64"}, "ReadFloat32": {"ParseFloat", "32"}, "ReadFloat64": {"ParseFloat", "64"}, "ReadBool": {"ParseBool", ""}} {
		f := mustFunc(c, rel, "(*ror2Reader)."+m)
		fd := c.M.Decl(f)
		gotFn, gotBits, base := "", "", ""
		ast.Inspect(fd.Body, func(n ast.Node) bool {
			if call, ok := n.(*ast.CallExpr); ok {
				if cf := core.Callee(inf, call); cf != nil && cf.Pkg() != nil && cf.Pkg().Path() == "strconv" {
					gotFn = core.NameOf(cf)
					if len(call.Args) >= 2 {
						if cv := core.ConstOf(inf, call.Args[len(call.Args)-1]); cv != nil {
							gotBits = cv.ExactString()
						}
					}
					if len(call.Args) == 3 {
						if cv := core.ConstOf(inf, call.Args[1]); cv != nil {
							base = cv.ExactString()
						}
					}
				}
			}
			return true
		})
		ok := gotFn == want[0] && gotBits == want[1] && (want[0] != "ParseInt" || base == "10")
		c.Check(ok, rel, "(*ror2Reader)."+m, "parses with the matching kind and bit size", fd.Pos(), gotFn+" "+gotBits, fmt.Sprintf("uses strconv.%s bits=%s base=%s (expected %s %s)", gotFn, gotBits, base, want[0], want[1]))
	}
	// any reader generic instantiations
	for m, want := range map[string]string{"ReadInt": "int", "ReadInt32": "int32", "ReadInt64": "int64", "ReadFloat32": "float32", "ReadFloat64": "float64"} {
		f := mustFunc(c, rel, "(*anyReader)."+m)
		fd := c.M.Decl(f)
		got := ""
		ast.Inspect(fd.Body, func(n ast.Node) bool {
			if ix, ok := n.(*ast.IndexExpr); ok {
				if tv, ok := inf.Types[ix.Index]; ok && tv.IsType() {
					got = tv.Type.String()
				}
			}
			return true
		})
		c.Check(got == want, rel, "(*anyReader)."+m, "generic reader instantiated at the result type", fd.Pos(), got, "instantiated at "+got+" (expected "+want+")")
	}
	// ReadBytes = <bytes decoder>(ReadString()): readBytes, or a package function …Bytes(string, error) for the JSON flavour
	rb := mustFunc(c, rel, "readBytes")
	for _, recv := range []string{"jsonReader", "ror2Reader", "anyReader"} {
		f := mustFunc(c, rel, "(*"+recv+").ReadBytes")
		fd := c.M.Decl(f)
		ok := false
		ast.Inspect(fd.Body, func(n ast.Node) bool {
			if call, ok2 := n.(*ast.CallExpr); ok2 && len(call.Args) == 1 && (core.Callee(inf, call) == rb || isBytesDecoder(c, core.Callee(inf, call))) {
				arg := core.Unparen(call.Args[0])
				// the string read first and handed on (`s, err := j.ReadString(); …; return readJsonBytes(s)`)
				if v, isVar := core.ObjOf(inf, arg).(*types.Var); isVar && !v.IsField() {
					var defs []ast.Expr
					ast.Inspect(fd.Body, func(y ast.Node) bool {
						if as, okA := y.(*ast.AssignStmt); okA {
							for i, l := range as.Lhs {
								if core.ObjOf(inf, l) == v {
									if len(as.Rhs) == 1 && i == 0 {
										defs = append(defs, as.Rhs[0])
									} else if len(as.Rhs) == len(as.Lhs) {
										defs = append(defs, as.Rhs[i])
									} else {
										defs = append(defs, nil)
									}
								}
							}
						}
						return true
					})
					if len(defs) == 1 && defs[0] != nil {
						arg = core.Unparen(defs[0])
					}
				}
				if inner, ok3 := arg.(*ast.CallExpr); ok3 {
					if cf := core.Callee(inf, inner); cf != nil && core.NameOf(cf) == "ReadString" {
						ok = true
					}
				}
			}
			return true
		})
		c.Check(ok, rel, "(*"+recv+").ReadBytes", "bytes are read as readBytes(ReadString())", fd.Pos(), "", "ReadBytes does not go through readBytes(ReadString())")
	}
}

// emittedConsts lists, in source order, what a raw writer method emits:
// constants as their string value, anything else as "<expr>".
func emittedConsts(inf *types.Info, fd *ast.FuncDecl) []string {
	var out []string
	ast.Inspect(fd.Body, func(n ast.Node) bool {
		call, ok := n.(*ast.CallExpr)
		if !ok {
			return true
		}
		f := core.Callee(inf, call)
		if f == nil {
			return true
		}
		switch core.NameOf(f) {
		case "RawByte", "RawString":
			if len(call.Args) != 1 {
				return true
			}
			var parts []ast.Expr
			var split func(e ast.Expr)
			split = func(e ast.Expr) {
				if be, ok := core.Unparen(e).(*ast.BinaryExpr); ok && be.Op == token.ADD {
					split(be.X)
					split(be.Y)
					return
				}
				parts = append(parts, e)
			}
			split(call.Args[0])
			for _, p := range parts {
				if cv := core.ConstOf(inf, p); cv != nil {
					switch cv.Kind() {
					case constant.String:
						out = append(out, constant.StringVal(cv))
					case constant.Int:
						v, _ := constant.Int64Val(cv)
						out = append(out, string(rune(v)))
					}
				} else {
					out = append(out, "<"+core.ExprString(p)+">")
				}
			}
		case "writeMapStart", "writeMapEnd", "writeArrayStart", "writeArrayEnd", "writeKey":
			out = append(out, "@"+core.NameOf(f))
		}
		return true
	})
	return out
}

func runR031(c *core.Ctx) {
	const rel = "restlicodec"
	inf := info(c, rel)
	want := map[string]map[string][]string{
		"compactJsonWriter": {"writeMapStart": {"{"}, "writeKey": {`"`, "<key>", `"`}, "writeKeyDelimiter": {":"}, "writeEntryDelimiter": {","}, "writeMapEnd": {"}"},
			"writeEmptyMap": {"@writeMapStart", "@writeMapEnd"}, "writeArrayStart": {"["}, "writeArrayItemDelimiter": {","}, "writeArrayEnd": {"]"}, "writeEmptyArray": {"@writeArrayStart", "@writeArrayEnd"}},
		"ror2Writer": {"writeMapStart": {"("}, "writeKey": nil, "writeKeyDelimiter": {":"}, "writeEntryDelimiter": {","}, "writeMapEnd": {")"},
			"writeEmptyMap": {"@writeMapStart", "@writeMapEnd"}, "writeArrayStart": {"List("}, "writeArrayItemDelimiter": {","}, "writeArrayEnd": {")"}, "writeEmptyArray": {"@writeArrayStart", "@writeArrayEnd"}},
	}
	for recv, methods := range want {
		for m, exp := range methods {
			f := mustFunc(c, rel, "(*"+recv+")."+m)
			fd := c.M.Decl(f)
			got := emittedConsts(inf, fd)
			if m == "writeKey" {
				// the key operand is checked by R01.3; here only the constant frame
				var frame []string
				for _, g := range got {
					if !strings.HasPrefix(g, "<") {
						frame = append(frame, g)
					}
				}
				wantFrame := []string{}
				if recv == "compactJsonWriter" {
					wantFrame = []string{`"`, `"`}
					// jwriter.String(key) emits the quotes itself: accept an empty frame too
					if len(frame) == 0 {
						frame = wantFrame
					}
				}
				c.Check(strings.Join(frame, "|") == strings.Join(wantFrame, "|"), rel, "(*"+recv+")."+m, "key frame", fd.Pos(), strings.Join(frame, " "), "emits "+strings.Join(frame, " "))
				continue
			}
			c.Check(strings.Join(got, "|") == strings.Join(exp, "|"), rel, "(*"+recv+")."+m, "emits the protocol delimiter", fd.Pos(), strings.Join(got, " "),
				fmt.Sprintf("emits %q, protocol says %q", strings.Join(got, ""), strings.Join(exp, "")))
		}
	}
	// pretty JSON: constants are delimiter + whitespace; the only non-constant is the indent field
	prettyWant := map[string]string{"writeMapStart": "{", "writeKeyDelimiter": ":", "writeEntryDelimiter": ",", "writeMapEnd": "}", "writeArrayStart": "[", "writeArrayItemDelimiter": ",", "writeArrayEnd": "]"}
	for m, delim := range prettyWant {
		f := mustFunc(c, rel, "(*prettyJsonWriter)."+m)
		fd := c.M.Decl(f)
		got := emittedConsts(inf, fd)
		consts, okNon := "", true
		for _, g := range got {
			if strings.HasPrefix(g, "<") {
				if !strings.HasSuffix(g, ".indent>") {
					okNon = false
				}
				continue
			}
			if strings.HasPrefix(g, "@") {
				continue
			}
			consts += g
		}
		stripped := strings.Map(func(r rune) rune {
			if r == ' ' || r == '\n' || r == '\t' || r == '\r' {
				return -1
			}
			return r
		}, consts)
		c.Check(stripped == delim && okNon, rel, "(*prettyJsonWriter)."+m, "emits the delimiter plus JSON whitespace only", fd.Pos(), fmt.Sprintf("%q", consts), fmt.Sprintf("emits %q with non-constant parts %v", consts, got))
	}
	// indent writes
	okIndent, nIndent := true, 0
	for _, fd := range c.M.FuncDecls(rel) {
		if fd.Body == nil {
			continue
		}
		ast.Inspect(fd.Body, func(n ast.Node) bool {
			as, ok := n.(*ast.AssignStmt)
			if !ok || len(as.Lhs) != 1 {
				return true
			}
			fv, ok := core.ObjOf(inf, as.Lhs[0]).(*types.Var)
			if !ok || !fv.IsField() || core.NameOf(fv) != "indent" {
				return true
			}
			nIndent++
			switch as.Tok {
			case token.ADD_ASSIGN:
				cv := core.ConstOf(inf, as.Rhs[0])
				if cv == nil || strings.TrimSpace(constant.StringVal(cv)) != "" {
					okIndent = false
				}
			case token.ASSIGN:
				if _, isSlice := core.Unparen(as.Rhs[0]).(*ast.SliceExpr); !isSlice {
					okIndent = false
				}
			default:
				okIndent = false
			}
			return true
		})
	}
	c.Check(okIndent && nIndent >= 2, rel, "prettyJsonWriter.indent", "the indent only ever holds whitespace", token.NoPos, fmt.Sprintf("%d writes", nIndent), "indent is assigned something other than appended whitespace / a reslice")
}

func runR032(c *core.Ctx) {
	data := dataPkgRel(c)
	check := func(rel, name, want string) {
		o, _ := mustObj(c, rel, name).(*types.Const)
		if o == nil {
			panic(&core.AnchorError{Pkg: rel, Name: name, What: "constant"})
		}
		got := constant.StringVal(o.Val())
		c.Check(got == want, rel, name, "reserved name has the protocol's value", o.Pos(), got, fmt.Sprintf("value %q, protocol says %q", got, want))
	}
	for name, want := range map[string]string{"ElementsField": "elements", "ValueField": "value", "StatusField": "status", "StatusesField": "statuses", "ResultsField": "results", "ErrorField": "error",
		"ErrorsField": "errors", "IdField": "id", "LocationField": "location", "PagingField": "paging", "MetadataField": "metadata", "EntityField": "entity", "EntitiesField": "entities"} {
		check(data, name, want)
	}
	for name, want := range map[string]string{"ProtocolVersion": "2.0.0", "IDHeader": "X-RestLi-Id", "MethodHeader": "X-RestLi-Method", "ProtocolVersionHeader": "X-RestLi-Protocol-Version",
		"ErrorResponseHeader": "X-RestLi-Error-Response", "MethodOverrideHeader": "X-HTTP-Method-Override"} {
		check("restli", name, want)
	}
	check("restli/batchkeyset", "EntityIDsField", "ids")
	if c.M.Pkg("restli/patch") != nil {
		check("restli/patch", "PatchField", "patch")
	}
	// method names through the stringer table
	rp := c.M.Pkg("restli")
	stringerPrefix := "_Method"
	if c.M.LookupObj("restli", "_Method_name") == nil {
		stringerPrefix = "_RestLiMethod"
	}
	nameC, _ := mustObj(c, "restli", stringerPrefix+"_name").(*types.Const)
	idxV := mustObj(c, "restli", stringerPrefix+"_index")
	var idx []int64
	for _, f := range rp.Syntax {
		ast.Inspect(f, func(n ast.Node) bool {
			vs, ok := n.(*ast.ValueSpec)
			if !ok {
				return true
			}
			for i, id := range vs.Names {
				if rp.TypesInfo.Defs[id] == idxV && i < len(vs.Values) {
					if cl, ok := vs.Values[i].(*ast.CompositeLit); ok {
						for _, el := range cl.Elts {
							if cv := core.ConstOf(rp.TypesInfo, el); cv != nil {
								v, _ := constant.Int64Val(cv)
								idx = append(idx, v)
							}
						}
					}
				}
			}
			return true
		})
	}
	all := constant.StringVal(nameC.Val())
	for i, want := range restliMethodNames {
		k, _ := mustObj(c, "restli", "Method_"+want).(*types.Const)
		v, _ := constant.Int64Val(k.Val())
		got := "?"
		if int(v)+1 < len(idx) && idx[v+1] <= int64(len(all)) {
			got = all[idx[v]:idx[v+1]]
		}
		_ = i
		c.Check(got == want, "restli", "Method_"+want, "String() yields the protocol's method name", k.Pos(), got, fmt.Sprintf("stringer table yields %q", got))
	}
	// special floats
	cinf := info(c, "restlicodec")
	for _, recv := range []string{"compactJsonWriter", "ror2Writer"} {
		f := mustFunc(c, "restlicodec", "(*"+recv+").WriteFloat64")
		fd := c.M.Decl(f)
		got := map[string]string{}
		par := core.Parents(fd)
		// every emission of one of the reserved strings, with the condition that guards it (switch clause, if / else-if
		// chain or early return; comparison with MaxFloat64, math.IsInf / math.IsNaN, or v != v)
		ast.Inspect(fd.Body, func(n ast.Node) bool {
			call, ok := n.(*ast.CallExpr)
			if !ok || len(call.Args) != 1 {
				return true
			}
			cv := core.ConstOf(cinf, call.Args[0])
			if cv == nil || cv.Kind() != constant.String {
				return true
			}
			str := constant.StringVal(cv)
			if str != "Infinity" && str != "-Infinity" && str != "NaN" {
				return true
			}
			cf := core.Callee(cinf, call)
			if cf == nil {
				return true
			}
			guardKind := ""
			core.GuardedByFact(cinf, par, core.EnclosingStmt(par, call), func(f core.Fact) bool {
				if k := specialFloatFact(cinf, f); k != "" {
					guardKind = k
					return true
				}
				return false
			}, nil)
			if guardKind == str {
				got[str] = core.NameOf(cf) + ":" + str
			} else if _, dup := got[str]; !dup {
				got[str] = core.NameOf(cf) + ":" + str + " under the test for " + guardKind
			}
			return true
		})
		// the classification split from the emission (`special, ok = "NaN", true` under the test; `String(special)` later):
		// the reserved string is chosen under the right test and the local that holds it is what is written
		holders := map[types.Object]map[string]bool{}
		ast.Inspect(fd.Body, func(n ast.Node) bool {
			as, ok := n.(*ast.AssignStmt)
			if !ok || len(as.Lhs) != len(as.Rhs) {
				return true
			}
			for i, l := range as.Lhs {
				cv := core.ConstOf(cinf, as.Rhs[i])
				if cv == nil || cv.Kind() != constant.String {
					continue
				}
				str := constant.StringVal(cv)
				if str != "Infinity" && str != "-Infinity" && str != "NaN" {
					continue
				}
				guardKind := ""
				core.GuardedByFact(cinf, par, as, func(f core.Fact) bool {
					if k := specialFloatFact(cinf, f); k != "" {
						guardKind = k
						return true
					}
					return false
				}, nil)
				if o := core.ObjOf(cinf, l); o != nil && guardKind == str {
					if holders[o] == nil {
						holders[o] = map[string]bool{}
					}
					holders[o][str] = true
				}
			}
			return true
		})
		if len(holders) > 0 {
			ast.Inspect(fd.Body, func(n ast.Node) bool {
				call, ok := n.(*ast.CallExpr)
				if !ok || len(call.Args) != 1 {
					return true
				}
				cf := core.Callee(cinf, call)
				if cf == nil {
					return true
				}
				for str := range holders[core.ObjOf(cinf, call.Args[0])] {
					if _, dup := got[str]; !dup {
						got[str] = core.NameOf(cf) + ":" + str
					}
				}
				return true
			})
		}
		// the classification in a function of its own (`if special, ok := nonFinite(v); ok { String(special) }`): each
		// reserved string is returned under the right test, and the first result is what is written
		ast.Inspect(fd.Body, func(n ast.Node) bool {
			call, ok := n.(*ast.CallExpr)
			if !ok || len(call.Args) != 1 {
				return true
			}
			cf := core.Callee(cinf, call)
			v, isVar := core.ObjOf(cinf, call.Args[0]).(*types.Var)
			if cf == nil || !isVar || v.IsField() {
				return true
			}
			var src *ast.CallExpr
			ast.Inspect(fd.Body, func(y ast.Node) bool {
				if as, okA := y.(*ast.AssignStmt); okA && len(as.Rhs) == 1 && len(as.Lhs) >= 1 && core.ObjOf(cinf, as.Lhs[0]) == v {
					if sc, okC := core.Unparen(as.Rhs[0]).(*ast.CallExpr); okC {
						src = sc
					}
				}
				return true
			})
			if src == nil {
				return true
			}
			g := core.Callee(cinf, src)
			if g == nil {
				return true
			}
			gd := c.M.Decl(g.Origin())
			gp := c.M.PkgOf(g)
			if gd == nil || gd.Body == nil || gp == nil {
				return true
			}
			ginf := gp.TypesInfo
			gpar := core.Parents(gd)
			for _, r := range core.ReturnsIn(gd.Body) {
				if len(r.Results) == 0 {
					continue
				}
				cv := core.ConstOf(ginf, r.Results[0])
				if cv == nil || cv.Kind() != constant.String {
					continue
				}
				str := constant.StringVal(cv)
				if str != "Infinity" && str != "-Infinity" && str != "NaN" {
					continue
				}
				guardKind := ""
				core.GuardedByFact(ginf, gpar, r, func(f core.Fact) bool {
					if k := specialFloatFact(ginf, f); k != "" {
						guardKind = k
						return true
					}
					return false
				}, nil)
				if guardKind == str {
					if _, dup := got[str]; !dup {
						got[str] = core.NameOf(cf) + ":" + str
					}
				}
			}
			return true
		})
		wantFn := "String"
		if recv == "ror2Writer" {
			wantFn = "RawString"
		}
		for _, k := range []string{"Infinity", "-Infinity", "NaN"} {
			c.Check(got[k] == wantFn+":"+k, "restlicodec", "(*"+recv+").WriteFloat64", "special value "+k+" is written as the reserved string", fd.Pos(), got[k],
				fmt.Sprintf("branch for %s emits %q (expected %s(%q)); a missing branch is reported, not skipped", k, got[k], wantFn, k))
		}
	}
}

func runR115(c *core.Ctx) {
	rel := "restli/patch"
	if c.M.Pkg(rel) == nil {
		rel = "restli"
	}
	inf := info(c, rel)
	_, fd := mustDecl(c, rel, "(*PartialUpdateFieldChecker).CheckField")
	var params []types.Object
	for _, fl := range fd.Type.Params.List {
		for _, n := range fl.Names {
			params = append(params, inf.Defs[n])
		}
	}
	if len(params) != 5 {
		c.Unknown(rel, "(*PartialUpdateFieldChecker).CheckField", "parameters", fd.Pos(), "expected (checker, fieldName, isDeleteSet, isSetSet, isPartialUpdateSet)")
		return
	}
	bools := []bool{false, true}
	for _, excl := range bools {
		for _, del := range bools {
			for _, set := range bools {
				for _, pat := range bools {
					env := core.FinEnv{params[2]: del, params[3]: set, params[4]: pat}
					stores := map[string]interface{}{}
					it := &core.FinInterp{Info: inf}
					it.Bind = func(e ast.Expr, env core.FinEnv) (interface{}, bool) {
						if call, ok := e.(*ast.CallExpr); ok {
							if f := core.Callee(inf, call); f != nil && core.NameOf(f) == "IsKeyExcluded" {
								return excl, true
							}
						}
						return nil, false
					}
					it.Store = func(lhs ast.Expr, v interface{}) {
						if sel, ok := core.Unparen(lhs).(*ast.SelectorExpr); ok {
							stores[sel.Sel.Name] = v
						}
					}
					out, err := it.Exec(fd.Body.List, env)
					n := 0
					for _, b := range []bool{del, set, pat} {
						if b {
							n++
						}
					}
					want := "nil"
					switch {
					case n == 0:
						want = "nil"
					case excl:
						want = "error"
					case n > 1:
						want = "error"
					}
					got := "?"
					if err != nil {
						got = "undecided: " + err.Error()
					} else if out.Kind == "return" && len(out.Ret.Results) == 1 {
						if core.IsNil(inf, out.Ret.Results[0]) {
							got = "nil"
						} else if core.NonNilErrorExpr(inf, out.Ret.Results[0]) {
							got = "error"
						}
					}
					construct := fmt.Sprintf("row excluded=%v delete=%v set=%v patch=%v", excl, del, set, pat)
					okRow := got == want
					detail := "returns " + got
					if okRow && want == "nil" && n == 1 {
						hd, _ := stores["HasDeletes"].(bool)
						hs, _ := stores["HasSets"].(bool)
						if hd != del || hs != set {
							okRow = false
							detail = fmt.Sprintf("returns nil but records HasDeletes=%v HasSets=%v", hd, hs)
						}
					}
					if okRow && want == "nil" && n == 0 && len(stores) > 0 {
						okRow = false
						detail = "no-op row records a flag"
					}
					if strings.HasPrefix(got, "undecided") {
						c.Unknown(rel, "(*PartialUpdateFieldChecker).CheckField", construct, fd.Pos(), got)
					} else {
						c.Check(okRow, rel, "(*PartialUpdateFieldChecker).CheckField", construct, fd.Pos(), detail, detail+", expected "+want)
					}
				}
			}
		}
	}
}

// isBytesDecoder: a package-level function of restlicodec named …Bytes with signature (string, error) ([]byte, error).
func isBytesDecoder(c *core.Ctx, f *types.Func) bool {
	if f == nil || !strings.HasSuffix(core.NameOf(f), "Bytes") || f.Pkg() == nil || f.Pkg().Path() != pkgPath(c, "restlicodec") {
		return false
	}
	sig := f.Type().(*types.Signature)
	return sig.Recv() == nil && (sig.Params().Len() == 2 || sig.Params().Len() == 1) && sig.Results().Len() == 2
}

// specialFloatFact classifies a condition known to hold as the test for one of the special float values:
// "Infinity" (v > math.MaxFloat64, math.IsInf(v, 1)), "-Infinity" (v < -math.MaxFloat64, math.IsInf(v, -1)),
// "NaN" (math.IsNaN(v), v != v); "" otherwise.
func specialFloatFact(inf *types.Info, f core.Fact) string {
	switch x := core.Unparen(f.Expr).(type) {
	case *ast.CallExpr:
		cf := core.Callee(inf, x)
		if !f.Val || cf == nil {
			return ""
		}
		if core.IsFunc(cf, "math", "IsNaN") {
			return "NaN"
		}
		if core.IsFunc(cf, "math", "IsInf") && len(x.Args) == 2 {
			if v := core.ConstOf(inf, x.Args[1]); v != nil {
				switch v.ExactString() {
				case "1":
					return "Infinity"
				case "-1":
					return "-Infinity"
				}
			}
		}
	case *ast.BinaryExpr:
		isMax := func(e ast.Expr) (neg, ok bool) {
			e = core.Unparen(e)
			if u, isU := e.(*ast.UnaryExpr); isU && u.Op == token.SUB {
				_, ok := isMaxFloat(inf, u.X)
				return true, ok
			}
			_, ok = isMaxFloat(inf, e)
			return false, ok
		}
		op := x.Op
		if !f.Val {
			switch op {
			case token.LEQ:
				op = token.GTR
			case token.GEQ:
				op = token.LSS
			case token.EQL:
				op = token.NEQ
			default:
				return ""
			}
		}
		switch op {
		case token.GTR:
			if neg, ok := isMax(x.Y); ok && !neg {
				return "Infinity"
			}
		case token.LSS:
			if neg, ok := isMax(x.Y); ok && neg {
				return "-Infinity"
			}
		case token.NEQ:
			if core.SameExpr(inf, x.X, x.Y) {
				return "NaN"
			}
		}
	}
	return ""
}

func isMaxFloat(inf *types.Info, e ast.Expr) (struct{}, bool) {
	if o := core.ObjOf(inf, e); o != nil && o.Pkg() != nil && o.Pkg().Path() == "math" && core.NameOf(o) == "MaxFloat64" {
		return struct{}{}, true
	}
	return struct{}{}, false
}

// methodBody is the body of a method of a module type, with the types.Info it is checked in.
type methodBody struct {
	typ  *types.TypeName
	body *ast.BlockStmt
	inf  *types.Info
}

// constructedTypeMethods lists the methods of the module's named types that the given code constructs with a composite
// literal or a conversion: when a closure is given a name as a small marshaler type, these methods run on its behalf.
func constructedTypeMethods(c *core.Ctx, inf *types.Info, body ast.Node) []methodBody {
	var out []methodBody
	seen := map[*types.TypeName]bool{}
	add := func(t types.Type) {
		nn := namedOf(t)
		if nn == nil || seen[nn.Obj()] {
			return
		}
		p := c.M.PkgOf(nn.Obj())
		if p == nil {
			return
		}
		seen[nn.Obj()] = true
		for k := 0; k < nn.NumMethods(); k++ {
			if d := c.M.Decl(nn.Method(k).Origin()); d != nil && d.Body != nil {
				out = append(out, methodBody{nn.Obj(), d.Body, p.TypesInfo})
			}
		}
	}
	ast.Inspect(body, func(n ast.Node) bool {
		switch x := n.(type) {
		case *ast.CompositeLit:
			add(inf.Types[x].Type)
		case *ast.CallExpr:
			if tv, isConv := inf.Types[x.Fun]; isConv && tv.IsType() {
				add(tv.Type)
			}
		}
		return true
	})
	return out
}
