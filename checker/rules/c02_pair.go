package rules

import (
	"fmt"
	"go/ast"
	"go/constant"
	"go/token"
	"go/types"
	"regexp"
	"strings"

	"verif/checker/core"
)

func init() {
	core.Register(&core.Rule{
		ID:    "R02.1",
		Title: "client entry point and server adapter of each method agree",
		Text: "For each exported client function of package restli and its Register* sibling: both use the same Method_ constant; the client's HTTP verb is the protocol's verb for that method (the one the router's inference maps back to it); " +
			"the type the client returns is the type the server-side implementation returns, and the request value the client marshals is the type the implementation receives (compared after canonical renaming of type parameters); " +
			"the server adapter passes the implementation exactly its decoded path, body and parameters and returns its result.",
		Props: []string{"C02"},
		Floor: map[string]int{"v2": 30, "root": 28},
		Run:   runR021,
	})
	core.Register(&core.Rule{
		ID:    "R02.2",
		Title: "created-id header symmetry",
		Text: "writeIdHeaders and unmarshalReturnEntityKey use the same IDHeader constant object, the server encodes the id with the ROR2 header writer and the client decodes it with the ROR2 reader; " +
			"the client takes the created status from the HTTP response.",
		Props: []string{"C02"},
		Floor: map[string]int{"v2": 4, "root": 4},
		Run:   runR022,
	})
}

var tparamRe = regexp.MustCompile(`\b(RP|QP|PV|K|V|M|R|P|T)\b`)

// canonType renders a type with module path prefixes removed and type
// parameters replaced by positional names in order of first appearance.
func canonType(t types.Type) string {
	s := types.TypeString(t, func(p *types.Package) string { return core.NameOf(p) })
	idx := map[string]string{}
	return tparamRe.ReplaceAllStringFunc(s, func(m string) string {
		if _, ok := idx[m]; !ok {
			idx[m] = fmt.Sprintf("T%d", len(idx)+1)
		}
		return idx[m]
	})
}

type clientInfo struct {
	method  string
	verb    string
	ret     types.Type
	body    types.Type
	pos     token.Pos
	problem string
}

func clientSide(c *core.Ctx, inf *types.Info, name string) *clientInfo {
	f := c.M.LookupFunc("restli", name)
	if f == nil {
		return nil
	}
	fd := c.M.Decl(f)
	ci := &clientInfo{pos: fd.Pos()}
	sig := f.Type().(*types.Signature)
	if sig.Results().Len() >= 1 && !core.IsErrorType(sig.Results().At(0).Type()) {
		ci.ret = sig.Results().At(0).Type()
	}
	ast.Inspect(fd.Body, func(n ast.Node) bool {
		call, ok := n.(*ast.CallExpr)
		if !ok {
			return true
		}
		cf := core.Callee(inf, call)
		if cf == nil {
			return true
		}
		methodArg := -1
		switch core.NameOf(cf) {
		case "NewGetRequest":
			ci.verb, methodArg = "GET", 4
		case "NewDeleteRequest":
			ci.verb, methodArg = "DELETE", 4
		case "NewCreateRequest":
			ci.verb, methodArg = "POST", 4
			if len(call.Args) > 5 {
				ci.body = inf.Types[call.Args[5]].Type
			}
		case "NewJsonRequest":
			methodArg = 5
			if len(call.Args) > 6 {
				if cv := core.ConstOf(inf, call.Args[4]); cv != nil {
					ci.verb = constant.StringVal(cv)
				}
				ci.body = inf.Types[call.Args[6]].Type
			}
		case "newActionRequest":
			ci.verb, ci.method = "POST", "Method_action"
		}
		if methodArg >= 0 && methodArg < len(call.Args) {
			if k, ok := core.ObjOf(inf, call.Args[methodArg]).(*types.Const); ok {
				ci.method = core.NameOf(k)
			}
		}
		return true
	})
	return ci
}

type serverInfo struct {
	method string
	ret    types.Type // first result of the implementation callback (nil if only error)
	body   types.Type // request value parameter of the implementation (if any)
	pos    token.Pos
	impl   *types.Var
}

func serverSide(c *core.Ctx, inf *types.Info, name string) *serverInfo {
	f := c.M.LookupFunc("restli", name)
	if f == nil {
		return nil
	}
	fd := c.M.Decl(f)
	si := &serverInfo{pos: fd.Pos()}
	sig := f.Type().(*types.Signature)
	// the implementation parameter: last func-typed param whose first param is *RequestContext
	for i := 0; i < sig.Params().Len(); i++ {
		p := sig.Params().At(i)
		if fs, ok := p.Type().Underlying().(*types.Signature); ok && fs.Params().Len() >= 1 {
			si.impl = p
			if fs.Results().Len() >= 1 && !core.IsErrorType(fs.Results().At(0).Type()) {
				si.ret = fs.Results().At(0).Type()
			}
			// request value: the parameter between RP and QP for body methods (index 2 of 4)
			if fs.Params().Len() == 4 {
				si.body = fs.Params().At(2).Type()
			}
		}
	}
	ast.Inspect(fd.Body, func(n ast.Node) bool {
		call, ok := n.(*ast.CallExpr)
		if !ok {
			return true
		}
		cf := core.Callee(inf, call)
		if cf == nil || !strings.HasPrefix(core.NameOf(cf), "register") || len(call.Args) < 3 {
			return true
		}
		if k, ok := core.ObjOf(inf, call.Args[2]).(*types.Const); ok {
			si.method = core.NameOf(k)
		}
		switch core.NameOf(cf) {
		case "registerFinder":
			si.method = "Method_finder"
		case "registerAction":
			si.method = "Method_action"
		}
		return true
	})
	return si
}

var protocolVerb = map[string]string{
	"Method_get": "GET", "Method_create": "POST", "Method_update": "PUT", "Method_partial_update": "POST", "Method_delete": "DELETE",
	"Method_batch_get": "GET", "Method_batch_create": "POST", "Method_batch_update": "PUT", "Method_batch_partial_update": "POST", "Method_batch_delete": "DELETE",
	"Method_get_all": "GET", "Method_finder": "GET", "Method_action": "POST",
}

func runR021(c *core.Ctx) {
	const rel = "restli"
	inf := info(c, rel)
	pairs := [][2]string{
		{"Get", "RegisterGet"}, {"Create", "RegisterCreate"}, {"CreateWithReturnEntity", "RegisterCreateWithReturnEntity"}, {"Update", "RegisterUpdate"},
		{"PartialUpdate", "RegisterPartialUpdate"}, {"PartialUpdateWithReturnEntity", "RegisterPartialUpdateWithReturnEntity"}, {"Delete", "RegisterDelete"},
		{"GetAll", "RegisterGetAll"}, {"Find", "RegisterFinder"}, {"FindWithMetadata", "RegisterFinderWithMetadata"},
		{"BatchGet", "RegisterBatchGet"}, {"BatchCreate", "RegisterBatchCreate"}, {"BatchCreateWithReturnEntity", "RegisterBatchCreateWithReturnEntity"},
		{"BatchDelete", "RegisterBatchDelete"}, {"BatchUpdate", "RegisterBatchUpdate"}, {"BatchPartialUpdate", "RegisterBatchPartialUpdate"},
		{"DoActionRequest", "RegisterAction"}, {"DoActionRequestWithResults", "RegisterActionWithResults"},
	}
	for _, p := range pairs {
		ci, si := clientSide(c, inf, p[0]), serverSide(c, inf, p[1])
		if ci == nil || si == nil {
			if c.M.Name == "root" && (ci == nil) != (si == nil) {
				c.Bad(rel, p[0]+"/"+p[1], "both halves exist", token.NoPos, "one half of the pair is missing")
			}
			if ci == nil && si == nil && c.M.Name == "v2" {
				panic(&core.AnchorError{Pkg: rel, Name: p[0] + "/" + p[1], What: "client/server pair"})
			}
			continue
		}
		// batchCreate helper carries the request for the two BatchCreate entry points
		if ci.method == "" && strings.HasPrefix(p[0], "BatchCreate") {
			if h := clientSide(c, inf, "batchCreate"); h != nil {
				ci.method, ci.verb = h.method, h.verb
			}
		}
		name := p[0] + " / " + p[1]
		c.Check(ci.method != "" && ci.method == si.method, rel, name, "same Rest.li method on both sides", ci.pos, ci.method, fmt.Sprintf("client sends %q, server registers %q", ci.method, si.method))
		want := protocolVerb[ci.method]
		c.Check(ci.verb == want && want != "", rel, name, "client uses the protocol's HTTP verb for the method", ci.pos, ci.verb, fmt.Sprintf("client uses %s, the protocol (and the router's inference) expects %s for %s", ci.verb, want, ci.method))
		// response type
		if strings.HasPrefix(p[0], "DoActionRequest") {
			continue // action results go through caller-supplied (un)marshalers
		}
		cr, sr := "-", "-"
		if ci.ret != nil {
			cr = canonType(ci.ret)
		}
		if si.ret != nil {
			sr = canonType(si.ret)
		}
		c.Check(cr == sr, rel, name, "the client returns the type the implementation returns", ci.pos, cr, fmt.Sprintf("client returns %s, implementation returns %s", cr, sr))
	}
	// adapters hand the implementation exactly the decoded values and return its result unmodified:
	// in every Register* closure the implementation call's arguments are the closure's own parameters
	// (or fields of its batch query wrapper / the decoded Elements) and its results are returned.
	reqCtx, _ := mustObj(c, rel, "RequestContext").(*types.TypeName)
	handlerT, _ := mustObj(c, rel, "handler").(*types.TypeName)
	n := 0
	for _, fd := range c.M.FuncDecls(rel) {
		if fd.Body == nil || !strings.HasPrefix(fd.Name.Name, "Register") {
			continue
		}
		ast.Inspect(fd.Body, func(x ast.Node) bool {
			fl, ok := x.(*ast.FuncLit)
			if !ok {
				return true
			}
			params := map[types.Object]bool{}
			for _, pl := range fl.Type.Params.List {
				for _, nm := range pl.Names {
					params[inf.Defs[nm]] = true
				}
			}
			ast.Inspect(fl.Body, func(y ast.Node) bool {
				call, ok := y.(*ast.CallExpr)
				if !ok || !isResourceCallback(inf, call, reqCtx, handlerT) {
					return true
				}
				// only calls of the Register function's own implementation parameter
				id := core.Unparen(call.Fun).(*ast.Ident)
				if !isParamOf(inf, fd, asVar(core.ObjOf(inf, id))) {
					return true
				}
				n++
				okArgs := true
				var bad string
				for _, a := range call.Args {
					r := rootIdent(a)
					if r == nil || !params[core.ObjOf(inf, r)] {
						okArgs = false
						bad = core.ExprString(a)
					}
				}
				c.Check(okArgs, rel, core.DeclName(fd), "the implementation receives exactly the adapter's decoded values", call.Pos(), "", "argument "+bad+" is not one of the values decoded for this request")
				return true
			})
			return false
		})
	}
	if n < 10 {
		c.Unknown(rel, "-", "adapter pass-through sites", token.NoPos, fmt.Sprintf("found %d", n))
	}
}

func runR022(c *core.Ctx) {
	const rel = "restli"
	inf := info(c, rel)
	idh := mustObj(c, rel, "IDHeader")
	uses := func(fn string, want ...string) {
		_, fd := mustDecl(c, rel, fn)
		hdr := false
		got := map[string]bool{}
		ast.Inspect(fd.Body, func(n ast.Node) bool {
			switch x := n.(type) {
			case *ast.Ident:
				if inf.Uses[x] == idh {
					hdr = true
				}
			case *ast.CallExpr:
				if cf := core.Callee(inf, x); cf != nil {
					got[core.NameOf(cf)] = true
				}
			}
			return true
		})
		c.Check(hdr, rel, fn, "uses the IDHeader constant", fd.Pos(), "", "the created-id header constant is not used")
		for _, w := range want {
			c.Check(got[w], rel, fn, "id codec "+w, fd.Pos(), "", "the created id does not go through "+w)
		}
	}
	uses("writeIdHeaders", "NewRor2HeaderWriter")
	uses("unmarshalReturnEntityKey", "NewRor2Reader")
}
