package rules

import (
	"fmt"
	"go/ast"
	"go/token"
	"go/types"
	"strings"

	"verif/checker/core"
)

func init() {
	core.Register(&core.Rule{
		ID:    "R04.2",
		Title: "no unchecked type assertion on decoded data",
		Text: "In restlicodec and the data packages a single-result type assertion whose operand is decoded data — the result of ReadInterface(), of reflect.Value.Interface(), or the untyped reader's value — is a violation (the comma-ok form or a type switch is required): " +
			"the dynamic type of such a value is chosen by the input.",
		Props: []string{"C04"},
		Floor: map[string]int{"v2": 1, "root": 1},
		Run:   runR042,
	})
	core.Register(&core.Rule{
		ID:    "R04.3",
		Title: "reflect kind discipline on untyped input",
		Text: "In the untyped-value reader and the raw-record encoder every kind-restricted reflect.Value method (Type, Elem, IsNil, Int, Float, Bool, Len, Index, MapRange, MapKeys, MapIndex, Bytes) is dominated, on every CFG path and with short-circuit evaluation, " +
			"by a guard from the table the reflect documentation gives (Kind()==K for an allowed K, switch v.Kind() case, CanInt/CanFloat, IsValid) with no reassignment of the value in between; " +
			"a (reflect.Value, error) function whose every nil-error return carries a valid value gives its callers validity after the error check.",
		Props: []string{"C04"},
		Floor: map[string]int{"v2": 15, "root": 15},
		Run:   runR043,
	})
}

func runR042(c *core.Ctx) {
	n := 0
	seenRel := map[string]bool{}
	for _, rel := range []string{"restlicodec", "restlidata", dataPkgRel(c)} {
		p := c.M.Pkg(rel)
		if p == nil || seenRel[rel] {
			continue
		}
		seenRel[rel] = true
		inf := p.TypesInfo
		seenFile := map[*ast.File]bool{}
		for _, file := range p.Syntax {
			if seenFile[file] || strings.HasSuffix(c.M.Fset.File(file.Pos()).Name(), "_test.go") {
				continue
			}
			seenFile[file] = true
			for _, d := range file.Decls {
				fd, ok := d.(*ast.FuncDecl)
				if !ok || fd.Body == nil {
					continue
				}
				par := core.Parents(fd)
				// variables holding decoded data
				decoded := map[types.Object]bool{}
				ast.Inspect(fd.Body, func(x ast.Node) bool {
					as, ok := x.(*ast.AssignStmt)
					if !ok || len(as.Rhs) != 1 {
						return true
					}
					if call, ok := core.Unparen(as.Rhs[0]).(*ast.CallExpr); ok {
						if cf := core.Callee(inf, call); cf != nil && core.NameOf(cf) == "ReadInterface" {
							if o := core.ObjOf(inf, as.Lhs[0]); o != nil {
								decoded[o] = true
							}
						}
					}
					return true
				})
				isDecoded := func(e ast.Expr) string {
					e = core.Unparen(e)
					switch x := e.(type) {
					case *ast.Ident:
						if decoded[core.ObjOf(inf, x)] {
							return "result of ReadInterface()"
						}
					case *ast.CallExpr:
						if cf := core.Callee(inf, x); cf != nil {
							if core.IsMethod(cf, "reflect", "Value", "Interface") {
								return "reflect.Value.Interface()"
							}
							if core.NameOf(cf) == "ReadInterface" {
								return "result of ReadInterface()"
							}
						}
					case *ast.SelectorExpr:
						if fv, ok := core.ObjOf(inf, x).(*types.Var); ok && fv.IsField() && core.NameOf(fv) == "value" {
							if nn := namedOf(inf.Types[x.X].Type); nn != nil && core.NameOf(nn.Obj()) == "anyReader" {
								return "the untyped reader's value"
							}
						}
					}
					return ""
				}
				ast.Inspect(fd.Body, func(x ast.Node) bool {
					ta, ok := x.(*ast.TypeAssertExpr)
					if !ok || ta.Type == nil {
						return true // type switch
					}
					what := isDecoded(ta.X)
					if what == "" {
						return true
					}
					n++
					commaOK := false
					if as, ok := par[ta].(*ast.AssignStmt); ok && len(as.Lhs) == 2 && len(as.Rhs) == 1 {
						commaOK = true
					}
					if vs, ok := par[ta].(*ast.ValueSpec); ok && len(vs.Names) == 2 {
						commaOK = true
					}
					c.Check(commaOK, rel, core.DeclName(fd), fmt.Sprintf("assertion %s #%d on %s is checked", core.ExprString(ta), ordinal(fd, ta), what), ta.Pos(), "comma-ok",
						"single-result assertion on input-controlled data: an unexpected dynamic type panics instead of returning an error")
					return true
				})
			}
		}
	}
	if n == 0 {
		c.OK("restlicodec", "-", "no type assertion on decoded data", token.NoPos, "")
	}
}

// reflect kind requirements: method -> allowed kinds ("*valid" = any valid value)
var reflectNeeds = map[string][]string{
	"Type": {"*valid"}, "Elem": {"Ptr", "Pointer", "Interface"}, "IsNil": {"Ptr", "Pointer", "Map", "Slice", "Chan", "Func", "Interface", "UnsafePointer"},
	"Int": {"Int", "Int8", "Int16", "Int32", "Int64", "*CanInt"}, "Float": {"Float32", "Float64", "*CanFloat"}, "Bool": {"Bool"},
	"Len": {"Slice", "Array", "Map", "String", "Chan"}, "Index": {"Slice", "Array", "String"},
	"MapRange": {"Map"}, "MapKeys": {"Map"}, "MapIndex": {"Map"}, "Bytes": {"Slice"}, // an array must also be addressable (CanAddr), which a value held in an interface never is
}

func runR043(c *core.Ctx) {
	targets := [][2]string{{"restlicodec", "any_reader.go"}, {"restlidata", "RawRecord.go"}}
	sites := 0
	for _, tg := range targets {
		p := c.M.Pkg(tg[0])
		if p == nil {
			continue
		}
		inf := p.TypesInfo
		// summaries: functions returning (reflect.Value, error) whose nil-error returns carry a valid value
		validOnOK := map[*types.Func]bool{}
		var decls []*ast.FuncDecl
		for _, file := range p.Syntax {
			if !strings.HasSuffix(c.M.Fset.File(file.Pos()).Name(), tg[1]) {
				continue
			}
			for _, d := range file.Decls {
				if fd, ok := d.(*ast.FuncDecl); ok && fd.Body != nil {
					decls = append(decls, fd)
				}
			}
		}
		if len(decls) == 0 {
			c.Unknown(tg[0], "-", "file "+tg[1], token.NoPos, "not found")
			continue
		}
		isReflectValue := func(t types.Type) bool {
			n, ok := t.(*types.Named)
			return ok && n.Obj().Pkg() != nil && n.Obj().Pkg().Path() == "reflect" && core.NameOf(n.Obj()) == "Value"
		}
		analyse := func(fd *ast.FuncDecl, report bool) (okSummary bool) {
			par := core.Parents(fd)
			sig, _ := inf.Defs[fd.Name].Type().(*types.Signature)
			// tracked reflect.Value variables
			vars := map[types.Object]bool{}
			ast.Inspect(fd, func(n ast.Node) bool {
				if id, ok := n.(*ast.Ident); ok {
					if v, ok := inf.Defs[id].(*types.Var); ok && isReflectValue(v.Type()) {
						vars[v] = true
					}
				}
				return true
			})
			okSummary = true
			returnsValue := sig != nil && sig.Results().Len() == 2 && isReflectValue(sig.Results().At(0).Type()) && core.IsErrorType(sig.Results().At(1).Type())
			for v := range vars {
				v := v
				// automaton over kinds: state bit0 = valid, then one bit per established kind set is too wide; instead run one
				// automaton per call site requirement
				type site struct {
					call   *ast.CallExpr
					method string
				}
				var reqs []site
				ast.Inspect(fd.Body, func(n ast.Node) bool {
					call, ok := n.(*ast.CallExpr)
					if !ok {
						return true
					}
					sel, ok := core.Unparen(call.Fun).(*ast.SelectorExpr)
					if !ok || core.ObjOf(inf, sel.X) != v {
						return true
					}
					if cf := core.Callee(inf, call); cf != nil && core.IsMethod(cf, "reflect", "Value", core.NameOf(cf)) {
						if _, restricted := reflectNeeds[core.NameOf(cf)]; restricted {
							reqs = append(reqs, site{call, core.NameOf(cf)})
						}
					}
					return true
				})
				establishes := func(f core.Fact, allowed []string) bool {
					isAllowedKind := func(e ast.Expr) bool {
						if sel, ok := core.Unparen(e).(*ast.SelectorExpr); ok {
							if k, ok := core.ObjOf(inf, sel).(*types.Const); ok && k.Pkg() != nil && k.Pkg().Path() == "reflect" {
								for _, a := range allowed {
									if a == core.NameOf(k) || a == "*valid" && core.NameOf(k) != "Invalid" {
										return true
									}
								}
							}
						}
						return false
					}
					isKindOfV := func(e ast.Expr) bool {
						call, ok := core.Unparen(e).(*ast.CallExpr)
						if !ok {
							return false
						}
						sel, ok := core.Unparen(call.Fun).(*ast.SelectorExpr)
						return ok && sel.Sel.Name == "Kind" && core.ObjOf(inf, sel.X) == v
					}
					if f.Tag != nil {
						return f.Val && isKindOfV(f.Tag) && isAllowedKind(f.Expr)
					}
					switch x := core.Unparen(f.Expr).(type) {
					case *ast.BinaryExpr:
						if (x.Op == token.EQL && f.Val) || (x.Op == token.NEQ && !f.Val) {
							return (isKindOfV(x.X) && isAllowedKind(x.Y)) || (isKindOfV(x.Y) && isAllowedKind(x.X))
						}
					case *ast.CallExpr:
						if sel, ok := core.Unparen(x.Fun).(*ast.SelectorExpr); ok && core.ObjOf(inf, sel.X) == v && f.Val {
							for _, a := range allowed {
								if a == "*"+sel.Sel.Name || (a == "*valid" && (sel.Sel.Name == "IsValid" || sel.Sel.Name == "CanInt" || sel.Sel.Name == "CanFloat")) {
									return true
								}
							}
						}
					}
					return false
				}
				for _, rq := range reqs {
					allowed := reflectNeeds[rq.method]
					flow := core.NewFlow(c.M, inf, fd.Body)
					okSite, reached := true, false
					var pendingErr types.Object
					flow.Run(&core.Automaton{
						Init: 0,
						Node: func(state int, n ast.Node) int {
							contains := false
							core.WalkNoFuncLit(n, func(m ast.Node) bool {
								if m == ast.Node(rq.call) {
									contains = true
								}
								return !contains
							})
							if contains {
								reached = true
								if state&1 == 0 && !shortCircuitEstablished(inf, par, rq.call, func(f core.Fact) bool { return establishes(f, allowed) }) {
									okSite = false
								}
							}
							// assignments to v
							for _, o := range core.AssignedObjs(inf, n) {
								if o == v {
									// the value v receives in a (possibly parallel) assignment: `v, err = v, nil` spliced in from
									// a helper's return keeps what is known; `v, err = v.Elem(), nil` is the Elem case below
									var vRhs ast.Expr
									if as, ok := n.(*ast.AssignStmt); ok && len(as.Lhs) == len(as.Rhs) {
										for i, l := range as.Lhs {
											if core.ObjOf(inf, l) == v {
												vRhs = as.Rhs[i]
											}
										}
									}
									if vRhs != nil && core.ObjOf(inf, vRhs) == v {
										continue
									}
									wasNonNil := state&4 != 0
									state = 0
									// v = v.Elem() of a pointer proven non-nil (IsNil() false edge) is a valid value
									if vRhs != nil && wasNonNil {
										if call, ok := core.Unparen(vRhs).(*ast.CallExpr); ok {
											if sel, ok := core.Unparen(call.Fun).(*ast.SelectorExpr); ok && sel.Sel.Name == "Elem" && core.ObjOf(inf, sel.X) == v {
												for _, a := range allowed {
													if a == "*valid" {
														state = 1
													}
												}
											}
										}
									}
									if as, ok := n.(*ast.AssignStmt); ok && len(as.Rhs) == 1 && len(as.Lhs) == 2 {
										if call, ok := core.Unparen(as.Rhs[0]).(*ast.CallExpr); ok {
											if cf := core.Callee(inf, call); cf != nil && validOnOK[cf.Origin()] {
												state = 2 // valid once the error was checked
												pendingErr = core.ObjOf(inf, as.Lhs[1])
											}
										}
									}
									// values produced by Index/MapIndex/Elem of a valid value … are valid
								}
							}
							return state
						},
						Edge: func(state int, facts []core.Fact) (int, bool) {
							for _, f := range facts {
								if establishes(f, allowed) {
									state |= 1
								}
								// v.IsNil() false edge
								if call, ok := core.Unparen(f.Expr).(*ast.CallExpr); ok && !f.Val && f.Tag == nil {
									if sel, ok := core.Unparen(call.Fun).(*ast.SelectorExpr); ok && sel.Sel.Name == "IsNil" && core.ObjOf(inf, sel.X) == v {
										state |= 4
									}
								}
								if state&2 != 0 {
									if e, nonNil, ok := core.NilTest(inf, f); ok && !nonNil && core.ObjOf(inf, e) == pendingErr {
										for _, a := range allowed {
											if a == "*valid" {
												state |= 1
											}
										}
									}
								}
							}
							return state, true
						},
					})
					if !reached {
						// inside a closure: check with enclosing-guard search only
						okSite = core.GuardedByFactAcrossClosures(inf, par, core.EnclosingStmt(par, rq.call), func(f core.Fact) bool { return establishes(f, allowed) }, v)
					}
					if report {
						sites++
						c.Check(okSite, tg[0], core.DeclName(fd), fmt.Sprintf("reflect %s.%s() #%d is kind-guarded", core.NameOf(v), rq.method, ordinal(fd, rq.call)), rq.call.Pos(), strings.Join(allowed, "|"),
							fmt.Sprintf("reflect.Value.%s panics unless the value is %s; no dominating guard on some path (e.g. a nil / unexpected-kind input)", rq.method, strings.Join(allowed, "|")))
					}
				}
				// summary: nil-error returns carry a valid v
				if returnsValue {
					flow := core.NewFlow(c.M, inf, fd.Body)
					flow.Run(&core.Automaton{
						Init: 0,
						Node: func(state int, n ast.Node) int {
							for _, o := range core.AssignedObjs(inf, n) {
								if o == v {
									wasNonNil := state&4 != 0
									state = 0
									if as, ok := n.(*ast.AssignStmt); ok && len(as.Rhs) == 1 {
										// v = v.Elem() of a non-nil pointer is valid; v = reflect.ValueOf(x) is valid iff x != nil (unknown)
										if call, ok := core.Unparen(as.Rhs[0]).(*ast.CallExpr); ok {
											if cf := core.Callee(inf, call); cf != nil && core.NameOf(cf) == "Elem" && wasNonNil {
												state = 1
											}
										}
									}
								}
							}
							if r, ok := n.(*ast.ReturnStmt); ok && len(r.Results) == 2 && core.IsNil(inf, r.Results[1]) && core.ObjOf(inf, r.Results[0]) == v {
								if state&1 == 0 {
									okSummary = false
								}
							}
							return state
						},
						Edge: func(state int, facts []core.Fact) (int, bool) {
							for _, f := range facts {
								if establishes(f, []string{"*valid"}) {
									state |= 1
								}
								if call, ok := core.Unparen(f.Expr).(*ast.CallExpr); ok && !f.Val && f.Tag == nil {
									if sel, ok := core.Unparen(call.Fun).(*ast.SelectorExpr); ok && sel.Sel.Name == "IsNil" && core.ObjOf(inf, sel.X) == v {
										state |= 4
									}
								}
							}
							return state, true
						},
					})
				}
			}
			return okSummary && returnsValue
		}
		// two passes: summaries first
		for _, fd := range decls {
			if f, ok := inf.Defs[fd.Name].(*types.Func); ok && analyse(fd, false) {
				validOnOK[f] = true
			}
		}
		for _, fd := range decls {
			analyse(fd, true)
		}
	}
	_ = sites
}

// shortCircuitEstablished: the call sits in the right operand of && / || whose left operand establishes the guard.
func shortCircuitEstablished(inf *types.Info, par map[ast.Node]ast.Node, call ast.Node, pred func(core.Fact) bool) bool {
	child := call
	for cur := par[call]; cur != nil; cur = par[cur] {
		if be, ok := cur.(*ast.BinaryExpr); ok && (be.Op == token.LAND || be.Op == token.LOR) && be.Y == child {
			for _, f := range core.Decompose(be.X, be.Op == token.LAND, nil) {
				if pred(f) {
					return true
				}
			}
		}
		if _, isStmt := cur.(ast.Stmt); isStmt {
			return false
		}
		if e, ok := cur.(ast.Expr); ok {
			child = e
		}
	}
	return false
}
