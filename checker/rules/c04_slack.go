package rules

import (
	"fmt"
	"go/ast"
	"go/constant"
	"go/token"
	"go/types"
	"sort"

	"verif/checker/core"
)

// R04.1 — memory safety of the ROR2 cursor reader, by abstract interpretation
// (A-slack).  Abstract state per program point:
//
//	k         proven lower bound of len(data) - pos   (class invariant: k >= 0)
//	rel[l]    for int locals: LE  (0 <= l <= pos)  or  LT  (0 <= l < pos)
//
// Class invariants, proved inductively over every write to the cursor:
//
//	Inv1  0 <= pos <= len(data)     Inv2  pos never decreases
func init() {
	core.Register(&core.Rule{
		ID:    "R04.1",
		Title: "ROR2 cursor reader: every index/slice/cursor write is in bounds",
		Text: "Abstract interpretation over every function of restlicodec that touches ror2Reader.pos/.data: each write to pos is pos++ (needs len-pos>=1), " +
			"pos+=c (needs len-pos>=c, c>=0) or pos=len(data); each index data[e] needs e=pos with len-pos>=1, e=pos+c with len-pos>=c+1, or a local proven < pos; " +
			"each slice data[a:b] needs 0<=a<=b<=len from the relations; int results used as slice bounds carry the summary 0<=result<=pos; " +
			"composite literals start at pos 0; data is never reassigned.  Calls reset the bound to the class invariant; pure single-expression predicates are inlined. " +
			"All obligations discharged = no index/slice panic for any input (proof of that clause).",
		Props: []string{"C04"},
		Floor: map[string]int{"v2": 22, "root": 22},
		Run:   runR041,
	})
}

const (
	relNone = 0
	relLE   = 1
	relLT   = 2
)

type slackState struct {
	k   int
	rel map[types.Object]int // immutable: copy on write
	// imp: for boolean locals, "flag == v  =>  len-pos >= n" (n >= impTop: flag == v is impossible here).  This is
	// what lets a loop driven by a flag (`for !done { … done = true … }`) keep the bound established where the flag
	// was raised.  Immutable: copy on write.
	imp map[impKey]int
}

type impKey struct {
	o types.Object
	v bool
}

const impTop = 1000

func (s slackState) withImp(k impKey, n int) slackState {
	m := make(map[impKey]int, len(s.imp)+1)
	for kk, v := range s.imp {
		m[kk] = v
	}
	if n <= 0 {
		delete(m, k)
	} else {
		m[k] = n
	}
	return slackState{k: s.k, rel: s.rel, imp: m}
}

// flagIs records that the flag has value v here, where len-pos >= s.k.
func (s slackState) flagIs(o types.Object, v bool) slackState {
	return s.withImp(impKey{o, v}, s.k).withImp(impKey{o, !v}, impTop)
}

func (s slackState) forgetFlag(o types.Object) slackState {
	if _, a := s.imp[impKey{o, true}]; !a {
		if _, b := s.imp[impKey{o, false}]; !b {
			return s
		}
	}
	return s.withImp(impKey{o, true}, 0).withImp(impKey{o, false}, 0)
}

// cursorMoved adjusts the implications after pos grew by c (c < 0: the bound is lost altogether).
func (s slackState) cursorMoved(c int, captured map[types.Object]bool) slackState {
	if len(s.imp) == 0 {
		return s
	}
	m := map[impKey]int{}
	for k, v := range s.imp {
		switch {
		case v >= impTop/2:
			if c >= 0 || !captured[k.o] {
				m[k] = v
			}
		case c >= 0 && v-c > 0:
			m[k] = v - c
		}
	}
	return slackState{k: s.k, rel: s.rel, imp: m}
}

func (s slackState) with(o types.Object, r int) slackState {
	m := make(map[types.Object]int, len(s.rel)+1)
	for k, v := range s.rel {
		m[k] = v
	}
	if r == relNone {
		delete(m, o)
	} else {
		m[o] = r
	}
	return slackState{k: s.k, rel: m, imp: s.imp}
}

func (s slackState) withK(k int) slackState {
	if k < 0 {
		k = 0
	}
	if k > 64 {
		k = 64
	}
	return slackState{k: k, rel: s.rel, imp: s.imp}
}

func joinSlack(a, b slackState) slackState {
	k := a.k
	if b.k < k {
		k = b.k
	}
	m := map[types.Object]int{}
	for o, ra := range a.rel {
		rb := b.rel[o]
		r := ra
		if rb < r {
			r = rb
		}
		if r != relNone {
			m[o] = r
		}
	}
	var imp map[impKey]int
	for kk, va := range a.imp {
		vb := b.imp[kk]
		if vb < va {
			va = vb
		}
		if va > 0 {
			if imp == nil {
				imp = map[impKey]int{}
			}
			imp[kk] = va
		}
	}
	return slackState{k: k, rel: m, imp: imp}
}

func equalSlack(a, b slackState) bool {
	if a.k != b.k || len(a.rel) != len(b.rel) {
		return false
	}
	for o, r := range a.rel {
		if b.rel[o] != r {
			return false
		}
	}
	if len(a.imp) != len(b.imp) {
		return false
	}
	for kk, v := range a.imp {
		if b.imp[kk] != v {
			return false
		}
	}
	return true
}

// term kinds for the little linear language of the cursor code
const (
	tOther = iota
	tPos   // pos + c
	tLen   // len(data) + c
	tDiff  // len(data) - pos + c
	tConst // c
	tLocal // local + c
)

type slackTerm struct {
	kind int
	c    int
	obj  types.Object
}

type slackFn struct {
	captured map[types.Object]bool
	c        *core.Ctx
	rel      string
	inf      *types.Info
	fd       *ast.FuncDecl
	fn       string
	tracked  types.Object // the *ror2Reader variable
	posF     *types.Var
	dataF    *types.Var
	reader   *types.Named
	all      *slackPkg
	report   bool
	seen     map[string]bool
}

type slackPkg struct {
	// pure predicate methods: name -> (decl, result expr)
	preds map[*types.Func]*ast.FuncDecl
	// methods with an int first result that promise 0 <= result <= pos
	intSummary map[*types.Func]bool
}

// fieldOf resolves a selector (possibly through embedding) to a field of the
// reader struct and returns the root identifier's object.
func (a *slackFn) fieldSel(e ast.Expr) (field *types.Var, root types.Object, ok bool) {
	sel, isSel := core.Unparen(e).(*ast.SelectorExpr)
	if !isSel {
		return nil, nil, false
	}
	s := a.inf.Selections[sel]
	if s == nil || s.Kind() != types.FieldVal {
		return nil, nil, false
	}
	v, _ := s.Obj().(*types.Var)
	if v != a.posF && v != a.dataF {
		return nil, nil, false
	}
	// root identifier
	x := core.Unparen(sel.X)
	for {
		switch y := x.(type) {
		case *ast.SelectorExpr:
			x = core.Unparen(y.X)
			continue
		case *ast.StarExpr:
			x = core.Unparen(y.X)
			continue
		}
		break
	}
	id, isID := x.(*ast.Ident)
	if !isID {
		return v, nil, true
	}
	return v, core.ObjOf(a.inf, id), true
}

func (a *slackFn) isPos(e ast.Expr) bool {
	f, root, ok := a.fieldSel(e)
	return ok && f == a.posF && root == a.tracked
}

func (a *slackFn) isData(e ast.Expr) bool {
	f, root, ok := a.fieldSel(e)
	return ok && f == a.dataF && root == a.tracked
}

func (a *slackFn) isLenData(e ast.Expr) bool {
	call, ok := core.Unparen(e).(*ast.CallExpr)
	if !ok || len(call.Args) != 1 {
		return false
	}
	id, ok := core.Unparen(call.Fun).(*ast.Ident)
	if !ok {
		return false
	}
	if b, ok := a.inf.Uses[id].(*types.Builtin); !ok || core.NameOf(b) != "len" {
		return false
	}
	return a.isData(call.Args[0])
}

func (a *slackFn) term(e ast.Expr) slackTerm {
	e = core.Unparen(e)
	if cv := core.ConstOf(a.inf, e); cv != nil && cv.Kind() == constant.Int {
		if v, ok := constant.Int64Val(cv); ok {
			return slackTerm{kind: tConst, c: int(v)}
		}
	}
	if a.isPos(e) {
		return slackTerm{kind: tPos}
	}
	if a.isLenData(e) {
		return slackTerm{kind: tLen}
	}
	switch x := e.(type) {
	case *ast.Ident:
		if o, ok := core.ObjOf(a.inf, x).(*types.Var); ok && !o.IsField() {
			if b, ok := o.Type().Underlying().(*types.Basic); ok && b.Info()&types.IsInteger != 0 {
				return slackTerm{kind: tLocal, obj: o}
			}
		}
	case *ast.BinaryExpr:
		l, r := a.term(x.X), a.term(x.Y)
		switch x.Op {
		case token.ADD:
			if r.kind == tConst && l.kind != tOther && l.kind != tConst {
				l.c += r.c
				return l
			}
			if l.kind == tConst && r.kind != tOther && r.kind != tConst {
				r.c += l.c
				return r
			}
		case token.SUB:
			if r.kind == tConst && l.kind != tOther && l.kind != tConst {
				l.c -= r.c
				return l
			}
			if l.kind == tLen && r.kind == tPos {
				return slackTerm{kind: tDiff, c: l.c - r.c}
			}
		}
	}
	return slackTerm{kind: tOther}
}

func negOp(op token.Token) token.Token {
	switch op {
	case token.LSS:
		return token.GEQ
	case token.LEQ:
		return token.GTR
	case token.GTR:
		return token.LEQ
	case token.GEQ:
		return token.LSS
	case token.EQL:
		return token.NEQ
	case token.NEQ:
		return token.EQL
	}
	return token.ILLEGAL
}

func flipOp(op token.Token) token.Token {
	switch op {
	case token.LSS:
		return token.GTR
	case token.LEQ:
		return token.GEQ
	case token.GTR:
		return token.LSS
	case token.GEQ:
		return token.LEQ
	}
	return op
}

// assume refines the state with the knowledge that e evaluates to val.
func (a *slackFn) assume(s slackState, e ast.Expr, val bool, depth int) slackState {
	for _, f := range core.Decompose(e, val, nil) {
		s = a.assumeAtom(s, f.Expr, f.Val, depth)
	}
	return s
}

func (a *slackFn) assumeAtom(s slackState, e ast.Expr, val bool, depth int) slackState {
	e = core.Unparen(e)
	switch x := e.(type) {
	case *ast.Ident:
		// a boolean local: the bound recorded where it was given this value holds again
		if o, ok := core.ObjOf(a.inf, x).(*types.Var); ok && !o.IsField() && isBoolType(o.Type()) {
			if n, has := s.imp[impKey{o, val}]; has {
				if n >= impTop/2 {
					return s.withK(64) // the flag cannot have this value here: the edge is not taken
				}
				s = s.withK(maxInt(s.k, n))
			}
			return s.flagIs(o, val)
		}
	case *ast.CallExpr:
		// pure predicate on the tracked reader: inline
		if depth < 2 {
			if callee := core.Callee(a.inf, x); callee != nil {
				if pd := a.all.preds[callee]; pd != nil && a.callOnTracked(x) {
					sub := *a
					sub.fd = pd
					sub.captured = nil
					sub.inf = a.c.M.PkgOf(callee).TypesInfo
					sub.tracked = recvObj(sub.inf, pd)
					sub.report = false
					ret := pd.Body.List[0].(*ast.ReturnStmt)
					// the callee's facts are about its own receiver == our tracked reader;
					// only k transfers (callee locals do not exist here)
					ks := sub.assume(slackState{k: s.k}, ret.Results[0], val, depth+1)
					return s.withK(ks.k)
				}
			}
		}
	case *ast.BinaryExpr:
		op := x.Op
		if negOp(op) == token.ILLEGAL {
			return s
		}
		if !val {
			op = negOp(op)
		}
		l, r := a.term(x.X), a.term(x.Y)
		return a.assumeCmp(s, l, op, r)
	}
	return s
}

func (a *slackFn) assumeCmp(s slackState, l slackTerm, op token.Token, r slackTerm) slackState {
	// normalise so that the "smaller" side is on the left for < / <=
	if op == token.GTR || op == token.GEQ {
		l, r = r, l
		op = flipOp(op)
	}
	switch {
	case l.kind == tPos && r.kind == tLen:
		// pos + lc  op  len + rc   =>  len - pos  op'  lc - rc
		d := l.c - r.c
		switch op {
		case token.LSS: // len-pos > d
			if d+1 > s.k {
				return s.withK(d + 1)
			}
		case token.LEQ:
			if d > s.k {
				return s.withK(d)
			}
		case token.NEQ:
			// len-pos != d ; with k >= d known exactly at the boundary only
			if s.k == d {
				return s.withK(d + 1)
			}
		}
	case l.kind == tLen && r.kind == tPos:
		// len + lc op pos + rc: only != is informative (len-pos != rc-lc)
		d := r.c - l.c
		if op == token.NEQ && s.k == d {
			return s.withK(d + 1)
		}
		// len < pos / len <= pos: upper bounds on k, not tracked
	case l.kind == tConst && r.kind == tDiff:
		// c < len-pos+rc  =>  len-pos > c-rc
		d := l.c - r.c
		switch op {
		case token.LSS:
			if d+1 > s.k {
				return s.withK(d + 1)
			}
		case token.LEQ:
			if d > s.k {
				return s.withK(d)
			}
		case token.NEQ:
			if s.k == d {
				return s.withK(d + 1)
			}
		}
	case l.kind == tDiff && r.kind == tConst:
		d := r.c - l.c
		if op == token.NEQ && s.k == d {
			return s.withK(d + 1)
		}
	case l.kind == tLocal && r.kind == tPos:
		// local + lc  op  pos + rc
		if l.c == 0 && r.c == 0 && s.rel[l.obj] >= relLE {
			switch op {
			case token.LSS, token.NEQ:
				// l <= pos and l != pos  =>  l < pos
				return s.with(l.obj, relLT)
			}
		}
	case l.kind == tPos && r.kind == tLocal:
		if l.c == 0 && r.c == 0 && s.rel[r.obj] >= relLE && op == token.NEQ {
			return s.with(r.obj, relLT)
		}
	}
	return s
}

func recvObj(inf *types.Info, fd *ast.FuncDecl) types.Object {
	if fd.Recv == nil || len(fd.Recv.List) == 0 || len(fd.Recv.List[0].Names) == 0 {
		return nil
	}
	return inf.Defs[fd.Recv.List[0].Names[0]]
}

// callOnTracked reports whether call is a method call whose receiver
// expression is rooted at the tracked reader variable.
func (a *slackFn) callOnTracked(call *ast.CallExpr) bool {
	sel, ok := core.Unparen(call.Fun).(*ast.SelectorExpr)
	if !ok {
		return false
	}
	x := core.Unparen(sel.X)
	for {
		if s, ok := x.(*ast.SelectorExpr); ok {
			x = core.Unparen(s.X)
			continue
		}
		break
	}
	id, ok := x.(*ast.Ident)
	return ok && a.tracked != nil && core.ObjOf(a.inf, id) == a.tracked
}

func (a *slackFn) ob(ok bool, undecided bool, construct string, node ast.Node, detail string) {
	if !a.report {
		return
	}
	pos := node.Pos()
	if _, isDecl := node.(*ast.FuncDecl); !isDecl {
		construct = fmt.Sprintf("%s #%d", construct, ordinal(a.fd, node))
	}
	key := fmt.Sprintf("%s@%d", construct, pos)
	if a.seen[key] {
		return
	}
	a.seen[key] = true
	switch {
	case undecided:
		a.c.Unknown(a.rel, a.fn, construct, pos, detail)
	case ok:
		a.c.OK(a.rel, a.fn, construct, pos, detail)
	default:
		a.c.Bad(a.rel, a.fn, construct, pos, detail)
	}
}

func (a *slackFn) lowerOK(s slackState, t slackTerm) bool {
	switch t.kind {
	case tPos, tLen:
		return t.c >= 0
	case tConst:
		return t.c >= 0
	case tLocal:
		return s.rel[t.obj] >= relLE && t.c >= 0
	}
	return false
}

// leq reports whether x <= y is provable.
func (a *slackFn) leq(s slackState, x, y slackTerm) bool {
	switch {
	case x.kind == tConst && x.c == 0:
		return a.lowerOK(s, y)
	case x.kind == tPos && y.kind == tPos:
		return x.c <= y.c
	case x.kind == tLocal && y.kind == tPos:
		r := s.rel[x.obj]
		if r == relLT {
			return x.c <= y.c+1
		}
		return r == relLE && x.c <= y.c
	case x.kind == tLocal && y.kind == tLocal && x.obj == y.obj:
		return x.c <= y.c
	case x.kind == tPos && y.kind == tLen:
		return s.k >= x.c-y.c
	case x.kind == tLocal && y.kind == tLen:
		r := s.rel[x.obj]
		return r >= relLE && s.k >= x.c-y.c
	case x.kind == tLen && y.kind == tLen:
		return x.c <= y.c
	}
	return false
}

// checkExpr walks an expression with short-circuit semantics, emitting the
// bounds obligations for every index and slice of the tracked data.
func (a *slackFn) checkExpr(s slackState, e ast.Expr) {
	if e == nil {
		return
	}
	switch x := e.(type) {
	case *ast.ParenExpr:
		a.checkExpr(s, x.X)
	case *ast.FuncLit:
		// closures touching the cursor are outside the idioms
		ast.Inspect(x.Body, func(n ast.Node) bool {
			if ex, ok := n.(ast.Expr); ok {
				if f, root, ok := a.fieldSel(ex); ok && (f == a.posF || f == a.dataF) {
					_ = root
					a.ob(false, true, "cursor access inside a function literal", ex, "not analysed")
				}
			}
			return true
		})
	case *ast.BinaryExpr:
		a.checkExpr(s, x.X)
		switch x.Op {
		case token.LAND:
			a.checkExpr(a.assume(s, x.X, true, 0), x.Y)
		case token.LOR:
			a.checkExpr(a.assume(s, x.X, false, 0), x.Y)
		default:
			a.checkExpr(s, x.Y)
		}
	case *ast.IndexExpr:
		a.checkExpr(s, x.X)
		a.checkExpr(s, x.Index)
		if a.isData(x.X) {
			t := a.term(x.Index)
			desc := "index data[" + core.ExprString(x.Index) + "]"
			switch t.kind {
			case tPos:
				a.ob(t.c >= 0 && s.k >= t.c+1, false, desc, x, fmt.Sprintf("needs len-pos >= %d, proven >= %d", t.c+1, s.k))
			case tLocal:
				r := s.rel[t.obj]
				ok := (r == relLT && t.c == 0) || (r == relLT && t.c > 0 && s.k >= t.c) || (r == relLE && t.c >= 0 && s.k >= t.c+1)
				a.ob(ok, false, desc, x, fmt.Sprintf("needs 0 <= %s < len; relation to pos: %s, len-pos >= %d", core.ExprString(x.Index), relName(r), s.k))
			case tConst:
				a.ob(t.c >= 0 && s.k >= t.c+1 && false, false, desc, x, "constant index is not provably below len(data)")
			default:
				a.ob(false, true, desc, x, "index expression outside the understood forms (pos, pos+c, local)")
			}
		}
	case *ast.SliceExpr:
		a.checkExpr(s, x.X)
		a.checkExpr(s, x.Low)
		a.checkExpr(s, x.High)
		a.checkExpr(s, x.Max)
		if a.isData(x.X) {
			lo := slackTerm{kind: tConst}
			if x.Low != nil {
				lo = a.term(x.Low)
			}
			hi := slackTerm{kind: tLen}
			if x.High != nil {
				hi = a.term(x.High)
			}
			desc := "slice data[" + exprOr(x.Low, "") + ":" + exprOr(x.High, "") + "]"
			if lo.kind == tOther || hi.kind == tOther || x.Max != nil {
				a.ob(false, true, desc, x, "slice bounds outside the understood forms")
				return
			}
			ok := a.lowerOK(s, lo) && a.leq(s, lo, hi) && a.leq(s, hi, slackTerm{kind: tLen})
			a.ob(ok, false, desc, x, fmt.Sprintf("needs 0 <= lo <= hi <= len; len-pos >= %d", s.k))
		}
	case *ast.CallExpr:
		a.checkExpr(s, x.Fun)
		for _, arg := range x.Args {
			a.checkExpr(s, arg)
		}
	case *ast.UnaryExpr:
		a.checkExpr(s, x.X)
	case *ast.StarExpr:
		a.checkExpr(s, x.X)
	case *ast.SelectorExpr:
		a.checkExpr(s, x.X)
	case *ast.TypeAssertExpr:
		a.checkExpr(s, x.X)
	case *ast.CompositeLit:
		for _, el := range x.Elts {
			a.checkExpr(s, el)
		}
	case *ast.KeyValueExpr:
		a.checkExpr(s, x.Value)
	}
}

func exprOr(e ast.Expr, d string) string {
	if e == nil {
		return d
	}
	return core.ExprString(e)
}

func relName(r int) string {
	switch r {
	case relLE:
		return "<= pos"
	case relLT:
		return "< pos"
	}
	return "unknown"
}

// resetsCursor reports whether evaluating node n may run code that moves the
// cursor (any call that is not a builtin, a conversion or a pure predicate).
func (a *slackFn) resetsCursor(n ast.Node) bool {
	reset := false
	for _, call := range core.CallsIn(n) {
		if tv, ok := a.inf.Types[call.Fun]; ok && (tv.IsType() || tv.IsBuiltin()) {
			continue
		}
		if callee := core.Callee(a.inf, call); callee != nil && a.all.preds[callee] != nil {
			continue
		}
		reset = true
	}
	return reset
}

func (a *slackFn) transfer(s slackState, n ast.Node) slackState {
	// 1. obligations inside the node's expressions
	switch x := n.(type) {
	case ast.Expr:
		a.checkExpr(s, x)
	case *ast.AssignStmt:
		for _, r := range x.Rhs {
			a.checkExpr(s, r)
		}
		for _, l := range x.Lhs {
			a.checkExpr(s, l)
		}
	case *ast.IncDecStmt:
		a.checkExpr(s, x.X)
	case *ast.ExprStmt:
		a.checkExpr(s, x.X)
	case *ast.ReturnStmt:
		for _, r := range x.Results {
			a.checkExpr(s, r)
		}
	case *ast.DeclStmt:
		if gd, ok := x.Decl.(*ast.GenDecl); ok {
			for _, sp := range gd.Specs {
				if vs, ok := sp.(*ast.ValueSpec); ok {
					for _, v := range vs.Values {
						a.checkExpr(s, v)
					}
				}
			}
		}
	case *ast.ValueSpec:
		for _, v := range x.Values {
			a.checkExpr(s, v)
		}
	case *ast.DeferStmt:
		a.checkExpr(s, x.Call)
		a.ob(false, true, "defer in cursor code", x, "deferred calls are outside the idioms")
	case *ast.GoStmt:
		a.checkExpr(s, x.Call)
		a.ob(false, true, "go statement in cursor code", x, "outside the idioms")
	case *ast.SendStmt:
		a.checkExpr(s, x.Value)
	}
	// 2. calls reset the bound
	if a.resetsCursor(n) {
		s = s.withK(0).cursorMoved(-1, a.capturedFlags())
	}
	// 3. effects of assignments
	switch x := n.(type) {
	case *ast.IncDecStmt:
		if a.isPos(x.X) {
			if x.Tok == token.INC {
				a.ob(s.k >= 1, false, "cursor write pos++", x, fmt.Sprintf("Inv1 needs len-pos >= 1 before the increment, proven >= %d", s.k))
				s = a.bumpPos(s, 1)
			} else {
				a.ob(false, false, "cursor write pos--", x, "Inv2: the cursor must never decrease")
			}
			return s
		}
		if f, _, ok := a.fieldSel(x.X); ok && f == a.posF {
			a.ob(false, true, "cursor write through an untracked base", x, core.ExprString(x.X))
			return s
		}
		if id, ok := core.Unparen(x.X).(*ast.Ident); ok {
			if o := core.ObjOf(a.inf, id); o != nil {
				r := s.rel[o]
				if x.Tok == token.INC && r == relLT {
					s = s.with(o, relLE)
				} else {
					s = s.with(o, relNone)
				}
			}
		}
	case *ast.AssignStmt:
		s = a.assign(s, x)
	case *ast.DeclStmt, *ast.ValueSpec:
		for _, o := range core.AssignedObjs(a.inf, n) {
			s = s.with(o, relNone)
		}
		// var x = pos style declarations
		var specs []*ast.ValueSpec
		if vs, ok := n.(*ast.ValueSpec); ok {
			specs = append(specs, vs)
		} else if gd, ok := n.(*ast.DeclStmt).Decl.(*ast.GenDecl); ok {
			for _, sp := range gd.Specs {
				if vs, ok := sp.(*ast.ValueSpec); ok {
					specs = append(specs, vs)
				}
			}
		}
		for _, vs := range specs {
			if len(vs.Names) == len(vs.Values) {
				for i, id := range vs.Names {
					if o := a.inf.Defs[id]; o != nil {
						s = s.with(o, a.relOf(s, vs.Values[i]))
						if cv := core.ConstOf(a.inf, vs.Values[i]); cv != nil && cv.Kind() == constant.Bool {
							s = s.flagIs(o, constant.BoolVal(cv))
						}
					}
				}
			} else if len(vs.Values) == 0 {
				for _, id := range vs.Names {
					if o := a.inf.Defs[id]; o != nil && isBoolType(o.Type()) {
						s = s.flagIs(o, false)
					}
				}
			}
		}
	}
	return s
}

// relOf computes the relation a value has to pos.
func (a *slackFn) relOf(s slackState, e ast.Expr) int {
	t := a.term(e)
	switch t.kind {
	case tPos:
		if t.c == 0 {
			return relLE
		}
		if t.c < 0 {
			return relNone // could be negative
		}
	case tConst:
		if t.c == 0 {
			return relLE
		}
	case tLocal:
		if t.c == 0 {
			return s.rel[t.obj]
		}
	}
	return relNone
}

func (a *slackFn) bumpPos(s slackState, c int) slackState {
	// pos grew by c >= 1: every l <= old pos is now < new pos
	m := map[types.Object]int{}
	for o, r := range s.rel {
		if r >= relLE {
			m[o] = relLT
		}
	}
	return slackState{k: maxInt(s.k-c, 0), rel: m, imp: s.cursorMoved(c, a.capturedFlags()).imp}
}

func maxInt(a, b int) int {
	if a > b {
		return a
	}
	return b
}

func (a *slackFn) assign(s slackState, x *ast.AssignStmt) slackState {
	// writes to the cursor / data
	for i, l := range x.Lhs {
		if f, root, ok := a.fieldSel(l); ok {
			if root != a.tracked {
				a.ob(false, true, "write to reader field through an untracked base", l, core.ExprString(l))
				continue
			}
			if f == a.dataF {
				a.ob(false, false, "data reassigned after construction", l, "the bounds argument assumes data is fixed")
				continue
			}
			// f == pos
			switch x.Tok {
			case token.ADD_ASSIGN:
				t := a.term(x.Rhs[0])
				if t.kind == tConst && t.c >= 0 {
					a.ob(s.k >= t.c, false, fmt.Sprintf("cursor write pos += %d", t.c), x, fmt.Sprintf("Inv1 needs len-pos >= %d, proven >= %d", t.c, s.k))
					if t.c > 0 {
						s = a.bumpPos(s, t.c)
					}
				} else {
					a.ob(false, t.kind == tOther, "cursor write pos += "+core.ExprString(x.Rhs[0]), x, "increment is not a non-negative constant")
					s = slackState{k: 0}
				}
			case token.ASSIGN:
				if len(x.Lhs) == len(x.Rhs) {
					t := a.term(x.Rhs[i])
					switch {
					case t.kind == tLen && t.c == 0:
						a.ob(true, false, "cursor write pos = len(data)", x, "monotone by Inv1")
						s = slackState{k: 0, rel: s.rel}
					case t.kind == tPos && t.c >= 0:
						a.ob(s.k >= t.c, false, fmt.Sprintf("cursor write pos = pos + %d", t.c), x, fmt.Sprintf("Inv1 needs len-pos >= %d, proven >= %d", t.c, s.k))
						if t.c > 0 {
							s = a.bumpPos(s, t.c)
						}
					default:
						a.ob(false, false, "cursor write pos = "+core.ExprString(x.Rhs[i]), x, "not one of the monotone forms pos++, pos += c, pos = len(data) (Inv2)")
						s = slackState{k: 0}
					}
				} else {
					a.ob(false, true, "cursor write from a multi-value expression", x, "")
					s = slackState{k: 0}
				}
			default:
				a.ob(false, false, "cursor write pos "+x.Tok.String()+" …", x, "not a monotone form (Inv2)")
				s = slackState{k: 0}
			}
			continue
		}
	}
	// locals
	if len(x.Lhs) == len(x.Rhs) && (x.Tok == token.ASSIGN || x.Tok == token.DEFINE) {
		// evaluate all right-hand sides first
		rels := make([]int, len(x.Rhs))
		for i, r := range x.Rhs {
			rels[i] = a.relOf(s, r)
		}
		for i, l := range x.Lhs {
			if id, ok := core.Unparen(l).(*ast.Ident); ok {
				if o := core.ObjOf(a.inf, id); o != nil {
					s = s.with(o, rels[i])
					if isBoolType(o.Type()) {
						if cv := core.ConstOf(a.inf, x.Rhs[i]); cv != nil && cv.Kind() == constant.Bool {
							s = s.flagIs(o, constant.BoolVal(cv))
						} else {
							s = s.forgetFlag(o)
						}
					}
				}
			}
		}
		return s
	}
	// x, err := u.m()  with an int summary
	if len(x.Rhs) == 1 && len(x.Lhs) >= 1 {
		first := relNone
		if call, ok := core.Unparen(x.Rhs[0]).(*ast.CallExpr); ok {
			if callee := core.Callee(a.inf, call); callee != nil && a.all.intSummary[callee] && a.callOnTracked(call) {
				first = relLE
			}
		}
		for i, l := range x.Lhs {
			if id, ok := core.Unparen(l).(*ast.Ident); ok {
				if o := core.ObjOf(a.inf, id); o != nil {
					if i == 0 {
						s = s.with(o, first)
					} else {
						s = s.with(o, relNone)
					}
				}
			}
		}
		return s
	}
	for _, o := range core.AssignedObjs(a.inf, x) {
		s = s.with(o, relNone).forgetFlag(o)
	}
	return s
}

func isBoolType(t types.Type) bool {
	b, ok := t.Underlying().(*types.Basic)
	return ok && b.Info()&types.IsBoolean != 0
}

// capturedFlags: boolean locals that a function literal of the analysed function mentions, or whose address is taken
// (a call may then change them).
func (a *slackFn) capturedFlags() map[types.Object]bool {
	if a.captured != nil {
		return a.captured
	}
	a.captured = map[types.Object]bool{}
	for _, fl := range core.AllFuncLits(a.fd.Body) {
		ast.Inspect(fl.Body, func(n ast.Node) bool {
			if id, ok := n.(*ast.Ident); ok {
				if o := a.inf.Uses[id]; o != nil {
					a.captured[o] = true
				}
			}
			return true
		})
	}
	ast.Inspect(a.fd.Body, func(n ast.Node) bool {
		if u, ok := n.(*ast.UnaryExpr); ok && u.Op == token.AND {
			if o := core.ObjOf(a.inf, u.X); o != nil {
				a.captured[o] = true
			}
		}
		return true
	})
	return a.captured
}

func (a *slackFn) run() {
	flow := core.NewFlow(a.c.M, a.inf, a.fd.Body)
	ops := core.LatticeOps[slackState]{
		Init: slackState{k: 0},
		Node: a.transfer,
		Edge: func(s slackState, facts []core.Fact) (slackState, bool) {
			for _, f := range facts {
				if f.Tag != nil {
					continue
				}
				s = a.assumeAtom(s, f.Expr, f.Val, 0)
			}
			return s, true
		},
		Join:  joinSlack,
		Equal: equalSlack,
	}
	a.report = false
	in := core.RunLattice(flow, ops)
	a.report = true
	sig, _ := a.inf.Defs[a.fd.Name].Type().(*types.Signature)
	fobj, _ := a.inf.Defs[a.fd.Name].(*types.Func)
	wantSummary := fobj != nil && a.all.intSummary[fobj]
	// deterministic replay
	blocks := make([]int, 0, len(in))
	byIdx := map[int]slackState{}
	for b, s := range in {
		blocks = append(blocks, int(b.Index))
		byIdx[int(b.Index)] = s
	}
	sort.Ints(blocks)
	for _, idx := range blocks {
		b := flow.G.Blocks[idx]
		cur := byIdx[idx]
		for _, n := range b.Nodes {
			if ret, ok := n.(*ast.ReturnStmt); ok && wantSummary {
				a.checkIntReturn(cur, sig, ret)
			}
			cur = a.transfer(cur, n)
		}
	}
}

// checkIntReturn verifies the summary 0 <= result <= pos for the first result.
func (a *slackFn) checkIntReturn(s slackState, sig *types.Signature, ret *ast.ReturnStmt) {
	ok := false
	if len(ret.Results) == 0 {
		if v := sig.Results().At(0); core.NameOf(v) != "" {
			ok = s.rel[v] >= relLE
		}
	} else if len(ret.Results) == sig.Results().Len() {
		ok = a.relOf(s, ret.Results[0]) >= relLE
	}
	a.ob(ok, false, fmt.Sprintf("int result #%d bounded by the cursor", ordinal(a.fd, ret)), ret, "callers slice data with this result; needs 0 <= result <= pos at every return")
}

func runR041(c *core.Ctx) {
	const rel = "restlicodec"
	inf := info(c, rel)
	readerObj, _ := mustObj(c, rel, "ror2Reader").(*types.TypeName)
	if readerObj == nil {
		panic(&core.AnchorError{Pkg: rel, Name: "ror2Reader", What: "type"})
	}
	named := readerObj.Type().(*types.Named)
	st, _ := named.Underlying().(*types.Struct)
	if st == nil {
		panic(&core.AnchorError{Pkg: rel, Name: "ror2Reader", What: "struct type"})
	}
	var posF, dataF *types.Var
	for i := 0; i < st.NumFields(); i++ {
		switch core.NameOf(st.Field(i)) {
		case "pos":
			posF = st.Field(i)
		case "data":
			dataF = st.Field(i)
		}
	}
	if posF == nil || dataF == nil {
		panic(&core.AnchorError{Pkg: rel, Name: "ror2Reader.pos/data", What: "field"})
	}
	pk := &slackPkg{preds: map[*types.Func]*ast.FuncDecl{}, intSummary: map[*types.Func]bool{}}
	decls := c.M.FuncDecls(rel)
	usesCursor := func(n ast.Node) bool {
		found := false
		ast.Inspect(n, func(x ast.Node) bool {
			if sel, ok := x.(*ast.SelectorExpr); ok {
				if s := inf.Selections[sel]; s != nil && (s.Obj() == posF || s.Obj() == dataF) {
					found = true
				}
			}
			return !found
		})
		return found
	}
	// pure predicates: methods whose body is a single `return <bool expr>`
	// without calls other than builtins/conversions and other predicates.
	for _, fd := range decls {
		if fd.Body == nil || fd.Recv == nil || len(fd.Body.List) != 1 {
			continue
		}
		ret, ok := fd.Body.List[0].(*ast.ReturnStmt)
		if !ok || len(ret.Results) != 1 {
			continue
		}
		if tv, ok := inf.Types[ret.Results[0]]; !ok || !types.Identical(tv.Type.Underlying(), types.Typ[types.Bool]) {
			continue
		}
		pure := true
		for _, call := range core.CallsIn(ret) {
			if tv, ok := inf.Types[call.Fun]; ok && (tv.IsType() || tv.IsBuiltin()) {
				continue
			}
			// package-level functions of bytes / strings / unicode never write
			// through their arguments and have no state: still a pure predicate
			if callee := core.Callee(inf, call); callee != nil && callee.Pkg() != nil && core.RecvNamed(callee) == nil {
				switch callee.Pkg().Path() {
				case "bytes", "strings", "unicode", "unicode/utf8":
					continue
				}
			}
			pure = false
		}
		if f, ok := inf.Defs[fd.Name].(*types.Func); ok && pure && usesCursor(fd) {
			pk.preds[f] = fd
		}
	}
	// int-summary candidates: methods of the reader type whose first result is an int
	for _, fd := range decls {
		f, _ := inf.Defs[fd.Name].(*types.Func)
		if f == nil || fd.Body == nil {
			continue
		}
		if n := core.RecvNamed(f); n == nil || n.Obj() != readerObj {
			continue
		}
		sig := f.Type().(*types.Signature)
		if sig.Results().Len() >= 1 {
			if b, ok := sig.Results().At(0).Type().Underlying().(*types.Basic); ok && b.Kind() == types.Int && usesCursor(fd) {
				pk.intSummary[f] = true
			}
		}
	}
	nfuncs := 0
	for _, fd := range decls {
		if fd.Body == nil || !usesCursor(fd) {
			continue
		}
		nfuncs++
		a := &slackFn{c: c, rel: rel, inf: inf, fd: fd, fn: core.DeclName(fd), posF: posF, dataF: dataF, reader: named, all: pk, seen: map[string]bool{}}
		// tracked variable: the root of every cursor access must be one object
		roots := map[types.Object]bool{}
		unrooted := false
		ast.Inspect(fd, func(x ast.Node) bool {
			if e, ok := x.(ast.Expr); ok {
				if _, root, ok := a.fieldSel(e); ok {
					if root == nil {
						unrooted = true
					} else {
						roots[root] = true
					}
				}
			}
			return true
		})
		a.report = true
		if unrooted || len(roots) != 1 {
			// composite literal keys are not selectors, so this is a real access shape we do not know
			a.ob(false, true, "cursor accessed through more than one base expression", fd, "outside the idioms")
			continue
		}
		for r := range roots {
			a.tracked = r
		}
		a.run()
	}
	// constructors: composite literals of the reader type start at pos 0
	lits := 0
	for _, p := range c.M.Roots {
		for _, file := range p.Syntax {
			ast.Inspect(file, func(n ast.Node) bool {
				cl, ok := n.(*ast.CompositeLit)
				if !ok {
					return true
				}
				tv, ok := p.TypesInfo.Types[cl]
				if !ok {
					return true
				}
				t := tv.Type
				if ptr, ok := t.(*types.Pointer); ok {
					t = ptr.Elem()
				}
				if nt, ok := t.(*types.Named); !ok || nt.Obj() != readerObj {
					return true
				}
				lits++
				okLit := true
				for i, el := range cl.Elts {
					kv, isKV := el.(*ast.KeyValueExpr)
					if !isKV {
						// positional literal: field i
						if i < st.NumFields() && st.Field(i) == posF {
							if cv := core.ConstOf(p.TypesInfo, el); cv == nil || constant.Sign(cv) != 0 {
								okLit = false
							}
						}
						continue
					}
					if id, ok := kv.Key.(*ast.Ident); ok && id.Name == "pos" {
						if cv := core.ConstOf(p.TypesInfo, kv.Value); cv == nil || constant.Sign(cv) != 0 {
							okLit = false
						}
					}
				}
				fnName := enclosingFuncName(file, cl.Pos())
				rc := &core.Ctx{}
				_ = rc
				relp := c.M.Rel(p.PkgPath)
				c.Check(okLit, relp, fnName, "ror2Reader literal starts at pos 0", cl.Pos(), "pos is the zero value", "literal sets a non-zero cursor: Inv1 base case fails")
				return true
			})
		}
	}
	c.Note("A-slack analysed %d functions touching the cursor, %d pure predicates inlined, %d int-summary methods, %d reader literals", nfuncs, len(pk.preds), len(pk.intSummary), lits)
	if len(pk.preds) < 2 {
		c.Unknown(rel, "-", "pure predicate recogniser", 0, fmt.Sprintf("expected atMap and atArray to be recognised as pure predicates, found %d", len(pk.preds)))
	}
}

func enclosingFuncName(file *ast.File, pos token.Pos) string {
	for _, d := range file.Decls {
		if fd, ok := d.(*ast.FuncDecl); ok && fd.Pos() <= pos && pos <= fd.End() {
			return core.DeclName(fd)
		}
	}
	return "(package level)"
}
