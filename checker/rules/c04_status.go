package rules

import (
	"fmt"
	"go/ast"
	"go/constant"
	"go/types"
	"sort"

	"verif/checker/core"
)

func init() {
	core.Register(&core.Rule{
		ID:    "R04.4",
		Title: "every rejection before resource code is a 4xx error response",
		Text: "In pathNode.receive and in every handler closure stored into pathNode.methods/finders/actions (and the body/no-body wrappers): on every CFG path, a return reached before the " +
			"first call of resource-provided code (filter PreRequest, the handler, the implementation callback) must be the result of newErrorResponsef(_, S, …) with constant 400<=S<500, " +
			"a recursive receive, or the callback's own result.  Exempt by name: the error of io.ReadAll(body) (transport failure).  In ServeHTTP every return before receive follows " +
			"http.NotFound or http.Error with a 4xx constant.",
		Props: []string{"C04", "C05", "C14"},
		Floor: map[string]int{"v2": 15, "root": 15},
		Run:   runR044,
	})
}

// statusOfErrorResponsef returns the constant status of a newErrorResponsef call.
func statusOfErrorResponsef(inf *types.Info, e ast.Expr, errResp *types.Func) (int64, bool) {
	call, ok := core.Unparen(e).(*ast.CallExpr)
	if !ok || len(call.Args) < 2 {
		return 0, false
	}
	if f := core.Callee(inf, call); f == nil || f.Origin() != errResp {
		return 0, false
	}
	cv := core.ConstOf(inf, call.Args[1])
	if cv == nil {
		return 0, false
	}
	v, ok := constant.Int64Val(cv)
	return v, ok
}

// isResourceCallback reports whether call invokes a function-typed variable
// whose first parameter is *RequestContext (the implementation callback) or
// a value of the package's handler type.
func isResourceCallback(inf *types.Info, call *ast.CallExpr, reqCtx *types.TypeName, handlerT *types.TypeName) bool {
	id, ok := core.Unparen(call.Fun).(*ast.Ident)
	if !ok {
		return false
	}
	v, ok := core.ObjOf(inf, id).(*types.Var)
	if !ok {
		return false
	}
	if nt, ok := v.Type().(*types.Named); ok && nt.Obj() == handlerT {
		return true
	}
	sig, ok := v.Type().Underlying().(*types.Signature)
	if !ok || sig.Params().Len() == 0 {
		return false
	}
	if p, ok := sig.Params().At(0).Type().(*types.Pointer); ok {
		if nt, ok := p.Elem().(*types.Named); ok && nt.Obj() == reqCtx {
			return true
		}
	}
	return false
}

func runR044(c *core.Ctx) {
	const rel = "restli"
	inf := info(c, rel)
	errResp := mustFunc(c, rel, "newErrorResponsef")
	reqCtx, _ := mustObj(c, rel, "RequestContext").(*types.TypeName)
	handlerT, _ := mustObj(c, rel, "handler").(*types.TypeName)
	filterT, _ := mustObj(c, rel, "Filter").(*types.TypeName)
	recvFn, recvDecl := mustDecl(c, rel, "(*pathNode).receive")

	checkBody := func(fnName, what string, ftype *ast.FuncType, body *ast.BlockStmt, sig *types.Signature) {
		par := core.Parents(body)
		flow := core.NewFlow(c.M, inf, body)
		type rk struct {
			r   *ast.ReturnStmt
			bad string
		}
		bad := map[*ast.ReturnStmt]string{}
		seen := map[*ast.ReturnStmt]bool{}
		auto := &core.Automaton{
			Init: 0,
			Node: func(state int, n ast.Node) int {
				after := state
				for _, call := range core.CallsIn(n) {
					if isResourceCallback(inf, call, reqCtx, handlerT) {
						after = 1
					}
					if f := core.Callee(inf, call); f != nil && core.NameOf(f) == "PreRequest" {
						if sgn, ok := f.Type().(*types.Signature); ok && sgn.Recv() != nil {
							if nt, ok := sgn.Recv().Type().(*types.Named); ok && nt.Obj() == filterT {
								after = 1
							}
						}
					}
				}
				if r, ok := n.(*ast.ReturnStmt); ok && state == 0 && after == 0 {
					seen[r] = true
					// single-expression returns
					if len(r.Results) == 1 {
						if s, ok := statusOfErrorResponsef(inf, r.Results[0], errResp); ok {
							if s < 400 || s >= 500 {
								bad[r] = fmt.Sprintf("rejection before resource code uses status %d, not a 4xx", s)
							}
							return after
						}
						if call, ok := core.Unparen(r.Results[0]).(*ast.CallExpr); ok {
							if f := core.Callee(inf, call); f != nil && f.Origin() == recvFn {
								return after // recursion into the sub-resource
							}
							// a rejection built by a local closure or a small function of the module (`invalidBody(err)`):
							// every return of that function must itself be a 4xx error response
							if _, fbody, finf := localFuncValue(c, inf, body, call.Fun); fbody != nil {
								all, any := true, false
								for _, fr := range core.ReturnsIn(fbody) {
									any = true
									if len(fr.Results) != 1 {
										all = false
										continue
									}
									if s, ok := statusOfErrorResponsef(finf, fr.Results[0], errResp); !ok || s < 400 || s >= 500 {
										all = false
									}
								}
								if all && any {
									return after
								}
							}
						}
						bad[r] = "return of " + core.ExprString(r.Results[0]) + " before resource code is not a newErrorResponsef(…, 4xx, …)"
						return after
					}
					switch core.ErrorReturn(inf, par, sig, r) {
					case "nil":
						// success return before any resource code (e.g. action without result): nothing to check
					default:
						// exempt: error of io.ReadAll
						if readAllGuard(inf, par, r) {
							return after
						}
						bad[r] = "error returned before resource code without being converted to a 4xx error response"
					}
				}
				return after
			},
		}
		flow.Run(auto)
		for r := range seen {
			construct := fmt.Sprintf("%s: pre-dispatch return #%d", what, ordinalIn(body, r))
			if why, isBad := bad[r]; isBad {
				c.Bad(rel, fnName, construct, r.Pos(), why)
			} else {
				c.OK(rel, fnName, construct, r.Pos(), "4xx error response / recursion")
			}
		}
		_ = ftype
	}

	// receive itself
	checkBody("(*pathNode).receive", "receive", recvDecl.Type, recvDecl.Body, recvFn.Type().(*types.Signature))

	// every function literal in package restli whose type is the handler
	// signature or an implementation-adapter signature (first param *RequestContext)
	nLits := 0
	for _, fd := range c.M.FuncDecls(rel) {
		if fd.Body == nil {
			continue
		}
		ast.Inspect(fd.Body, func(n ast.Node) bool {
			fl, ok := n.(*ast.FuncLit)
			if !ok {
				return true
			}
			sig, _ := inf.Types[fl].Type.(*types.Signature)
			if sig == nil || sig.Params().Len() == 0 || sig.Results().Len() != 2 {
				return true
			}
			p, ok := sig.Params().At(0).Type().(*types.Pointer)
			if !ok {
				return true
			}
			if nt, ok := p.Elem().(*types.Named); !ok || nt.Obj() != reqCtx {
				return true
			}
			nLits++
			checkBody(core.DeclName(fd), fmt.Sprintf("handler closure #%d", ordinal(fd, fl)), fl.Type, fl.Body, sig)
			return true
		})
	}
	if nLits < 5 {
		c.Unknown(rel, "-", "handler closures", recvDecl.Pos(), fmt.Sprintf("expected at least 5 handler/adapter closures, found %d", nLits))
	}

	// ServeHTTP: returns before receive follow http.NotFound / http.Error(4xx)
	_, serve := mustDecl(c, rel, "(*rootNode).ServeHTTP")
	par := core.Parents(serve.Body)
	var recvPos ast.Node
	ast.Inspect(serve.Body, func(n ast.Node) bool {
		if call, ok := n.(*ast.CallExpr); ok {
			if f := core.Callee(inf, call); f != nil && f.Origin() == recvFn && recvPos == nil {
				recvPos = call
			}
		}
		return true
	})
	if recvPos == nil {
		c.Unknown(rel, "(*rootNode).ServeHTTP", "dispatch call", serve.Pos(), "ServeHTTP does not call receive")
		return
	}
	// a path property: on every path, a return that comes before the dispatch has answered with http.NotFound or
	// http.Error(…, 4xx) since the function was entered (flags set by a spliced helper are followed by the flow engine)
	_ = par
	type verdict struct {
		ok  bool
		why string
	}
	rets := map[*ast.ReturnStmt]*verdict{}
	wrongStatus := ""
	core.NewFlow(c.M, inf, serve.Body).Run(&core.Automaton{
		Node: func(st int, n ast.Node) int {
			for _, call := range core.CallsIn(n) {
				f := core.Callee(inf, call)
				if f != nil && f.Origin() == recvFn {
					st = 2
				}
				if st == 2 {
					continue
				}
				if core.IsFunc(f, "net/http", "NotFound") {
					st = 1
				}
				if core.IsFunc(f, "net/http", "Error") && len(call.Args) == 3 {
					if cv := core.ConstOf(inf, call.Args[2]); cv != nil {
						if code, _ := constant.Int64Val(cv); code >= 400 && code < 500 {
							st = 1
						} else {
							wrongStatus = fmt.Sprintf("http.Error before dispatch uses status %d", code)
						}
					}
				}
			}
			if r, ok := n.(*ast.ReturnStmt); ok && st != 2 {
				v := rets[r]
				if v == nil {
					v = &verdict{ok: true}
					rets[r] = v
				}
				if st == 0 {
					v.ok = false
				}
			}
			return st
		},
	})
	var ordered []*ast.ReturnStmt
	for r := range rets {
		ordered = append(ordered, r)
	}
	sort.Slice(ordered, func(i, j int) bool { return ordered[i].Pos() < ordered[j].Pos() })
	for _, r := range ordered {
		why := "return before dispatch is not preceded by http.NotFound / http.Error(…, 4xx)"
		if wrongStatus != "" {
			why = wrongStatus
		}
		c.Check(rets[r].ok, rel, "(*rootNode).ServeHTTP", fmt.Sprintf("pre-dispatch return #%d answers 4xx", ordinal(serve, r)), r.Pos(), "", why)
	}
}

// readAllGuard reports whether the return is in the then-branch of an
// `if err != nil` that directly follows `…, err := io.ReadAll(…)`.
func readAllGuard(inf *types.Info, par map[ast.Node]ast.Node, r *ast.ReturnStmt) bool {
	blk, ok := par[r].(*ast.BlockStmt)
	if !ok {
		return false
	}
	ifs, ok := par[blk].(*ast.IfStmt)
	if !ok || ifs.Body != blk {
		return false
	}
	list, idx := core.StmtListOf(par, ifs)
	if idx <= 0 {
		return false
	}
	as, ok := list[idx-1].(*ast.AssignStmt)
	if !ok || len(as.Rhs) != 1 {
		return false
	}
	call, ok := core.Unparen(as.Rhs[0]).(*ast.CallExpr)
	if !ok {
		return false
	}
	f := core.Callee(inf, call)
	return core.IsFunc(f, "io", "ReadAll") || core.IsFunc(f, "io/ioutil", "ReadAll")
}

// ordinalIn numbers target among nodes of the same type below root.
func ordinalIn(root ast.Node, target ast.Node) int {
	i, res := 0, 0
	ast.Inspect(root, func(n ast.Node) bool {
		if n == nil {
			return false
		}
		if fmt.Sprintf("%T", n) == fmt.Sprintf("%T", target) {
			i++
			if n == target {
				res = i
			}
		}
		return true
	})
	return res
}

// localFuncValue resolves the callee expression of a call to the code that runs: a function literal, a named function
// of the module, or a local variable whose only definition inside root is one of these.
func localFuncValue(c *core.Ctx, inf *types.Info, root ast.Node, fun ast.Expr) (*ast.FuncType, *ast.BlockStmt, *types.Info) {
	if t, b, i := core.FuncValueOf(c.M, inf, fun); b != nil {
		return t, b, i
	}
	v, ok := core.ObjOf(inf, fun).(*types.Var)
	if !ok || v.IsField() || root == nil {
		return nil, nil, nil
	}
	var defs []ast.Expr
	ast.Inspect(root, func(y ast.Node) bool {
		if as, ok := y.(*ast.AssignStmt); ok {
			for i, l := range as.Lhs {
				if core.ObjOf(inf, l) == v {
					if len(as.Lhs) == len(as.Rhs) {
						defs = append(defs, as.Rhs[i])
					} else {
						defs = append(defs, nil)
					}
				}
			}
		}
		return true
	})
	if len(defs) != 1 || defs[0] == nil {
		return nil, nil, nil
	}
	return core.FuncValueOf(c.M, inf, defs[0])
}
