package rules

import (
	"fmt"
	"go/ast"
	"go/constant"
	"go/token"
	"go/types"
	"strings"

	"verif/checker/core"
)

func init() {
	core.Register(&core.Rule{
		ID:    "R05.3",
		Title: "filter protocol: context before PreRequest, ascending pre, guarded descending post",
		Text: "In pathNode.receive every path to a Filter.PreRequest call has stored the method, resource-path-segments and entity-segments context keys (and the finder/action name on exactly those branches); " +
			"PreRequest is called from a range over the filter slice (ascending) that precedes the handler call; in ServeHTTP PostRequest is called from a down-counting index loop " +
			"(i := len(x)-1; i >= 0; i--) over the same slice, inside `if err == nil`; each context getter reads the key constant that receive stores.",
		Props: []string{"C05"},
		Floor: map[string]int{"v2": 10, "root": 10},
		Run:   runR053,
	})
	core.Register(&core.Rule{
		ID:    "R05.4",
		Title: "mount prefix flows from NewPrefixedServer to routing and mux patterns",
		Text: "The prefix field of the root node built by NewPrefixedServer is data-dependent on the prefix parameter (not a constant); ServeHTTP tests strings.HasPrefix and strips strings.TrimPrefix with that same field; " +
			"AddToMux builds every pattern from that field.",
		Props: []string{"C05", "C02"},
		Floor: map[string]int{"v2": 4, "root": 4},
		Run:   runR054,
	})
	core.Register(&core.Rule{
		ID:    "R05.5",
		Title: "ServeMux patterns cover the resource subtree",
		Text:  "Among the patterns AddToMux registers per root resource one ends in the constant \"/\" (a ServeMux pattern without trailing slash matches one exact path, so entity and sub-resource requests would never reach the handler).",
		Props: []string{"C05"},
		Floor: map[string]int{"v2": 1, "root": 1},
		Run:   runR055,
	})
	core.Register(&core.Rule{
		ID:    "R05.6",
		Title: "Handler() is a deep copy of the routing tree",
		Text: "Field-exhaustive: every map- or slice-typed field of rootNode and pathNode is set, in the composite literals built by Handler and pathNode.clone, to a fresh allocation " +
			"(copyMap / copyCloneableMap / append to a nil slice / make); copyMap and copyCloneableMap allocate with make and copy every entry; the copy's rootNode back-pointer is the new root.",
		Props: []string{"C05", "C17"},
		Floor: map[string]int{"v2": 7, "root": 7},
		Run:   runR056,
	})
	core.Register(&core.Rule{
		ID:    "R05.7",
		Title: "method-name table spans exactly the declared methods",
		Text:  "The loop building MethodNameMapping starts at the smallest and ends (inclusive) at the largest declared Method_ constant other than Method_Unknown, steps by one, and the constants are contiguous.",
		Props: []string{"C05", "C03"},
		Floor: map[string]int{"v2": 1, "root": 1},
		Run:   runR057,
	})
}

func runR053(c *core.Ctx) {
	const rel = "restli"
	inf := info(c, rel)
	_, recv := mustDecl(c, rel, "(*pathNode).receive")
	_, serve := mustDecl(c, rel, "(*rootNode).ServeHTTP")
	handlerT, _ := mustObj(c, rel, "handler").(*types.TypeName)
	reqCtx, _ := mustObj(c, rel, "RequestContext").(*types.TypeName)
	keys := map[string]types.Object{}
	for _, k := range []string{"methodCtxKey", "resourcePathSegmentsCtxKey", "entitySegmentsCtxKey", "finderNameCtxKey", "actionNameCtxKey"} {
		keys[k] = mustObj(c, rel, k)
	}
	isWithValue := func(call *ast.CallExpr, key types.Object) bool {
		f := core.Callee(inf, call)
		return core.IsFunc(f, "context", "WithValue") && len(call.Args) == 3 && core.ObjOf(inf, call.Args[1]) == key
	}
	isPre := func(call *ast.CallExpr) bool {
		f := core.Callee(inf, call)
		return f != nil && core.NameOf(f) == "PreRequest" && core.IsMethod(f, pkgPath(c, rel), "", "PreRequest")
	}
	isPost := func(call *ast.CallExpr) bool {
		f := core.Callee(inf, call)
		return f != nil && core.NameOf(f) == "PostRequest" && core.IsMethod(f, pkgPath(c, rel), "", "PostRequest")
	}
	// 1. must-precede: three keys + WithContext before PreRequest and before the handler
	flow := core.NewFlow(c.M, inf, recv.Body)
	missing := map[string]token.Pos{}
	sawPre, sawHandler := false, false
	auto := &core.Automaton{
		Init: 0,
		Node: func(state int, n ast.Node) int {
			for _, call := range core.CallsIn(n) {
				switch {
				case isWithValue(call, keys["methodCtxKey"]):
					state |= 1
				case isWithValue(call, keys["resourcePathSegmentsCtxKey"]):
					state |= 2
				case isWithValue(call, keys["entitySegmentsCtxKey"]):
					state |= 4
				}
				if f := core.Callee(inf, call); f != nil && core.NameOf(f) == "WithContext" && core.IsMethod(f, "net/http", "Request", "WithContext") {
					state |= 8
				}
				if isPre(call) {
					sawPre = true
					if state&15 != 15 {
						missing["PreRequest"] = call.Pos()
					}
					state |= 16
				}
				if isResourceCallback(inf, call, reqCtx, handlerT) {
					sawHandler = true
					if state&15 != 15 {
						missing["handler"] = call.Pos()
					}
				}
			}
			return state
		},
	}
	flow.Run(auto)
	if !sawPre || !sawHandler {
		c.Unknown(rel, "(*pathNode).receive", "filter protocol", recv.Pos(), "PreRequest call or handler call not found")
	} else {
		_, badPre := missing["PreRequest"]
		c.Check(!badPre, rel, "(*pathNode).receive", "context (method, path segments, entity segments) stored in the request before PreRequest on every path", recv.Pos(), "", "some path reaches PreRequest without the three context values stored into the request")
		_, badH := missing["handler"]
		c.Check(!badH, rel, "(*pathNode).receive", "context stored before the handler on every path", recv.Pos(), "", "some path reaches the handler without the context values")
	}
	// 2. PreRequest inside a range over a slice, lexically before the handler call
	par := core.Parents(recv.Body)
	var preCall, hCall *ast.CallExpr
	ast.Inspect(recv.Body, func(n ast.Node) bool {
		if call, ok := n.(*ast.CallExpr); ok {
			if isPre(call) {
				preCall = call
			}
			if isResourceCallback(inf, call, reqCtx, handlerT) {
				hCall = call
			}
		}
		return true
	})
	var preSlice ast.Expr
	if preCall != nil {
		okRange := false
		for n := ast.Node(preCall); n != nil; n = par[n] {
			if rs, ok := n.(*ast.RangeStmt); ok {
				if _, isSlice := inf.Types[rs.X].Type.Underlying().(*types.Slice); isSlice && rs.Value != nil {
					// the receiver of PreRequest is the range value
					if sel, ok := core.Unparen(preCall.Fun).(*ast.SelectorExpr); ok && core.ObjOf(inf, sel.X) == core.ObjOf(inf, rs.Value) {
						okRange = true
						preSlice = rs.X
					}
				}
				break
			}
		}
		c.Check(okRange, rel, "(*pathNode).receive", "PreRequest iterates the filter slice in ascending order", preCall.Pos(), "range over the slice, receiver is the range value", "PreRequest is not called on the value of a range over the filter slice")
		if hCall != nil {
			c.Check(preCall.End() < hCall.Pos(), rel, "(*pathNode).receive", "all PreRequest calls precede the handler call", hCall.Pos(), "", "the handler is invoked before the PreRequest loop")
		}
	}
	// 3. finder / action names on their branches
	for _, br := range []struct{ key, method string }{{"finderNameCtxKey", "Method_finder"}, {"actionNameCtxKey", "Method_action"}} {
		mconst := mustObj(c, rel, br.method)
		found, guarded := false, false
		ast.Inspect(recv.Body, func(n ast.Node) bool {
			call, ok := n.(*ast.CallExpr)
			if !ok || !isWithValue(call, keys[br.key]) {
				return true
			}
			found = true
			guarded = core.GuardedByFact(inf, par, core.EnclosingStmt(par, call), func(f core.Fact) bool {
				be, ok := core.Unparen(f.Expr).(*ast.BinaryExpr)
				return ok && be.Op == token.EQL && f.Val && (core.ObjOf(inf, be.Y) == mconst || core.ObjOf(inf, be.X) == mconst)
			}, nil)
			return true
		})
		c.Check(found && guarded, rel, "(*pathNode).receive", br.key+" stored exactly on the "+br.method+" branch", recv.Pos(), "", fmt.Sprintf("stored=%v, on the %s branch=%v", found, br.method, guarded))
	}
	// 4. PostRequest loop in ServeHTTP (or in a helper it calls: the inlined view)
	sv := core.NewVirtual(c.M, serve)
	var postCall *ast.CallExpr
	var postFrame *core.VFrame
	sv.Inspect(func(fr *core.VFrame, n ast.Node) bool {
		if call, ok := n.(*ast.CallExpr); ok && isPost(call) && postCall == nil {
			postCall, postFrame = call, fr
		}
		return true
	})
	spar := core.Parents(serve.Body)
	if postFrame != nil && postFrame.Body != serve.Body {
		spar = core.Parents(postFrame.Body)
	}
	if postCall == nil {
		c.Unknown(rel, "(*rootNode).ServeHTTP", "PostRequest call", serve.Pos(), "not found")
	} else {
		var loop *ast.ForStmt
		for n := ast.Node(postCall); n != nil; n = spar[n] {
			if fs, ok := n.(*ast.ForStmt); ok {
				loop = fs
				break
			}
			if rs, ok := n.(*ast.RangeStmt); ok {
				// slices.Backward idiom
				if call, ok := core.Unparen(rs.X).(*ast.CallExpr); ok && core.IsFunc(core.Callee(inf, call), "slices", "Backward") {
					c.OK(rel, "(*rootNode).ServeHTTP", "PostRequest iterates the filter slice in descending order", postCall.Pos(), "slices.Backward")
				} else {
					c.Bad(rel, "(*rootNode).ServeHTTP", "PostRequest iterates the filter slice in descending order", postCall.Pos(), "PostRequest is called from an ascending range loop")
				}
				loop = nil
				goto guard
			}
		}
		if loop == nil {
			c.Bad(rel, "(*rootNode).ServeHTTP", "PostRequest iterates the filter slice in descending order", postCall.Pos(), "PostRequest is not called from a loop")
		} else {
			desc, why := descendingLoop(inf, loop, postCall)
			c.Check(desc, rel, "(*rootNode).ServeHTTP", "PostRequest iterates the filter slice in descending order", loop.Pos(), "i := len(x)-1; i >= 0; i--", why)
		}
	guard:
		guarded := core.GuardedByFact(inf, spar, core.EnclosingStmt(spar, postCall), func(f core.Fact) bool {
			x, nonNil, ok := core.NilTest(inf, f)
			return ok && !nonNil && core.IsErrorType(inf.Types[x].Type)
		}, nil)
		// the guard must be outside the loop: check from the loop statement too
		if !guarded {
			for n := ast.Node(postCall); n != nil; n = spar[n] {
				if fs, ok := n.(*ast.ForStmt); ok {
					guarded = core.GuardedByFact(inf, spar, fs, func(f core.Fact) bool {
						x, nonNil, ok := core.NilTest(inf, f)
						return ok && !nonNil && core.IsErrorType(inf.Types[x].Type)
					}, nil)
				}
			}
		}
		// when the loop lives in a helper, the guard is on the call(s) that lead to it
		for fr := postFrame; !guarded && fr != nil && fr.Call != nil && fr.Parent != nil; fr = fr.Parent {
			ppar := core.Parents(fr.Parent.Body)
			guarded = core.GuardedByFact(inf, ppar, core.EnclosingStmt(ppar, fr.Call), func(f core.Fact) bool {
				x, nonNil, ok := core.NilTest(inf, f)
				return ok && !nonNil && core.IsErrorType(inf.Types[x].Type)
			}, nil)
		}
		c.Check(guarded, rel, "(*rootNode).ServeHTTP", "PostRequest runs only after the method succeeded (err == nil)", postCall.Pos(), "", "PostRequest is not guarded by err == nil")
	}
	_ = preSlice
	// 5. getters read the keys receive stores
	for getter, key := range map[string]string{
		"GetMethodFromContext": "methodCtxKey", "GetResourcePathSegmentsFromContext": "resourcePathSegmentsCtxKey",
		"GetEntitySegmentsFromContext": "entitySegmentsCtxKey", "GetFinderNameFromContext": "finderNameCtxKey", "GetActionNameFromContext": "actionNameCtxKey",
	} {
		_, gd := mustDecl(c, rel, getter)
		okKey := false
		ast.Inspect(gd.Body, func(n ast.Node) bool {
			if call, ok := n.(*ast.CallExpr); ok && len(call.Args) == 1 {
				if f := core.Callee(inf, call); f != nil && core.NameOf(f) == "Value" && core.ObjOf(inf, call.Args[0]) == keys[key] {
					okKey = true
				}
			}
			return true
		})
		c.Check(okKey, rel, getter, "reads context key "+key, gd.Pos(), "", "the getter does not read the key constant that receive stores")
	}
}

// descendingLoop recognises `for i := len(x) - 1; i >= 0; i--` with x[i] used as the call's receiver.
func descendingLoop(inf *types.Info, loop *ast.ForStmt, call *ast.CallExpr) (bool, string) {
	init, ok := loop.Init.(*ast.AssignStmt)
	if !ok || len(init.Lhs) != 1 || len(init.Rhs) != 1 {
		return false, "loop has no index initialisation"
	}
	idx := core.ObjOf(inf, init.Lhs[0])
	be, ok := core.Unparen(init.Rhs[0]).(*ast.BinaryExpr)
	if !ok || be.Op != token.SUB {
		return false, "index does not start at len(x)-1"
	}
	lc, ok := core.Unparen(be.X).(*ast.CallExpr)
	if !ok || len(lc.Args) != 1 {
		return false, "index does not start at len(x)-1"
	}
	if id, ok := core.Unparen(lc.Fun).(*ast.Ident); !ok || id.Name != "len" {
		return false, "index does not start at len(x)-1"
	}
	if cv := core.ConstOf(inf, be.Y); cv == nil || cv.ExactString() != "1" {
		return false, "index does not start at len(x)-1"
	}
	if loop.Cond == nil {
		return false, "no loop condition"
	}
	// the condition holds only while i >= 0 (further conjuncts only end the loop earlier, like a break)
	okCond := false
	for _, f := range core.Decompose(loop.Cond, true, nil) {
		cond, ok := core.Unparen(f.Expr).(*ast.BinaryExpr)
		if !ok || !f.Val {
			continue
		}
		if core.ObjOf(inf, cond.X) == idx {
			if cv := core.ConstOf(inf, cond.Y); cv != nil {
				okCond = okCond || (cond.Op == token.GEQ && cv.ExactString() == "0") || (cond.Op == token.GTR && cv.ExactString() == "-1")
			}
		} else if core.ObjOf(inf, cond.Y) == idx {
			if cv := core.ConstOf(inf, cond.X); cv != nil {
				okCond = okCond || (cond.Op == token.LEQ && cv.ExactString() == "0") || (cond.Op == token.LSS && cv.ExactString() == "-1")
			}
		}
	}
	if !okCond {
		return false, "loop condition is not i >= 0"
	}
	post, ok := loop.Post.(*ast.IncDecStmt)
	if !ok || post.Tok != token.DEC || core.ObjOf(inf, post.X) != idx {
		return false, "loop does not count down by one"
	}
	// receiver x[i]
	sel, ok := core.Unparen(call.Fun).(*ast.SelectorExpr)
	if !ok {
		return false, "call has no receiver"
	}
	ix, ok := core.Unparen(sel.X).(*ast.IndexExpr)
	if !ok || core.ObjOf(inf, ix.Index) != idx || !core.SameExpr(inf, ix.X, lc.Args[0]) {
		return false, "the receiver is not x[i] of the slice whose length starts the loop"
	}
	return true, ""
}

// dependsOn reports whether expression e mentions obj, following local
// single assignments (x := …; x += …) in fd.
func dependsOn(inf *types.Info, fd *ast.FuncDecl, e ast.Expr, obj types.Object, depth int) bool {
	found := false
	ast.Inspect(e, func(n ast.Node) bool {
		if id, ok := n.(*ast.Ident); ok {
			o := core.ObjOf(inf, id)
			if o == obj {
				found = true
			} else if v, ok := o.(*types.Var); ok && depth < 3 && !v.IsField() {
				// local: any assignment to it that depends on obj
				ast.Inspect(fd.Body, func(m ast.Node) bool {
					if as, ok := m.(*ast.AssignStmt); ok {
						for i, l := range as.Lhs {
							if core.ObjOf(inf, l) == v && i < len(as.Rhs) && as.Rhs[i] != e {
								if dependsOn(inf, fd, as.Rhs[i], obj, depth+1) {
									found = true
								}
							}
						}
					}
					return !found
				})
			}
		}
		return !found
	})
	return found
}

func runR054(c *core.Ctx) {
	const rel = "restli"
	inf := info(c, rel)
	_, ctor := mustDecl(c, rel, "NewPrefixedServer")
	rootT, _ := mustObj(c, rel, "rootNode").(*types.TypeName)
	var prefixField *types.Var
	st := rootT.Type().Underlying().(*types.Struct)
	for i := 0; i < st.NumFields(); i++ {
		if core.NameOf(st.Field(i)) == "prefix" {
			prefixField = st.Field(i)
		}
	}
	if prefixField == nil {
		panic(&core.AnchorError{Pkg: rel, Name: "rootNode.prefix", What: "field"})
	}
	if ctor.Type.Params == nil || len(ctor.Type.Params.List) == 0 || len(ctor.Type.Params.List[0].Names) == 0 {
		c.Unknown(rel, "NewPrefixedServer", "prefix parameter", ctor.Pos(), "no named first parameter")
		return
	}
	param := inf.Defs[ctor.Type.Params.List[0].Names[0]]
	// the composite literal of rootNode
	found := false
	ast.Inspect(ctor.Body, func(n ast.Node) bool {
		cl, ok := n.(*ast.CompositeLit)
		if !ok {
			return true
		}
		t := inf.Types[cl].Type
		if nt, ok := t.(*types.Named); !ok || nt.Obj() != rootT {
			return true
		}
		found = true
		var val ast.Expr
		for _, el := range cl.Elts {
			if kv, ok := el.(*ast.KeyValueExpr); ok {
				if id, ok := kv.Key.(*ast.Ident); ok && inf.Uses[id] == prefixField || ok && id.Name == "prefix" {
					val = kv.Value
				}
			}
		}
		switch {
		case val == nil:
			c.Bad(rel, "NewPrefixedServer", "root node prefix derives from the prefix parameter", cl.Pos(), "the prefix field is not set")
		case dependsOn(inf, ctor, val, param, 0):
			c.OK(rel, "NewPrefixedServer", "root node prefix derives from the prefix parameter", val.Pos(), core.ExprString(val))
		default:
			c.Bad(rel, "NewPrefixedServer", "root node prefix derives from the prefix parameter", val.Pos(), "prefix field is "+core.ExprString(val)+": the (normalised) parameter is discarded")
		}
		return true
	})
	if !found {
		// also accept r.prefix = … assignment
		c.Unknown(rel, "NewPrefixedServer", "root node prefix derives from the prefix parameter", ctor.Pos(), "no rootNode composite literal")
	}
	// ServeHTTP: HasPrefix(path, r.prefix) and TrimPrefix(path, r.prefix)
	_, serve := mustDecl(c, rel, "(*rootNode).ServeHTTP")
	has, trim := false, false
	ast.Inspect(serve.Body, func(n ast.Node) bool {
		// path, ok := strings.CutPrefix(path, r.prefix) with ok kept: the test and the strip in one call
		if as, ok := n.(*ast.AssignStmt); ok && len(as.Lhs) == 2 && len(as.Rhs) == 1 {
			if call, ok := core.Unparen(as.Rhs[0]).(*ast.CallExpr); ok && len(call.Args) == 2 && core.IsFunc(core.Callee(inf, call), "strings", "CutPrefix") && core.ObjOf(inf, call.Args[1]) == prefixField {
				if id, ok := core.Unparen(as.Lhs[1]).(*ast.Ident); ok && id.Name != "_" {
					has = true
				}
			}
		}
		if call, ok := n.(*ast.CallExpr); ok && len(call.Args) == 2 {
			f := core.Callee(inf, call)
			if core.ObjOf(inf, call.Args[1]) == prefixField {
				if core.IsFunc(f, "strings", "HasPrefix") {
					has = true
				}
				if core.IsFunc(f, "strings", "TrimPrefix") || core.IsFunc(f, "strings", "CutPrefix") {
					trim = true
				}
			}
		}
		// path[len(r.prefix):] after the HasPrefix test strips the same bytes
		if se, ok := n.(*ast.SliceExpr); ok && se.Low != nil && se.High == nil {
			if call, ok := core.Unparen(se.Low).(*ast.CallExpr); ok && len(call.Args) == 1 {
				if id, ok := core.Unparen(call.Fun).(*ast.Ident); ok && id.Name == "len" && core.ObjOf(inf, call.Args[0]) == prefixField {
					trim = true
				}
			}
		}
		return true
	})
	c.Check(has, rel, "(*rootNode).ServeHTTP", "request path is tested against the mount prefix field", serve.Pos(), "", "no strings.HasPrefix(path, r.prefix)")
	c.Check(trim, rel, "(*rootNode).ServeHTTP", "mount prefix field is stripped before routing", serve.Pos(), "", "no strings.TrimPrefix(path, r.prefix)")
	// AddToMux patterns start with r.prefix
	_, mux := mustDecl(c, rel, "(*rootNode).AddToMux")
	n := 0
	ast.Inspect(mux.Body, func(x ast.Node) bool {
		call, ok := x.(*ast.CallExpr)
		if !ok || len(call.Args) != 2 {
			return true
		}
		if f := core.Callee(inf, call); f == nil || !core.IsMethod(f, "net/http", "ServeMux", "Handle") {
			return true
		}
		n++
		first := leftmostOperand(call.Args[0])
		// a pattern hoisted into a local (`pattern := r.prefix + root`) starts with what its only definition starts with
		for depth := 0; depth < 3; depth++ {
			v, ok := core.ObjOf(inf, first).(*types.Var)
			if !ok || v.IsField() {
				break
			}
			var defs []ast.Expr
			ast.Inspect(mux.Body, func(y ast.Node) bool {
				if as, ok := y.(*ast.AssignStmt); ok {
					for i, l := range as.Lhs {
						if core.ObjOf(inf, l) == v {
							if len(as.Lhs) == len(as.Rhs) && as.Tok != token.ADD_ASSIGN {
								defs = append(defs, as.Rhs[i])
							} else {
								defs = append(defs, nil)
							}
						}
					}
				}
				return true
			})
			if len(defs) != 1 || defs[0] == nil {
				break
			}
			first = leftmostOperand(defs[0])
		}
		c.Check(core.ObjOf(inf, first) == prefixField, rel, "(*rootNode).AddToMux", fmt.Sprintf("mux pattern #%d starts with the mount prefix field", n), call.Pos(), "", "pattern "+core.ExprString(call.Args[0])+" does not start with r.prefix")
		return true
	})
	if n == 0 {
		c.Unknown(rel, "(*rootNode).AddToMux", "mux.Handle calls", mux.Pos(), "none found")
	}
}

func leftmostOperand(e ast.Expr) ast.Expr {
	for {
		be, ok := core.Unparen(e).(*ast.BinaryExpr)
		if !ok || be.Op != token.ADD {
			return core.Unparen(e)
		}
		e = be.X
	}
}

func rightmostOperand(e ast.Expr) ast.Expr {
	for {
		be, ok := core.Unparen(e).(*ast.BinaryExpr)
		if !ok || be.Op != token.ADD {
			return core.Unparen(e)
		}
		e = be.Y
	}
}

func runR055(c *core.Ctx) {
	const rel = "restli"
	inf := info(c, rel)
	_, mux := mustDecl(c, rel, "(*rootNode).AddToMux")
	subtree := false
	n := 0
	var pats []string
	ast.Inspect(mux.Body, func(x ast.Node) bool {
		call, ok := x.(*ast.CallExpr)
		if !ok || len(call.Args) != 2 {
			return true
		}
		if f := core.Callee(inf, call); f == nil || !core.IsMethod(f, "net/http", "ServeMux", "Handle") {
			return true
		}
		n++
		pats = append(pats, core.ExprString(call.Args[0]))
		if cv := core.ConstOf(inf, rightmostOperand(call.Args[0])); cv != nil && cv.Kind() == constant.String && strings.HasSuffix(constant.StringVal(cv), "/") {
			subtree = true
		}
		return true
	})
	if n == 0 {
		c.Unknown(rel, "(*rootNode).AddToMux", "mux.Handle calls", mux.Pos(), "none found")
		return
	}
	c.Check(subtree, rel, "(*rootNode).AddToMux", "a subtree pattern (trailing \"/\") is registered per root resource", mux.Pos(), strings.Join(pats, ", "),
		"only exact patterns are registered ("+strings.Join(pats, ", ")+"): /root/<key> and sub-resources never reach the handler through a ServeMux")
}

func runR056(c *core.Ctx) {
	const rel = "restli"
	inf := info(c, rel)
	rootT, _ := mustObj(c, rel, "rootNode").(*types.TypeName)
	pathT, _ := mustObj(c, rel, "pathNode").(*types.TypeName)
	_, handlerD := mustDecl(c, rel, "(*rootNode).Handler")
	_, cloneD := mustDecl(c, rel, "(*pathNode).clone")
	// helpers that return a freshly made map/slice into which every entry of their parameter is copied
	// (discovered by shape, not by name)
	freshHelpers := map[*types.Func]bool{}
	for _, d := range c.M.FuncDecls(rel) {
		if d.Body == nil || d.Recv != nil {
			continue
		}
		hasMake, hasRange, returnsNew, returnsOther := false, false, false, false
		var newObj types.Object
		ast.Inspect(d.Body, func(n ast.Node) bool {
			switch x := n.(type) {
			case *ast.AssignStmt:
				if len(x.Rhs) == 1 && len(x.Lhs) == 1 {
					if call, ok := core.Unparen(x.Rhs[0]).(*ast.CallExpr); ok {
						if id, ok := core.Unparen(call.Fun).(*ast.Ident); ok && id.Name == "make" {
							if _, isB := inf.Uses[id].(*types.Builtin); isB && newObj == nil {
								hasMake = true
								newObj = core.ObjOf(inf, x.Lhs[0])
							}
						}
					}
				}
			case *ast.RangeStmt:
				if isParamOf(inf, d, asVar(core.ObjOf(inf, x.X))) {
					for _, s := range x.Body.List {
						if as, ok := s.(*ast.AssignStmt); ok && len(as.Lhs) == 1 {
							if ix, ok := core.Unparen(as.Lhs[0]).(*ast.IndexExpr); ok && core.ObjOf(inf, ix.X) == newObj && core.ObjOf(inf, ix.Index) == core.ObjOf(inf, x.Key) {
								hasRange = true
							}
						}
					}
				}
			case *ast.ReturnStmt:
				if len(x.Results) == 1 && core.ObjOf(inf, x.Results[0]) == newObj && newObj != nil {
					returnsNew = true
				} else {
					returnsOther = true // e.g. the argument itself on an "empty, nothing to copy" shortcut: shared with the original
				}
			}
			return true
		})
		if hasMake && hasRange && returnsNew && !returnsOther {
			if f, ok := inf.Defs[d.Name].(*types.Func); ok {
				freshHelpers[f] = true
				c.OK(rel, core.DeclName(d), "allocates a new map and copies every entry", d.Pos(), "discovered copy helper")
			}
		}
	}
	fresh := func(e ast.Expr) (bool, string) {
		switch x := core.Unparen(e).(type) {
		case *ast.CallExpr:
			f := core.Callee(inf, x)
			if f != nil && freshHelpers[f.Origin()] {
				return true, core.NameOf(f)
			}
			if id, ok := core.Unparen(x.Fun).(*ast.Ident); ok {
				if b, ok := inf.Uses[id].(*types.Builtin); ok {
					switch b.Name() {
					case "make":
						return true, "make"
					case "append":
						if len(x.Args) >= 1 {
							first := core.Unparen(x.Args[0])
							if core.IsNil(inf, first) {
								return true, "append to nil"
							}
							if conv, ok := first.(*ast.CallExpr); ok && len(conv.Args) == 1 && core.IsNil(inf, conv.Args[0]) {
								return true, "append to nil"
							}
						}
					}
				}
			}
		case *ast.CompositeLit:
			return true, "literal"
		}
		return false, ""
	}
	// a local map variable filled by a loop calling clone() on every value is fresh too (inline copyCloneableMap)
	localFresh := func(fd *ast.FuncDecl, e ast.Expr) bool {
		obj := core.ObjOf(inf, e)
		if obj == nil {
			return false
		}
		ok := false
		ast.Inspect(fd.Body, func(n ast.Node) bool {
			if as, isAs := n.(*ast.AssignStmt); isAs && len(as.Lhs) == 1 && len(as.Rhs) == 1 && core.ObjOf(inf, as.Lhs[0]) == obj {
				if f, _ := fresh(as.Rhs[0]); f {
					ok = true
				}
			}
			return true
		})
		return ok
	}
	checkCopy := func(fd *ast.FuncDecl, T *types.TypeName) {
		st := T.Type().Underlying().(*types.Struct)
		fn := core.DeclName(fd)
		defs := map[string][]ast.Expr{}
		hasLit, hasStructCopy := false, false
		ast.Inspect(fd.Body, func(n ast.Node) bool {
			switch x := n.(type) {
			case *ast.CompositeLit:
				if nt, ok := inf.Types[x].Type.(*types.Named); ok && nt.Obj() == T {
					hasLit = true
					for _, el := range x.Elts {
						if kv, ok := el.(*ast.KeyValueExpr); ok {
							if id, ok := kv.Key.(*ast.Ident); ok {
								k := id.Name
								if fv, ok := inf.Uses[id].(*types.Var); ok {
									k = core.NameOf(fv)
								}
								defs[k] = append(defs[k], kv.Value)
							}
						}
					}
				}
			case *ast.AssignStmt:
				for i, l := range x.Lhs {
					if i >= len(x.Rhs) {
						break
					}
					// struct copy: c := *p  /  *n = *p  of type T
					if tv, ok := inf.Types[x.Rhs[i]]; ok {
						if nt, ok := tv.Type.(*types.Named); ok && nt.Obj() == T {
							if _, isDeref := core.Unparen(x.Rhs[i]).(*ast.StarExpr); isDeref {
								hasStructCopy = true
							}
						}
					}
					if sel, ok := core.Unparen(l).(*ast.SelectorExpr); ok {
						if fv, ok := core.ObjOf(inf, sel).(*types.Var); ok && fv.IsField() {
							if nn := namedOf(inf.Types[sel.X].Type); nn != nil && nn.Obj() == T {
								defs[core.NameOf(fv)] = append(defs[core.NameOf(fv)], x.Rhs[i])
							}
						}
					}
				}
			}
			return true
		})
		if !hasLit && !hasStructCopy {
			c.Unknown(rel, fn, "copy of "+core.NameOf(T), fd.Pos(), "neither a composite literal nor a struct copy of the node type")
			return
		}
		for i := 0; i < st.NumFields(); i++ {
			f := st.Field(i)
			switch f.Type().Underlying().(type) {
			case *types.Map, *types.Slice:
			default:
				continue
			}
			construct := fmt.Sprintf("%s.%s is a fresh allocation in the copy", core.NameOf(T), core.NameOf(f))
			vs := defs[core.NameOf(f)]
			if len(vs) == 0 {
				why := "reference-typed field not set in the copy literal"
				if hasStructCopy && !hasLit {
					why = "the struct copy shares this map/slice with the original and it is never replaced: later registrations (or mutations) show through the obtained handler"
				}
				c.Bad(rel, fn, construct, fd.Pos(), why)
				continue
			}
			okAll, how := true, ""
			for _, v := range vs {
				ok, h := fresh(v)
				if !ok && localFresh(fd, v) {
					ok, h = true, "local filled from a fresh map"
				}
				if !ok {
					okAll = false
					how = core.ExprString(v) + " shares storage with the original"
				} else if how == "" {
					how = h
				}
			}
			c.Check(okAll, rel, fn, construct, vs[0].Pos(), how, how)
		}
	}
	checkCopy(cloneD, pathT)
	checkCopy(handlerD, rootT)
	// sub-nodes are cloned recursively: clone() is called for the values of subNodes somewhere in clone or a helper it uses
	recurses := false
	cloneF := mustFunc(c, rel, "(*pathNode).clone")
	for _, d := range c.M.FuncDecls(rel) {
		if d.Body == nil {
			continue
		}
		ast.Inspect(d.Body, func(n ast.Node) bool {
			if call, ok := n.(*ast.CallExpr); ok {
				if sel, ok := core.Unparen(call.Fun).(*ast.SelectorExpr); ok && sel.Sel.Name == "clone" {
					if _, inLoop := enclosingRange(core.Parents(d), call); inLoop {
						recurses = true
					}
				}
			}
			return true
		})
	}
	_ = cloneF
	c.Check(recurses, rel, "(*pathNode).clone", "sub-nodes are cloned recursively (clone() inside a loop over the sub-node map)", cloneD.Pos(), "", "no loop calls clone() on the sub-nodes: the copy shares its children with the original")
	// back-pointer: in Handler, `p.rootNode = deepCopy` where deepCopy is the new literal
	backOK := false
	ast.Inspect(handlerD.Body, func(n ast.Node) bool {
		switch x := n.(type) {
		case *ast.AssignStmt:
			if len(x.Lhs) == 1 && len(x.Rhs) == 1 {
				if sel, ok := core.Unparen(x.Lhs[0]).(*ast.SelectorExpr); ok && sel.Sel.Name == "rootNode" {
					if v, ok := core.ObjOf(inf, x.Rhs[0]).(*types.Var); ok && !isParamOf(inf, handlerD, v) && v != recvObj(inf, handlerD) {
						backOK = true
					}
				}
			}
		case *ast.CallExpr:
			// clone(newRoot) style
			if sel, ok := core.Unparen(x.Fun).(*ast.SelectorExpr); ok && sel.Sel.Name == "clone" && len(x.Args) == 1 {
				if v, ok := core.ObjOf(inf, x.Args[0]).(*types.Var); ok && v != recvObj(inf, handlerD) {
					backOK = true
				}
			}
		}
		return true
	})
	c.Check(backOK, rel, "(*rootNode).Handler", "copied tree points back at the copied root", handlerD.Pos(), "", "no assignment of the new root to the copy's rootNode back-pointer")
}

func enclosingRange(par map[ast.Node]ast.Node, n ast.Node) (*ast.RangeStmt, bool) {
	for p := par[n]; p != nil; p = par[p] {
		if rs, ok := p.(*ast.RangeStmt); ok {
			return rs, true
		}
	}
	return nil, false
}

func rs(x *ast.RangeStmt) *ast.RangeStmt { return x }

func asVar(o types.Object) *types.Var {
	v, _ := o.(*types.Var)
	return v
}

func runR057(c *core.Ctx) {
	const rel = "restli"
	p := c.M.Pkg(rel)
	inf := p.TypesInfo
	methodT, _ := mustObj(c, rel, "Method").(*types.TypeName)
	mapping := mustObj(c, rel, "MethodNameMapping")
	// declared constants of type Method
	vals := map[int64]string{}
	scope := p.Types.Scope()
	for _, n := range scope.Names() {
		if k, ok := scope.Lookup(n).(*types.Const); ok && types.Identical(k.Type(), methodT.Type()) {
			v, _ := constant.Int64Val(k.Val())
			vals[v] = n
		}
	}
	var min, max int64 = 1 << 62, -1
	for v, n := range vals {
		if n == "Method_Unknown" {
			continue
		}
		if v < min {
			min = v
		}
		if v > max {
			max = v
		}
	}
	contiguous := true
	for v := min; v <= max; v++ {
		if _, ok := vals[v]; !ok {
			contiguous = false
		}
	}
	// find the initialiser of MethodNameMapping
	var loop *ast.ForStmt
	for _, f := range p.Syntax {
		ast.Inspect(f, func(n ast.Node) bool {
			vs, ok := n.(*ast.ValueSpec)
			if !ok {
				return true
			}
			for i, id := range vs.Names {
				if inf.Defs[id] == mapping && i < len(vs.Values) {
					ast.Inspect(vs.Values[i], func(m ast.Node) bool {
						if fs, ok := m.(*ast.ForStmt); ok && loop == nil {
							loop = fs
						}
						return true
					})
				}
			}
			return true
		})
	}
	if loop == nil {
		c.Unknown(rel, "MethodNameMapping", "initialiser loop", mapping.Pos(), "no for loop in the initialiser")
		return
	}
	okLoop := false
	why := "loop shape not understood"
	if init, ok := loop.Init.(*ast.AssignStmt); ok && len(init.Rhs) == 1 {
		if cv := core.ConstOf(inf, init.Rhs[0]); cv != nil {
			lo, _ := constant.Int64Val(cv)
			if cond, ok := core.Unparen(loop.Cond).(*ast.BinaryExpr); ok {
				if hv := core.ConstOf(inf, cond.Y); hv != nil {
					hi, _ := constant.Int64Val(hv)
					if cond.Op == token.LSS {
						hi--
					}
					if post, ok := loop.Post.(*ast.IncDecStmt); ok && post.Tok == token.INC && (cond.Op == token.LEQ || cond.Op == token.LSS) {
						okLoop = lo == min && hi == max
						why = fmt.Sprintf("loop spans %d..%d, declared methods span %d..%d", lo, hi, min, max)
					}
				}
			}
		}
	}
	c.Check(okLoop && contiguous, rel, "MethodNameMapping", "name table spans exactly the declared Method constants", loop.Pos(), why, why+fmt.Sprintf(" (contiguous=%v)", contiguous))
}
