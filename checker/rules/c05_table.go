package rules

import (
	"fmt"
	"go/ast"
	"go/constant"
	"go/types"
	"sort"
	"strings"

	"verif/checker/core"
)

func init() {
	core.Register(&core.Rule{
		ID:    "R05.1",
		Title: "method inference / entity validation table equals the protocol's",
		Text: "The loop-free fragment of pathNode.receive from the header lookup to the handler lookup is evaluated (A-finite, source interpretation) for every combination of " +
			"verb{GET,POST,PUT,DELETE,other} x header method{absent,13 methods} x isCollection x hasEntity x q x ids x action x handler registered; the outcome " +
			"(routed method + lookup table + key, or error status) must equal the reference table written from the Rest.li protocol rules in the property statement. " +
			"Rows the property leaves unspecified (simple resource with a verb outside GET/PUT/DELETE/POST) are masked and counted.",
		Props: []string{"C05"},
		Floor: map[string]int{"v2": 4000, "root": 4000},
		Run:   runR051,
	})
}

var restliMethodNames = []string{"Unknown", "get", "create", "delete", "update", "partial_update", "batch_get", "batch_create", "batch_delete", "batch_update", "batch_partial_update", "get_all", "action", "finder"}

type r051Row struct {
	verb                              string
	hdr                               string
	coll, ent, q, ids, action, regist bool
}

func (r r051Row) String() string {
	b := func(v bool, s string) string {
		if v {
			return s
		}
		return "-"
	}
	return fmt.Sprintf("verb=%s header=%s %s %s %s %s %s %s", r.verb, r.hdr, b(r.coll, "collection"), b(r.ent, "entity"), b(r.q, "q"), b(r.ids, "ids"), b(r.action, "action"), b(r.regist, "registered"))
}

// r051Reference is the protocol table (from the property statement, not from the code).
func r051Reference(r r051Row) (outcome string, masked bool) {
	m := r.hdr
	if r.coll {
		if m == "Unknown" {
			switch r.verb {
			case "GET":
				switch {
				case r.ent:
					m = "get"
				case r.q:
					m = "finder"
				case r.ids:
					m = "batch_get"
				default:
					m = "get_all"
				}
			case "POST":
				return "error 400", false
			case "DELETE":
				if r.ids {
					m = "batch_delete"
				} else {
					m = "delete"
				}
			case "PUT":
				if r.ids {
					m = "batch_update"
				} else {
					m = "update"
				}
			default:
				return "error 400", false // nothing can be inferred: not routed
			}
		}
		switch m {
		case "get", "delete", "update", "partial_update":
			if !r.ent {
				return "error 400", false
			}
		case "finder", "create", "batch_get", "batch_create", "batch_delete", "batch_update", "batch_partial_update", "get_all":
			if r.ent {
				return "error 400", false
			}
		}
	} else {
		switch r.verb {
		case "GET":
			m = "get"
		case "PUT":
			m = "update"
		case "DELETE":
			m = "delete"
		case "POST":
			if r.action {
				m = "action"
			} else {
				m = "partial_update"
			}
		default:
			return "", true // the property says nothing about other verbs on simple resources
		}
		if r.ent {
			return "error 400", false
		}
	}
	if !r.regist {
		return "error 400", false
	}
	switch m {
	case "finder":
		key := ""
		if r.q {
			key = "<q>"
		}
		return "route finder finders[" + key + "]", false
	case "action":
		key := ""
		if r.action {
			key = "<action>"
		}
		return "route action actions[" + key + "]", false
	}
	return "route " + m + " methods[" + m + "]", false
}

func runR051(c *core.Ctx) {
	const rel = "restli"
	inf := info(c, rel)
	_, fd := mustDecl(c, rel, "(*pathNode).receive")
	mapping := mustObj(c, rel, "MethodNameMapping")
	handlerT, _ := mustObj(c, rel, "handler").(*types.TypeName)
	// Method constants by value
	methodByVal := map[int64]string{}
	for _, n := range restliMethodNames {
		o, _ := mustObj(c, rel, "Method_"+n).(*types.Const)
		if o == nil {
			panic(&core.AnchorError{Pkg: rel, Name: "Method_" + n, What: "constant"})
		}
		v, _ := constant.Int64Val(o.Val())
		methodByVal[v] = n
	}
	valOf := map[string]int64{}
	for v, n := range methodByVal {
		valOf[n] = v
	}
	// locate the fragment start: the statement defining a variable from MethodNameMapping[...]
	start := -1
	var methodVar types.Object
	for i, s := range fd.Body.List {
		as, ok := s.(*ast.AssignStmt)
		if !ok || len(as.Rhs) != 1 || len(as.Lhs) != 1 {
			continue
		}
		if ix, ok := core.Unparen(as.Rhs[0]).(*ast.IndexExpr); ok && core.ObjOf(inf, ix.X) == mapping {
			start = i
			methodVar = core.ObjOf(inf, as.Lhs[0])
			break
		}
	}
	if start < 0 || methodVar == nil {
		c.Unknown(rel, "(*pathNode).receive", "inference fragment", fd.Pos(), "no statement derives the method from MethodNameMapping[header]")
		return
	}
	frag := fd.Body.List[start:]
	// free boolean locals defined before the fragment (hasEntity)
	var entVars []types.Object
	seenObj := map[types.Object]bool{}
	for _, s := range frag {
		ast.Inspect(s, func(n ast.Node) bool {
			id, ok := n.(*ast.Ident)
			if !ok {
				return true
			}
			v, ok := inf.Uses[id].(*types.Var)
			if !ok || v.IsField() || seenObj[v] || core.ObjPos(v) >= frag[0].Pos() || core.ObjPos(v) < fd.Pos() {
				return true
			}
			seenObj[v] = true
			if b, ok := v.Type().Underlying().(*types.Basic); ok && b.Kind() == types.Bool {
				entVars = append(entVars, v)
			}
			return true
		})
	}
	if len(entVars) != 1 {
		c.Unknown(rel, "(*pathNode).receive", "inference fragment", frag[0].Pos(), fmt.Sprintf("expected exactly one boolean computed by the path walk (hasEntity), found %d", len(entVars)))
		return
	}
	// handler variable
	var handlerVar types.Object
	ast.Inspect(fd.Body, func(n ast.Node) bool {
		if id, ok := n.(*ast.Ident); ok {
			if v, ok := inf.Defs[id].(*types.Var); ok {
				if nt, ok := v.Type().(*types.Named); ok && nt.Obj() == handlerT {
					handlerVar = v
				}
			}
		}
		return true
	})
	if handlerVar == nil {
		c.Unknown(rel, "(*pathNode).receive", "inference fragment", frag[0].Pos(), "no local variable of type handler")
		return
	}
	errResp := mustFunc(c, rel, "newErrorResponsef")
	parseQP := c.M.LookupFunc("restlicodec", "ParseQueryParams")

	// No registration can store a handler under Method_Unknown: at every call of the
	// registerMethod* helpers the method argument is a non-zero Method constant or the
	// caller's own method parameter (the wrappers).
	unknownNeverRegistered := true
	regSites := 0
	regFuncs := map[*types.Func]bool{}
	for _, n := range []string{"registerMethod", "registerMethodWithBody", "registerMethodWithNoBody"} {
		regFuncs[mustFunc(c, rel, n)] = true
	}
	for _, d := range c.M.FuncDecls(rel) {
		if d.Body == nil {
			continue
		}
		ast.Inspect(d.Body, func(n ast.Node) bool {
			call, ok := n.(*ast.CallExpr)
			if !ok {
				return true
			}
			cf := core.Callee(inf, call)
			if cf == nil || !regFuncs[cf.Origin()] || len(call.Args) < 3 {
				return true
			}
			regSites++
			arg := call.Args[2]
			okArg := false
			if cv := core.ConstOf(inf, arg); cv != nil {
				v, _ := constant.Int64Val(cv)
				okArg = v != valOf["Unknown"]
			} else if pv, ok := core.ObjOf(inf, arg).(*types.Var); ok && regFuncs[funcOfDecl(inf, d)] {
				// pass-through of the wrapper's own parameter
				okArg = isParamOf(inf, d, pv)
			}
			if !okArg {
				unknownNeverRegistered = false
			}
			c.Check(okArg, rel, core.DeclName(d), fmt.Sprintf("registration #%d passes a known Method constant: %s", ordinal(d, call), core.ExprString(arg)), call.Pos(),
				"", "the method argument is not a non-zero Method constant: a handler could be stored under Method_Unknown")
			return true
		})
	}
	if regSites == 0 {
		c.Unknown(rel, "-", "registration call sites", fd.Pos(), "no call of registerMethod* found")
		unknownNeverRegistered = false
	}

	verbs := []string{"GET", "POST", "PUT", "DELETE", "PATCH"}
	verbConst := map[string]string{"GET": "GET", "POST": "POST", "PUT": "PUT", "DELETE": "DELETE", "PATCH": "PATCH"}
	bools := []bool{false, true}
	rows, mismatches, maskedN, undecidedN := 0, 0, 0, 0
	var firstErr string
	distinct := map[string]int{}
	for _, verb := range verbs {
		for _, hdr := range restliMethodNames {
			for _, coll := range bools {
				for _, ent := range bools {
					for _, q := range bools {
						for _, ids := range bools {
							for _, action := range bools {
								for _, reg := range bools {
									row := r051Row{verb, hdr, coll, ent, q, ids, action, reg}
									rows++
									present := map[string]bool{"q": q, "ids": ids, "action": action}
									env := core.FinEnv{entVars[0]: ent}
									it := &core.FinInterp{Info: inf, M: c.M}
									it.Bind = func(e ast.Expr, env core.FinEnv) (interface{}, bool) {
										switch x := e.(type) {
										case *ast.IndexExpr:
											if core.ObjOf(inf, x.X) == mapping {
												return valOf[hdr], true
											}
											base, err := it.Eval(x.X, env)
											if err != nil {
												return nil, false
											}
											if s, ok := base.(core.Sym); ok && s.Name == "PARAMS" {
												k, err := it.Eval(x.Index, env)
												if ks, ok := k.(string); ok && err == nil {
													if _, known := present[ks]; known {
														return core.Sym{Name: "param:" + ks, Nil: !present[ks]}, true
													}
												}
												return nil, false
											}
											// p.finders[...] / p.actions[...] / p.methods[...]
											if sel, ok := core.Unparen(x.X).(*ast.SelectorExpr); ok {
												if fv, ok := core.ObjOf(inf, sel).(*types.Var); ok && fv.IsField() {
													switch core.NameOf(fv) {
													case "finders", "actions", "methods":
														k, err := it.Eval(x.Index, env)
														if err != nil {
															return nil, false
														}
														ks := fmt.Sprint(k)
														if iv, ok := k.(int64); ok {
															ks = methodByVal[iv]
														}
														return core.Sym{Name: "handler:" + core.NameOf(fv) + "[" + ks + "]", Nil: !reg}, true
													}
												}
											}
										case *ast.SelectorExpr:
											if fv, ok := core.ObjOf(inf, x).(*types.Var); ok && fv.IsField() {
												if core.NameOf(fv) == "Method" && fv.Pkg() != nil && fv.Pkg().Path() == "net/http" {
													return verbConst[verb], true
												}
												if core.NameOf(fv) == "isCollection" {
													return coll, true
												}
											}
										case *ast.CallExpr:
											// q.String() on a present parameter
											if sel, ok := core.Unparen(x.Fun).(*ast.SelectorExpr); ok && sel.Sel.Name == "String" && len(x.Args) == 0 {
												recv, err := it.Eval(sel.X, env)
												if s, ok := recv.(core.Sym); ok && err == nil && strings.HasPrefix(s.Name, "param:") {
													return "<" + strings.TrimPrefix(s.Name, "param:") + ">", true
												}
											}
										}
										return nil, false
									}
									it.BindAssign = func(s *ast.AssignStmt, env core.FinEnv) (bool, error) {
										if len(s.Rhs) != 1 || len(s.Lhs) != 2 {
											return false, nil
										}
										switch r := core.Unparen(s.Rhs[0]).(type) {
										case *ast.CallExpr:
											if parseQP != nil && core.Callee(inf, r) == parseQP {
												env[core.ObjOf(inf, s.Lhs[0])] = core.Sym{Name: "PARAMS"}
												env[core.ObjOf(inf, s.Lhs[1])] = core.Sym{Name: "nil", Nil: true}
												return true, nil
											}
										case *ast.IndexExpr:
											v, ok := it.Bind(r, env)
											if !ok {
												return false, nil
											}
											sym := v.(core.Sym)
											if o := core.ObjOf(inf, s.Lhs[0]); o != nil {
												env[o] = sym
											}
											if o := core.ObjOf(inf, s.Lhs[1]); o != nil {
												env[o] = !sym.Nil
											}
											return true, nil
										}
										return false, nil
									}
									it.StopAt = func(s ast.Stmt) bool {
										switch s.(type) {
										case *ast.DeferStmt, *ast.RangeStmt, *ast.ForStmt:
											return true
										}
										return false
									}
									out, err := it.Exec(frag, env)
									got := ""
									switch {
									case err != nil:
										got = "undecided: " + err.Error()
									case out.Kind == "return":
										got = "return " + core.ExprString(out.Ret.Results[len(out.Ret.Results)-1])
										if len(out.Ret.Results) == 1 {
											if call, ok := core.Unparen(out.Ret.Results[0]).(*ast.CallExpr); ok && core.Callee(inf, call) == errResp && len(call.Args) >= 2 {
												if cv := core.ConstOf(inf, call.Args[1]); cv != nil {
													got = "error " + cv.ExactString()
												}
											}
										}
									case out.Kind == "stop":
										mv, _ := out.Env[methodVar].(int64)
										hv, _ := out.Env[handlerVar].(core.Sym)
										if hv.Nil || !strings.HasPrefix(hv.Name, "handler:") {
											got = "reaches resource code with handler " + fmt.Sprint(out.Env[handlerVar])
										} else {
											got = "route " + methodByVal[mv] + " " + strings.TrimPrefix(hv.Name, "handler:")
										}
									default:
										got = "falls off the end of receive"
									}
									want, masked := r051Reference(row)
									construct := "row " + row.String()
									infeasible := strings.HasSuffix(got, "methods[Unknown]") && reg && unknownNeverRegistered
									switch {
									case infeasible:
										maskedN++
										c.OK(rel, "(*pathNode).receive", construct, frag[0].Pos(), "infeasible: no registration passes Method_Unknown (checked at every registerMethod* call site), so methods[Unknown] is always nil")
									case strings.HasPrefix(got, "undecided"):
										undecidedN++
										if firstErr == "" {
											firstErr = got
										}
										if undecidedN <= 5 {
											c.Unknown(rel, "(*pathNode).receive", construct, frag[0].Pos(), got)
										}
									case masked:
										maskedN++
										c.OK(rel, "(*pathNode).receive", construct, frag[0].Pos(), "unspecified by the property; code: "+got)
									case got != want:
										mismatches++
										c.Bad(rel, "(*pathNode).receive", construct, frag[0].Pos(), "code: "+got+"; protocol: "+want)
									default:
										distinct[got]++
										c.OK(rel, "(*pathNode).receive", construct, frag[0].Pos(), got)
									}
								}
							}
						}
					}
				}
			}
		}
	}
	outs := make([]string, 0, len(distinct))
	for k, n := range distinct {
		outs = append(outs, fmt.Sprintf("%s x%d", k, n))
	}
	sort.Strings(outs)
	c.Note("A-finite evaluated %d rows exhaustively: %d mismatches, %d masked (unspecified), %d undecided; %d distinct outcomes: %s", rows, mismatches, maskedN, undecidedN, len(distinct), strings.Join(outs, "; "))
}

func funcOfDecl(inf *types.Info, d *ast.FuncDecl) *types.Func {
	f, _ := inf.Defs[d.Name].(*types.Func)
	return f
}

func isParamOf(inf *types.Info, d *ast.FuncDecl, v *types.Var) bool {
	for _, fl := range d.Type.Params.List {
		for _, n := range fl.Names {
			if inf.Defs[n] == v {
				return true
			}
		}
	}
	return false
}
