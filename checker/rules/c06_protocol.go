package rules

import (
	"fmt"
	"go/ast"
	"go/token"
	"go/types"
	"strings"

	"verif/checker/core"
)

func init() {
	core.Register(&core.Rule{
		ID:    "R06.2",
		Title: "record accounting protocol",
		Text: "readRecord removes a field from the remaining-required set only after the field callback returned nil (the delete is dominated by the nil-error edge), calls recordMissingRequiredFields on every non-error path after ReadMap, " +
			"and calls checkMissingFields exactly when the record started at input start; every Reader implementation's ReadRecord delegates to readRecord; QueryParamsReader.ReadRecord performs the same three steps; " +
			"recordMissingRequiredFields skips IsKeyExcluded fields and prefixes the scope; in jsonReader.ReadMap null members are skipped before enterMapScope and the callback.",
		Props: []string{"C06"},
		Floor: map[string]int{"v2": 10, "root": 10},
		Run:   runR062,
	})
	core.Register(&core.Rule{
		ID:    "R06.5",
		Title: "lenient client keeps the partially filled value",
		Text:  "In DoAndUnmarshal and unmarshalReturnEntityKey the only statement that clears err is dominated by the successful assertion to *MissingRequiredFieldsError and by !StrictResponseDeserialization, and the decoded value is what the function then returns.",
		Props: []string{"C06"},
		Floor: map[string]int{"v2": 2, "root": 2},
		Run:   runR065,
	})
}

func runR062(c *core.Ctx) {
	const rel = "restlicodec"
	inf := info(c, rel)
	_, rr := mustDecl(c, rel, "readRecord")
	// the inner closure
	var lit *ast.FuncLit
	ast.Inspect(rr.Body, func(n ast.Node) bool {
		if fl, ok := n.(*ast.FuncLit); ok && lit == nil {
			lit = fl
		}
		return true
	})
	if lit == nil {
		c.Unknown(rel, "readRecord", "field closure", rr.Pos(), "not found")
		return
	}
	var cbParam types.Object
	for _, fl := range rr.Type.Params.List {
		for _, n := range fl.Names {
			if nt, ok := inf.Defs[n].Type().(*types.Named); ok && core.NameOf(nt.Obj()) == "MapReader" {
				cbParam = inf.Defs[n]
			}
		}
	}
	checkDelete := func(fn string, body *ast.BlockStmt, cb types.Object) {
		flow := core.NewFlow(c.M, inf, body)
		var errObj types.Object
		okAll, nDel := true, 0
		flow.Run(&core.Automaton{
			Init: 0,
			Node: func(state int, n ast.Node) int {
				if as, ok := n.(*ast.AssignStmt); ok && len(as.Rhs) == 1 {
					if call, ok := core.Unparen(as.Rhs[0]).(*ast.CallExpr); ok {
						if id, ok := core.Unparen(call.Fun).(*ast.Ident); ok && core.ObjOf(inf, id) == cb && cb != nil {
							errObj = core.ObjOf(inf, as.Lhs[0])
							return 1
						}
					}
				}
				for _, call := range core.CallsIn(n) {
					if id, ok := core.Unparen(call.Fun).(*ast.Ident); ok && id.Name == "delete" {
						if _, isB := inf.Uses[id].(*types.Builtin); isB {
							nDel++
							if state != 2 {
								okAll = false
							}
						}
					}
				}
				return state
			},
			Edge: func(state int, facts []core.Fact) (int, bool) {
				for _, f := range facts {
					if e, nonNil, ok := core.NilTest(inf, f); ok && !nonNil && core.ObjOf(inf, e) == errObj && state == 1 {
						return 2, true
					}
				}
				return state, true
			},
		})
		c.Check(okAll && nDel > 0, rel, fn, "a field counts as present only after its callback succeeded", body.Pos(), "", "the field is removed from the remaining-required set on a path where the callback failed or before it ran")
	}
	checkDelete("readRecord", lit.Body, cbParam)
	// after ReadMap: recordMissingRequiredFields on the non-error path, checkMissingFields iff atInputStart
	var startVar types.Object
	recPos, chkGuard := token.NoPos, false
	par := core.Parents(rr)
	ast.Inspect(rr.Body, func(n ast.Node) bool {
		switch x := n.(type) {
		case *ast.AssignStmt:
			if len(x.Rhs) == 1 {
				if call, ok := core.Unparen(x.Rhs[0]).(*ast.CallExpr); ok {
					if cf := core.Callee(inf, call); cf != nil && core.NameOf(cf) == "atInputStart" {
						startVar = core.ObjOf(inf, x.Lhs[0])
					}
				}
			}
		case *ast.CallExpr:
			cf := core.Callee(inf, x)
			if cf != nil && core.NameOf(cf) == "recordMissingRequiredFields" {
				if _, inLit := par[x].(*ast.ExprStmt); inLit && enclosingFuncLit(par, x) == nil {
					recPos = x.Pos()
				}
			}
			if cf != nil && core.NameOf(cf) == "checkMissingFields" {
				chkGuard = core.GuardedByFact(inf, par, core.EnclosingStmt(par, x), func(f core.Fact) bool {
					return f.Val && core.ObjOf(inf, f.Expr) == startVar && startVar != nil
				}, nil)
			}
		}
		return true
	})
	// the atInputStart snapshot is taken before ReadMap
	var readMapPos token.Pos
	ast.Inspect(rr.Body, func(n ast.Node) bool {
		if call, ok := n.(*ast.CallExpr); ok {
			if cf := core.Callee(inf, call); cf != nil && core.NameOf(cf) == "ReadMap" && readMapPos == 0 {
				readMapPos = call.Pos()
			}
		}
		return true
	})
	c.Check(recPos != token.NoPos && recPos > readMapPos, rel, "readRecord", "missing required fields are recorded after the map was read", rr.Pos(), "", "recordMissingRequiredFields is not called on the success path after ReadMap")
	c.Check(chkGuard && startVar != nil && core.ObjPos(startVar) < readMapPos, rel, "readRecord", "the missing-fields error is raised exactly by the record that started at input start", rr.Pos(), "",
		"checkMissingFields is not guarded by the atInputStart snapshot taken before reading")
	// delegation
	rrF := mustFunc(c, rel, "readRecord")
	for _, recv := range []string{"jsonReader", "ror2Reader", "ror2QueryReader", "anyReader"} {
		f := mustFunc(c, rel, "(*"+recv+").ReadRecord")
		fd := c.M.Decl(f)
		ok := false
		if len(fd.Body.List) == 1 {
			if r, isRet := fd.Body.List[0].(*ast.ReturnStmt); isRet && len(r.Results) == 1 {
				if call, isCall := core.Unparen(r.Results[0]).(*ast.CallExpr); isCall && core.Callee(inf, call) == rrF && len(call.Args) == 3 && core.ObjOf(inf, call.Args[0]) == recvObj(inf, fd) {
					ok = true
				}
			}
		}
		c.Check(ok, rel, "(*"+recv+").ReadRecord", "delegates to the one accounting implementation", fd.Pos(), "", "ReadRecord is not `return readRecord(receiver, requiredFields, callback)`")
	}
	// QueryParamsReader.ReadRecord: same three steps
	_, qd := mustDecl(c, rel, "QueryParamsReader.ReadRecord")
	var qcb types.Object
	for _, fl := range qd.Type.Params.List {
		for _, n := range fl.Names {
			if nt, ok := inf.Defs[n].Type().(*types.Named); ok && core.NameOf(nt.Obj()) == "MapReader" {
				qcb = inf.Defs[n]
			}
		}
	}
	checkDelete("QueryParamsReader.ReadRecord", qd.Body, qcb)
	rec, chk := false, false
	ast.Inspect(qd.Body, func(n ast.Node) bool {
		if call, ok := n.(*ast.CallExpr); ok {
			if cf := core.Callee(inf, call); cf != nil {
				if core.NameOf(cf) == "recordMissingRequiredFields" {
					rec = true
				}
				if core.NameOf(cf) == "checkMissingFields" {
					chk = true
				}
			}
		}
		return true
	})
	c.Check(rec && chk, rel, "QueryParamsReader.ReadRecord", "records and reports missing parameters", qd.Pos(), "", fmt.Sprintf("recordMissingRequiredFields=%v checkMissingFields=%v", rec, chk))
	// recordMissingRequiredFields skips excluded and prefixes scope
	_, rm := mustDecl(c, rel, "(*missingFieldsTracker).recordMissingRequiredFields")
	skip, prefix := false, false
	rmpar := core.Parents(rm)
	ast.Inspect(rm.Body, func(n ast.Node) bool {
		switch x := n.(type) {
		case *ast.AssignStmt:
			// the append to the missing-field list runs only when IsKeyExcluded(field) was false (continue, inverted guard …)
			for _, l := range x.Lhs {
				if sel, ok := core.Unparen(l).(*ast.SelectorExpr); ok && sel.Sel.Name == "missingFields" {
					if core.GuardedByFact(inf, rmpar, x, func(f core.Fact) bool {
						if f.Val {
							return false
						}
						e := core.Unparen(f.Expr)
						// `if excluded := t.IsKeyExcluded(field); !excluded`: the flag is what its only definition says
						if v, isVar := core.ObjOf(inf, e).(*types.Var); isVar && !v.IsField() {
							var defs []ast.Expr
							ast.Inspect(rm.Body, func(y ast.Node) bool {
								if as, okA := y.(*ast.AssignStmt); okA && len(as.Lhs) == len(as.Rhs) {
									for i, l2 := range as.Lhs {
										if core.ObjOf(inf, l2) == v {
											defs = append(defs, as.Rhs[i])
										}
									}
								}
								return true
							})
							if len(defs) == 1 {
								e = core.Unparen(defs[0])
							}
						}
						call, ok := e.(*ast.CallExpr)
						if !ok {
							return false
						}
						cf := core.Callee(inf, call)
						return cf != nil && core.NameOf(cf) == "IsKeyExcluded"
					}, nil) {
						skip = true
					}
				}
			}
		case *ast.CallExpr:
			if cf := core.Callee(inf, x); cf != nil && core.NameOf(cf) == "scopeString" {
				prefix = true
			}
		}
		return true
	})
	c.Check(skip && prefix, rel, "(*missingFieldsTracker).recordMissingRequiredFields", "excluded fields are never reported; paths are prefixed with the current scope", rm.Pos(), "", fmt.Sprintf("skips excluded=%v uses scope=%v", skip, prefix))
	// JSON null members skipped before enterMapScope
	_, jm := mustDecl(c, rel, "(*jsonReader).ReadMap")
	// every enterMapScope call and every callback invocation inside the member loop runs only when the lexer's IsNull()
	// test was false (else branch, `continue`, early return of a helper folded into the loop …)
	jpar := core.Parents(jm)
	var jcbParam types.Object
	if jm.Type.Params != nil && len(jm.Type.Params.List) == 1 && len(jm.Type.Params.List[0].Names) == 1 {
		jcbParam = inf.Defs[jm.Type.Params.List[0].Names[0]]
	}
	guardedCalls, unguarded := 0, 0
	ast.Inspect(jm.Body, func(n ast.Node) bool {
		call, ok := n.(*ast.CallExpr)
		if !ok {
			return true
		}
		cf := core.Callee(inf, call)
		isEnter := cf != nil && core.NameOf(cf) == "enterMapScope"
		isCb := jcbParam != nil && core.ObjOf(inf, call.Fun) == jcbParam
		if !isEnter && !isCb {
			return true
		}
		if core.GuardedByFact(inf, jpar, core.EnclosingStmt(jpar, call), func(f core.Fact) bool {
			t, ok := core.Unparen(f.Expr).(*ast.CallExpr)
			if !ok || f.Val {
				return false
			}
			tf := core.Callee(inf, t)
			return tf != nil && core.NameOf(tf) == "IsNull"
		}, nil) {
			guardedCalls++
		} else {
			unguarded++
		}
		return true
	})
	nullSkip := guardedCalls >= 2 && unguarded == 0
	c.Check(nullSkip, rel, "(*jsonReader).ReadMap", "null members are skipped before the field is scoped or decoded", jm.Pos(), "", "a JSON null member reaches the field callback (it would count as present)")
}

func runR065(c *core.Ctx) {
	const rel = "restli"
	inf := info(c, rel)
	for _, name := range []string{"DoAndUnmarshal", "unmarshalReturnEntityKey"} {
		_, fd := mustDecl(c, rel, name)
		par := core.Parents(fd)
		n, okAll := 0, true
		// the booleans that say "the error is a *MissingRequiredFieldsError" (comma-ok assertions)
		isMissing := map[types.Object]bool{}
		ast.Inspect(fd.Body, func(x ast.Node) bool {
			if as, ok := x.(*ast.AssignStmt); ok && len(as.Lhs) == 2 && len(as.Rhs) == 1 {
				if ta, ok := core.Unparen(as.Rhs[0]).(*ast.TypeAssertExpr); ok && ta.Type != nil {
					if nn := namedOf(inf.Types[ta.Type].Type); nn != nil && core.NameOf(nn.Obj()) == "MissingRequiredFieldsError" {
						isMissing[core.ObjOf(inf, as.Lhs[1])] = true
					}
				}
			}
			return true
		})
		guarded := func(at ast.Node) bool {
			byKind := core.GuardedByFact(inf, par, at, func(f core.Fact) bool {
				if f.Tag != nil || !f.Val {
					return false
				}
				if id, ok := core.Unparen(f.Expr).(*ast.Ident); ok && isMissing[core.ObjOf(inf, id)] {
					return true
				}
				if ta, ok := core.Unparen(f.Expr).(*ast.TypeAssertExpr); ok && ta.Type != nil {
					nn := namedOf(inf.Types[ta.Type].Type)
					return nn != nil && core.NameOf(nn.Obj()) == "MissingRequiredFieldsError"
				}
				return false
			}, nil)
			lenient := core.GuardedByFact(inf, par, at, func(f core.Fact) bool {
				sel, ok := core.Unparen(f.Expr).(*ast.SelectorExpr)
				if !ok || f.Tag != nil {
					return false
				}
				fv, ok := core.ObjOf(inf, sel).(*types.Var)
				return ok && fv.IsField() && core.NameOf(fv) == "StrictResponseDeserialization" && !f.Val
			}, nil)
			return byKind && lenient
		}
		// where the decoder's error is dropped: `err = nil`, or a return of a nil error after the decoder ran
		var decodeCall token.Pos
		ast.Inspect(fd.Body, func(x ast.Node) bool {
			if call, ok := x.(*ast.CallExpr); ok && decodeCall == token.NoPos {
				if f := core.Callee(inf, call); f == nil || strings.HasPrefix(core.NameOf(f), "Unmarshal") {
					if tv, ok := inf.Types[call]; ok && tv.Type != nil {
						if tup, ok := tv.Type.(*types.Tuple); ok && tup.Len() >= 1 && core.IsErrorType(tup.At(tup.Len()-1).Type()) {
							if f != nil || func() bool { _, isVar := core.ObjOf(inf, call.Fun).(*types.Var); return isVar }() {
								decodeCall = call.Pos()
							}
						}
					}
				}
			}
			return true
		})
		ast.Inspect(fd.Body, func(x ast.Node) bool {
			switch y := x.(type) {
			case *ast.AssignStmt:
				if len(y.Lhs) != 1 || len(y.Rhs) != 1 || !core.IsNil(inf, y.Rhs[0]) {
					return true
				}
				if tv, ok := inf.Types[y.Lhs[0]]; !ok || !core.IsErrorType(tv.Type) {
					return true
				}
				n++
				if !guarded(y) {
					okAll = false
				}
			}
			return true
		})
		// a return of a nil error reached while the decoder's error may still be non-nil drops it as well
		if decodeCall != token.NoPos {
			errVar := core.MainErrorVar(inf, fd)
			seenRet := map[*ast.ReturnStmt]bool{}
			core.NewFlow(c.M, inf, fd.Body).Run(&core.Automaton{
				Node: func(st int, x ast.Node) int {
					for _, call := range core.CallsIn(x) {
						if call.Pos() == decodeCall {
							st = 1 // the decoder's error is in errVar, not yet looked at
						}
					}
					if as, ok := x.(*ast.AssignStmt); ok && st == 1 {
						for i, l := range as.Lhs {
							if core.ObjOf(inf, l) == errVar && len(as.Lhs) == len(as.Rhs) && core.IsNil(inf, as.Rhs[i]) {
								st = 2 // cleared by an assignment (counted above)
							}
						}
					}
					if r, ok := x.(*ast.ReturnStmt); ok && st == 1 && len(r.Results) > 0 && core.IsNil(inf, r.Results[len(r.Results)-1]) && !seenRet[r] {
						seenRet[r] = true
						n++
						if !guarded(r) {
							okAll = false
						}
					}
					return st
				},
				Edge: func(st int, facts []core.Fact) (int, bool) {
					if st != 1 {
						return st, true
					}
					for _, f := range facts {
						if e, nonNil, ok := core.NilTest(inf, f); ok && core.ObjOf(inf, e) == errVar && errVar != nil && !nonNil {
							st = 2
						}
					}
					return st, true
				},
			})
		}
		c.Check(n == 1 && okAll, rel, name, "err is cleared only for a missing-fields error of a lenient client", fd.Pos(), "", fmt.Sprintf("%d statements clear err; guarded by the assertion and !StrictResponseDeserialization: %v", n, okAll))
	}
}
