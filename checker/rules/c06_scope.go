package rules

import (
	"fmt"
	"go/ast"
	"go/token"
	"go/types"

	"verif/checker/core"
)

func init() {
	core.Register(&core.Rule{
		ID:    "R06.1",
		Title: "reader scope stack balanced on every nesting path",
		Text: "In every function of restlicodec that calls enterMapScope/enterArrayScope on a missingFieldsTracker: on every CFG path, " +
			"each enter is followed by exactly one exitScope before the next enter, the loop back-edge or a non-error return; " +
			"no exitScope without an outstanding enter.  Returns whose error result is certainly non-nil are exempt (a reader is dead after an error).",
		Props: []string{"C06", "C04", "C07", "C11"},
		Floor: map[string]int{"v2": 7, "root": 7},
		Run:   runR061,
	})
}

// scopeBalance checks enter/exit pairing in one function body.
//
//	isEnter / isExit classify calls; name is used in descriptors.
func scopeBalance(c *core.Ctx, rel string, fd *ast.FuncDecl, inf *types.Info, isEnter, isExit func(*ast.CallExpr) string, prim ...func(ast.Node) string) (enters int) {
	fn := core.DeclName(fd)
	par := core.Parents(fd)
	sig, _ := inf.Defs[fd.Name].Type().(*types.Signature)
	flow := core.NewFlow(c.M, inf, fd.Body)
	type key struct {
		n    ast.Node
		what string
	}
	bad := map[key]bool{}
	seen := map[key]bool{}
	deferredExit := false
	auto := &core.Automaton{
		Init: 0,
		Node: func(state int, n ast.Node) int {
			depth := state
			if d, ok := n.(*ast.DeferStmt); ok {
				if isExit(d.Call) != "" {
					deferredExit = true
					// a deferred exit closes the scope that is open at return
					if depth >= 1 {
						return depth - 1 + 10 // 10.. = "deferred exit pending" states
					}
					return depth + 10
				}
			}
			base := 0
			if depth >= 10 {
				base = 10
				depth -= 10
			}
			// the stack written directly (a push or pop helper folded into this function)
			for _, pf := range prim {
				switch pf(n) {
				case "push":
					seen[key{n, "enter"}] = true
					if depth >= 1 {
						bad[key{n, "scope pushed while a scope entered earlier in the same function is still open"}] = true
					} else {
						depth++
					}
				case "pop":
					seen[key{n, "exit"}] = true
					if depth == 0 {
						bad[key{n, "scope popped without an open scope"}] = true
					} else {
						depth--
					}
				}
			}
			for _, call := range core.CallsIn(n) {
				if nm := isEnter(call); nm != "" {
					k := key{call, "enter"}
					seen[k] = true
					if depth >= 1 {
						bad[key{call, nm + " while a scope entered earlier in the same function is still open"}] = true
					} else {
						depth++
					}
				} else if nm := isExit(call); nm != "" {
					k := key{call, "exit"}
					seen[k] = true
					if depth == 0 {
						bad[key{call, nm + " without an open scope"}] = true
					} else {
						depth--
					}
				}
			}
			if r, ok := n.(*ast.ReturnStmt); ok {
				k := key{r, "return"}
				seen[k] = true
				if depth != 0 && core.ErrorReturn(inf, par, sig, r) != "error" {
					bad[key{r, "non-error return with an open scope"}] = true
				}
			}
			return base + depth
		},
	}
	// the function's error variable is followed along each path: `if err != nil` written twice, or an error threaded
	// through an if / else, must not make a failed path look like it continues
	flow.Run(core.TrackNil(inf, core.MainErrorVar(inf, fd), auto))
	_ = deferredExit
	// one obligation per enter call, exit call and return
	reported := map[ast.Node]bool{}
	for k := range bad {
		reported[k.n] = true
		c.Bad(rel, fn, k.what, k.n.Pos(), "scope stack unbalanced on some path")
	}
	for k := range seen {
		if k.what == "enter" {
			enters++
		}
		if reported[k.n] {
			continue
		}
		desc := k.what
		if call, ok := k.n.(*ast.CallExpr); ok {
			desc = core.ExprString(call.Fun) + " " + k.what
		}
		c.OK(rel, fn, fmt.Sprintf("%s #%d balanced", desc, ordinal(fd, k.n)), k.n.Pos(), "")
	}
	return enters
}

// ordinal numbers a node among nodes of the same dynamic type within fd in
// source order, so that descriptors do not depend on line numbers.
func ordinal(fd *ast.FuncDecl, target ast.Node) int {
	i, res := 0, 0
	ast.Inspect(fd, func(n ast.Node) bool {
		if n == nil {
			return false
		}
		if fmt.Sprintf("%T", n) == fmt.Sprintf("%T", target) {
			i++
			if n == target {
				res = i
			}
		}
		return true
	})
	return res
}

func runR061(c *core.Ctx) {
	const rel = "restlicodec"
	inf := info(c, rel)
	codec := pkgPath(c, rel)
	isEnter := func(call *ast.CallExpr) string {
		f := core.Callee(inf, call)
		if core.IsMethod(f, codec, "missingFieldsTracker", "enterMapScope") {
			return "enterMapScope"
		}
		if core.IsMethod(f, codec, "missingFieldsTracker", "enterArrayScope") {
			return "enterArrayScope"
		}
		return ""
	}
	isExit := func(call *ast.CallExpr) string {
		if core.IsMethod(core.Callee(inf, call), codec, "missingFieldsTracker", "exitScope") {
			return "exitScope"
		}
		return ""
	}
	// anchors must exist
	anchors := map[*types.Func]bool{
		mustFunc(c, rel, "(*missingFieldsTracker).enterMapScope"):   true,
		mustFunc(c, rel, "(*missingFieldsTracker).enterArrayScope"): true,
		mustFunc(c, rel, "(*missingFieldsTracker).exitScope"):       true,
	}
	// outside the three anchors, a direct write of the tracker's stack counts like the call it stands for:
	// t.currentScope = append(t.currentScope, …) pushes, t.currentScope = t.currentScope[:len(t.currentScope)-1] pops
	tracker, _ := mustObj(c, rel, "missingFieldsTracker").(*types.TypeName)
	scopePrim := func(n ast.Node) string {
		as, ok := n.(*ast.AssignStmt)
		if !ok || len(as.Lhs) != 1 || len(as.Rhs) != 1 {
			return ""
		}
		base, ok := fieldNamed(inf, as.Lhs[0], tracker, "currentScope")
		if !ok {
			return ""
		}
		switch r := core.Unparen(as.Rhs[0]).(type) {
		case *ast.CallExpr:
			if b, isB := core.ObjOf(inf, r.Fun).(*types.Builtin); isB && b.Name() == "append" && len(r.Args) == 2 && !r.Ellipsis.IsValid() {
				if b2, ok := fieldNamed(inf, r.Args[0], tracker, "currentScope"); ok && core.SameExpr(inf, base, b2) {
					return "push"
				}
			}
		case *ast.SliceExpr:
			if b2, ok := fieldNamed(inf, r.X, tracker, "currentScope"); ok && core.SameExpr(inf, base, b2) && r.Low == nil && r.High != nil {
				if be, ok := core.Unparen(r.High).(*ast.BinaryExpr); ok && be.Op == token.SUB {
					if cv := core.ConstOf(inf, be.Y); cv != nil && cv.ExactString() == "1" {
						return "pop"
					}
				}
			}
		}
		return ""
	}
	funcs := 0
	for _, fd := range c.M.FuncDecls(rel) {
		if fd.Body == nil {
			continue
		}
		has := false
		isAnchor := false
		if f, _ := inf.Defs[fd.Name].(*types.Func); f != nil && anchors[f] {
			isAnchor = true
		}
		core.WalkNoFuncLit(fd.Body, func(n ast.Node) bool {
			if call, ok := n.(*ast.CallExpr); ok && (isEnter(call) != "" || isExit(call) != "") {
				has = true
			}
			if !isAnchor && scopePrim(n) != "" {
				has = true
			}
			return true
		})
		// calls inside function literals are not understood by the pairing
		ast.Inspect(fd.Body, func(n ast.Node) bool {
			if fl, ok := n.(*ast.FuncLit); ok {
				ast.Inspect(fl.Body, func(x ast.Node) bool {
					if call, ok := x.(*ast.CallExpr); ok && (isEnter(call) != "" || isExit(call) != "") {
						c.Unknown(rel, core.DeclName(fd), "scope call inside a function literal", call.Pos(), "pairing across closures is outside the rule's idioms")
					}
					return true
				})
				return false
			}
			return true
		})
		if !has {
			continue
		}
		funcs++
		if isAnchor {
			scopeBalance(c, rel, fd, inf, isEnter, isExit)
		} else {
			scopeBalance(c, rel, fd, inf, isEnter, isExit, scopePrim)
		}
	}
	c.Note("%d functions touch the reader scope stack", funcs)
}
