package rules

import (
	"fmt"
	"go/ast"
	"go/token"
	"go/types"
	"sort"
	"strings"

	"verif/checker/core"
)

func init() {
	core.Register(&core.Rule{
		ID:    "R06.3",
		Title: "record callbacks skip unknown fields, never fail on them",
		Text: "Every function value passed as the MapReader of a ReadRecord call (function literal, method value or delegate), and every ReadMap callback that returns a no-such-field sentinel: " +
			"on each CFG path taken by a key equal to none of the compared constants (default clause, final else, fall-through, found==false after UnmarshalField) " +
			"the callback returns reader.Skip() on its own reader, a delegate in scope, or the package sentinel NoSuchFieldErr — the latter only if readRecord and " +
			"QueryParamsReader.ReadRecord compare the callback result with that same object and skip.  Returning nil without skipping, or a constructed error, is a violation.",
		Props: []string{"C06", "C03"},
		Floor: map[string]int{"v2": 9, "root": 9},
		Run:   runR063,
	})
}

// outcome kinds of a callback on the unknown-key path
const (
	ukSkip     = "skip"
	ukSentinel = "sentinel"
	ukNil      = "returns nil without skipping"
	ukError    = "rejects the unknown field with an error"
	ukOther    = "not understood"
)

type unknownAnalyzer struct {
	c        *core.Ctx
	codec    string // import path of restlicodec
	sentinel types.Object
	memo     map[*types.Func]map[string]token.Pos
	active   map[*types.Func]bool
}

// isReaderType reports whether t is restlicodec.Reader (or a type implementing
// Skip() error from that package).
func (u *unknownAnalyzer) isSkipCall(inf *types.Info, call *ast.CallExpr, reader types.Object) bool {
	f := core.Callee(inf, call)
	if f == nil || core.NameOf(f) != "Skip" || len(call.Args) != 0 {
		return false
	}
	sel, ok := core.Unparen(call.Fun).(*ast.SelectorExpr)
	if !ok {
		return false
	}
	id, ok := core.Unparen(sel.X).(*ast.Ident)
	if !ok {
		return false
	}
	obj := core.ObjOf(inf, id)
	if reader != nil {
		return obj == reader
	}
	// reader parameter unnamed/unknown: accept any value of the codec's Reader type
	if v, ok := obj.(*types.Var); ok {
		if n, ok := v.Type().(*types.Named); ok && n.Obj().Pkg() != nil && n.Obj().Pkg().Path() == u.codec && core.NameOf(n.Obj()) == "Reader" {
			return true
		}
	}
	return false
}

// analyze computes the outcomes of a callback body on the unknown-key path.
// reader/field are the callback's parameter objects (may be nil if unnamed).
func (u *unknownAnalyzer) analyze(inf *types.Info, fnType *ast.FuncType, body *ast.BlockStmt, outerReader types.Object) map[string]token.Pos {
	out := map[string]token.Pos{}
	var reader, field types.Object
	params := fnType.Params.List
	var names []*ast.Ident
	for _, p := range params {
		if len(p.Names) == 0 {
			names = append(names, nil)
		}
		for _, n := range p.Names {
			names = append(names, n)
		}
	}
	if len(names) != 2 {
		out[ukOther] = body.Pos()
		return out
	}
	if names[0] != nil && names[0].Name != "_" {
		reader = inf.Defs[names[0]]
	} else {
		reader = outerReader
	}
	if names[1] != nil && names[1].Name != "_" {
		field = inf.Defs[names[1]]
	}
	par := core.Parents(body)
	flow := core.NewFlow(u.c.M, inf, body)
	// named error result
	var namedErr types.Object
	if fnType.Results != nil && len(fnType.Results.List) == 1 && len(fnType.Results.List[0].Names) == 1 {
		namedErr = inf.Defs[fnType.Results.List[0].Names[0]]
	}
	// "found" variables: assigned from X.UnmarshalField(reader, field)-like calls
	foundVars := map[types.Object]bool{}
	core.WalkNoFuncLit(body, func(n ast.Node) bool {
		as, ok := n.(*ast.AssignStmt)
		if !ok || len(as.Rhs) != 1 || len(as.Lhs) != 2 {
			return true
		}
		call, ok := core.Unparen(as.Rhs[0]).(*ast.CallExpr)
		if !ok {
			return true
		}
		f := core.Callee(inf, call)
		if f == nil || !(core.NameOf(f) == "UnmarshalField" || core.NameOf(f) == "UnmarshalSetField") || len(call.Args) < 2 {
			return true
		}
		if field != nil && core.ObjOf(inf, call.Args[1]) != field {
			return true
		}
		if id, ok := core.Unparen(as.Lhs[0]).(*ast.Ident); ok {
			if o := core.ObjOf(inf, id); o != nil {
				foundVars[o] = true
			}
		}
		return true
	})
	const (
		sInit = iota
		sSkip
		sSentinel
		sOther
		sDelegateBase = 8 // sDelegateBase+i: outcome set index
	)
	var delegateSets []map[string]token.Pos
	classifyExpr := func(e ast.Expr) (state int, isErrVar bool) {
		e = core.Unparen(e)
		if core.IsNil(inf, e) {
			return sInit, false
		}
		if id, ok := e.(*ast.Ident); ok {
			if o := core.ObjOf(inf, id); o != nil {
				if u.sentinel != nil && o == u.sentinel {
					return sSentinel, false
				}
				if v, ok := o.(*types.Var); ok && core.IsErrorType(v.Type()) && !v.IsField() && v.Parent() != v.Pkg().Scope() {
					return -1, true
				}
			}
		}
		if sel, ok := e.(*ast.SelectorExpr); ok {
			if o := core.ObjOf(inf, sel); o != nil && u.sentinel != nil && o == u.sentinel {
				return sSentinel, false
			}
		}
		if call, ok := e.(*ast.CallExpr); ok {
			if u.isSkipCall(inf, call, reader) {
				return sSkip, false
			}
			// delegate with (reader, field)
			if f := core.Callee(inf, call); f != nil && len(call.Args) == 2 && field != nil &&
				core.ObjOf(inf, call.Args[1]) == field && (reader == nil || core.ObjOf(inf, call.Args[0]) == reader) {
				if set := u.analyzeFunc(f); set != nil {
					delegateSets = append(delegateSets, set)
					return sDelegateBase + len(delegateSets) - 1, false
				}
			}
		}
		return sOther, false
	}
	record := func(state int, pos token.Pos) {
		switch {
		case state == sInit:
			out[ukNil] = pos
		case state == sSkip:
			out[ukSkip] = pos
		case state == sSentinel:
			out[ukSentinel] = pos
		case state >= sDelegateBase:
			for k, p := range delegateSets[state-sDelegateBase] {
				_ = p
				out[k] = pos
			}
		default:
			out[ukOther] = pos
		}
	}
	auto := &core.Automaton{
		Init: sInit,
		Node: func(state int, n ast.Node) int {
			switch x := n.(type) {
			case *ast.AssignStmt:
				// which error variable is assigned?
				for i, l := range x.Lhs {
					id, ok := core.Unparen(l).(*ast.Ident)
					if !ok {
						continue
					}
					o, _ := core.ObjOf(inf, id).(*types.Var)
					if o == nil || !core.IsErrorType(o.Type()) {
						continue
					}
					if len(x.Lhs) == len(x.Rhs) {
						st, isVar := classifyExpr(x.Rhs[i])
						if isVar {
							return state
						}
						return st
					}
					return sOther
				}
			case *ast.ReturnStmt:
				if len(x.Results) == 0 {
					if namedErr != nil {
						if core.GuardedNonNil(inf, par, x, namedErr) {
							return -1 // propagated failure
						}
						record(state, x.Pos())
					} else {
						out[ukOther] = x.Pos()
					}
					return -1
				}
				e := x.Results[len(x.Results)-1]
				st, isVar := classifyExpr(e)
				if isVar {
					obj := core.ObjOf(inf, core.Unparen(e).(*ast.Ident))
					if core.GuardedNonNil(inf, par, x, obj) {
						// propagated failure of a call: exempt — unless what the variable holds on this path is the
						// sentinel itself (`err = NoSuchFieldErr; …; if err != nil { return err }`)
						if state == sSentinel {
							record(state, x.Pos())
						}
						return -1
					}
					record(state, x.Pos())
					return -1
				}
				if st == sOther && core.NonNilErrorExpr(inf, e) {
					out[ukError] = x.Pos()
					return -1
				}
				record(st, x.Pos())
				return -1
			}
			return state
		},
		Edge: func(state int, facts []core.Fact) (int, bool) {
			for _, f := range facts {
				if f.Tag != nil {
					// switch field { case C: }
					if field != nil && core.ObjOf(inf, f.Tag) == field && f.Val {
						return state, false
					}
					continue
				}
				// field == C
				if be, ok := core.Unparen(f.Expr).(*ast.BinaryExpr); ok && field != nil {
					isField := core.ObjOf(inf, be.X) == field || core.ObjOf(inf, be.Y) == field
					if isField && ((be.Op == token.EQL && f.Val) || (be.Op == token.NEQ && !f.Val)) {
						return state, false
					}
				}
				// the variable holds the sentinel on this path: it is not nil
				if e, nonNil, ok := core.NilTest(inf, f); ok && !nonNil && state == sSentinel {
					if v, isVar := core.ObjOf(inf, e).(*types.Var); isVar && core.IsErrorType(v.Type()) {
						return state, false
					}
				}
				// found
				if id, ok := core.Unparen(f.Expr).(*ast.Ident); ok && f.Val {
					if foundVars[core.ObjOf(inf, id)] {
						return state, false
					}
				}
			}
			return state, true
		},
	}
	flow.Run(auto)
	if len(out) == 0 {
		// every path is a known-key path or an error propagation: the callback has no unknown-key path
		out[ukOther] = body.Pos()
	}
	return out
}

// analyzeFunc analyses a declared function/method used as callback or delegate.
func (u *unknownAnalyzer) analyzeFunc(f *types.Func) map[string]token.Pos {
	if f == nil {
		return nil
	}
	if origin := f.Origin(); origin != nil {
		f = origin
	}
	if m, ok := u.memo[f]; ok {
		return m
	}
	if u.active[f] {
		return map[string]token.Pos{ukOther: token.NoPos}
	}
	fd := u.c.M.Decl(f)
	if fd == nil || fd.Body == nil {
		return nil
	}
	sig := f.Type().(*types.Signature)
	if sig.Params().Len() != 2 || sig.Results().Len() != 1 || !core.IsErrorType(sig.Results().At(0).Type()) {
		return nil
	}
	p := u.c.M.PkgOf(f)
	if p == nil {
		return nil
	}
	u.active[f] = true
	res := u.analyze(p.TypesInfo, fd.Type, fd.Body, nil)
	delete(u.active, f)
	u.memo[f] = res
	return res
}

func runR063(c *core.Ctx) {
	codec := pkgPath(c, "restlicodec")
	u := &unknownAnalyzer{c: c, codec: codec, memo: map[*types.Func]map[string]token.Pos{}, active: map[*types.Func]bool{}}
	u.sentinel = c.M.LookupObj("restlicodec", "NoSuchFieldErr") // nil in the root module
	sentinelUsed := false

	type site struct {
		rel, fn, construct string
		pos                token.Pos
		set                map[string]token.Pos
	}
	var sites []site
	for _, p := range c.M.Roots {
		rel := c.M.Rel(p.PkgPath)
		inf := p.TypesInfo
		for _, file := range p.Syntax {
			for _, d := range file.Decls {
				fd, ok := d.(*ast.FuncDecl)
				if !ok || fd.Body == nil {
					continue
				}
				fn := core.DeclName(fd)
				nRec, nMap := 0, 0
				ast.Inspect(fd.Body, func(n ast.Node) bool {
					call, ok := n.(*ast.CallExpr)
					if !ok {
						return true
					}
					callee := core.Callee(inf, call)
					if callee == nil {
						return true
					}
					isRecord := core.NameOf(callee) == "ReadRecord" && len(call.Args) == 2 && calleeInPkg(callee, codec)
					isMap := core.NameOf(callee) == "ReadMap" && len(call.Args) == 1 && calleeInPkg(callee, codec) && core.RecvNamed(callee) != nil || (core.NameOf(callee) == "ReadMap" && len(call.Args) == 1 && isInterfaceMethodOf(callee, codec, "Reader")) || (core.NameOf(callee) == "ReadMap" && len(call.Args) == 1 && isInterfaceMethodOf(callee, codec, "rawReader"))
					if !isRecord && !isMap {
						return true
					}
					if rel == "restlicodec" && (fn == "readRecord" || strings.HasSuffix(fn, ".ReadRecord")) {
						return true // the protocol implementation itself (R06.2)
					}
					cb := call.Args[len(call.Args)-1]
					var set map[string]token.Pos
					// reader the call is made on (for callbacks that ignore their own reader parameter)
					var outerReader types.Object
					if sel, ok := core.Unparen(call.Fun).(*ast.SelectorExpr); ok {
						outerReader = core.ObjOf(inf, sel.X)
					}
					switch x := core.Unparen(cb).(type) {
					case *ast.FuncLit:
						set = u.analyze(inf, x.Type, x.Body, outerReader)
					default:
						if f, ok := core.ObjOf(inf, cb).(*types.Func); ok {
							set = u.analyzeFunc(f)
						}
					}
					if isMap {
						// plain maps / unions are out of scope unless the callback flags unknown fields
						if set == nil {
							return true
						}
						if _, has := set[ukSentinel]; !has {
							return true
						}
						nMap++
						sites = append(sites, site{rel, fn, fmt.Sprintf("ReadMap callback #%d returning the no-such-field sentinel", nMap), call.Pos(), map[string]token.Pos{"sentinel-in-ReadMap": set[ukSentinel]}})
						return true
					}
					nRec++
					construct := fmt.Sprintf("ReadRecord callback #%d", nRec)
					if set == nil {
						set = map[string]token.Pos{ukOther: cb.Pos()}
					}
					sites = append(sites, site{rel, fn, construct, call.Pos(), set})
					return true
				})
			}
		}
	}
	for _, s := range sites {
		var kinds []string
		for k := range s.set {
			kinds = append(kinds, k)
		}
		sort.Strings(kinds)
		switch {
		case s.set["sentinel-in-ReadMap"] != token.NoPos:
			c.Bad(s.rel, s.fn, s.construct, s.set["sentinel-in-ReadMap"], "ReadMap does not interpret the sentinel: an unknown key makes decoding fail")
		case has(s.set, ukOther):
			c.Unknown(s.rel, s.fn, s.construct, s.set[ukOther], "callback shape outside the rule's idioms: "+strings.Join(kinds, ", "))
		case has(s.set, ukNil):
			c.Bad(s.rel, s.fn, s.construct, s.set[ukNil], "unknown field: "+ukNil)
		case has(s.set, ukError):
			c.Bad(s.rel, s.fn, s.construct, s.set[ukError], "unknown field: "+ukError)
		default:
			if has(s.set, ukSentinel) {
				sentinelUsed = true
			}
			c.OK(s.rel, s.fn, s.construct, s.pos, "unknown-key path: "+strings.Join(kinds, ", "))
		}
	}
	// sentinel protocol: the two ReadRecord implementations must interpret it
	if u.sentinel != nil {
		for _, name := range []string{"readRecord", "QueryParamsReader.ReadRecord"} {
			f, fd := mustDecl(c, "restlicodec", name)
			_ = f
			ok, pos, why := sentinelHandled(info(c, "restlicodec"), fd, u.sentinel)
			if ok {
				c.OK("restlicodec", name, "sentinel NoSuchFieldErr compared with the callback result and skipped", pos, "")
			} else if sentinelUsed || true {
				c.Bad("restlicodec", name, "sentinel NoSuchFieldErr compared with the callback result and skipped", pos, why)
			}
		}
	}
}

func has(m map[string]token.Pos, k string) bool { _, ok := m[k]; return ok }

func calleeInPkg(f *types.Func, pkg string) bool {
	return f.Pkg() != nil && f.Pkg().Path() == pkg
}

func isInterfaceMethodOf(f *types.Func, pkg, iface string) bool {
	sig, _ := f.Type().(*types.Signature)
	if sig == nil || sig.Recv() == nil || f.Pkg() == nil || f.Pkg().Path() != pkg {
		return false
	}
	_, isIface := sig.Recv().Type().Underlying().(*types.Interface)
	return isIface
}

// sentinelHandled checks that fd invokes a MapReader-typed callback, compares
// the returned error with the sentinel (== or errors.Is) and on equality does
// not return it (skips / continues).
func sentinelHandled(inf *types.Info, fd *ast.FuncDecl, sentinel types.Object) (bool, token.Pos, string) {
	pos := fd.Pos()
	why := "no comparison of the callback result with the sentinel"
	par := core.Parents(fd)
	isSentinelFact := func(f core.Fact) bool {
		switch x := core.Unparen(f.Expr).(type) {
		case *ast.BinaryExpr:
			if (x.Op == token.EQL) == f.Val && (x.Op == token.EQL || x.Op == token.NEQ) && (core.ObjOf(inf, x.X) == sentinel || core.ObjOf(inf, x.Y) == sentinel) {
				return true
			}
		case *ast.CallExpr:
			if cf := core.Callee(inf, x); core.IsFunc(cf, "errors", "Is") && f.Val && len(x.Args) == 2 && core.ObjOf(inf, x.Args[1]) == sentinel {
				return true
			}
		}
		return false
	}
	isSkipCall := func(e ast.Expr) bool {
		call, ok := core.Unparen(e).(*ast.CallExpr)
		if !ok {
			return false
		}
		cf := core.Callee(inf, call)
		return cf != nil && core.NameOf(cf) == "Skip"
	}
	// a skip action — `return r.Skip()`, `err = r.Skip()`, `continue` — on the branch where the callback's error is
	// known to be the sentinel, whatever form the test takes (if, else-if, tagged switch, errors.Is)
	found, compared := false, false
	ast.Inspect(fd.Body, func(n ast.Node) bool {
		st, ok := n.(ast.Stmt)
		if !ok {
			return true
		}
		guarded := core.GuardedByFactAcrossClosures(inf, par, st, isSentinelFact, nil)
		if !guarded {
			return true
		}
		compared = true
		pos = st.Pos()
		switch x := st.(type) {
		case *ast.ReturnStmt:
			if len(x.Results) == 1 && isSkipCall(x.Results[0]) {
				found = true
			}
		case *ast.BranchStmt:
			if x.Tok == token.CONTINUE {
				found = true
			}
		case *ast.AssignStmt:
			if len(x.Rhs) == 1 && isSkipCall(x.Rhs[0]) {
				found = true
			}
		case *ast.ExprStmt:
			if isSkipCall(x.X) {
				found = true
			}
		}
		return true
	})
	// `switch err { case NoSuchFieldErr: /* nothing */ … }` as the last statement of a loop body: the empty clause is
	// the `continue`
	if !found {
		ast.Inspect(fd.Body, func(n ast.Node) bool {
			sw, ok := n.(*ast.SwitchStmt)
			if !ok || sw.Tag == nil {
				return true
			}
			blk, _ := par[sw].(*ast.BlockStmt)
			if blk == nil || len(blk.List) == 0 || blk.List[len(blk.List)-1] != ast.Stmt(sw) {
				return true
			}
			switch par[blk].(type) {
			case *ast.RangeStmt, *ast.ForStmt:
			default:
				return true
			}
			for _, cl := range sw.Body.List {
				cc := cl.(*ast.CaseClause)
				if len(cc.List) == 1 && core.ObjOf(inf, cc.List[0]) == sentinel && len(cc.Body) == 0 {
					compared, found, pos = true, true, cc.Pos()
				}
			}
			return true
		})
	}
	if compared && !found {
		why = "the sentinel branch does not skip the value"
	}
	return found, pos, why
}
