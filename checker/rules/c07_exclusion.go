package rules

import (
	"fmt"
	"go/ast"
	"go/constant"
	"go/token"
	"go/types"
	"strings"

	"verif/checker/core"
)

func init() {
	core.Register(&core.Rule{
		ID:    "R07.1",
		Title: "the writer consults the exclusion spec on every key",
		Text: "In genericWriter.WriteMap's key closure every path returning a writer other than the no-op writer has pushed the key (enterScope) and passed the false edge of excludedFields.Matches(scope); " +
			"WriteArray pushes the WildCard constant object; the no-op writer's methods contain no call and no store; the writer's own scope stack is balanced (WriteArray/IsKeyExcluded by pairing, " +
			"WriteMap by the started-flag protocol, decided on the CFGs of the key closure and of WriteMap: the flag — a boolean variable or field the closure raises, lowered at the start — is consulted on every path; where it is up the scope is popped exactly once before the push, " +
			"where it is down nothing is popped and the flag is raised; every path pushes exactly once; after the callback every successful exit pops exactly once where the flag is up and not at all where it is down).",
		Props:   []string{"C07", "C03"},
		Modules: []string{"v2"},
		Floor:   map[string]int{"v2": 6},
		Run:     runR071,
	})
	core.Register(&core.Rule{
		ID:    "R07.1r",
		Title: "root module writer consults the exclusion spec on every key",
		Text: "Sibling of R07.1 for the root module's sub-writer design: in genericWriter.WriteMap's key closure a writer other than the no-op writer is assigned only under !IsKeyExcluded(key) of the closure's key; " +
			"WriteArray scopes items with subWriter(WildCard); IsKeyExcluded pushes the key, evaluates Matches on the scope and pops it.",
		Props:   []string{"C07"},
		Modules: []string{"root"},
		Floor:   map[string]int{"root": 3},
		Run:     runR071root,
	})
	core.Register(&core.Rule{
		ID:    "R07.2",
		Title: "the readers consult the exclusion spec on every key",
		Text: "Every Reader.ReadMap implementation calls enterMapScope(key) and returns its error before the callback is invoked; every ReadArray pushes an array scope before the callback; " +
			"enterMapScope ignores exactly scopeToIgnore leading segments and maps array segments to the WildCard constant.",
		Props: []string{"C07", "C06"},
		Floor: map[string]int{"v2": 8, "root": 8},
		Run:   runR072,
	})
	core.Register(&core.Rule{
		ID:    "R07.3",
		Title: "server adapters pass the envelope depth of their method",
		Text: "The leadingScopeToIgnore constant each Register* passes to registerMethodWithBody equals the depth at which the entity's own fields start: depth of the request unmarshaler's envelope " +
			"(plain entity 0; *Elements[V] 2 = key + array index; batchEntities 2 = key + map key) plus 1 when the registered Method constant is a partial-update method (the `patch` key).",
		Props: []string{"C07", "C11"},
		Floor: map[string]int{"v2": 8, "root": 7},
		Run:   runR073,
	})
	core.Register(&core.Rule{
		ID:    "R07.4",
		Title: "client marshalers reset the scope for entities nested under envelope keys",
		Text: "In every request marshaler that nests the caller's entity under envelope keys (the batch create closure, MarshalBatchEntities) the element marshaler passed to WriteArray / WriteGenericMap " +
			"hands the entity a writer obtained from SetScope() with no arguments; passing the entity's MarshalRestLi directly keeps the envelope prefix in the scope and the exclusion spec never matches.",
		Props: []string{"C07"},
		Floor: map[string]int{"v2": 2, "root": 2},
		Run:   runR074,
	})
}

func runR071(c *core.Ctx) {
	const rel = "restlicodec"
	inf := info(c, rel)
	codec := pkgPath(c, rel)
	_, wm := mustDecl(c, rel, "(*genericWriter).WriteMap")
	noop := mustObj(c, rel, "NoopWriter")
	wild := mustObj(c, rel, "WildCard")
	isEnter := func(call *ast.CallExpr) bool {
		return core.IsMethod(core.Callee(inf, call), codec, "genericWriter", "enterScope")
	}
	isExit := func(call *ast.CallExpr) bool {
		return core.IsMethod(core.Callee(inf, call), codec, "genericWriter", "exitScope")
	}
	isMatches := func(e ast.Expr) bool {
		call, ok := core.Unparen(e).(*ast.CallExpr)
		return ok && core.IsMethod(core.Callee(inf, call), codec, "PathSpec", "Matches")
	}
	// key closure: the FuncLit passed to the mapWriter callback
	var lit *ast.FuncLit
	ast.Inspect(wm.Body, func(n ast.Node) bool {
		if fl, ok := n.(*ast.FuncLit); ok && lit == nil {
			if sig, ok := inf.Types[fl].Type.(*types.Signature); ok && sig.Params().Len() == 1 && sig.Results().Len() == 1 {
				lit = fl
			}
		}
		return true
	})
	if lit == nil {
		c.Unknown(rel, "(*genericWriter).WriteMap", "key closure", wm.Pos(), "not found")
		return
	}
	flow := core.NewFlow(c.M, inf, lit.Body)
	okAll, nRet := true, 0
	opensEarly, opens := token.NoPos, 0
	flow.Run(&core.Automaton{
		Init: 0,
		Node: func(state int, n ast.Node) int {
			for _, call := range core.CallsIn(n) {
				if cf := core.Callee(inf, call); cf != nil && core.NameOf(cf) == "writeMapStart" {
					opens++
					if state != 3 && opensEarly == token.NoPos {
						opensEarly = call.Pos()
					}
				}
				if isEnter(call) && len(call.Args) == 1 {
					// the pushed value must be the closure's key parameter
					if core.ObjOf(inf, call.Args[0]) == inf.Defs[lit.Type.Params.List[0].Names[0]] {
						state |= 1
						state &^= 2
					}
				}
			}
			if r, ok := n.(*ast.ReturnStmt); ok && len(r.Results) == 1 {
				if core.ObjOf(inf, r.Results[0]) != noop {
					nRet++
					if state != 3 {
						okAll = false
					}
				}
			}
			return state
		},
		Edge: func(state int, facts []core.Fact) (int, bool) {
			for _, f := range facts {
				if f.Tag == nil && isMatches(f.Expr) && !f.Val && state&1 != 0 {
					state |= 2
				}
			}
			return state, true
		},
	})
	c.Check(okAll && nRet > 0, rel, "(*genericWriter).WriteMap", "a real writer is handed out only after the key was pushed and found not excluded", lit.Pos(), "",
		"some path returns a writing Writer without enterScope(key) followed by the false edge of excludedFields.Matches(scope)")
	c.Check(opens > 0 && opensEarly == token.NoPos, rel, "(*genericWriter).WriteMap", "the map is opened only once a key is known to be kept", lit.Pos(), "",
		"writeMapStart at "+c.M.Position(opensEarly)+" runs before the key passed the exclusion test (or is never called): a map whose keys are all excluded is emitted as an opening delimiter followed by the empty-map form")
	// started-flag protocol, on the control flow graphs of the key closure and of WriteMap: the flag (a boolean variable
	// or field the closure raises) says whether a key scope is currently pushed.  In the closure every path tests it;
	// where it is up the scope is popped exactly once before the push, where it is down nothing is popped and the flag
	// is raised; every path pushes exactly once.  After the callback WriteMap pops exactly once where the flag is up and
	// not at all where it is down (error returns leave the stack to the caller, which discards the writer).
	var flagExpr ast.Expr
	ast.Inspect(lit.Body, func(n ast.Node) bool {
		if as, ok := n.(*ast.AssignStmt); ok && len(as.Lhs) == 1 && len(as.Rhs) == 1 && as.Tok == token.ASSIGN {
			if cv := core.ConstOf(inf, as.Rhs[0]); cv != nil && cv.ExactString() == "true" && flagExpr == nil {
				switch core.Unparen(as.Lhs[0]).(type) {
				case *ast.Ident, *ast.SelectorExpr:
					flagExpr = as.Lhs[0]
				}
			}
		}
		return true
	})
	protoIn, protoOut := "", ""
	if flagExpr == nil {
		protoIn, protoOut = "the key closure raises no flag", "the key closure raises no flag"
	} else {
		isFlag := func(e ast.Expr) bool { return core.SameExpr(inf, e, flagExpr) }
		const (
			fkT    = 1
			fkF    = 2
			exit1  = 4
			exit2  = 8
			raised = 16
			push1  = 32
			push2  = 64
			after  = 128
		)
		flagEdge := func(state int, facts []core.Fact) (int, bool) {
			for _, f := range facts {
				if f.Tag == nil && isFlag(f.Expr) {
					if (f.Val && state&fkF != 0) || (!f.Val && state&fkT != 0) {
						return state, false
					}
					if f.Val {
						state |= fkT
					} else {
						state |= fkF
					}
				}
			}
			return state, true
		}
		setIn := func(msg string) {
			if protoIn == "" {
				protoIn = msg
			}
		}
		nRet := 0
		core.NewFlow(c.M, inf, lit.Body).Run(&core.Automaton{
			AtEnd: true,
			Node: func(state int, n ast.Node) int {
				if as, ok := n.(*ast.AssignStmt); ok {
					for i, l := range as.Lhs {
						if isFlag(l) {
							if cv := core.ConstOf(inf, as.Rhs[min(i, len(as.Rhs)-1)]); cv != nil && cv.ExactString() == "true" && len(as.Lhs) == len(as.Rhs) {
								state |= raised
							} else {
								setIn("the flag is assigned something other than true in the key closure")
							}
						}
					}
				}
				for _, call := range core.CallsIn(n) {
					switch {
					case isExit(call):
						if state&push1 != 0 {
							setIn("the scope is popped after the push in the key closure")
						}
						if state&exit1 != 0 {
							state |= exit2
						}
						state |= exit1
					case isEnter(call):
						if state&fkT != 0 && state&exit1 == 0 {
							setIn("a key is pushed while the previous key's scope is still on the stack")
						}
						if state&push1 != 0 {
							state |= push2
						}
						state |= push1
					}
				}
				if _, ok := n.(*ast.ReturnStmt); ok {
					nRet++
					switch {
					case state&(fkT|fkF) == 0:
						setIn("a path through the key closure does not consult the flag")
					case state&push1 == 0 || state&push2 != 0:
						setIn("a path through the key closure does not push the key exactly once")
					case state&fkT != 0 && (state&exit1 == 0 || state&exit2 != 0):
						setIn("with a scope pending, the key closure does not pop it exactly once")
					case state&fkF != 0 && state&exit1 != 0:
						setIn("the key closure pops a scope although none was pushed by this map")
					case state&fkF != 0 && state&raised == 0:
						setIn("the key closure pushes the first key without raising the flag: the scope is never popped")
					}
				}
				return state
			},
			Edge: flagEdge,
		})
		if nRet == 0 {
			setIn("the key closure never returns")
		}
		// the flag starts lowered
		startsDown := false
		switch x := core.Unparen(flagExpr).(type) {
		case *ast.Ident:
			o := core.ObjOf(inf, x)
			ast.Inspect(wm.Body, func(n ast.Node) bool {
				switch d := n.(type) {
				case *ast.AssignStmt:
					for i, l := range d.Lhs {
						if id, ok := core.Unparen(l).(*ast.Ident); ok && inf.Defs[id] == o && len(d.Lhs) == len(d.Rhs) {
							if cv := core.ConstOf(inf, d.Rhs[i]); cv != nil && cv.ExactString() == "false" {
								startsDown = true
							}
						}
					}
				case *ast.ValueSpec:
					for i, nm := range d.Names {
						if inf.Defs[nm] == o {
							if i >= len(d.Values) {
								startsDown = true
							} else if cv := core.ConstOf(inf, d.Values[i]); cv != nil && cv.ExactString() == "false" {
								startsDown = true
							}
						}
					}
				}
				return true
			})
		case *ast.SelectorExpr:
			// a field of a value built in WriteMap by a composite literal that does not raise it
			base := core.ObjOf(inf, x.X)
			field := core.ObjOf(inf, x)
			ast.Inspect(wm.Body, func(n ast.Node) bool {
				as, ok := n.(*ast.AssignStmt)
				if !ok || len(as.Lhs) != len(as.Rhs) {
					return true
				}
				for i, l := range as.Lhs {
					if id, ok := core.Unparen(l).(*ast.Ident); !ok || inf.Defs[id] != base || base == nil {
						continue
					}
					e := core.Unparen(as.Rhs[i])
					if u, ok := e.(*ast.UnaryExpr); ok && u.Op == token.AND {
						e = core.Unparen(u.X)
					}
					cl, ok := e.(*ast.CompositeLit)
					if !ok {
						continue
					}
					startsDown = true
					for _, el := range cl.Elts {
						kv, ok := el.(*ast.KeyValueExpr)
						if !ok {
							startsDown = false // positional literal: not tracked
							continue
						}
						if core.ObjOf(inf, kv.Key) == field || (identName(kv.Key) == x.Sel.Name) {
							if cv := core.ConstOf(inf, kv.Value); cv == nil || cv.ExactString() != "false" {
								startsDown = false
							}
						}
					}
				}
				return true
			})
		}
		if !startsDown {
			setIn("the flag is not known to start lowered")
		}
		// after the callback
		sig := inf.Defs[wm.Name].Type().(*types.Signature)
		wpar := core.Parents(wm)
		setOut := func(msg string) {
			if protoOut == "" {
				protoOut = msg
			}
		}
		sawCallback := false
		core.NewFlow(c.M, inf, wm.Body).Run(&core.Automaton{
			AtEnd: true,
			Node: func(state int, n ast.Node) int {
				hasLit := false
				core.WalkNoFuncLit(n, func(m ast.Node) bool {
					if call, ok := m.(*ast.CallExpr); ok {
						for _, a := range call.Args {
							if core.Unparen(a) == ast.Expr(lit) {
								hasLit = true
							}
						}
					}
					return true
				})
				if hasLit {
					sawCallback = true
					return after
				}
				if state&after == 0 {
					return state
				}
				if as, ok := n.(*ast.AssignStmt); ok {
					for _, l := range as.Lhs {
						if isFlag(l) {
							setOut("the flag is assigned after the callback")
						}
					}
				}
				for _, call := range core.CallsIn(n) {
					if isExit(call) {
						if state&exit1 != 0 {
							state |= exit2
						}
						state |= exit1
					}
					if isEnter(call) {
						setOut("WriteMap pushes a scope after the callback")
					}
				}
				if r, ok := n.(*ast.ReturnStmt); ok && core.ErrorReturn(inf, wpar, sig, r) != "error" {
					switch {
					case state&(fkT|fkF) == 0:
						setOut("a successful path after the callback does not consult the flag: the last key's scope stays on the stack")
					case state&fkT != 0 && (state&exit1 == 0 || state&exit2 != 0):
						setOut("with a key scope pending after the callback, it is not popped exactly once")
					case state&fkF != 0 && state&exit1 != 0:
						setOut("a scope is popped after the callback although no key was written")
					}
				}
				return state
			},
			Edge: func(state int, facts []core.Fact) (int, bool) {
				if state&after == 0 {
					return state, true
				}
				return flagEdge(state, facts)
			},
		})
		if !sawCallback {
			setOut("the call receiving the key closure was not found")
		}
	}
	c.Check(protoIn == "" && protoOut == "", rel, "(*genericWriter).WriteMap", "scope stack balanced by the started-flag protocol", wm.Pos(), "", strings.TrimPrefix(protoIn+"; "+protoOut, "; "))
	// WriteArray / IsKeyExcluded pairing
	for _, name := range []string{"(*genericWriter).WriteArray", "(*genericWriter).IsKeyExcluded"} {
		_, fd := mustDecl(c, rel, name)
		n := scopeBalance(c, rel, fd, inf, func(call *ast.CallExpr) string {
			if isEnter(call) {
				return "enterScope"
			}
			return ""
		}, func(call *ast.CallExpr) string {
			if isExit(call) {
				return "exitScope"
			}
			return ""
		})
		if n == 0 {
			c.Bad(rel, name, "pushes a scope segment", fd.Pos(), "no enterScope call")
		}
	}
	// WriteArray pushes the WildCard constant
	_, wa := mustDecl(c, rel, "(*genericWriter).WriteArray")
	pushWild := false
	ast.Inspect(wa.Body, func(n ast.Node) bool {
		if call, ok := n.(*ast.CallExpr); ok && isEnter(call) && len(call.Args) == 1 && core.ObjOf(inf, call.Args[0]) == wild {
			pushWild = true
		}
		return true
	})
	c.Check(pushWild, rel, "(*genericWriter).WriteArray", "array items are scoped by the WildCard constant the matcher tests", wa.Pos(), "", "WriteArray does not push WildCard")
	// no-op writer writes nothing
	noopT := namedOf(noop.Type())
	silent, nm := true, 0
	if noopT != nil {
		for i := 0; i < noopT.NumMethods(); i++ {
			fd := c.M.Decl(noopT.Method(i))
			if fd == nil || fd.Body == nil {
				continue
			}
			nm++
			ast.Inspect(fd.Body, func(n ast.Node) bool {
				switch x := n.(type) {
				case *ast.CallExpr:
					// callbacks of WriteMap/WriteArray are invoked with no-op writers: calls of func-typed params are fine
					if id, ok := core.Unparen(x.Fun).(*ast.Ident); ok {
						if v, ok := core.ObjOf(inf, id).(*types.Var); ok {
							if _, isSig := v.Type().Underlying().(*types.Signature); isSig {
								return true
							}
						}
					}
					if _, isLit := core.Unparen(x.Fun).(*ast.FuncLit); isLit {
						return true
					}
					silent = false
				case *ast.AssignStmt:
					for _, l := range x.Lhs {
						if _, isIdent := core.Unparen(l).(*ast.Ident); !isIdent {
							silent = false
						}
					}
				}
				return true
			})
		}
	}
	c.Check(silent && nm >= 8, rel, "noopWriter", "the writer returned for excluded keys writes nothing", noop.Pos(), fmt.Sprintf("%d methods", nm), "a no-op writer method calls into a buffer or stores state")
}

func runR072(c *core.Ctx) {
	const rel = "restlicodec"
	inf := info(c, rel)
	codec := pkgPath(c, rel)
	wild := mustObj(c, rel, "WildCard")
	for _, recv := range []string{"jsonReader", "ror2Reader", "anyReader"} {
		_, fd := mustDecl(c, rel, "(*"+recv+").ReadMap")
		cb := inf.Defs[fd.Type.Params.List[0].Names[0]]
		flow := core.NewFlow(c.M, inf, fd.Body)
		par := core.Parents(fd)
		var errObj types.Object
		okAll, nCb := true, 0
		flow.Run(&core.Automaton{
			Init: 0,
			Node: func(state int, n ast.Node) int {
				if as, ok := n.(*ast.AssignStmt); ok && len(as.Rhs) == 1 {
					if call, ok := core.Unparen(as.Rhs[0]).(*ast.CallExpr); ok && core.IsMethod(core.Callee(inf, call), codec, "missingFieldsTracker", "enterMapScope") {
						errObj = core.ObjOf(inf, as.Lhs[0])
						return 1 // entered, error not yet checked
					}
				}
				for _, call := range core.CallsIn(n) {
					if id, ok := core.Unparen(call.Fun).(*ast.Ident); ok && core.ObjOf(inf, id) == cb {
						nCb++
						if state != 2 {
							okAll = false
						}
						return 0
					}
				}
				return state
			},
			Edge: func(state int, facts []core.Fact) (int, bool) {
				for _, f := range facts {
					if e, nonNil, ok := core.NilTest(inf, f); ok && !nonNil && core.ObjOf(inf, e) == errObj && state == 1 {
						return 2, true
					}
				}
				return state, true
			},
		})
		_ = par
		c.Check(okAll && nCb > 0, rel, "(*"+recv+").ReadMap", "the exclusion check of the key precedes the callback on every path", fd.Pos(), "",
			"the callback can run without enterMapScope(key) having succeeded: an excluded field would be accepted")
		_, ad := mustDecl(c, rel, "(*"+recv+").ReadArray")
		acb := inf.Defs[ad.Type.Params.List[0].Names[0]]
		aflow := core.NewFlow(c.M, inf, ad.Body)
		okA, nA := true, 0
		aflow.Run(&core.Automaton{
			Init: 0,
			Node: func(state int, n ast.Node) int {
				for _, call := range core.CallsIn(n) {
					if core.IsMethod(core.Callee(inf, call), codec, "missingFieldsTracker", "enterArrayScope") {
						state = 1
					}
					if id, ok := core.Unparen(call.Fun).(*ast.Ident); ok && core.ObjOf(inf, id) == acb {
						nA++
						if state != 1 {
							okA = false
						}
						state = 0
					}
				}
				return state
			},
		})
		c.Check(okA && nA > 0, rel, "(*"+recv+").ReadArray", "an array scope is pushed before each element callback", ad.Pos(), "", "the element callback can run without enterArrayScope")
	}
	// enterMapScope shape
	_, em := mustDecl(c, rel, "(*missingFieldsTracker).enterMapScope")
	ignoreGuard, sliceFrom, mapsWild := false, false, false
	empar := core.Parents(em)
	// the matcher runs only when the scope is longer than scopeToIgnore — early `return nil`, enclosing if, either operand order
	longer := func(f core.Fact) bool {
		be, ok := core.Unparen(f.Expr).(*ast.BinaryExpr)
		if !ok {
			return false
		}
		isIgnore := func(e ast.Expr) bool {
			sel, ok := core.Unparen(e).(*ast.SelectorExpr)
			return ok && sel.Sel.Name == "scopeToIgnore"
		}
		isLen := func(e ast.Expr) bool {
			call, ok := core.Unparen(e).(*ast.CallExpr)
			if !ok || len(call.Args) != 1 {
				return false
			}
			id, ok := core.Unparen(call.Fun).(*ast.Ident)
			return ok && id.Name == "len"
		}
		op := be.Op
		x, y := be.X, be.Y
		if isIgnore(x) && isLen(y) { // scopeToIgnore OP len  ->  len OP' scopeToIgnore
			x, y = y, x
			switch op {
			case token.LSS:
				op = token.GTR
			case token.GTR:
				op = token.LSS
			case token.LEQ:
				op = token.GEQ
			case token.GEQ:
				op = token.LEQ
			}
		}
		if !isLen(x) || !isIgnore(y) {
			return false
		}
		return (op == token.GTR && f.Val) || (op == token.LEQ && !f.Val)
	}
	ast.Inspect(em.Body, func(n ast.Node) bool {
		switch x := n.(type) {
		case *ast.CallExpr:
			if cf := core.Callee(inf, x); cf != nil && core.NameOf(cf) == "genericMatches" {
				if core.GuardedByFact(inf, empar, core.EnclosingStmt(empar, x), longer, nil) {
					ignoreGuard = true
				}
			}
		case *ast.SliceExpr:
			if sel, ok := core.Unparen(x.Low).(*ast.SelectorExpr); ok && sel.Sel.Name == "scopeToIgnore" && x.High == nil {
				sliceFrom = true
			}
		case *ast.ReturnStmt:
			if len(x.Results) == 1 && core.ObjOf(inf, x.Results[0]) == wild {
				mapsWild = true
			}
		}
		return true
	})
	c.Check(ignoreGuard && sliceFrom, rel, "(*missingFieldsTracker).enterMapScope", "exactly scopeToIgnore leading segments are ignored", em.Pos(), "", fmt.Sprintf("early nil return while len(scope) <= scopeToIgnore: %v; matcher sees scope[scopeToIgnore:]: %v", ignoreGuard, sliceFrom))
	c.Check(mapsWild, rel, "(*missingFieldsTracker).enterMapScope", "array segments are matched as the WildCard constant", em.Pos(), "", "array scope segments are not mapped to WildCard")
}

func runR073(c *core.Ctx) {
	const rel = "restli"
	inf := info(c, rel)
	rmb := mustFunc(c, rel, "registerMethodWithBody")
	data := dataPkgRel(c)
	elementsT, _ := mustObj(c, data, "Elements").(*types.TypeName)
	batchEntT, _ := mustObj(c, rel, "batchEntities").(*types.TypeName)
	n := 0
	for _, fd := range c.M.FuncDecls(rel) {
		if fd.Body == nil {
			continue
		}
		ast.Inspect(fd.Body, func(x ast.Node) bool {
			call, ok := x.(*ast.CallExpr)
			if !ok {
				return true
			}
			if cf := core.Callee(inf, call); cf == nil || cf.Origin() != rmb || len(call.Args) < 6 {
				return true
			}
			n++
			fn := core.DeclName(fd)
			mconst, _ := core.ObjOf(inf, call.Args[2]).(*types.Const)
			dv := core.ConstOf(inf, call.Args[4])
			if mconst == nil || dv == nil {
				c.Unknown(rel, fn, "envelope depth", call.Pos(), "method or depth argument is not a constant")
				return true
			}
			got, _ := constant.Int64Val(dv)
			// envelope depth of the unmarshaler
			env, how := int64(0), "plain entity"
			um := core.Unparen(call.Args[5])
			mentions := func(t *types.TypeName) bool {
				found := false
				ast.Inspect(um, func(m ast.Node) bool {
					if id, ok := m.(*ast.Ident); ok && (inf.Uses[id] == t) {
						found = true
					}
					return true
				})
				return found
			}
			switch {
			case mentions(elementsT):
				env, how = 2, "Elements envelope: key + array index"
			case mentions(batchEntT):
				env, how = 2, "batch entities envelope: key + map key"
			}
			want := env
			if strings.Contains(core.NameOf(mconst), "partial_update") {
				want++
				how += " + patch key"
			}
			c.Check(got == want, rel, fn, "leadingScopeToIgnore equals the envelope depth of "+core.NameOf(mconst), call.Args[4].Pos(), fmt.Sprintf("%d (%s)", got, how),
				fmt.Sprintf("passes %d, the entity's fields start at depth %d (%s): the exclusion spec never matches (or matches the wrong level)", got, want, how))
			return true
		})
	}
	if n == 0 {
		c.Unknown(rel, "-", "registerMethodWithBody call sites", token.NoPos, "none found")
	}
}

func runR074(c *core.Ctx) {
	data := dataPkgRel(c)
	type bodyOf struct {
		body *ast.BlockStmt
		inf  *types.Info
	}
	check := func(rel, fnName string) {
		_, fd := mustDecl(c, rel, fnName)
		// the request marshaler is the function's own code plus, when the body was given a name, the methods of the
		// module types it constructs (conversion or literal) and the named functions it passes along as values
		work := []bodyOf{{fd.Body, info(c, rel)}}
		seen := map[*ast.BlockStmt]bool{fd.Body: true}
		add := func(b *ast.BlockStmt, inf *types.Info) {
			if b != nil && !seen[b] && len(work) < 12 {
				seen[b] = true
				work = append(work, bodyOf{b, inf})
			}
		}
		sites, okAll := 0, true
		why := ""
		for i := 0; i < len(work); i++ {
			inf := work[i].inf
			for _, mb := range constructedTypeMethods(c, inf, work[i].body) {
				add(mb.body, mb.inf)
			}
			ast.Inspect(work[i].body, func(n ast.Node) bool {
				call, ok := n.(*ast.CallExpr)
				if !ok {
					return true
				}
				cf := core.Callee(inf, call)
				if cf == nil || cf.Pkg() == nil || cf.Pkg().Path() != pkgPath(c, "restlicodec") {
					return true
				}
				if core.NameOf(cf) != "WriteArray" && core.NameOf(cf) != "WriteGenericMap" && core.NameOf(cf) != "WriteMap" {
					return true
				}
				if sig := cf.Type().(*types.Signature); sig.Recv() != nil {
					return true // the Writer method, not the generic helper
				}
				sites++
				m := core.Unparen(call.Args[len(call.Args)-1])
				_, body, binf := core.FuncValueOf(c.M, inf, m)
				if body == nil {
					okAll = false
					why = "the element marshaler " + core.ExprString(m) + " receives the envelope-scoped writer"
					return true
				}
				reset := false
				ast.Inspect(body, func(x ast.Node) bool {
					if sc, ok := x.(*ast.CallExpr); ok {
						if sf := core.Callee(binf, sc); sf != nil && core.NameOf(sf) == "SetScope" && len(sc.Args) == 0 {
							reset = true
						}
					}
					return true
				})
				if !reset {
					okAll = false
					why = "the element marshaler does not call SetScope() on its writer"
				}
				return true
			})
		}
		c.Check(sites > 0 && okAll, rel, fnName, "nested entities are marshaled with a scope reset (SetScope())", fd.Pos(), "", why)
	}
	check("restli", "batchCreate")
	check(data, "MarshalBatchEntities")
}

func runR071root(c *core.Ctx) {
	const rel = "restlicodec"
	inf := info(c, rel)
	_, wm := mustDecl(c, rel, "(*genericWriter).WriteMap")
	noop := mustObj(c, rel, "NoopWriter")
	wild := mustObj(c, rel, "WildCard")
	par := core.Parents(wm)
	var lit *ast.FuncLit
	ast.Inspect(wm.Body, func(n ast.Node) bool {
		if fl, ok := n.(*ast.FuncLit); ok && lit == nil {
			lit = fl
		}
		return true
	})
	if lit == nil {
		c.Unknown(rel, "(*genericWriter).WriteMap", "key closure", wm.Pos(), "not found")
		return
	}
	key := inf.Defs[lit.Type.Params.List[0].Names[0]]
	var ret types.Object
	for _, r := range core.ReturnsIn(lit.Body) {
		if len(r.Results) == 1 {
			ret = core.ObjOf(inf, r.Results[0])
		}
	}
	okAll, n := true, 0
	ast.Inspect(lit.Body, func(x ast.Node) bool {
		as, ok := x.(*ast.AssignStmt)
		if !ok || len(as.Lhs) != 1 || core.ObjOf(inf, as.Lhs[0]) != ret || ret == nil {
			return true
		}
		if core.ObjOf(inf, as.Rhs[0]) == noop {
			return true
		}
		n++
		g := core.GuardedByFact(inf, par, as, func(f core.Fact) bool {
			call, ok := core.Unparen(f.Expr).(*ast.CallExpr)
			if !ok || f.Val {
				return false
			}
			cf := core.Callee(inf, call)
			return cf != nil && core.NameOf(cf) == "IsKeyExcluded" && len(call.Args) == 1 && core.ObjOf(inf, call.Args[0]) == key
		}, nil)
		if !g {
			okAll = false
		}
		return true
	})
	c.Check(okAll && n > 0, rel, "(*genericWriter).WriteMap", "a real writer is handed out only under !IsKeyExcluded(key)", lit.Pos(), "", "a writing Writer is assigned without the exclusion test of the key")
	_, wa := mustDecl(c, rel, "(*genericWriter).WriteArray")
	pushWild := false
	ast.Inspect(wa.Body, func(x ast.Node) bool {
		if call, ok := x.(*ast.CallExpr); ok {
			if cf := core.Callee(inf, call); cf != nil && core.NameOf(cf) == "subWriter" && len(call.Args) == 1 && core.ObjOf(inf, call.Args[0]) == wild {
				pushWild = true
			}
		}
		return true
	})
	c.Check(pushWild, rel, "(*genericWriter).WriteArray", "array items are scoped by the WildCard constant the matcher tests", wa.Pos(), "", "WriteArray does not scope items with WildCard")
	_, ik := mustDecl(c, rel, "(*genericWriter).IsKeyExcluded")
	push, match, pop := token.NoPos, token.NoPos, token.NoPos
	ast.Inspect(ik.Body, func(x ast.Node) bool {
		switch y := x.(type) {
		case *ast.AssignStmt:
			if len(y.Rhs) == 1 {
				if call, ok := core.Unparen(y.Rhs[0]).(*ast.CallExpr); ok {
					if id, ok := core.Unparen(call.Fun).(*ast.Ident); ok && id.Name == "append" && push == token.NoPos {
						push = y.Pos()
					}
				}
				if _, ok := core.Unparen(y.Rhs[0]).(*ast.SliceExpr); ok {
					pop = y.Pos()
				}
			}
		case *ast.CallExpr:
			if cf := core.Callee(inf, y); cf != nil && core.NameOf(cf) == "Matches" {
				match = y.Pos()
			}
		}
		return true
	})
	c.Check(push != token.NoPos && match > push && pop > match, rel, "(*genericWriter).IsKeyExcluded", "pushes the key, matches the scope, pops it", ik.Pos(), "", "IsKeyExcluded does not push / match / pop in that order")
}

func identName(e ast.Expr) string {
	if id, ok := core.Unparen(e).(*ast.Ident); ok {
		return id.Name
	}
	return ""
}
