package rules

import (
	"fmt"
	"go/ast"
	"go/token"
	"go/types"
	"strings"

	"verif/checker/core"
)

func init() {
	core.Register(&core.Rule{
		ID:    "R07.8",
		Title: "the matcher never uses a path head computed before the path was advanced",
		Text: "In genericMatches every local derived from an element of the path slice (p0 := extract(path[0])) is recomputed after every reassignment of the slice before it is used again: " +
			"the $set / $delete segments are skipped by advancing the slice, and a head computed before the skip names the operator, not the field, so nothing below an operator ever matches.",
		Props: []string{"C07", "C11"},
		Floor: map[string]int{"v2": 1, "root": 1},
		Run:   runR078,
	})
	core.Register(&core.Rule{
		ID:    "R07.9",
		Title: "the matcher answers 'not excluded' only after consulting both the wildcard and the literal entry",
		Text: "In genericMatches every return that can yield false has, on every path to it, indexed the spec with the WildCard constant and with the path head (calls of a local closure are inlined; `a || b` yields false only after both operands ran). " +
			"Exempt: returns before any lookup that are guarded by a length test of a parameter (empty spec, operator as last segment). A spec may hold `*/x` next to `k/y`, so an answer taken from one entry alone is wrong for some spec.",
		Props: []string{"C07", "C11"},
		Floor: map[string]int{"v2": 1, "root": 1},
		Run:   runR079,
	})
}

func matcherDecl(c *core.Ctx) (*types.Info, *ast.FuncDecl, types.Object, types.Object) {
	const rel = "restlicodec"
	inf := info(c, rel)
	_, fd := mustDecl(c, rel, "genericMatches")
	if fd == nil || fd.Type.Params == nil || len(fd.Type.Params.List) < 2 {
		return inf, nil, nil, nil
	}
	return inf, fd, inf.Defs[fd.Type.Params.List[0].Names[0]], inf.Defs[fd.Type.Params.List[1].Names[0]]
}

func runR078(c *core.Ctx) {
	const rel = "restlicodec"
	inf, fd, _, pathObj := matcherDecl(c)
	if fd == nil || pathObj == nil {
		c.Unknown(rel, "genericMatches", "matcher shape", token.NoPos, "parameters (spec, path, …) not found")
		return
	}
	mentionsPathElem := func(e ast.Expr) bool {
		found := false
		ast.Inspect(e, func(x ast.Node) bool {
			if ix, ok := x.(*ast.IndexExpr); ok && core.ObjOf(inf, ix.X) == pathObj {
				found = true
			}
			return !found
		})
		return found
	}
	// derived locals
	var derived []types.Object
	idx := map[types.Object]int{}
	ast.Inspect(fd.Body, func(x ast.Node) bool {
		if as, ok := x.(*ast.AssignStmt); ok && len(as.Lhs) == len(as.Rhs) {
			for i, l := range as.Lhs {
				if o := core.ObjOf(inf, l); o != nil && o != pathObj && mentionsPathElem(as.Rhs[i]) {
					if _, seen := idx[o]; !seen && len(derived) < 7 {
						idx[o] = len(derived)
						derived = append(derived, o)
					}
				}
			}
		}
		return true
	})
	closures := localClosures(inf, fd)
	usesOf := func(n ast.Node, skipLHS *ast.AssignStmt) map[types.Object]bool {
		out := map[types.Object]bool{}
		var walk func(n ast.Node)
		walk = func(n ast.Node) {
			core.WalkNoFuncLit(n, func(x ast.Node) bool {
				switch y := x.(type) {
				case *ast.Ident:
					if o := inf.Uses[y]; o != nil {
						if _, ok := idx[o]; ok {
							out[o] = true
						}
						if fl := closures[o]; fl != nil {
							// calling (or passing) the closure uses what it captured
							ast.Inspect(fl.Body, func(z ast.Node) bool {
								if id, ok := z.(*ast.Ident); ok {
									if _, ok := idx[inf.Uses[id]]; ok {
										out[inf.Uses[id]] = true
									}
								}
								return true
							})
						}
					}
				}
				return true
			})
		}
		if skipLHS != nil {
			for _, r := range skipLHS.Rhs {
				walk(r)
			}
			for _, l := range skipLHS.Lhs {
				if _, isId := core.Unparen(l).(*ast.Ident); !isId {
					walk(l)
				}
			}
		} else {
			walk(n)
		}
		return out
	}
	var problems []string
	fl := core.NewFlow(c.M, inf, fd.Body)
	fl.Run(&core.Automaton{
		Init: 0,
		Node: func(st int, n ast.Node) int {
			as, _ := n.(*ast.AssignStmt)
			for o := range usesOf(n, as) {
				if st&(1<<uint(idx[o])) != 0 {
					problems = append(problems, fmt.Sprintf("%s: %s was computed from the path before the path was advanced and is used here without being recomputed", c.M.Position(n.Pos()), core.NameOf(o)))
				}
			}
			if as != nil {
				for i, l := range as.Lhs {
					o := core.ObjOf(inf, l)
					if o == nil {
						continue
					}
					if o == pathObj && as.Tok != token.DEFINE {
						st = (1 << uint(len(derived))) - 1 // everything derived is stale
					}
					if k, ok := idx[o]; ok && i < len(as.Rhs) {
						if mentionsPathElem(as.Rhs[i]) {
							st &^= 1 << uint(k)
						}
					}
				}
			}
			return st
		},
	})
	c.Check(len(problems) == 0 && len(derived) > 0, rel, "genericMatches", "locals derived from the path head are fresh wherever they are used", fd.Pos(), fmt.Sprintf("%d derived locals", len(derived)),
		strings.Join(dedupe(problems), "; ")+map[bool]string{true: "no local derived from a path element found (matcher shape changed)", false: ""}[len(derived) == 0])
}

// localClosures maps local variables bound once to a function literal.
func localClosures(inf *types.Info, fd *ast.FuncDecl) map[types.Object]*ast.FuncLit {
	out := map[types.Object]*ast.FuncLit{}
	ast.Inspect(fd.Body, func(x ast.Node) bool {
		if as, ok := x.(*ast.AssignStmt); ok && len(as.Lhs) == len(as.Rhs) {
			for i, l := range as.Lhs {
				if fl, ok := core.Unparen(as.Rhs[i]).(*ast.FuncLit); ok {
					if o := core.ObjOf(inf, l); o != nil {
						out[o] = fl
					}
				}
			}
		}
		return true
	})
	return out
}

func runR079(c *core.Ctx) {
	const rel = "restlicodec"
	inf, fd, specObj, _ := matcherDecl(c)
	if fd == nil || specObj == nil {
		c.Unknown(rel, "genericMatches", "matcher shape", token.NoPos, "parameters (spec, path, …) not found")
		return
	}
	analyseMatcherAnswers(c, inf, fd, specObj, map[*ast.FuncDecl]bool{}, true)
}

// analyseMatcherAnswers decides R07.9 for one function of the matcher; helpers that receive the spec are analysed the same
// way and, when they pass, a `return helper(spec, …)` counts as having consulted both entries.
func analyseMatcherAnswers(c *core.Ctx, inf *types.Info, fd *ast.FuncDecl, specObj types.Object, visiting map[*ast.FuncDecl]bool, report bool) bool {
	const rel = "restlicodec"
	visiting[fd] = true
	defer delete(visiting, fd)
	wildObj := mustObj(c, rel, "WildCard")
	closures := localClosures(inf, fd)
	const (
		wild = 1
		lit  = 2
	)
	_ = rel
	classifyKey := func(e ast.Expr, bind map[types.Object]ast.Expr) int {
		e = core.Unparen(e)
		if o := core.ObjOf(inf, e); o != nil {
			if b, ok := bind[o]; ok {
				e = core.Unparen(b)
			}
		}
		if o := core.ObjOf(inf, e); o != nil && o == wildObj {
			return wild
		}
		if v := core.ConstOf(inf, e); v != nil {
			if v.ExactString() == `"*"` {
				return wild
			}
			return 0 // some other constant key: neither
		}
		return lit
	}
	var undecided []string
	var lookups func(n ast.Node, bind map[types.Object]ast.Expr, depth int) int
	lookups = func(n ast.Node, bind map[types.Object]ast.Expr, depth int) int {
		got := 0
		core.WalkNoFuncLit(n, func(x ast.Node) bool {
			switch y := x.(type) {
			case *ast.IndexExpr:
				so := core.ObjOf(inf, y.X)
				if b, ok := bind[so]; ok && so != nil {
					so = core.ObjOf(inf, b) // the helper's spec parameter, bound to the caller's spec
				}
				if so == specObj {
					got |= classifyKey(y.Index, bind)
				}
			case *ast.CallExpr:
				// a helper of the matcher that is handed the spec
				if hf := core.Callee(inf, y); hf != nil && hf.Pkg() != nil && c.M.InModule(hf.Pkg()) {
					if hd := c.M.Decl(hf.Origin()); hd != nil && hd != fd && !visiting[hd] && hd.Type.Params != nil && hd.Body != nil {
						nb := map[types.Object]ast.Expr{}
						passesSpec := false
						var specParam types.Object
						k := 0
						for _, fl := range hd.Type.Params.List {
							for _, nm := range fl.Names {
								if k < len(y.Args) {
									arg := y.Args[k]
									if ao := core.ObjOf(inf, arg); ao != nil {
										if b, ok := bind[ao]; ok {
											arg = b
										}
									}
									nb[inf.Defs[nm]] = arg
									if core.ObjOf(inf, arg) == specObj {
										passesSpec = true
										specParam = inf.Defs[nm]
									}
								}
								k++
							}
						}
						if passesSpec && depth < 3 {
							// (a) a one-segment helper (the named-function form of the `matches` closure): the lookups of its
							// leading statement are certain to run, with its parameters bound to the arguments
							if len(hd.Body.List) > 0 {
								got |= lookups(hd.Body.List[0], nb, depth+1)
							}
							// (b) a helper that consults both entries on its own before any negative answer
							if got != wild|lit && analyseMatcherAnswers(c, inf, hd, specParam, visiting, false) {
								got |= wild | lit
							}
						}
					}
				}
				if id, ok := core.Unparen(y.Fun).(*ast.Ident); ok {
					if flit := closures[inf.Uses[id]]; flit != nil && depth < 3 {
						// inline: only lookups in the closure's leading statement are certain to run
						nb := map[types.Object]ast.Expr{}
						k := 0
						for _, f := range flit.Type.Params.List {
							for _, nm := range f.Names {
								if k < len(y.Args) {
									nb[inf.Defs[nm]] = y.Args[k]
								}
								k++
							}
						}
						if len(flit.Body.List) > 0 {
							got |= lookups(flit.Body.List[0], nb, depth+1)
						}
					}
				}
			}
			return true
		})
		return got
	}
	var whenFalse func(e ast.Expr) int
	whenFalse = func(e ast.Expr) int {
		e = core.Unparen(e)
		if be, ok := e.(*ast.BinaryExpr); ok {
			switch be.Op {
			case token.LOR:
				return whenFalse(be.X) | whenFalse(be.Y)
			case token.LAND:
				return whenFalse(be.X)
			}
		}
		return lookups(e, nil, 0)
	}
	par := core.Parents(fd.Body)
	isLenGuard := func(f core.Fact) bool {
		be, ok := core.Unparen(f.Expr).(*ast.BinaryExpr)
		if !ok || be.Op != token.EQL || !f.Val {
			return false
		}
		call, ok := core.Unparen(be.X).(*ast.CallExpr)
		if !ok || len(call.Args) != 1 {
			return false
		}
		if id, ok := core.Unparen(call.Fun).(*ast.Ident); !ok || id.Name != "len" {
			return false
		}
		if _, isParam := core.ObjOf(inf, call.Args[0]).(*types.Var); !isParam {
			return false
		}
		v := core.ConstOf(inf, be.Y)
		return v != nil && (v.ExactString() == "0" || v.ExactString() == "1")
	}
	var problems []string
	returns, exempt := 0, 0
	fl := core.NewFlow(c.M, inf, fd.Body)
	fl.Run(&core.Automaton{
		Init: 0,
		Node: func(st int, n ast.Node) int {
			if ret, ok := n.(*ast.ReturnStmt); ok {
				if len(ret.Results) != 1 {
					undecided = append(undecided, c.M.Position(ret.Pos())+": return without a single result")
					return st
				}
				if v := core.ConstOf(inf, ret.Results[0]); v != nil && v.ExactString() == "true" {
					return st
				}
				got := st | whenFalse(ret.Results[0])
				if got == wild|lit {
					return st
				}
				if st == 0 && whenFalse(ret.Results[0]) == 0 && core.GuardedByFact(inf, par, ret, isLenGuard, nil) {
					return st
				}
				missing := "the wildcard entry"
				if got&lit == 0 {
					missing = "the entry of the path head"
					if got == 0 {
						missing = "either entry"
					}
				}
				problems = append(problems, fmt.Sprintf("%s: a path reaches this (possibly false) answer without consulting %s of the spec", c.M.Position(ret.Pos()), missing))
				return st
			}
			return st | lookups(n, nil, 0)
		},
	})
	ast.Inspect(fd.Body, func(x ast.Node) bool {
		switch y := x.(type) {
		case *ast.FuncLit:
			return false
		case *ast.ReturnStmt:
			returns++
			if core.GuardedByFact(inf, par, y, isLenGuard, nil) {
				exempt++
			}
		}
		return true
	})
	name := core.DeclName(fd)
	if len(undecided) > 0 {
		if report {
			c.Unknown(rel, name, "negative answers consult both the wildcard and the literal entry", fd.Pos(), strings.Join(dedupe(undecided), "; "))
		}
		return false
	}
	if report {
		c.Check(len(problems) == 0 && returns > 0, rel, name, "negative answers consult both the wildcard and the literal entry", fd.Pos(),
			fmt.Sprintf("%d returns, %d of them length-guarded early exits", returns, exempt), strings.Join(dedupe(problems), "; "))
	}
	return len(problems) == 0 && returns > 0
}
