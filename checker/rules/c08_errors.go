package rules

import (
	"fmt"
	"go/ast"
	"go/constant"
	"go/token"
	"go/types"
	"strings"

	"verif/checker/core"
)

func init() {
	core.Register(&core.Rule{
		ID:    "R08.1",
		Title: "error objects returned by resource code are never written",
		Text: "In package restli no statement stores to a field of an *ErrorResponse (or through one of its pointer fields) unless the base value is a variable initialised in the same function from a composite literal or new(). " +
			"Error values obtained from a type assertion, a parameter or a call result belong to resource code and may be shared between requests.",
		Props: []string{"C08", "C17"},
		Floor: map[string]int{"v2": 1, "root": 1},
		Run:   runR081,
	})
	core.Register(&core.Rule{
		ID:    "R08.2",
		Title: "optional pointer fields are dereferenced only under their nil test",
		Text: "Every dereference *x.F of a pointer-typed field of a restli data struct (ErrorResponse, CreatedEntity, Elements, …) in the hand-written files of packages restli and common " +
			"is dominated by x.F != nil for the same x (if/else-if/tagless switch, either operand order) or by an assignment x.F = new(…)/&… in the same block, with no intervening store.",
		Props: []string{"C08", "C04"},
		Floor: map[string]int{"v2": 3, "root": 3},
		Run:   runR082,
	})
	core.Register(&core.Rule{
		ID:    "R08.3",
		Title: "default status table of the server adapters",
		Text: "ServeHTTP starts from status 200; each Register* adapter stores its method's protocol default into ResponseStatus before invoking the implementation — create 201, update/delete/partial_update 204, " +
			"partial_update with returned entity 200 — and overrides it from CreatedEntity.Status only under Status != 0; an *ErrorResponse with nil Status maps to 500 and every error response sets the error header.",
		Props: []string{"C08"},
		Floor: map[string]int{"v2": 9, "root": 8},
		Run:   runR083,
	})
	core.Register(&core.Rule{
		ID:    "R08.4",
		Title: "every implementation error becomes an error response",
		Text: "In each handler closure (methods, finders, actions) the path on which the implementation returned a non-nil error returns newErrorResponsef(err, S>=400, …) or the error itself when it already is an *ErrorResponse; " +
			"newErrorResponsef passes an *ErrorResponse cause through unchanged and otherwise builds a response with the given status.",
		Props: []string{"C08"},
		Floor: map[string]int{"v2": 4, "root": 4},
		Run:   runR084,
	})
	core.Register(&core.Rule{
		ID:    "R08.5",
		Title: "resource-provided code runs inside a recover that yields a 500",
		Text: "Every call in ServeHTTP/receive that executes resource-provided code — the handler and the response body's MarshalRestLi — lies in a function that has, before the call on every path, " +
			"a deferred function literal calling recover() and storing an error / producing an error answer.",
		Props: []string{"C08"},
		Floor: map[string]int{"v2": 2, "root": 2},
		Run:   runR085,
	})
	core.Register(&core.Rule{
		ID:    "R08.6",
		Title: "client maps error responses and unexpected statuses to errors",
		Text: "IsErrorResponse decides by the same ErrorResponseHeader constant the server sets, fills Status from the HTTP status only when the body had none (Status == nil guard), returns an *UnexpectedStatusCodeError " +
			"for every non-2xx status without the header, and nil only otherwise; Client.Do returns a nil response together with that error.",
		Props: []string{"C08"},
		Floor: map[string]int{"v2": 4, "root": 4},
		Run:   runR086,
	})
}

// dataPkgRel returns the module-relative path of the package holding ErrorResponse.
func dataPkgRel(c *core.Ctx) string {
	if c.M.Pkg("restlidata/generated/com/linkedin/restli/common") != nil {
		return "restlidata/generated/com/linkedin/restli/common"
	}
	return "restlidata"
}

func namedOf(t types.Type) *types.Named {
	if p, ok := t.(*types.Pointer); ok {
		t = p.Elem()
	}
	n, _ := t.(*types.Named)
	return n
}

func runR081(c *core.Ctx) {
	const rel = "restli"
	inf := info(c, rel)
	errRespT, _ := mustObj(c, dataPkgRel(c), "ErrorResponse").(*types.TypeName)
	sites := 0
	for _, fd := range c.M.FuncDecls(rel) {
		if fd.Body == nil {
			continue
		}
		fn := core.DeclName(fd)
		// local variables initialised from a fresh allocation
		freshVars := map[types.Object]bool{}
		ast.Inspect(fd.Body, func(n ast.Node) bool {
			as, ok := n.(*ast.AssignStmt)
			if !ok || as.Tok != token.DEFINE || len(as.Lhs) != len(as.Rhs) {
				return true
			}
			for i, r := range as.Rhs {
				// x := *p copies the struct: direct field stores on x do not touch *p
				if st, ok := core.Unparen(r).(*ast.StarExpr); ok {
					if tv, ok := inf.Types[st]; ok {
						if _, isStruct := tv.Type.Underlying().(*types.Struct); isStruct {
							if o := core.ObjOf(inf, as.Lhs[i]); o != nil {
								freshVars[o] = true
							}
						}
					}
				}
				if isFreshAlloc(inf, r) {
					if o := core.ObjOf(inf, as.Lhs[i]); o != nil {
						freshVars[o] = true
					}
				}
			}
			return true
		})
		ast.Inspect(fd.Body, func(n ast.Node) bool {
			var lhs []ast.Expr
			switch x := n.(type) {
			case *ast.AssignStmt:
				lhs = x.Lhs
			case *ast.IncDecStmt:
				lhs = []ast.Expr{x.X}
			default:
				return true
			}
			for _, l := range lhs {
				// find a selector chain whose some base has type *ErrorResponse / ErrorResponse
				base := storeBaseOfType(inf, l, errRespT)
				if base == nil {
					continue
				}
				sites++
				construct := fmt.Sprintf("store to %s", core.ExprString(l))
				root := rootIdent(base)
				ok := root != nil && freshVars[core.ObjOf(inf, root)]
				// an Error literal embedding ErrorResponse built in this function is fresh too
				c.Check(ok, rel, fn, construct, l.Pos(), "base is a fresh allocation of this function",
					"the error object was not allocated here (type assertion / parameter / call result): resource code may share it between requests")
			}
			return true
		})
	}
	if sites == 0 {
		c.Note("no store to an ErrorResponse field in package restli")
		// the rule is then vacuously true; keep one obligation so the floor is meaningful
		c.OK(rel, "-", "no store to any ErrorResponse field in the package", token.NoPos, "")
	}
}

func isFreshAlloc(inf *types.Info, e ast.Expr) bool {
	switch x := core.Unparen(e).(type) {
	case *ast.UnaryExpr:
		if x.Op == token.AND {
			_, ok := core.Unparen(x.X).(*ast.CompositeLit)
			return ok
		}
	case *ast.CompositeLit:
		return true
	case *ast.CallExpr:
		if id, ok := core.Unparen(x.Fun).(*ast.Ident); ok {
			if b, ok := inf.Uses[id].(*types.Builtin); ok && core.NameOf(b) == "new" {
				return true
			}
		}
	}
	return false
}

// storeBaseOfType returns the sub-expression of the store target l whose type
// is (pointer to) the named type T and below which a field is selected.
func storeBaseOfType(inf *types.Info, l ast.Expr, T *types.TypeName) ast.Expr {
	cur := core.Unparen(l)
	for {
		switch x := cur.(type) {
		case *ast.SelectorExpr:
			if tv, ok := inf.Types[x.X]; ok {
				if n := namedOf(tv.Type); n != nil && n.Obj() == T {
					return x.X
				}
				// promoted through embedding (restli.Error embeds ErrorResponse)
				if sel := inf.Selections[x]; sel != nil && len(sel.Index()) > 1 {
					if f, ok := sel.Obj().(*types.Var); ok && f.IsField() {
						if st, ok := T.Type().Underlying().(*types.Struct); ok {
							for i := 0; i < st.NumFields(); i++ {
								if st.Field(i) == f {
									return x.X
								}
							}
						}
					}
				}
			}
			cur = core.Unparen(x.X)
		case *ast.StarExpr:
			cur = core.Unparen(x.X)
		case *ast.IndexExpr:
			cur = core.Unparen(x.X)
		default:
			return nil
		}
	}
}

func rootIdent(e ast.Expr) *ast.Ident {
	cur := core.Unparen(e)
	for {
		switch x := cur.(type) {
		case *ast.Ident:
			return x
		case *ast.SelectorExpr:
			cur = core.Unparen(x.X)
		case *ast.StarExpr:
			cur = core.Unparen(x.X)
		case *ast.IndexExpr:
			cur = core.Unparen(x.X)
		default:
			return nil
		}
	}
}

func runR082(c *core.Ctx) {
	dataRel := dataPkgRel(c)
	dataPath := pkgPath(c, dataRel)
	n := 0
	for _, rel := range []string{"restli", dataRel} {
		p := c.M.Pkg(rel)
		if p == nil {
			continue
		}
		inf := p.TypesInfo
		for _, file := range p.Syntax {
			name := c.M.Fset.File(file.Pos()).Name()
			if strings.HasSuffix(name, ".gr.go") {
				continue // generated code is covered by the corpus rules
			}
			for _, d := range file.Decls {
				fd, ok := d.(*ast.FuncDecl)
				if !ok || fd.Body == nil {
					continue
				}
				par := core.Parents(fd)
				fn := core.DeclName(fd)
				ast.Inspect(fd.Body, func(x ast.Node) bool {
					star, ok := x.(*ast.StarExpr)
					if !ok {
						return true
					}
					sel, ok := core.Unparen(star.X).(*ast.SelectorExpr)
					if !ok {
						return true
					}
					fv, ok := core.ObjOf(inf, sel).(*types.Var)
					if !ok || !fv.IsField() || fv.Pkg() == nil || fv.Pkg().Path() != dataPath {
						return true
					}
					if _, isPtr := fv.Type().(*types.Pointer); !isPtr {
						return true
					}
					// is this a store target `*x.F = …` right after x.F = new(...)? handled by the same guard search
					n++
					stmt := core.EnclosingStmt(par, star)
					guarded := core.GuardedByFact(inf, par, stmt, func(f core.Fact) bool {
						e, nonNil, ok := core.NilTest(inf, f)
						return ok && nonNil && core.SameExpr(inf, e, sel)
					}, nil)
					if !guarded {
						guarded = assignedNonNilBefore(inf, par, stmt, sel)
					}
					// short-circuit inside one condition: x.F != nil && *x.F …
					if !guarded {
						guarded = shortCircuitGuard(inf, par, star, sel)
					}
					c.Check(guarded, rel, fn, fmt.Sprintf("dereference *%s #%d", core.ExprString(sel), ordinal(fd, star)), star.Pos(),
						"dominated by a nil test / fresh assignment", "optional field dereferenced on a path where it may be nil")
					return true
				})
			}
		}
	}
	_ = n
}

// assignedNonNilBefore looks, in the statement lists enclosing stmt, for an
// earlier assignment target = new(…) / &… / XPointer(…) with no later nil store.
func assignedNonNilBefore(inf *types.Info, par map[ast.Node]ast.Node, stmt ast.Node, target ast.Expr) bool {
	for cur := stmt; cur != nil; cur = par[cur] {
		list, idx := core.StmtListOf(par, cur)
		if idx < 0 {
			if _, isFn := cur.(*ast.FuncDecl); isFn {
				return false
			}
			continue
		}
		for i := idx - 1; i >= 0; i-- {
			as, ok := list[i].(*ast.AssignStmt)
			if !ok || len(as.Lhs) != len(as.Rhs) {
				continue
			}
			for j, l := range as.Lhs {
				if core.SameExpr(inf, l, target) {
					r := core.Unparen(as.Rhs[j])
					if isFreshAlloc(inf, r) {
						return true
					}
					if call, ok := r.(*ast.CallExpr); ok {
						if f := core.Callee(inf, call); f != nil && strings.HasSuffix(core.NameOf(f), "Pointer") || f != nil && strings.HasSuffix(core.NameOf(f), "Pointerf") {
							return true
						}
					}
					return false
				}
			}
		}
	}
	return false
}

// shortCircuitGuard handles `x.F != nil && … *x.F …` and `x.F == nil || … *x.F`.
func shortCircuitGuard(inf *types.Info, par map[ast.Node]ast.Node, star ast.Node, target ast.Expr) bool {
	child := star
	for cur := par[star]; cur != nil; cur = par[cur] {
		if be, ok := cur.(*ast.BinaryExpr); ok && (be.Op == token.LAND || be.Op == token.LOR) && be.Y == child {
			for _, f := range core.Decompose(be.X, be.Op == token.LAND, nil) {
				if e, nonNil, ok := core.NilTest(inf, f); ok && nonNil && core.SameExpr(inf, e, target) {
					return true
				}
			}
		}
		if _, isStmt := cur.(ast.Stmt); isStmt {
			return false
		}
		if e, ok := cur.(ast.Expr); ok {
			child = e
		}
	}
	return false
}

func runR083(c *core.Ctx) {
	const rel = "restli"
	inf := info(c, rel)
	reqCtx, _ := mustObj(c, rel, "RequestContext").(*types.TypeName)
	handlerT, _ := mustObj(c, rel, "handler").(*types.TypeName)
	want := map[string]int64{
		"RegisterCreate": 201, "RegisterCreateWithReturnEntity": 201,
		"RegisterUpdate": 204, "RegisterDelete": 204, "RegisterPartialUpdate": 204,
		"RegisterPartialUpdateWithReturnEntity": 200,
	}
	isStatusField := func(e ast.Expr) bool {
		fv, ok := core.ObjOf(inf, e).(*types.Var)
		return ok && fv.IsField() && core.NameOf(fv) == "ResponseStatus"
	}
	for name, status := range want {
		f := c.M.LookupFunc(rel, name)
		if f == nil {
			if name == "RegisterPartialUpdateWithReturnEntity" && c.M.Name == "root" {
				continue
			}
			panic(&core.AnchorError{Pkg: rel, Name: name, What: "function"})
		}
		fd := c.M.Decl(f)
		// the adapter closure: a FuncLit that calls the implementation parameter
		okStatus, why := false, "no adapter closure stores the default status before calling the implementation"
		ast.Inspect(fd.Body, func(n ast.Node) bool {
			fl, ok := n.(*ast.FuncLit)
			if !ok {
				return true
			}
			var assign *ast.AssignStmt
			var implCall *ast.CallExpr
			for _, s := range fl.Body.List {
				if as, ok := s.(*ast.AssignStmt); ok && len(as.Lhs) == 1 && isStatusField(as.Lhs[0]) && assign == nil && implCall == nil {
					assign = as
				}
				ast.Inspect(s, func(m ast.Node) bool {
					if call, ok := m.(*ast.CallExpr); ok && implCall == nil && isResourceCallback(inf, call, reqCtx, handlerT) {
						implCall = call
					}
					return true
				})
			}
			if implCall == nil {
				return true
			}
			if assign == nil {
				why = "the adapter calls the implementation without first storing the method's default status"
				return false
			}
			cv := core.ConstOf(inf, assign.Rhs[0])
			if cv == nil {
				why = "default status is not a constant"
				return false
			}
			v, _ := constant.Int64Val(cv)
			if v != status {
				why = fmt.Sprintf("default status is %d, protocol default is %d", v, status)
				return false
			}
			okStatus = true
			why = fmt.Sprintf("%d stored before the implementation call", v)
			return false
		})
		c.Check(okStatus, rel, name, fmt.Sprintf("default status %d stored before the implementation runs", status), fd.Pos(), why, why)
		// override only under Status != 0
		if strings.HasPrefix(name, "RegisterCreate") {
			par := core.Parents(fd)
			found, guarded := false, false
			ast.Inspect(fd.Body, func(n ast.Node) bool {
				as, ok := n.(*ast.AssignStmt)
				if !ok || len(as.Lhs) != 1 || !isStatusField(as.Lhs[0]) {
					return true
				}
				if core.ConstOf(inf, as.Rhs[0]) != nil {
					return true
				}
				found = true
				guarded = core.GuardedByFact(inf, par, as, func(f core.Fact) bool {
					be, ok := core.Unparen(f.Expr).(*ast.BinaryExpr)
					if !ok {
						return false
					}
					isZero := func(e ast.Expr) bool { cv := core.ConstOf(inf, e); return cv != nil && cv.ExactString() == "0" }
					if (be.Op == token.NEQ) == f.Val && (be.Op == token.NEQ || be.Op == token.EQL) {
						return (isZero(be.Y) && core.SameExpr(inf, be.X, as.Rhs[0])) || (isZero(be.X) && core.SameExpr(inf, be.Y, as.Rhs[0]))
					}
					return false
				}, nil)
				return true
			})
			c.Check(found && guarded, rel, name, "implementation status overrides the default only when non-zero", fd.Pos(), "", fmt.Sprintf("override present=%v guarded by != 0: %v", found, guarded))
		}
	}
	// ServeHTTP: initial status 200; nil Status -> 500; error header on the ErrorResponse branch
	_, serve := mustDecl(c, rel, "(*rootNode).ServeHTTP")
	init200 := false
	ast.Inspect(serve.Body, func(n ast.Node) bool {
		if kv, ok := n.(*ast.KeyValueExpr); ok {
			if id, ok := kv.Key.(*ast.Ident); ok && id.Name == "ResponseStatus" {
				if cv := core.ConstOf(inf, kv.Value); cv != nil && cv.ExactString() == "200" {
					init200 = true
				}
			}
		}
		return true
	})
	c.Check(init200, rel, "(*rootNode).ServeHTTP", "request context starts with status 200", serve.Pos(), "", "ResponseStatus is not initialised to http.StatusOK")
	// nil status -> 500
	_ = core.Parents
	nil500 := false
	hdr := false
	errHeader := mustObj(c, rel, "ErrorResponseHeader")
	// on every path on which the error's Status is known nil, the status field holds 500 when the header is written.  The
	// status may travel through one local (a helper that returns it, spliced in; a default that is overridden).
	statusLocal := map[types.Object]bool{}
	ast.Inspect(serve.Body, func(n ast.Node) bool {
		if as, ok := n.(*ast.AssignStmt); ok && len(as.Lhs) == len(as.Rhs) {
			for i, l := range as.Lhs {
				if isStatusField(l) {
					if id, ok := core.Unparen(as.Rhs[i]).(*ast.Ident); ok {
						if v, ok := inf.Uses[id].(*types.Var); ok && !v.IsField() {
							statusLocal[v] = true
						}
					}
				}
			}
		}
		if call, ok := n.(*ast.CallExpr); ok {
			if f := core.Callee(inf, call); f != nil && core.NameOf(f) == "Set" && len(call.Args) == 2 && core.ObjOf(inf, call.Args[0]) == errHeader {
				hdr = true
			}
		}
		return true
	})
	const (
		vUnknown = 0
		v500     = 1
		vOther   = 2
	)
	// state = field class + 3*local class + 9*(Status known nil)
	nilSeen, nilBad := false, ""
	classOf := func(st int, e ast.Expr) int {
		if cv := core.ConstOf(inf, e); cv != nil {
			if cv.ExactString() == "500" {
				return v500
			}
			return vOther
		}
		if id, ok := core.Unparen(e).(*ast.Ident); ok && statusLocal[core.ObjOf(inf, id)] {
			return (st / 3) % 3
		}
		if isStatusField(e) {
			return st % 3
		}
		return vOther
	}
	core.NewFlow(c.M, inf, serve.Body).Run(&core.Automaton{
		Node: func(st int, n ast.Node) int {
			switch x := n.(type) {
			case *ast.AssignStmt:
				if len(x.Lhs) == len(x.Rhs) {
					field, local, known := st%3, (st/3)%3, st/9
					nf, nl := field, local
					for i, l := range x.Lhs {
						if isStatusField(l) {
							nf = classOf(st, x.Rhs[i])
						} else if id, ok := core.Unparen(l).(*ast.Ident); ok && statusLocal[core.ObjOf(inf, id)] {
							nl = classOf(st, x.Rhs[i])
						}
					}
					st = nf + 3*nl + 9*known
				}
			case *ast.DeclStmt:
				// var status int
			}
			for _, call := range core.CallsIn(n) {
				if f := core.Callee(inf, call); f != nil && core.NameOf(f) == "WriteHeader" && st/9 == 1 {
					nilSeen = true
					if st%3 != v500 && nilBad == "" {
						nilBad = c.M.Position(call.Pos())
					}
				}
			}
			return st
		},
		Edge: func(st int, facts []core.Fact) (int, bool) {
			for _, f := range facts {
				e, nonNil, ok := core.NilTest(inf, f)
				if !ok {
					continue
				}
				if fv, isF := core.ObjOf(inf, e).(*types.Var); isF && fv.IsField() && core.NameOf(fv) == "Status" {
					if nonNil {
						st = st % 9
					} else {
						st = st%9 + 9
					}
				}
			}
			return st, true
		},
	})
	nil500 = nilSeen && nilBad == ""
	c.Check(nil500, rel, "(*rootNode).ServeHTTP", "error response without status maps to 500", serve.Pos(), "", fmt.Sprintf("a path on which the error's Status is nil reaches WriteHeader: %v; status is not 500 there: %s", nilSeen, nilBad))
	c.Check(hdr, rel, "(*rootNode).ServeHTTP", "error header set for error responses", serve.Pos(), "", "ErrorResponseHeader is never set")
}

func runR084(c *core.Ctx) {
	const rel = "restli"
	inf := info(c, rel)
	errResp := mustFunc(c, rel, "newErrorResponsef")
	reqCtx, _ := mustObj(c, rel, "RequestContext").(*types.TypeName)
	handlerT, _ := mustObj(c, rel, "handler").(*types.TypeName)
	for _, name := range []string{"registerMethod", "registerFinder", "registerAction"} {
		_, fd := mustDecl(c, rel, name)
		var lit *ast.FuncLit
		ast.Inspect(fd.Body, func(n ast.Node) bool {
			if fl, ok := n.(*ast.FuncLit); ok && lit == nil {
				if nt, ok := inf.Types[fl].Type.(*types.Signature); ok && nt.Params().Len() == 3 {
					lit = fl
				}
			}
			return true
		})
		if lit == nil {
			c.Unknown(rel, name, "handler closure", fd.Pos(), "not found")
			continue
		}
		// a `return newErrorResponsef(err, S >= 400, …)` of the implementation's error on a branch where that error is known
		// to be non-nil (if / else-if, early return, default clause of a switch on the error or on its type)
		okWrap, why := false, "no conversion of the implementation's error into an error response"
		lpar := core.Parents(lit)
		var implErr types.Object
		ast.Inspect(lit.Body, func(m ast.Node) bool {
			if as, ok := m.(*ast.AssignStmt); ok && len(as.Rhs) == 1 {
				if call, ok := core.Unparen(as.Rhs[0]).(*ast.CallExpr); ok && isResourceCallback(inf, call, reqCtx, handlerT) {
					if o := core.ObjOf(inf, as.Lhs[len(as.Lhs)-1]); o != nil && core.IsErrorType(o.Type()) {
						implErr = o
					}
				}
			}
			return true
		})
		for _, r := range core.ReturnsIn(lit.Body) {
			if len(r.Results) != 1 {
				continue
			}
			st, ok := statusOfErrorResponsef(inf, r.Results[0], errResp)
			if !ok {
				continue
			}
			call := core.Unparen(r.Results[0]).(*ast.CallExpr)
			if implErr == nil || core.ObjOf(inf, call.Args[0]) != implErr {
				continue
			}
			if st < 400 {
				why = fmt.Sprintf("wrapped with status %d", st)
				continue
			}
			if core.GuardedNonNil(inf, lpar, r, implErr) {
				okWrap = true
				why = fmt.Sprintf("wrapped with status %d", st)
			} else {
				why = "the conversion is not on a branch where the implementation's error is known to be non-nil"
			}
		}
		c.Check(okWrap, rel, name, "implementation error is converted with newErrorResponsef(err, >=400)", lit.Pos(), why, why)
	}
	// newErrorResponsef passes an *ErrorResponse through
	_, ed := mustDecl(c, rel, "newErrorResponsef")
	errRespT, _ := mustObj(c, dataPkgRel(c), "ErrorResponse").(*types.TypeName)
	pass := false
	// a `return nil, X` where X is the cause asserted to *ErrorResponse: the variable of a comma-ok assertion (returned
	// under its ok flag) or the variable of a type-switch clause `case *ErrorResponse`
	edpar := core.Parents(ed)
	isErrResp := func(t types.Type) bool {
		pt, ok := t.(*types.Pointer)
		if !ok {
			return false
		}
		n := namedOf(pt.Elem())
		return n != nil && n.Obj() == errRespT
	}
	for _, r := range core.ReturnsIn(ed.Body) {
		if len(r.Results) != 2 {
			continue
		}
		xo := core.ObjOf(inf, r.Results[1])
		if xo == nil || !isErrResp(xo.Type()) {
			continue
		}
		// (a) comma-ok assertion of a parameter
		ast.Inspect(ed.Body, func(m ast.Node) bool {
			as, ok := m.(*ast.AssignStmt)
			if !ok || len(as.Rhs) != 1 || len(as.Lhs) != 2 || core.ObjOf(inf, as.Lhs[0]) != xo {
				return true
			}
			ta, ok := core.Unparen(as.Rhs[0]).(*ast.TypeAssertExpr)
			if !ok || !isParamOf(inf, ed, asVar(core.ObjOf(inf, ta.X))) {
				return true
			}
			okVar := core.ObjOf(inf, as.Lhs[1])
			if core.GuardedByFact(inf, edpar, r, func(f core.Fact) bool {
				id, isId := core.Unparen(f.Expr).(*ast.Ident)
				return isId && f.Val && core.ObjOf(inf, id) == okVar
			}, nil) {
				pass = true
			}
			return true
		})
		// (b) the implicit variable of a type-switch clause on a parameter
		for p := edpar[r]; p != nil && !pass; p = edpar[p] {
			cc, ok := p.(*ast.CaseClause)
			if !ok || inf.Implicits[cc] != xo {
				continue
			}
			if body, ok := edpar[cc].(*ast.BlockStmt); ok {
				if ts, ok := edpar[body].(*ast.TypeSwitchStmt); ok {
					if subj := core.TypeSwitchSubject(ts); subj != nil && isParamOf(inf, ed, asVar(core.ObjOf(inf, subj))) {
						pass = true
					}
				}
			}
		}
	}
	c.Check(pass, rel, "newErrorResponsef", "an *ErrorResponse cause is passed through unchanged", ed.Pos(), "", "the first statement does not return the asserted *ErrorResponse cause")
}

func runR085(c *core.Ctx) {
	const rel = "restli"
	inf := info(c, rel)
	reqCtx, _ := mustObj(c, rel, "RequestContext").(*types.TypeName)
	handlerT, _ := mustObj(c, rel, "handler").(*types.TypeName)
	codec := pkgPath(c, "restlicodec")
	isRecoverDefer := func(d *ast.DeferStmt) bool {
		// the deferred function: a literal, or a function of the module that is deferred directly (recover() only works in
		// the function that was deferred itself)
		var body *ast.BlockStmt
		inf := inf
		if fl, ok := core.Unparen(d.Call.Fun).(*ast.FuncLit); ok {
			body = fl.Body
		} else if f := core.Callee(inf, d.Call); f != nil && c.M.InModule(f.Pkg()) {
			if hd := c.M.Decl(f.Origin()); hd != nil && hd.Body != nil {
				if hinf := c.M.InfoFor(hd.Pos()); hinf != nil {
					body, inf = hd.Body, hinf
				}
			}
		}
		if body == nil {
			return false
		}
		rec, stores := false, false
		ast.Inspect(body, func(n ast.Node) bool {
			if _, nested := n.(*ast.FuncLit); nested {
				return false // recover() in a nested literal does not recover the panic
			}
			switch x := n.(type) {
			case *ast.CallExpr:
				if id, ok := core.Unparen(x.Fun).(*ast.Ident); ok {
					if b, ok := inf.Uses[id].(*types.Builtin); ok && core.NameOf(b) == "recover" {
						rec = true
					}
				}
				if f := core.Callee(inf, x); core.IsFunc(f, "net/http", "Error") {
					stores = true
				}
			case *ast.AssignStmt:
				for _, l := range x.Lhs {
					if tv, ok := inf.Types[l]; ok && core.IsErrorType(tv.Type) {
						stores = true
					}
				}
			}
			return true
		})
		return rec && stores
	}
	check := func(fnName string, fd *ast.FuncDecl, match func(*ast.CallExpr) string) {
		// every enclosing function body (FuncDecl or FuncLit) of the call must have the recover defer before it on all paths
		var visit func(body *ast.BlockStmt, owner ast.Node)
		visit = func(body *ast.BlockStmt, owner ast.Node) {
			flow := core.NewFlow(c.M, inf, body)
			results := map[*ast.CallExpr]bool{}
			names := map[*ast.CallExpr]string{}
			auto := &core.Automaton{
				Init: 0,
				Node: func(state int, n ast.Node) int {
					if d, ok := n.(*ast.DeferStmt); ok && isRecoverDefer(d) {
						return 1
					}
					for _, call := range core.CallsIn(n) {
						if nm := match(call); nm != "" {
							names[call] = nm
							if prev, seen := results[call]; seen {
								results[call] = prev && state == 1
							} else {
								results[call] = state == 1
							}
						}
					}
					return state
				},
			}
			flow.Run(auto)
			for call, ok := range results {
				c.Check(ok, rel, fnName, fmt.Sprintf("%s #%d runs under a deferred recover", names[call], ordinal(fd, call)), call.Pos(), "",
					"a panic in resource-provided code here is not converted into an error answer (the connection is dropped)")
			}
			for _, fl := range core.FuncLitsIn(body) {
				visit(fl.Body, fl)
			}
		}
		visit(fd.Body, fd)
	}
	_, recv := mustDecl(c, rel, "(*pathNode).receive")
	_, serve := mustDecl(c, rel, "(*rootNode).ServeHTTP")
	matcher := func(call *ast.CallExpr) string {
		if isResourceCallback(inf, call, reqCtx, handlerT) {
			return "handler call"
		}
		if f := core.Callee(inf, call); f != nil && core.NameOf(f) == "MarshalRestLi" && f.Pkg() != nil && f.Pkg().Path() == codec {
			return "response body MarshalRestLi"
		}
		return ""
	}
	check("(*pathNode).receive", recv, matcher)
	check("(*rootNode).ServeHTTP", serve, matcher)
	// helper functions of the package that ServeHTTP delegates marshaling to
	for _, fd := range c.M.FuncDecls(rel) {
		if fd == recv || fd == serve || fd.Body == nil {
			continue
		}
		called := false
		ast.Inspect(serve.Body, func(n ast.Node) bool {
			if call, ok := n.(*ast.CallExpr); ok {
				if f := core.Callee(inf, call); f != nil && c.M.Decl(f.Origin()) == fd {
					called = true
				}
			}
			return true
		})
		if called {
			check(core.DeclName(fd), fd, func(call *ast.CallExpr) string {
				if f := core.Callee(inf, call); f != nil && core.NameOf(f) == "MarshalRestLi" && f.Pkg() != nil && f.Pkg().Path() == codec {
					// only dynamic dispatch on the Marshaler interface (resource-provided value)
					if sig, ok := f.Type().(*types.Signature); ok && sig.Recv() != nil {
						if _, isIface := sig.Recv().Type().Underlying().(*types.Interface); isIface {
							return "response body MarshalRestLi"
						}
					}
				}
				return ""
			})
		}
	}
}

func runR086(c *core.Ctx) {
	const rel = "restli"
	inf := info(c, rel)
	_, fd := mustDecl(c, rel, "IsErrorResponse")
	errHeader := mustObj(c, rel, "ErrorResponseHeader")
	unexpT, _ := mustObj(c, rel, "UnexpectedStatusCodeError").(*types.TypeName)
	par := core.Parents(fd)
	usesHeader := false
	statusGuard := false
	unexpected := false
	nilOnlyLast := true
	ast.Inspect(fd.Body, func(n ast.Node) bool {
		switch x := n.(type) {
		case *ast.CallExpr:
			if f := core.Callee(inf, x); f != nil && core.NameOf(f) == "Get" && len(x.Args) == 1 && core.ObjOf(inf, x.Args[0]) == errHeader {
				usesHeader = true
			}
		case *ast.AssignStmt:
			if len(x.Lhs) == 1 {
				if fv, ok := core.ObjOf(inf, x.Lhs[0]).(*types.Var); ok && fv.IsField() && core.NameOf(fv) == "Status" {
					statusGuard = core.GuardedByFact(inf, par, x, func(f core.Fact) bool {
						e, nonNil, ok := core.NilTest(inf, f)
						return ok && !nonNil && core.SameExpr(inf, e, x.Lhs[0])
					}, nil)
				}
			}
		case *ast.ReturnStmt:
			if len(x.Results) == 1 {
				if u, ok := core.Unparen(x.Results[0]).(*ast.UnaryExpr); ok {
					if cl, ok := u.X.(*ast.CompositeLit); ok {
						if n := namedOf(inf.Types[cl].Type); n != nil && n.Obj() == unexpT {
							// guarded by StatusCode/100 != 2
							unexpected = core.GuardedByFact(inf, par, x, func(f core.Fact) bool {
								be, ok := core.Unparen(f.Expr).(*ast.BinaryExpr)
								if !ok || !f.Val || be.Op != token.NEQ {
									return false
								}
								cv := core.ConstOf(inf, be.Y)
								div, isDiv := core.Unparen(be.X).(*ast.BinaryExpr)
								return cv != nil && cv.ExactString() == "2" && isDiv && div.Op == token.QUO
							}, nil)
						}
					}
				}
				if core.IsNil(inf, x.Results[0]) {
					// must be the last statement of the function
					if fd.Body.List[len(fd.Body.List)-1] != ast.Stmt(x) {
						nilOnlyLast = false
					}
				}
			}
		}
		return true
	})
	c.Check(usesHeader, rel, "IsErrorResponse", "decides by the ErrorResponseHeader constant", fd.Pos(), "", "the header constant the server sets is not the one read")
	c.Check(statusGuard, rel, "IsErrorResponse", "HTTP status fills Status only when the body had none", fd.Pos(), "", "Status is overwritten without a Status == nil guard")
	_, _ = unexpected, nilOnlyLast
	// possible worlds over two atoms — H: the error header is "true"; S: the status is 2xx.  Every condition of the function
	// is evaluated in each world (three-valued); a branch keeps the worlds in which its condition can hold.  Then:
	//   return nil                          only in worlds with !H && S
	//   return &UnexpectedStatusCodeError   only in worlds with !H && !S
	//   return <*Error>                     only in worlds with H
	var headerVar types.Object
	isHeaderExpr := func(e ast.Expr) bool {
		found := false
		ast.Inspect(e, func(n ast.Node) bool {
			if id, ok := n.(*ast.Ident); ok && inf.Uses[id] == errHeader {
				found = true
			}
			return !found
		})
		return found
	}
	ast.Inspect(fd.Body, func(n ast.Node) bool {
		if as, ok := n.(*ast.AssignStmt); ok && len(as.Lhs) == 1 && len(as.Rhs) == 1 && isHeaderExpr(as.Rhs[0]) {
			if b, ok := inf.Types[as.Rhs[0]].Type.Underlying().(*types.Basic); ok && b.Kind() == types.Bool {
				headerVar = core.ObjOf(inf, as.Lhs[0])
			}
		}
		return true
	})
	const (
		tT = 1
		tF = 0
		tU = 2
	)
	var eval func(e ast.Expr, h, s2 bool) int
	eval = func(e ast.Expr, h, s2 bool) int {
		b2i := func(b bool) int {
			if b {
				return tT
			}
			return tF
		}
		e = core.Unparen(e)
		switch x := e.(type) {
		case *ast.Ident:
			if headerVar != nil && inf.Uses[x] == headerVar {
				return b2i(h)
			}
		case *ast.UnaryExpr:
			if x.Op == token.NOT {
				switch eval(x.X, h, s2) {
				case tT:
					return tF
				case tF:
					return tT
				}
				return tU
			}
		case *ast.BinaryExpr:
			switch x.Op {
			case token.LAND:
				l, r := eval(x.X, h, s2), eval(x.Y, h, s2)
				if l == tF || r == tF {
					return tF
				}
				if l == tT && r == tT {
					return tT
				}
				return tU
			case token.LOR:
				l, r := eval(x.X, h, s2), eval(x.Y, h, s2)
				if l == tT || r == tT {
					return tT
				}
				if l == tF && r == tF {
					return tF
				}
				return tU
			case token.EQL, token.NEQ:
				if isHeaderExpr(x.X) || isHeaderExpr(x.Y) {
					// <header value> == "true"
					for _, side := range []ast.Expr{x.X, x.Y} {
						if cv := core.ConstOf(inf, side); cv != nil && cv.ExactString() == `"true"` {
							return b2i(h == (x.Op == token.EQL))
						}
					}
					return tU
				}
				// StatusCode/100 == 2
				for i, side := range []ast.Expr{x.X, x.Y} {
					other := []ast.Expr{x.Y, x.X}[i]
					if cv := core.ConstOf(inf, other); cv != nil && cv.ExactString() == "2" {
						if div, ok := core.Unparen(side).(*ast.BinaryExpr); ok && div.Op == token.QUO {
							if d := core.ConstOf(inf, div.Y); d != nil && d.ExactString() == "100" {
								if sel, ok := core.Unparen(div.X).(*ast.SelectorExpr); ok && sel.Sel.Name == "StatusCode" {
									return b2i(s2 == (x.Op == token.EQL))
								}
							}
						}
					}
				}
			}
		}
		return tU
	}
	worlds := [4][2]bool{{false, false}, {false, true}, {true, false}, {true, true}}
	var wrong []string
	nRet := map[string]int{}
	core.NewFlow(c.M, inf, fd.Body).Run(&core.Automaton{
		Init: 15,
		Node: func(st int, n ast.Node) int {
			r, ok := n.(*ast.ReturnStmt)
			if !ok || len(r.Results) != 1 {
				return st
			}
			kind := ""
			e := core.Unparen(r.Results[0])
			switch {
			case core.IsNil(inf, e):
				kind = "nil"
			default:
				t := inf.Types[e].Type
				if pt, ok := t.(*types.Pointer); ok {
					if nn := namedOf(pt.Elem()); nn != nil {
						switch core.NameOf(nn.Obj()) {
						case "UnexpectedStatusCodeError":
							kind = "unexpected"
						case "Error":
							kind = "resterror"
						}
					}
				}
			}
			if kind == "" {
				return st // an I/O error from reading the body
			}
			nRet[kind]++
			for w := 0; w < 4; w++ {
				if st&(1<<uint(w)) == 0 {
					continue
				}
				h, s2 := worlds[w][0], worlds[w][1]
				okWorld := (kind == "nil" && !h && s2) || (kind == "unexpected" && !h && !s2) || (kind == "resterror" && h)
				if !okWorld {
					wrong = append(wrong, fmt.Sprintf("%s: returns %s although header=%v 2xx=%v is possible here", c.M.Position(r.Pos()), map[string]string{"nil": "nil", "unexpected": "an UnexpectedStatusCodeError", "resterror": "a Rest.li Error"}[kind], h, s2))
				}
			}
			return st
		},
		Edge: func(st int, facts []core.Fact) (int, bool) {
			for _, f := range facts {
				if f.Tag != nil {
					continue
				}
				for w := 0; w < 4; w++ {
					if st&(1<<uint(w)) == 0 {
						continue
					}
					v := eval(f.Expr, worlds[w][0], worlds[w][1])
					if (v == tT && !f.Val) || (v == tF && f.Val) {
						st &^= 1 << uint(w)
					}
				}
			}
			return st, st != 0
		},
	})
	c.Check(len(wrong) == 0 && nRet["nil"] > 0 && nRet["unexpected"] > 0 && nRet["resterror"] > 0, rel, "IsErrorResponse", "non-2xx without the header yields UnexpectedStatusCodeError; nil only afterwards", fd.Pos(),
		fmt.Sprintf("returns: nil %d, unexpected-status %d, Rest.li error %d — each only in the worlds it belongs to", nRet["nil"], nRet["unexpected"], nRet["resterror"]),
		strings.Join(dedupe(wrong), "; ")+fmt.Sprintf(" (returns found: nil %d, unexpected-status %d, Rest.li error %d)", nRet["nil"], nRet["unexpected"], nRet["resterror"]))
	// Client.Do returns nil response with the error
	_, do := mustDecl(c, rel, "(*Client).Do")
	isErr := mustFunc(c, rel, "IsErrorResponse")
	okDo := false
	for i, s := range do.Body.List {
		as, ok := s.(*ast.AssignStmt)
		if !ok || len(as.Rhs) != 1 {
			continue
		}
		call, ok := core.Unparen(as.Rhs[0]).(*ast.CallExpr)
		if !ok || core.Callee(inf, call) != isErr || i+1 >= len(do.Body.List) {
			continue
		}
		if ifs, ok := do.Body.List[i+1].(*ast.IfStmt); ok {
			for _, bs := range ifs.Body.List {
				if r, ok := bs.(*ast.ReturnStmt); ok && len(r.Results) == 2 && core.IsNil(inf, r.Results[0]) && core.ObjOf(inf, r.Results[1]) == core.ObjOf(inf, as.Lhs[0]) {
					okDo = true
				}
			}
		}
	}
	c.Check(okDo, rel, "(*Client).Do", "an error response is returned as (nil, err)", do.Pos(), "", "Do does not return the IsErrorResponse error with a nil response")
}
