package rules

import (
	"fmt"
	"go/ast"
	"go/constant"
	"go/token"
	"go/types"
	"golang.org/x/tools/go/cfg"
	"os"
	"sort"
	"strings"

	"verif/checker/core"
)

func init() {
	core.Register(&core.Rule{
		ID:    "R09.1",
		Title: "no map iteration order reaches serialized or hashed output",
		Text: "Every `range` over a map (and reflect MapRange/MapKeys loop) in the runtime packages (restlicodec, restli, batchkeyset, equals, patch, restlidata, common, fnv1a) is classified by the effects of its body, from types: " +
			"a call or store that passes a shared sink (Writer, Hash, strings.Builder, bytes.Buffer, io.Writer) not created inside the iteration is order-sensitive and is a violation, unless the sink is per-entry " +
			"(result of the key-writer func(string) Writer, a slot &s[i] of a slice that is sorted afterwards, a writer created in the body).  Appends to a slice are accepted only if the slice reaches sort.* before any other use " +
			"in the same function, or is returned and every caller sorts it first.  Map inserts/deletes, AddKey, pure predicates and error returns are order-insensitive.  Decode-side loops are listed, not judged.",
		Props:   []string{"C09", "C10"},
		Modules: []string{"v2"},
		Floor:   map[string]int{"v2": 8},
		Run:     runR091,
	})
	core.Register(&core.Rule{
		ID:    "R09.2",
		Title: "the sorting sinks sort ascending by key before anything is emitted",
		Text: "In genericWriter.WriteMap and BuildQueryParams every path from the return of the user callback to the first emission of an entry passes through sort.Slice/sort.Sort/slices.SortFunc on the buffered entries, " +
			"with a less function of the exact shape entries[i].K < entries[j].K on the entry key (operator and operands checked); entries are written to per-key sub-buffers and dumped only inside the loop after the sort.",
		Props:   []string{"C09"},
		Modules: []string{"v2"},
		Floor:   map[string]int{"v2": 4},
		Run:     runR092,
	})
	core.Register(&core.Rule{
		ID:    "R09.3",
		Title: "no ambient nondeterminism in serialization and hashing packages",
		Text:  "restlicodec, fnv1a, restli/equals, restli/batchkeyset and the data packages call nothing from time, math/rand, crypto/rand, os (env, pid, hostname) or runtime, and do not format with %p; fnv1a reads no package-level variable.",
		Props: []string{"C09", "C10"},
		Floor: map[string]int{"v2": 5, "root": 4},
		Run:   runR093,
	})
	core.Register(&core.Rule{
		ID:    "R10.3",
		Title: "float hashing does not distinguish what float equality identifies",
		Text: "The equals helpers compare floats with == (so +0 and -0 are equal); therefore each fnv1a AddFloatNN must canonicalise zero before taking the bit pattern: the argument of math.FloatNNbits is the parameter " +
			"only after `if v == 0 { v = 0 }` (or is `v + 0`).  Contradiction rule: belief in package equals vs belief in package fnv1a.",
		Props: []string{"C10"},
		Floor: map[string]int{"v2": 2, "root": 2},
		Run:   runR103,
	})
	core.Register(&core.Rule{
		ID:    "R10.4",
		Title: "equality helpers: length first, every element, nil handling",
		Text: "GenericArray and GenericMap, on the control flow graph: anything but the constant false is returned only on paths where the two lengths compared equal and a loop over one of the containers (range, or index from 0 by 1 below len) " +
			"ran to its natural end, every iteration of which reached the loop head again only through the true outcome of equals(P[k], Q[k]) on the two different containers (and, for maps, of the presence test of k in the other map); " +
			"GenericPointer is evaluated over all combinations of (left nil, right nil, same pointer, elements equal) and must equal: both nil or same pointer -> true, exactly one nil -> false, else elements equal (A-finite, exhaustive).",
		Props: []string{"C10"},
		Floor: map[string]int{"v2": 3, "root": 3},
		Run:   runR104,
	})
}

var sinkTypeNames = map[string]bool{"Writer": true, "genericWriter": true, "rawWriter": true, "Hash": true, "hash": true, "Builder": true, "Buffer": true, "Statement": true, "Group": true, "File": true, "ror2Writer": true, "jsonWriter": true}

func isSinkType(t types.Type) bool {
	if t == nil {
		return false
	}
	if p, ok := t.(*types.Pointer); ok {
		t = p.Elem()
	}
	n, ok := t.(*types.Named)
	if !ok {
		return false
	}
	if sinkTypeNames[core.NameOf(n.Obj())] {
		return true
	}
	return false
}

type mapRangeSite struct {
	rel, fn string
	pos     token.Pos
	node    ast.Node
	body    *ast.BlockStmt
	key     ast.Expr
	value   ast.Expr
	fd      *ast.FuncDecl
	inf     *types.Info
	kind    string
}

// decodeSide lists functions whose map loops are on the decoding side (outside C09): listed, not judged.
var decodeSide = map[string]string{
	"restlicodec.QueryParamsReader.ReadRecord":                        "decoding query parameters (missing fields are sorted by checkMissingFields)",
	"restlicodec.(*anyReader).ReadMap":                                "decoding an untyped Go map",
	"restlicodec.(*missingFieldsTracker).recordMissingRequiredFields": "accumulates missing fields, sorted by checkMissingFields before reporting",
}

func runR091(c *core.Ctx) {
	pkgs := []string{"restlicodec", "restli", "restli/batchkeyset", "restli/equals", "restli/patch", "restlidata", "restlidata/generated/com/linkedin/restli/common", "fnv1a"}
	var sites []*mapRangeSite
	for _, rel := range pkgs {
		p := c.M.Pkg(rel)
		if p == nil {
			continue
		}
		inf := p.TypesInfo
		for _, file := range p.Syntax {
			if strings.HasSuffix(c.M.Fset.File(file.Pos()).Name(), "_test.go") {
				continue
			}
			for _, d := range file.Decls {
				fd, ok := d.(*ast.FuncDecl)
				if !ok || fd.Body == nil {
					continue
				}
				ast.Inspect(fd.Body, func(n ast.Node) bool {
					switch x := n.(type) {
					case *ast.RangeStmt:
						if _, isMap := inf.Types[x.X].Type.Underlying().(*types.Map); isMap {
							sites = append(sites, &mapRangeSite{rel: rel, fn: core.DeclName(fd), pos: x.Pos(), node: x, body: x.Body, key: x.Key, value: x.Value, fd: fd, inf: inf, kind: "range over " + core.ExprString(x.X)})
						}
					case *ast.ForStmt:
						// for r := v.MapRange(); r.Next(); {}
						if as, ok := x.Init.(*ast.AssignStmt); ok && len(as.Rhs) == 1 {
							if call, ok := core.Unparen(as.Rhs[0]).(*ast.CallExpr); ok && core.IsMethod(core.Callee(inf, call), "reflect", "Value", "MapRange") {
								sites = append(sites, &mapRangeSite{rel: rel, fn: core.DeclName(fd), pos: x.Pos(), node: x, body: x.Body, fd: fd, inf: inf, kind: "reflect MapRange loop"})
							}
						}
					}
					return true
				})
				// reflect MapKeys
				ast.Inspect(fd.Body, func(n ast.Node) bool {
					if call, ok := n.(*ast.CallExpr); ok && core.IsMethod(core.Callee(inf, call), "reflect", "Value", "MapKeys") {
						sites = append(sites, &mapRangeSite{rel: rel, fn: core.DeclName(fd), pos: call.Pos(), node: call, fd: fd, inf: inf, kind: "reflect MapKeys"})
					}
					return true
				})
			}
		}
	}
	counts := map[string]int{}
	for _, s := range sites {
		counts[s.rel+"."+s.fn]++
		construct := fmt.Sprintf("%s #%d", s.kind, counts[s.rel+"."+s.fn])
		if why, ok := decodeSide[s.rel+"."+s.fn]; ok {
			c.OK(s.rel, s.fn, construct, s.pos, "out of scope (decode side): "+why)
			continue
		}
		if s.kind == "reflect MapKeys" {
			// the key slice must be sorted before use
			ok, why := mapKeysSorted(s)
			c.Check(ok, s.rel, s.fn, construct, s.pos, "idiom I2: keys sorted before use", why)
			continue
		}
		idiom, bad := classifyMapRange(c, s)
		if bad != "" {
			c.Bad(s.rel, s.fn, construct, s.pos, bad)
		} else {
			c.OK(s.rel, s.fn, construct, s.pos, "idiom "+idiom)
		}
	}
}

func mapKeysSorted(s *mapRangeSite) (bool, string) {
	// keys := v.MapKeys(); sort.Slice(keys, …) as the next use
	par := core.Parents(s.fd)
	as, ok := par[s.node].(*ast.AssignStmt)
	if !ok {
		return false, "MapKeys result is used directly (unsorted)"
	}
	obj := core.ObjOf(s.inf, as.Lhs[0])
	return sortedBeforeUse(s.inf, s.fd, obj, as.End())
}

// sortedBeforeUse checks that the first use of obj after pos is as the first
// argument of a sort call.
func sortedBeforeUse(inf *types.Info, fd *ast.FuncDecl, obj types.Object, after token.Pos) (bool, string) {
	var firstUse *ast.Ident
	ast.Inspect(fd.Body, func(n ast.Node) bool {
		if id, ok := n.(*ast.Ident); ok && id.Pos() > after && inf.Uses[id] == obj && firstUse == nil {
			firstUse = id
		}
		return true
	})
	if firstUse == nil {
		return false, "the collected slice is never used"
	}
	par := core.Parents(fd)
	for p := par[firstUse]; p != nil; p = par[p] {
		if call, ok := p.(*ast.CallExpr); ok {
			if tv, isConv := inf.Types[call.Fun]; isConv && tv.IsType() {
				// sort.Sort(byKey(keys)): a conversion to a named slice type shares the backing array
				if _, isSlice := tv.Type.Underlying().(*types.Slice); isSlice {
					continue
				}
			}
			f := core.Callee(inf, call)
			if f != nil && f.Pkg() != nil && (f.Pkg().Path() == "sort" || f.Pkg().Path() == "slices") && strings.HasPrefix(core.NameOf(f), "S") && len(call.Args) >= 1 && rootIdent(stripSliceConv(inf, call.Args[0])) == firstUse {
				return true, ""
			}
			break
		}
		if _, ok := p.(ast.Stmt); ok {
			break
		}
	}
	return false, "the slice filled in map order is used before being sorted"
}

// stripSliceConv removes conversions between slice types (which share the backing array).
func stripSliceConv(inf *types.Info, e ast.Expr) ast.Expr {
	for {
		e = core.Unparen(e)
		call, ok := e.(*ast.CallExpr)
		if !ok || len(call.Args) != 1 {
			return e
		}
		tv, ok := inf.Types[call.Fun]
		if !ok || !tv.IsType() {
			return e
		}
		if _, isSlice := tv.Type.Underlying().(*types.Slice); !isSlice {
			return e
		}
		e = call.Args[0]
	}
}

func classifyMapRange(c *core.Ctx, s *mapRangeSite) (idiom string, bad string) {
	inf := s.inf
	// per-iteration locals: variables defined inside the body
	local := map[types.Object]bool{}
	slotOf := map[types.Object]types.Object{} // slot pointer var -> slice
	ast.Inspect(s.body, func(n ast.Node) bool {
		if as, ok := n.(*ast.AssignStmt); ok && as.Tok == token.DEFINE {
			for i, l := range as.Lhs {
				if o := core.ObjOf(inf, l); o != nil {
					local[o] = true
					if i < len(as.Rhs) {
						if u, ok := core.Unparen(as.Rhs[i]).(*ast.UnaryExpr); ok && u.Op == token.AND {
							if ix, ok := core.Unparen(u.X).(*ast.IndexExpr); ok {
								if _, isSlice := inf.Types[ix.X].Type.Underlying().(*types.Slice); isSlice {
									slotOf[o] = core.ObjOf(inf, ix.X)
								}
							}
						}
					}
				}
			}
		}
		if vs, ok := n.(*ast.ValueSpec); ok {
			for _, id := range vs.Names {
				local[inf.Defs[id]] = true
			}
		}
		// parameters of function literals written in the body exist once per call of the literal, hence per entry
		if fl, ok := n.(*ast.FuncLit); ok && fl.Type.Params != nil {
			for _, f := range fl.Type.Params.List {
				for _, id := range f.Names {
					local[inf.Defs[id]] = true
				}
			}
		}
		return true
	})
	if s.key != nil {
		local[core.ObjOf(inf, s.key)] = true
	}
	if s.value != nil {
		local[core.ObjOf(inf, s.value)] = true
	}
	idioms := map[string]bool{}
	var appended []types.Object
	var slots []types.Object
	perEntrySink := func(e ast.Expr) bool {
		e = core.Unparen(e)
		switch x := e.(type) {
		case *ast.Ident:
			o := core.ObjOf(inf, x)
			if _, isSlot := slotOf[o]; isSlot {
				slots = append(slots, slotOf[o])
				idioms["I2"] = true
				return true
			}
			return local[o]
		case *ast.CallExpr:
			// keyWriter(key): a call of a func(string) Writer variable
			if id, ok := core.Unparen(x.Fun).(*ast.Ident); ok {
				if v, ok := core.ObjOf(inf, id).(*types.Var); ok {
					if sig, ok := v.Type().Underlying().(*types.Signature); ok && sig.Params().Len() == 1 && sig.Results().Len() == 1 && isSinkType(sig.Results().At(0).Type()) {
						idioms["I3"] = true
						return true
					}
				}
			}
			// x.SetScope() of a per-entry sink, a builder chain on one, the result of a package-level constructor
			return perEntrySinkExpr(c.M, inf, x, local, slotOf)
		}
		return false
	}
	ast.Inspect(s.body, func(n ast.Node) bool {
		if bad != "" {
			return false
		}
		switch x := n.(type) {
		case *ast.FuncLit:
			return true
		case *ast.ReturnStmt:
			// first match wins: a value derived from the entry being visited leaves the loop.  Constants (existential
			// tests) and errors (any failure aborts) are order-insensitive in what they mean.
			for _, r := range x.Results {
				tv, ok := inf.Types[r]
				if !ok || tv.Value != nil || tv.IsNil() || core.IsErrorType(tv.Type) {
					continue
				}
				dep := false
				ast.Inspect(r, func(m ast.Node) bool {
					if id, ok := m.(*ast.Ident); ok && local[core.ObjOf(inf, id)] {
						dep = true
					}
					return !dep
				})
				if dep {
					bad = "returns " + core.ExprString(r) + " for the first entry visited that qualifies: the result follows map iteration order when more than one entry can qualify"
					return false
				}
			}
		case *ast.AssignStmt:
			for i, l := range x.Lhs {
				l = core.Unparen(l)
				switch lx := l.(type) {
				case *ast.IndexExpr:
					switch inf.Types[lx.X].Type.Underlying().(type) {
					case *types.Map:
						idioms["I1"] = true
						// distinct entries must land on distinct keys of the outer map: the index is the range key itself and
						// the key variable is not rewritten in the body.  `k = canonical(k); dst[k] = v` lets two entries
						// collide, and which one is kept follows the order they were visited in
						if dst := core.ObjOf(inf, lx.X); dst != nil && !local[dst] && s.key != nil {
							ko := core.ObjOf(inf, s.key)
							if ko != nil && core.ObjOf(inf, lx.Index) == ko {
								rewritten := false
								ast.Inspect(s.body, func(m ast.Node) bool {
									if as2, ok := m.(*ast.AssignStmt); ok {
										for _, l2 := range as2.Lhs {
											if core.ObjOf(inf, l2) == ko {
												rewritten = true
											}
										}
									}
									return true
								})
								if rewritten {
									bad = "the key variable " + ko.Name() + " is rewritten before it indexes the outer map " + core.ExprString(lx.X) + ": two entries may collide on one key, and the one that is kept depends on map iteration order"
								}
							}
						}
					case *types.Slice:
						if o := core.ObjOf(inf, lx.X); o != nil && !local[o] {
							slots = append(slots, o)
							idioms["I2"] = true
						}
					}
				case *ast.Ident:
					o := core.ObjOf(inf, lx)
					if o == nil || local[o] {
						continue
					}
					// x = append(x, …)
					if i < len(x.Rhs) {
						if call, ok := core.Unparen(x.Rhs[i]).(*ast.CallExpr); ok {
							if id, ok := core.Unparen(call.Fun).(*ast.Ident); ok && id.Name == "append" {
								appended = append(appended, o)
								idioms["I2"] = true
								continue
							}
						}
					}
					// assignments to outer scalars (err, found flags, counters): order matters only for which value wins
					if _, isSlice := o.Type().Underlying().(*types.Slice); isSlice {
						bad = "an outer slice is assigned in map order: " + core.ExprString(lx)
					}
					// an outer string rewritten from itself and the entry being visited (s = strings.ReplaceAll(s, k, v),
					// s += k) is a fold whose result depends on the order of the entries
					if b, isBasic := o.Type().Underlying().(*types.Basic); isBasic && b.Info()&types.IsString != 0 {
						usesSelf, usesEntry := x.Tok == token.ADD_ASSIGN, false
						if i < len(x.Rhs) {
							ast.Inspect(x.Rhs[i], func(m ast.Node) bool {
								if id, ok := m.(*ast.Ident); ok {
									if core.ObjOf(inf, id) == o {
										usesSelf = true
									}
									if local[core.ObjOf(inf, id)] {
										usesEntry = true
									}
								}
								return true
							})
						}
						if usesSelf && usesEntry {
							bad = "the outer string " + core.ExprString(lx) + " is rewritten from itself and the entry visited, entry by entry in map order: the result depends on the order (a replacement applied before or after another one that produces its pattern)"
						}
					}
				case *ast.SelectorExpr:
					// field stores into outer objects: accept only error/flag-like scalars
				}
			}
		case *ast.CallExpr:
			f := core.Callee(inf, x)
			if tv, ok := inf.Types[x.Fun]; ok && (tv.IsType() || tv.IsBuiltin()) {
				return true
			}
			if f != nil && core.NameOf(f) == "AddKey" {
				idioms["I1"] = true
				return true
			}
			// receiver
			if sel, ok := core.Unparen(x.Fun).(*ast.SelectorExpr); ok {
				// import registrations of a jennifer File: the import block is rendered sorted by path, whatever the
				// order they were registered in
				if f != nil && core.IsMethod(f, "github.com/dave/jennifer/jen", "File", core.NameOf(f)) {
					switch core.NameOf(f) {
					case "Anon", "ImportName", "ImportNames", "ImportAlias":
						idioms["I5 (jennifer import registration: rendered sorted)"] = true
						return true
					}
				}
				if tv, ok := inf.Types[sel.X]; ok && isSinkType(tv.Type) && !perEntrySink(sel.X) {
					bad = fmt.Sprintf("%s writes to the shared sink %s in map iteration order", core.ExprString(x.Fun), core.ExprString(sel.X))
					return false
				}
			}
			for _, a := range x.Args {
				if tv, ok := inf.Types[a]; ok && isSinkType(tv.Type) && !perEntrySink(a) {
					bad = fmt.Sprintf("%s receives the shared sink %s in map iteration order", core.ExprString(x.Fun), core.ExprString(a))
					return false
				}
			}
		}
		return true
	})
	if bad != "" {
		return "", bad
	}
	// I2 obligations: appended slices and slot slices must be sorted before use
	check := append(appended, slots...)
	seen := map[types.Object]bool{}
	for _, o := range check {
		if o == nil || seen[o] {
			continue
		}
		seen[o] = true
		ok, why := sortedBeforeUse(inf, s.fd, o, s.node.End())
		if ok {
			continue
		}
		// returned directly? then every caller must sort
		if returnedDirectly(inf, s.fd, o, s.node.End()) {
			okc, whyc := callersSort(c, s.fd, inf)
			if okc {
				idioms["I2(callers sort)"] = true
				continue
			}
			return "", "slice " + core.NameOf(o) + " filled in map order is returned and " + whyc
		}
		return "", "slice " + core.NameOf(o) + ": " + why
	}
	if len(idioms) == 0 {
		idioms["I4 (no order-sensitive effect: predicates / error returns only)"] = true
	}
	var names []string
	for k := range idioms {
		names = append(names, k)
	}
	sort.Strings(names)
	return strings.Join(names, "+"), ""
}

func perEntrySinkExpr(m *core.Module, inf *types.Info, e ast.Expr, local map[types.Object]bool, slotOf map[types.Object]types.Object) bool {
	switch x := core.Unparen(e).(type) {
	case *ast.Ident:
		o := core.ObjOf(inf, x)
		if _, ok := slotOf[o]; ok {
			return true
		}
		return local[o]
	case *ast.CallExpr:
		if id, ok := core.Unparen(x.Fun).(*ast.Ident); ok {
			if v, ok := core.ObjOf(inf, id).(*types.Var); ok {
				if sig, ok := v.Type().Underlying().(*types.Signature); ok && sig.Results().Len() == 1 && isSinkType(sig.Results().At(0).Type()) {
					return true
				}
			}
		}
		// the result of a package-level function is a value made for this call (jen.Id(…), a module constructor of
		// statements), unless the function hands out a package-level variable
		if cf := core.Callee(inf, x); cf != nil && core.RecvNamed(cf) == nil {
			if sig, ok := cf.Type().(*types.Signature); ok && sig.Recv() == nil {
				handsOutGlobal := false
				if d := m.Decl(cf.Origin()); d != nil && d.Body != nil && m.PkgOf(cf.Origin()) != nil {
					dinf := m.PkgOf(cf.Origin()).TypesInfo
					for _, r := range core.ReturnsIn(d.Body) {
						for _, res := range r.Results {
							// the result *is* a package-level variable (mentioning one as an argument of a builder is fine)
							if v, ok := core.ObjOf(dinf, res).(*types.Var); ok && !v.IsField() && v.Pkg() != nil && v.Parent() == v.Pkg().Scope() {
								handsOutGlobal = true
							}
						}
					}
				}
				if !handsOutGlobal {
					return true
				}
			}
		}
		// a builder chain f.Func().Id(…).Call() writes to what its base writes to: a sink made in this iteration is
		// per-entry however long the chain
		if sel, ok := core.Unparen(x.Fun).(*ast.SelectorExpr); ok && inf.Selections[sel] != nil {
			return perEntrySinkExpr(m, inf, sel.X, local, slotOf)
		}
	}
	return false
}

func returnedDirectly(inf *types.Info, fd *ast.FuncDecl, o types.Object, after token.Pos) bool {
	found := false
	for _, r := range core.ReturnsIn(fd.Body) {
		if r.Pos() > after && len(r.Results) >= 1 && core.ObjOf(inf, r.Results[0]) == o {
			found = true
		}
	}
	return found
}

// callersSort: every in-module call of the function (by name and package) is
// immediately followed by a sort of its result.
func callersSort(c *core.Ctx, fd *ast.FuncDecl, inf *types.Info) (bool, string) {
	name := fd.Name.Name
	calls, sorted := 0, 0
	for _, p := range c.M.Roots {
		pinf := p.TypesInfo
		for _, file := range p.Syntax {
			for _, d := range file.Decls {
				cfd, ok := d.(*ast.FuncDecl)
				if !ok || cfd.Body == nil {
					continue
				}
				ast.Inspect(cfd.Body, func(n ast.Node) bool {
					as, ok := n.(*ast.AssignStmt)
					if !ok || len(as.Rhs) != 1 {
						return true
					}
					call, ok := core.Unparen(as.Rhs[0]).(*ast.CallExpr)
					if !ok {
						return true
					}
					f := core.Callee(pinf, call)
					if f == nil || core.NameOf(f) != name || f.Pkg() == nil || f.Pkg().Path() != c.M.PkgOf(inf.Defs[fd.Name]).PkgPath {
						return true
					}
					calls++
					if ok2, _ := sortedBeforeUse(pinf, cfd, core.ObjOf(pinf, as.Lhs[0]), as.End()); ok2 {
						sorted++
					} else {
						// error check in between is fine: look past `if err != nil { return … }`
						par := core.Parents(cfd)
						list, idx := core.StmtListOf(par, as)
						if idx >= 0 && idx+2 < len(list) {
							if _, isIf := list[idx+1].(*ast.IfStmt); isIf {
								if ok3, _ := sortedBeforeUse(pinf, cfd, core.ObjOf(pinf, as.Lhs[0]), list[idx+1].End()); ok3 {
									sorted++
								}
							}
						}
					}
					return true
				})
			}
		}
	}
	if calls == 0 {
		return false, "has no caller that sorts it"
	}
	if sorted != calls {
		return false, fmt.Sprintf("only %d of %d callers sort it before use", sorted, calls)
	}
	return true, ""
}

func runR092(c *core.Ctx) {
	const rel = "restlicodec"
	inf := info(c, rel)
	for _, spec := range []struct{ fn, keyField, emit string }{
		{"(*genericWriter).WriteMap", "key", "writeKey"},
		{"BuildQueryParams", "param", "WriteString"},
	} {
		_, fd := mustDecl(c, rel, spec.fn)
		// the inlined view: helpers split off WriteMap / BuildQueryParams are part of the function
		v := core.NewVirtual(c.M, fd)
		// the user callback call: a call of the function's MapWriter parameter
		var cbParam types.Object
		for _, fl := range fd.Type.Params.List {
			for _, n := range fl.Names {
				if nt, ok := inf.Defs[n].Type().(*types.Named); ok && core.NameOf(nt.Obj()) == "MapWriter" {
					cbParam = inf.Defs[n]
				}
			}
		}
		var sortCall *ast.CallExpr
		var sortFrame *core.VFrame
		var sortedObj types.Object
		v.Inspect(func(fr *core.VFrame, n ast.Node) bool {
			if call, ok := n.(*ast.CallExpr); ok && len(call.Args) >= 1 {
				f := core.Callee(fr.Info, call)
				if f != nil && f.Pkg() != nil && (f.Pkg().Path() == "sort" && (core.NameOf(f) == "Slice" || core.NameOf(f) == "SliceStable" || core.NameOf(f) == "Sort") || f.Pkg().Path() == "slices" && strings.HasPrefix(core.NameOf(f), "Sort")) {
					if sortCall == nil {
						sortCall, sortFrame = call, fr
						sortedObj = v.ObjOf(fr.Info, call.Args[0])
					}
				}
			}
			return true
		})
		if sortCall == nil {
			c.Bad(rel, spec.fn, "entries are sorted before emission", fd.Pos(), "no sort call in the function or the helpers it calls: keys are emitted in insertion order (map iteration order of the caller)")
			continue
		}
		sinf := sortFrame.Info
		// the entry's key field: the field that the key-writer literal (the function literal handed to the MapWriter
		// callback) initialises or assigns from its key parameter
		keyField := ""
		v.Inspect(func(fr *core.VFrame, n ast.Node) bool {
			call, ok := n.(*ast.CallExpr)
			if !ok || len(call.Args) != 1 || cbParam == nil || v.ObjOf(fr.Info, call.Fun) != cbParam {
				return true
			}
			lit, ok := core.Unparen(call.Args[0]).(*ast.FuncLit)
			if !ok || len(lit.Type.Params.List) == 0 || len(lit.Type.Params.List[0].Names) == 0 {
				return true
			}
			keyParam := fr.Info.Defs[lit.Type.Params.List[0].Names[0]]
			ast.Inspect(lit.Body, func(m ast.Node) bool {
				switch x := m.(type) {
				case *ast.CompositeLit:
					st, isStruct := fr.Info.Types[x].Type.Underlying().(*types.Struct)
					if !isStruct {
						return true
					}
					for i, el := range x.Elts {
						if kv, isKV := el.(*ast.KeyValueExpr); isKV {
							if core.ObjOf(fr.Info, kv.Value) == keyParam {
								if id, ok := kv.Key.(*ast.Ident); ok && keyField == "" {
									keyField = id.Name
								}
							}
						} else if core.ObjOf(fr.Info, el) == keyParam && i < st.NumFields() && keyField == "" {
							keyField = core.NameOf(st.Field(i))
						}
					}
				case *ast.AssignStmt:
					for i, l := range x.Lhs {
						if sel, ok := core.Unparen(l).(*ast.SelectorExpr); ok && len(x.Lhs) == len(x.Rhs) && core.ObjOf(fr.Info, x.Rhs[i]) == keyParam && keyField == "" {
							keyField = sel.Sel.Name
						}
					}
				}
				return true
			})
			return true
		})
		if keyField == "" {
			c.Bad(rel, spec.fn, "comparator is ascending on the entry key", sortCall.Pos(), "the buffered entries do not record the key handed to the key writer: nothing to sort by")
			continue
		}
		spec.keyField = keyField
		// comparator shape
		okLess, why := false, "the less function is not `entries[i]."+spec.keyField+" < entries[j]."+spec.keyField+"`"
		if len(sortCall.Args) == 2 {
			if fl, ok := core.Unparen(sortCall.Args[1]).(*ast.FuncLit); ok && len(fl.Body.List) == 1 && len(fl.Type.Params.List) >= 1 {
				var pi, pj types.Object
				var names []*ast.Ident
				for _, f := range fl.Type.Params.List {
					names = append(names, f.Names...)
				}
				if len(names) == 2 {
					pi, pj = sinf.Defs[names[0]], sinf.Defs[names[1]]
				}
				if r, ok := fl.Body.List[0].(*ast.ReturnStmt); ok && len(r.Results) == 1 {
					if be, ok := core.Unparen(r.Results[0]).(*ast.BinaryExpr); ok {
						side := func(e ast.Expr) (idx types.Object, field string, base types.Object) {
							sel, ok := core.Unparen(e).(*ast.SelectorExpr)
							if !ok {
								return nil, "", nil
							}
							ix, ok := core.Unparen(sel.X).(*ast.IndexExpr)
							if !ok {
								return nil, "", nil
							}
							return core.ObjOf(sinf, ix.Index), sel.Sel.Name, v.ObjOf(sinf, ix.X)
						}
						li, lf, lb := side(be.X)
						ri, rf, rb := side(be.Y)
						asc := (be.Op == token.LSS && li == pi && ri == pj) || (be.Op == token.GTR && li == pj && ri == pi)
						if asc && lf == spec.keyField && rf == spec.keyField && lb == sortedObj && rb == sortedObj && pi != nil {
							okLess = true
						} else if be.Op == token.GTR || (be.Op == token.LSS && li == pj) {
							why = "the comparator sorts descending"
						}
					}
				}
			}
		}
		c.Check(okLess, rel, spec.fn, "comparator is ascending on the entry key", sortCall.Pos(), "", why)
		// order: callback -> sort -> emission in an ascending walk of the sorted slice
		var cbCall *ast.CallExpr
		v.Inspect(func(fr *core.VFrame, n ast.Node) bool {
			if call, ok := n.(*ast.CallExpr); ok {
				if id, ok := core.Unparen(call.Fun).(*ast.Ident); ok && v.ObjOf(fr.Info, id) == cbParam && cbParam != nil {
					cbCall = call
				}
			}
			return true
		})
		emitOK, emitAny := true, false
		pars := map[*core.VFrame]map[ast.Node]ast.Node{}
		v.Inspect(func(fr *core.VFrame, n ast.Node) bool {
			call, ok := n.(*ast.CallExpr)
			if !ok {
				return true
			}
			f := core.Callee(fr.Info, call)
			isEmit := f != nil && (core.NameOf(f) == spec.emit || core.NameOf(f) == "DumpTo")
			if !isEmit {
				return true
			}
			emitAny = true
			if pars[fr] == nil {
				pars[fr] = core.Parents(fr.Body)
			}
			par := pars[fr]
			inLoop := false
			for p := par[call]; p != nil; p = par[p] {
				switch l := p.(type) {
				case *ast.RangeStmt:
					if v.ObjOf(fr.Info, l.X) == sortedObj {
						inLoop = true
					}
				case *ast.ForStmt:
					// for i := 0; i < len(sorted); i++ : an ascending index walk
					if inc, ok := l.Post.(*ast.IncDecStmt); ok && inc.Tok == token.INC && l.Cond != nil {
						mentionsSorted := false
						ast.Inspect(l.Cond, func(m ast.Node) bool {
							if id, ok := m.(*ast.Ident); ok && v.ObjOf(fr.Info, id) == sortedObj {
								mentionsSorted = true
							}
							return true
						})
						if mentionsSorted {
							inLoop = true
						}
					}
				}
			}
			if !inLoop || !v.Before(sortCall, call) {
				if os.Getenv("VERIF_DEBUG") != "" {
					fmt.Fprintf(os.Stderr, "R09.2 debug: emission %s at %s inLoop=%v afterSort=%v frame=%s\n", core.ExprString(call), c.M.Position(call.Pos()), inLoop, v.Before(sortCall, call), core.NameOf(fr))
				}
				emitOK = false
			}
			return true
		})
		c.Check(cbCall != nil && v.Before(cbCall, sortCall) && emitAny && emitOK, rel, spec.fn, "keys and buffered values are emitted only in the loop over the sorted entries", fd.Pos(), "",
			"an entry is emitted outside the loop over the sorted slice or before the sort")
		// the sort is not optional: on the control flow graph of the function that sorts, every path into a loop over the
		// buffered entries has executed the sort call, or knows that there are fewer than two entries
		{
			body := sortFrame.Body
			loops := map[ast.Stmt]bool{}
			core.WalkNoFuncLit(body, func(n ast.Node) bool {
				switch l := n.(type) {
				case *ast.RangeStmt:
					if v.ObjOf(sinf, l.X) == sortedObj {
						loops[l] = true
					}
				case *ast.ForStmt:
					if l.Cond != nil {
						ast.Inspect(l.Cond, func(m ast.Node) bool {
							if id, ok := m.(*ast.Ident); ok && v.ObjOf(sinf, id) == sortedObj {
								loops[l] = true
							}
							return true
						})
					}
				}
				return true
			})
			skipped := token.NoPos
			if len(loops) > 0 {
				core.NewFlow(c.M, sinf, body).Run(&core.Automaton{
					Block: func(st int, b *cfg.Block) int {
						if loops[b.Stmt] && (b.Kind == cfg.KindRangeBody || b.Kind == cfg.KindForBody) && st == 0 && skipped == token.NoPos {
							skipped = b.Stmt.Pos()
						}
						return st
					},
					Node: func(st int, n ast.Node) int {
						for _, call := range core.CallsIn(n) {
							if call == sortCall {
								return 1
							}
						}
						return st
					},
					Edge: func(st int, facts []core.Fact) (int, bool) {
						for _, f := range facts {
							be, ok := core.Unparen(f.Expr).(*ast.BinaryExpr)
							if !ok {
								continue
							}
							x, y, op := be.X, be.Y, be.Op
							if core.ConstOf(sinf, x) != nil {
								x, y = y, x
								op = flipOp(op)
							}
							call, isCall := core.Unparen(x).(*ast.CallExpr)
							cv := core.ConstOf(sinf, y)
							if !isCall || cv == nil || len(call.Args) != 1 || v.ObjOf(sinf, call.Args[0]) != sortedObj {
								continue
							}
							if b, isB := core.ObjOf(sinf, call.Fun).(*types.Builtin); !isB || b.Name() != "len" {
								continue
							}
							k, exact := constant.Int64Val(cv)
							if !exact {
								continue
							}
							holds := func(n int64) bool {
								r := false
								switch op {
								case token.EQL:
									r = n == k
								case token.NEQ:
									r = n != k
								case token.LSS:
									r = n < k
								case token.LEQ:
									r = n <= k
								case token.GTR:
									r = n > k
								case token.GEQ:
									r = n >= k
								default:
									return true
								}
								return r == f.Val
							}
							// the fact excludes every length >= 2
							if !holds(2) && !holds(3) && !holds(1<<20) {
								st = 1
							}
						}
						return st, true
					},
				})
			}
			c.Check(skipped == token.NoPos, rel, spec.fn, "the sort runs on every path that emits two or more entries", sortCall.Pos(), "",
				"the loop over the buffered entries at "+c.M.Position(skipped)+" can be entered without the sort having run: an \"already sorted\" shortcut decides the order from what the caller happened to write")
		}
	}
}

var ambientPkgs = map[string]bool{"time": true, "math/rand": true, "crypto/rand": true, "runtime": true, "os": true, "math/rand/v2": true}

func runR093(c *core.Ctx) {
	for _, rel := range []string{"restlicodec", "fnv1a", "restli/equals", "restli/batchkeyset", dataPkgRel(c)} {
		p := c.M.Pkg(rel)
		if p == nil {
			continue
		}
		inf := p.TypesInfo
		var badCalls []string
		var pos token.Pos
		for _, file := range p.Syntax {
			if strings.HasSuffix(c.M.Fset.File(file.Pos()).Name(), "_test.go") {
				continue
			}
			ast.Inspect(file, func(n ast.Node) bool {
				switch x := n.(type) {
				case *ast.CallExpr:
					if f := core.Callee(inf, x); f != nil && f.Pkg() != nil && ambientPkgs[f.Pkg().Path()] {
						badCalls = append(badCalls, f.FullName())
						pos = x.Pos()
					}
				case *ast.BasicLit:
					if x.Kind == token.STRING && strings.Contains(x.Value, "%p") {
						badCalls = append(badCalls, "format verb %p")
						pos = x.Pos()
					}
				}
				return true
			})
		}
		c.Check(len(badCalls) == 0, rel, "-", "package uses no clock, random source, process state or pointer formatting", pos, "", "ambient input reaches a serialization/hashing package: "+strings.Join(badCalls, ", "))
	}
	// fnv1a reads no package-level variable
	p := c.M.Pkg("fnv1a")
	inf := p.TypesInfo
	var vars []string
	for _, file := range p.Syntax {
		if strings.HasSuffix(c.M.Fset.File(file.Pos()).Name(), "_test.go") {
			continue
		}
		ast.Inspect(file, func(n ast.Node) bool {
			if id, ok := n.(*ast.Ident); ok {
				if v, ok := inf.Uses[id].(*types.Var); ok && v.Parent() == p.Types.Scope() {
					vars = append(vars, core.NameOf(v))
				}
			}
			return true
		})
	}
	c.Check(len(vars) == 0, "fnv1a", "-", "hash functions read no package-level state", token.NoPos, "", "package-level variables read: "+strings.Join(vars, ", "))
}

func runR103(c *core.Ctx) {
	// belief 1: equals compares comparable values with ==
	einf := info(c, "restli/equals")
	_, cp := mustDecl(c, "restli/equals", "ComparablePointer")
	usesEq := false
	ast.Inspect(cp.Body, func(n ast.Node) bool {
		if be, ok := n.(*ast.BinaryExpr); ok && be.Op == token.EQL {
			if tp, ok := einf.Types[be.X].Type.(*types.TypeParam); ok && tp != nil {
				usesEq = true
			}
		}
		return true
	})
	if !usesEq {
		c.Note("equals.ComparablePointer no longer compares with ==: the contradiction premise changed")
	}
	inf := info(c, "fnv1a")
	for _, spec := range []struct{ fn, bits string }{{"(*hash).AddFloat32", "Float32bits"}, {"(*hash).AddFloat64", "Float64bits"}} {
		_, fd := mustDecl(c, "fnv1a", spec.fn)
		if len(fd.Type.Params.List) != 1 || len(fd.Type.Params.List[0].Names) != 1 {
			c.Unknown("fnv1a", spec.fn, "float parameter", fd.Pos(), "unexpected signature")
			continue
		}
		param := inf.Defs[fd.Type.Params.List[0].Names[0]]
		var bitsCall *ast.CallExpr
		ast.Inspect(fd.Body, func(n ast.Node) bool {
			if call, ok := n.(*ast.CallExpr); ok && core.IsFunc(core.Callee(inf, call), "math", spec.bits) {
				bitsCall = call
			}
			return true
		})
		if bitsCall == nil {
			c.Unknown("fnv1a", spec.fn, "bit pattern extraction", fd.Pos(), "no math."+spec.bits+" call: hashing idiom not understood")
			continue
		}
		ok := false
		arg := core.Unparen(bitsCall.Args[0])
		if be, isBin := arg.(*ast.BinaryExpr); isBin && be.Op == token.ADD {
			if cv := core.ConstOf(inf, be.Y); cv != nil && cv.ExactString() == "0" && core.ObjOf(inf, be.X) == param {
				ok = true
			}
		}
		if core.ObjOf(inf, arg) == param {
			// look for `if v == 0 { v = 0 }` before the call at top level
			for _, s := range fd.Body.List {
				if s.Pos() > bitsCall.Pos() {
					break
				}
				ifs, isIf := s.(*ast.IfStmt)
				if !isIf || len(ifs.Body.List) != 1 {
					continue
				}
				be, isBin := core.Unparen(ifs.Cond).(*ast.BinaryExpr)
				if !isBin || be.Op != token.EQL || core.ObjOf(inf, be.X) != param {
					continue
				}
				if cv := core.ConstOf(inf, be.Y); cv == nil || cv.ExactString() != "0" {
					continue
				}
				if as, isAs := ifs.Body.List[0].(*ast.AssignStmt); isAs && len(as.Lhs) == 1 && core.ObjOf(inf, as.Lhs[0]) == param {
					if cv := core.ConstOf(inf, as.Rhs[0]); cv != nil && cv.ExactString() == "0" {
						ok = true
					}
				}
			}
		}
		c.Check(ok || !usesEq, "fnv1a", spec.fn, "zero is canonicalised before the bit pattern is hashed", bitsCall.Pos(), "",
			"+0 and -0 compare equal with == (package equals) but have different bit patterns: Equal values with different hashes")
	}
}

// elementwiseEqual decides, on the control flow graph, that a container comparison answers anything but the constant
// false only when (L) the lengths were found equal, (P) a loop over one of the two containers ran to its natural end, and
// every iteration of it reached the loop head again only through the true outcome of equals(P[k], Q[k]) (and, for maps,
// of the presence test of k in the other map).  It returns "" or the reason.
func elementwiseEqual(c *core.Ctx, inf *types.Info, fd *ast.FuncDecl) string {
	var params []types.Object
	var eq types.Object
	for _, f := range fd.Type.Params.List {
		for _, id := range f.Names {
			o := inf.Defs[id]
			if _, isFn := o.Type().Underlying().(*types.Signature); isFn {
				eq = o
			} else {
				params = append(params, o)
			}
		}
	}
	if len(params) != 2 || eq == nil {
		return "expected two containers and a comparison function"
	}
	_, isMap := params[0].Type().Underlying().(*types.Map)
	isContainer := func(o types.Object) bool { return o != nil && (o == params[0] || o == params[1]) }
	// the standard library's element-wise comparisons are what this function checks for: slices.EqualFunc and
	// maps.EqualFunc compare the lengths first, then every element (every key, with its presence in the other map)
	if len(fd.Body.List) == 1 {
		if r, ok := fd.Body.List[0].(*ast.ReturnStmt); ok && len(r.Results) == 1 {
			if call, ok := core.Unparen(r.Results[0]).(*ast.CallExpr); ok && len(call.Args) == 3 {
				f := core.Callee(inf, call)
				if f != nil && f.Pkg() != nil && f.Name() == "EqualFunc" && ((f.Pkg().Path() == "slices" && !isMap) || (f.Pkg().Path() == "maps" && isMap)) {
					a, b := core.ObjOf(inf, call.Args[0]), core.ObjOf(inf, call.Args[1])
					if isContainer(a) && isContainer(b) && a != b && core.ObjOf(inf, call.Args[2]) == eq {
						return ""
					}
				}
			}
		}
	}
	lenOfParam := func(e ast.Expr) types.Object {
		call, ok := core.Unparen(e).(*ast.CallExpr)
		if !ok || len(call.Args) != 1 {
			return nil
		}
		if b, ok := core.ObjOf(inf, call.Fun).(*types.Builtin); !ok || core.NameOf(b) != "len" {
			return nil
		}
		if o := core.ObjOf(inf, call.Args[0]); isContainer(o) {
			return o
		}
		return nil
	}
	// candidate loops
	type loopInfo struct {
		stmt      ast.Stmt
		body      *ast.BlockStmt
		over      types.Object // container traversed
		key, elem types.Object
	}
	var loops []loopInfo
	ast.Inspect(fd.Body, func(n ast.Node) bool {
		switch x := n.(type) {
		case *ast.FuncLit:
			return false
		case *ast.RangeStmt:
			li := loopInfo{stmt: x, body: x.Body}
			if x.Key != nil {
				li.key = core.ObjOf(inf, x.Key)
			}
			if x.Value != nil {
				li.elem = core.ObjOf(inf, x.Value)
			}
			if o := core.ObjOf(inf, x.X); isContainer(o) {
				li.over = o
			} else if o := lenOfParam(x.X); o != nil && !isMap {
				li.over = o
			}
			if li.over != nil && li.key != nil && x.Tok == token.DEFINE {
				loops = append(loops, li)
			}
		case *ast.ForStmt:
			if isMap || x.Init == nil || x.Cond == nil || x.Post == nil {
				return true
			}
			as, ok := x.Init.(*ast.AssignStmt)
			if !ok || as.Tok != token.DEFINE || len(as.Lhs) != 1 || len(as.Rhs) != 1 {
				return true
			}
			if cv := core.ConstOf(inf, as.Rhs[0]); cv == nil || cv.ExactString() != "0" {
				return true
			}
			i := core.ObjOf(inf, as.Lhs[0])
			be, ok := core.Unparen(x.Cond).(*ast.BinaryExpr)
			if !ok {
				return true
			}
			var over types.Object
			switch {
			case (be.Op == token.LSS || be.Op == token.NEQ) && core.ObjOf(inf, be.X) == i:
				over = lenOfParam(be.Y)
			case (be.Op == token.GTR || be.Op == token.NEQ) && core.ObjOf(inf, be.Y) == i:
				over = lenOfParam(be.X)
			}
			inc, ok := x.Post.(*ast.IncDecStmt)
			if over == nil || !ok || inc.Tok != token.INC || core.ObjOf(inf, inc.X) != i {
				return true
			}
			for _, o := range core.AssignedObjs(inf, x.Body) {
				if o == i {
					return true
				}
			}
			loops = append(loops, loopInfo{stmt: x, body: x.Body, over: over, key: i})
		}
		return true
	})
	if len(loops) == 0 {
		return "no loop over one of the two containers"
	}
	const (
		sL = 1 << iota
		sE
		sK
		sIn
		sP
	)
	var last string
	for _, lp := range loops {
		// element expressions: P[k] / the range value variable / a local bound to one of them in the body
		other := params[0]
		if lp.over == other {
			other = params[1]
		}
		var okVar types.Object
		bound := map[types.Object]types.Object{} // local -> container it is the k-th element of
		if lp.elem != nil {
			bound[lp.elem] = lp.over
		}
		var elemOf func(e ast.Expr) types.Object
		elemOf = func(e ast.Expr) types.Object {
			e = core.Unparen(e)
			if ix, ok := e.(*ast.IndexExpr); ok {
				if o := core.ObjOf(inf, ix.X); isContainer(o) && core.ObjOf(inf, ix.Index) == lp.key {
					return o
				}
				return nil
			}
			if id, ok := e.(*ast.Ident); ok {
				return bound[core.ObjOf(inf, id)]
			}
			return nil
		}
		ast.Inspect(lp.body, func(n ast.Node) bool {
			as, ok := n.(*ast.AssignStmt)
			if !ok || as.Tok != token.DEFINE || len(as.Rhs) != 1 {
				return true
			}
			if o := elemOf(as.Rhs[0]); o != nil {
				bound[core.ObjOf(inf, as.Lhs[0])] = o
				if len(as.Lhs) == 2 && o == other {
					okVar = core.ObjOf(inf, as.Lhs[1])
				}
			}
			return true
		})
		for _, o := range core.AssignedObjs(inf, lp.body) {
			if _, isBound := bound[o]; isBound || o == lp.key {
				// reassigned element variables are not tracked
				redefined := false
				ast.Inspect(lp.body, func(n ast.Node) bool {
					if as, ok := n.(*ast.AssignStmt); ok && as.Tok != token.DEFINE {
						for _, l := range as.Lhs {
							if core.ObjOf(inf, l) == o {
								redefined = true
							}
						}
					}
					return true
				})
				if redefined {
					delete(bound, o)
				}
			}
		}
		var bad string
		flow := core.NewFlow(c.M, inf, fd.Body)
		flow.Run(&core.Automaton{
			Init: 0,
			Block: func(st int, b *cfg.Block) int {
				if b.Stmt != lp.stmt {
					return st
				}
				switch b.Kind {
				case cfg.KindRangeLoop, cfg.KindForLoop:
					if st&sIn != 0 && (st&sE == 0 || (isMap && st&sK == 0)) {
						bad = "an iteration can end without the elements (and, for maps, the presence of the key) having compared equal"
					}
					return (st &^ (sIn | sE | sK)) | sP
				case cfg.KindRangeBody, cfg.KindForBody:
					if _, hasHead := lp.stmt.(*ast.ForStmt); hasHead || b.Kind == cfg.KindRangeBody {
						return (st &^ (sE | sK)) | sIn
					}
				}
				return st
			},
			Node: func(st int, n ast.Node) int {
				r, ok := n.(*ast.ReturnStmt)
				if !ok {
					return st
				}
				for _, res := range r.Results {
					if cv := core.ConstOf(inf, res); cv != nil && cv.ExactString() == "false" {
						continue
					}
					switch {
					case st&sL == 0:
						bad = "a result other than false is returned on a path where the lengths were not compared equal"
					case st&sP == 0 || st&sIn != 0:
						bad = "a result other than false is returned before the loop over the elements has finished"
					}
				}
				return st
			},
			Edge: func(st int, facts []core.Fact) (int, bool) {
				for _, f := range facts {
					e := core.Unparen(f.Expr)
					if be, ok := e.(*ast.BinaryExpr); ok && ((be.Op == token.EQL && f.Val) || (be.Op == token.NEQ && !f.Val)) {
						if a, b := lenOfParam(be.X), lenOfParam(be.Y); a != nil && b != nil && a != b {
							st |= sL
						}
					}
					if call, ok := e.(*ast.CallExpr); ok && f.Val && len(call.Args) == 2 && core.ObjOf(inf, call.Fun) == eq {
						if a, b := elemOf(call.Args[0]), elemOf(call.Args[1]); a != nil && b != nil && a != b {
							st |= sE
						}
					}
					if id, ok := e.(*ast.Ident); ok && f.Val && okVar != nil && core.ObjOf(inf, id) == okVar {
						st |= sK
					}
				}
				return st, true
			},
		})
		if bad == "" {
			return ""
		}
		last = bad
	}
	return last
}

func runR104(c *core.Ctx) {
	const rel = "restli/equals"
	inf := info(c, rel)
	for _, name := range []string{"GenericArray", "GenericMap"} {
		_, fd := mustDecl(c, rel, name)
		why := elementwiseEqual(c, inf, fd)
		c.Check(why == "", rel, name, "length compared first, every element compared, true only after the loop", fd.Pos(), "", why)
	}
	// GenericPointer over all atoms
	_, gp := mustDecl(c, rel, "GenericPointer")
	rows, badRows, firstBad := pointerTable(inf, gp, false)
	c.Check(badRows == 0 && rows > 0, rel, "GenericPointer", fmt.Sprintf("nil/identity/value table (%d rows, exhaustive)", rows), gp.Pos(), "", firstBad)
	// every other comparison of two optional values (two pointer parameters) either hands both pointers, unchanged, to a
	// function that satisfies the table, or satisfies the table itself (any call on the way counting as the comparison of
	// the pointed-to values)
	okFn := map[*types.Func]bool{}
	if f, _ := inf.Defs[gp.Name].(*types.Func); f != nil && badRows == 0 {
		okFn[f] = true
	}
	type cand struct {
		fd   *ast.FuncDecl
		f    *types.Func
		l, r types.Object
	}
	var cands []cand
	for _, fd := range c.M.FuncDecls(rel) {
		f, _ := inf.Defs[fd.Name].(*types.Func)
		if fd.Body == nil || f == nil || fd == gp || fd.Recv != nil {
			continue
		}
		var ps []types.Object
		for _, fl := range fd.Type.Params.List {
			for _, nm := range fl.Names {
				ps = append(ps, inf.Defs[nm])
			}
		}
		if len(ps) < 2 {
			continue
		}
		_, lp := ps[0].Type().(*types.Pointer)
		_, rp := ps[1].Type().(*types.Pointer)
		if lp && rp {
			cands = append(cands, cand{fd, f, ps[0], ps[1]})
		}
	}
	delegates := func(cd cand) bool {
		if len(cd.fd.Body.List) != 1 {
			return false
		}
		r, ok := cd.fd.Body.List[0].(*ast.ReturnStmt)
		if !ok || len(r.Results) != 1 {
			return false
		}
		call, ok := core.Unparen(r.Results[0]).(*ast.CallExpr)
		if !ok || len(call.Args) < 2 {
			return false
		}
		g := core.Callee(inf, call)
		return g != nil && okFn[g.Origin()] && core.ObjOf(inf, call.Args[0]) == cd.l && core.ObjOf(inf, call.Args[1]) == cd.r
	}
	for changed := true; changed; {
		changed = false
		for _, cd := range cands {
			if !okFn[cd.f] && delegates(cd) {
				okFn[cd.f] = true
				changed = true
			}
		}
	}
	for _, cd := range cands {
		if okFn[cd.f] {
			c.OK(rel, core.DeclName(cd.fd), "optional presence is decided by GenericPointer", cd.fd.Pos(), "")
			continue
		}
		n, bad, first := pointerTable(inf, cd.fd, true)
		c.Check(bad == 0 && n > 0, rel, core.DeclName(cd.fd), "optional presence is decided by GenericPointer", cd.fd.Pos(), "",
			"neither delegates to a function satisfying the nil/identity/value table nor satisfies it: "+first)
	}
}

// pointerTable evaluates a comparison of two optional values (its first two parameters are pointers) over every
// combination of (left nil, right nil, same pointer, pointed-to values equal) and compares with: both nil or same pointer
// -> true, exactly one nil -> false, else the values' comparison.  With anyCall, every call met on the way counts as the
// comparison of the values (and must not happen while a pointer is nil); otherwise only calls of the third parameter do.
func pointerTable(inf *types.Info, gp *ast.FuncDecl, anyCall bool) (rows, badRows int, firstBad string) {
	var left, right, eq types.Object
	var names []*ast.Ident
	for _, f := range gp.Type.Params.List {
		names = append(names, f.Names...)
	}
	if len(names) < 2 || (!anyCall && len(names) != 3) {
		return 0, 1, "expected (left, right, equals)"
	}
	left, right = inf.Defs[names[0]], inf.Defs[names[1]]
	if len(names) >= 3 {
		eq = inf.Defs[names[2]]
	}
	for _, ln := range []bool{true, false} {
		for _, rn := range []bool{true, false} {
			for _, same := range []bool{true, false} {
				for _, eqv := range []bool{true, false} {
					if same && ln != rn {
						continue // the same pointer cannot be nil and non-nil
					}
					if !same && ln && rn {
						continue // two nil pointers are the same pointer
					}
					rows++
					it := &core.FinInterp{Info: inf}
					called := false
					it.Bind = func(e ast.Expr, env core.FinEnv) (interface{}, bool) {
						switch x := e.(type) {
						case *ast.BinaryExpr:
							if x.Op == token.EQL || x.Op == token.NEQ {
								lo, ro := core.ObjOf(inf, x.X), core.ObjOf(inf, x.Y)
								var v, ok bool
								switch {
								case (lo == left && ro == right) || (lo == right && ro == left):
									v, ok = same, true
								case lo == left && core.IsNil(inf, x.Y):
									v, ok = ln, true
								case lo == right && core.IsNil(inf, x.Y):
									v, ok = rn, true
								}
								if ok {
									if x.Op == token.NEQ {
										v = !v
									}
									return v, true
								}
							}
						case *ast.CallExpr:
							if id, ok := core.Unparen(x.Fun).(*ast.Ident); ok && eq != nil && core.ObjOf(inf, id) == eq {
								called = true
								return eqv, true
							}
							if anyCall {
								if tv, isT := inf.Types[x.Fun]; !isT || !(tv.IsType() || tv.IsBuiltin()) {
									called = true
									return eqv, true
								}
							}
						}
						return nil, false
					}
					out, err := it.Exec(gp.Body.List, core.FinEnv{})
					want := (ln && rn) || same || (!ln && !rn && eqv)
					if ln != rn {
						want = false
					}
					got := "?"
					if err == nil && out.Kind == "return" && len(out.Ret.Results) == 1 {
						if v, e2 := it.Eval(out.Ret.Results[0], out.Env); e2 == nil {
							got = fmt.Sprint(v)
						}
					}
					derefNil := called && (ln || rn)
					if got != fmt.Sprint(want) || derefNil {
						badRows++
						if firstBad == "" {
							firstBad = fmt.Sprintf("left nil=%v right nil=%v same=%v elements equal=%v: returns %s, expected %v (compares through a nil pointer: %v)", ln, rn, same, eqv, got, want, derefNil)
						}
					}
				}
			}
		}
	}
	return rows, badRows, firstBad
}

func returnsConst(inf *types.Info, body *ast.BlockStmt, val string) bool {
	for _, s := range body.List {
		if r, ok := s.(*ast.ReturnStmt); ok && len(r.Results) == 1 {
			if cv := core.ConstOf(inf, r.Results[0]); cv != nil && cv.ExactString() == val {
				return true
			}
		}
	}
	return false
}
