package rules

import (
	"fmt"
	"go/ast"
	"go/parser"
	"go/types"
	"strings"

	"verif/checker/core"
)

func init() {
	core.Register(&core.Rule{
		ID:    "R12.3",
		Title: "generator emission order is never Go map order",
		Text: "Every `range` over a map in codegen/types, codegen/resources, codegen/utils (except the type registry's cycle search) and cmd is classified like R09.1: a body that passes a shared jennifer Statement/Group/File (or another shared sink) " +
			"is order-sensitive and a violation unless the site is one of the confirmed per-key-output idioms frozen below (one output file per key; jennifer renders imports sorted). IdentifierSet.Range must collect, sort, then visit. " +
			"A positive control (a synthetic order-sensitive loop) must be recognised on every run.",
		Props: []string{"C12", "C20"},
		Floor: map[string]int{"v2": 5, "root": 3},
		Run:   runR123,
	})
}

// generatorMapRangeExceptions: sites confirmed by reading, one line of reason each.  Keyed by function AND ranged
// expression: another map range added to the same function is classified on its own.
var generatorMapRangeExceptions = map[string]string{
	"cmd.GenerateCode|range over utils.TypeRegistry.TypesInPackageRoot(inputManifest.PackageRoot)": "each key yields one CodeFile written to its own file name derived from the key; the order files are written in does not affect their content",
	// the two other sites once listed here (the custom-typeref init files, the anonymous imports) need no exception
	// since the classifier reads builder chains, closure parameters and constructor results (benign C20-f3, C12-g1)
}

func runR123(c *core.Ctx) {
	var sites []*mapRangeSite
	for _, rel := range []string{"cmd", "codegen/types", "codegen/resources", "codegen/utils"} {
		p := c.M.Pkg(rel)
		if p == nil {
			continue
		}
		inf := p.TypesInfo
		for _, file := range p.Syntax {
			fname := c.M.Fset.File(file.Pos()).Name()
			if strings.HasSuffix(fname, "_test.go") || strings.HasSuffix(fname, "type_registry.go") {
				continue // the registry's cycle search is explicitly out of scope (DESIGN R12.3)
			}
			for _, d := range file.Decls {
				fd, ok := d.(*ast.FuncDecl)
				if !ok || fd.Body == nil {
					continue
				}
				ast.Inspect(fd.Body, func(n ast.Node) bool {
					if x, ok := n.(*ast.RangeStmt); ok {
						if _, isMap := inf.Types[x.X].Type.Underlying().(*types.Map); isMap {
							sites = append(sites, &mapRangeSite{rel: rel, fn: core.DeclName(fd), pos: x.Pos(), node: x, body: x.Body, key: x.Key, value: x.Value, fd: fd, inf: inf, kind: "range over " + core.ExprString(x.X)})
						}
					}
					return true
				})
			}
		}
	}
	counts := map[string]int{}
	for _, s := range sites {
		counts[s.rel+"."+s.fn]++
		construct := fmt.Sprintf("%s #%d", s.kind, counts[s.rel+"."+s.fn])
		idiom, bad := classifyMapRange(c, s)
		if bad == "" {
			c.OK(s.rel, s.fn, construct, s.pos, "idiom "+idiom)
			continue
		}
		if why, ok := generatorMapRangeExceptions[s.rel+"."+s.fn+"|"+s.kind]; ok {
			c.OK(s.rel, s.fn, construct, s.pos, "confirmed exception: "+why+" (classifier said: "+bad+")")
			continue
		}
		c.Bad(s.rel, s.fn, construct, s.pos, "generator output depends on map iteration order: "+bad)
	}
	// positive control: the classifier must flag a synthetic loop writing a shared Statement in map order
	ctl := `package ctl
type Statement struct{}
func (s *Statement) Add(x string) *Statement { return s }
func emit(def *Statement, m map[string]string) { for k := range m { def.Add(k) } }`
	if bad := classifyControl(c, ctl); bad == "" {
		c.Unknown("-", "-", "positive control", 0, "the classifier no longer recognises an order-sensitive map range")
	} else {
		c.OK("-", "-", "positive control: synthetic order-sensitive loop is recognised", 0, bad)
	}
}

// classifyControl type-checks a tiny synthetic package and classifies its
// first map range; it returns the classifier's complaint ("" = accepted).
func classifyControl(c *core.Ctx, src string) string {
	fset := c.M.Fset
	f, err := parser.ParseFile(fset, "control.go", src, 0)
	if err != nil {
		return ""
	}
	inf := &types.Info{Types: map[ast.Expr]types.TypeAndValue{}, Defs: map[*ast.Ident]types.Object{}, Uses: map[*ast.Ident]types.Object{}, Selections: map[*ast.SelectorExpr]*types.Selection{}}
	if _, err := (&types.Config{}).Check("ctl", fset, []*ast.File{f}, inf); err != nil {
		return ""
	}
	res := ""
	for _, d := range f.Decls {
		fd, ok := d.(*ast.FuncDecl)
		if !ok || fd.Body == nil {
			continue
		}
		ast.Inspect(fd.Body, func(n ast.Node) bool {
			if x, ok := n.(*ast.RangeStmt); ok {
				s := &mapRangeSite{rel: "ctl", fn: fd.Name.Name, pos: x.Pos(), node: x, body: x.Body, key: x.Key, value: x.Value, fd: fd, inf: inf}
				_, res = classifyMapRange(c, s)
			}
			return true
		})
	}
	return res
}

func init() {
	core.Register(&core.Rule{
		ID:    "R12.5",
		Title: "the package-cycle search keeps no memo",
		Text: "typeRegistry.findCycle stores nothing through the registry (mutation summary over its body and the registry methods it calls): whether a node closes a package cycle depends on the path it was reached by, " +
			"so a per-node memo kept across start nodes hides cycles and the generated packages import each other. Only flagCyclic (called by the driver loop, not by the search) may write.",
		Props: []string{"C12"},
		Floor: map[string]int{"v2": 1, "root": 1},
		Run:   runR125,
	})
}

func runR125(c *core.Ctx) {
	const rel = "codegen/utils"
	name := "(*typeRegistry).findCycle"
	if c.M.LookupFunc(rel, name) == nil {
		name = "(typeRegistry).FindCycle" // root module: exported, map-typed value receiver
	}
	f := mustFunc(c, rel, name)
	mut := mutatingMethods(c)
	fd := c.M.Decl(f)
	c.Check(!mut[f], rel, name, "the search does not write to the registry", fd.Pos(), "no store or mutating call through the receiver",
		"findCycle (or a registry method it calls) stores through the registry: state kept across searches makes the result depend on the order of earlier searches")
}
