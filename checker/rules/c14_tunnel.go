package rules

import (
	"fmt"
	"go/ast"
	"go/constant"
	"go/token"
	"go/types"
	"golang.org/x/tools/go/cfg"
	"sort"
	"strings"

	"verif/checker/core"
)

func init() {
	core.Register(&core.Rule{
		ID:    "R14.1",
		Title: "tunnelling encoder and decoder use the same constants",
		Text:  "Every package-level string constant referenced by EncodeTunnelledQuery (override header, content-type header, the three content types, the boundary parameter) is referenced by DecodeTunnelledQuery and vice versa; the decoder's switch cases are constants the encoder emits.",
		Props: []string{"C14"},
		Floor: map[string]int{"v2": 6, "root": 6},
		Run:   runR141,
	})
	core.Register(&core.Rule{
		ID:    "R14.2",
		Title: "every successful de-tunnelling restores the whole request",
		Text: "Path automaton over DecodeTunnelledQuery: on every path returning nil after req.Method was overridden, req.URL.RawQuery and req.RequestURI have been stored and req.Body is non-nil " +
			"(stored non-nil after the `req.Body = nil` store, or established by a `req.Body == nil` error guard); on paths that do not override the method nothing of the request is stored.",
		Props: []string{"C14", "C04"},
		Floor: map[string]int{"v2": 3, "root": 3},
		Run:   runR142,
	})
	core.Register(&core.Rule{
		ID:    "R14.3",
		Title: "malformed tunnelled requests reach an error return",
		Text: "DecodeTunnelledQuery has a non-nil error return guarded by: a non-empty URL query with the override header; an empty query after the multipart loop; a nil body after the multipart loop (and that test is live: some path reaches it with req.Body nil); " +
			"the multipart reader error.  Unknown content types are rejected, on the control flow graph: once the media type is parsed every successful exit lies on a path that compared it equal to a constant, and once a part's content type is read " +
			"the loop continues or ends only on paths that compared it equal to a constant (switch with an error default and if/else chain alike).  ServeHTTP calls it before receive.",
		Props: []string{"C14"},
		Floor: map[string]int{"v2": 8, "root": 8},
		Run:   runR143,
	})
	core.Register(&core.Rule{
		ID:    "R14.4",
		Title: "tunnelling is entered exactly above the threshold and nowhere else",
		Text: "In newRequest the block calling EncodeTunnelledQuery is guarded by exactly `threshold > 0 && len(u.RawQuery) > threshold` (operators, operands and strictness checked); inside it the verb becomes POST, RawQuery is cleared, " +
			"body comes from the encoder and the original verb is what the encoder receives; outside it neither the verb nor RawQuery is assigned.",
		Props: []string{"C14"},
		Floor: map[string]int{"v2": 6, "root": 6},
		Run:   runR144,
	})
	core.Register(&core.Rule{
		ID:    "R03.3",
		Title: "protocol headers on every exchange",
		Text: "Every success return of newRequest has passed Header.Set(ProtocolVersionHeader, ProtocolVersion) and Header.Set(MethodHeader, method.String()) — after, and independently of, the tunnelling block; " +
			"ServeHTTP sets the protocol version header before dispatch and Content-Type application/json with every body.",
		Props: []string{"C03", "C14", "C02"},
		Floor: map[string]int{"v2": 4, "root": 4},
		Run:   runR033,
	})
}

func constsUsed(inf *types.Info, pkg *types.Package, n ast.Node) map[types.Object]bool {
	out := map[types.Object]bool{}
	ast.Inspect(n, func(x ast.Node) bool {
		if id, ok := x.(*ast.Ident); ok {
			if k, ok := inf.Uses[id].(*types.Const); ok && k.Pkg() == pkg && k.Parent() == pkg.Scope() {
				if b, ok := k.Type().Underlying().(*types.Basic); ok && b.Info()&types.IsString != 0 {
					out[k] = true
				}
			}
		}
		return true
	})
	return out
}

func runR141(c *core.Ctx) {
	const rel = "restli"
	p := c.M.Pkg(rel)
	inf := p.TypesInfo
	_, enc := mustDecl(c, rel, "EncodeTunnelledQuery")
	_, dec := mustDecl(c, rel, "DecodeTunnelledQuery")
	e, d := constsUsed(inf, p.Types, enc), constsUsed(inf, p.Types, dec)
	var names []string
	all := map[types.Object]bool{}
	for o := range e {
		all[o] = true
	}
	for o := range d {
		all[o] = true
	}
	for o := range all {
		names = append(names, core.NameOf(o))
	}
	sort.Strings(names)
	for _, n := range names {
		o := p.Types.Scope().Lookup(n)
		c.Check(e[o] && d[o], rel, "EncodeTunnelledQuery/DecodeTunnelledQuery", "constant "+n+" used on both sides", o.Pos(), "",
			fmt.Sprintf("encoder uses it: %v, decoder uses it: %v", e[o], d[o]))
	}
	// decoder switch cases are constants the encoder uses
	ast.Inspect(dec.Body, func(n ast.Node) bool {
		cc, ok := n.(*ast.CaseClause)
		if !ok {
			return true
		}
		for _, ce := range cc.List {
			if o := core.ObjOf(inf, ce); o != nil {
				if _, isConst := o.(*types.Const); isConst {
					c.Check(e[o], rel, "DecodeTunnelledQuery", "decoder case "+core.NameOf(o)+" is produced by the encoder", ce.Pos(), "", "the decoder accepts a content type the encoder never emits")
				}
			}
		}
		return true
	})
}

// reqField matches req.<path> selectors rooted at the *http.Request parameter.
func reqFieldPath(inf *types.Info, e ast.Expr, req types.Object) string {
	var parts []string
	cur := core.Unparen(e)
	for {
		sel, ok := cur.(*ast.SelectorExpr)
		if !ok {
			break
		}
		parts = append([]string{sel.Sel.Name}, parts...)
		cur = core.Unparen(sel.X)
	}
	if id, ok := cur.(*ast.Ident); ok && core.ObjOf(inf, id) == req {
		return strings.Join(parts, ".")
	}
	return ""
}

func runR142(c *core.Ctx) {
	const rel = "restli"
	inf := info(c, rel)
	f, fd := mustDecl(c, rel, "DecodeTunnelledQuery")
	sig := f.Type().(*types.Signature)
	if len(fd.Type.Params.List) == 0 || len(fd.Type.Params.List[0].Names) == 0 {
		c.Unknown(rel, "DecodeTunnelledQuery", "request parameter", fd.Pos(), "unnamed")
		return
	}
	req := inf.Defs[fd.Type.Params.List[0].Names[0]]
	par := core.Parents(fd)
	flow := core.NewFlow(c.M, inf, fd.Body)
	const (
		bMethod = 1 << iota
		bBodyNil
		bQuery
		bURI
	)
	type res struct {
		ok  bool
		why string
	}
	results := map[*ast.ReturnStmt]res{}
	auto := &core.Automaton{
		Init: 0,
		Node: func(state int, n ast.Node) int {
			if as, ok := n.(*ast.AssignStmt); ok {
				for i, l := range as.Lhs {
					switch reqFieldPath(inf, l, req) {
					case "Method":
						state |= bMethod
					case "Body":
						if i < len(as.Rhs) && core.IsNil(inf, as.Rhs[i]) {
							state |= bBodyNil
						} else {
							state &^= bBodyNil
						}
					case "URL.RawQuery":
						state |= bQuery
					case "RequestURI":
						state |= bURI
					}
				}
			}
			if r, ok := n.(*ast.ReturnStmt); ok {
				if core.ErrorReturn(inf, par, sig, r) == "nil" {
					prev, seen := results[r]
					cur := res{ok: true}
					if state&bMethod != 0 {
						var miss []string
						if state&bBodyNil != 0 {
							miss = append(miss, "req.Body is nil")
						}
						if state&bQuery == 0 {
							miss = append(miss, "req.URL.RawQuery not restored")
						}
						if state&bURI == 0 {
							miss = append(miss, "req.RequestURI not restored")
						}
						if len(miss) > 0 {
							cur = res{false, "method overridden but " + strings.Join(miss, ", ")}
						}
					} else if state != 0 {
						cur = res{false, "request fields stored on a path that does not de-tunnel"}
					}
					if !seen || (prev.ok && !cur.ok) {
						results[r] = cur
					}
				}
			}
			return state
		},
		Edge: func(state int, facts []core.Fact) (int, bool) {
			for _, f := range facts {
				if f.Tag != nil {
					continue
				}
				if e, nonNil, ok := core.NilTest(inf, f); ok && reqFieldPath(inf, e, req) == "Body" {
					if nonNil {
						state &^= bBodyNil
					}
				}
				// req.URL.RawQuery == "" false  => query present
				if be, ok := core.Unparen(f.Expr).(*ast.BinaryExpr); ok && (be.Op == token.EQL || be.Op == token.NEQ) {
					if reqFieldPath(inf, be.X, req) == "URL.RawQuery" {
						if cv := core.ConstOf(inf, be.Y); cv != nil && cv.ExactString() == `""` {
							if (be.Op == token.NEQ) == f.Val && state&bMethod != 0 {
								// query non-empty after the body was taken: it was restored from the tunnelled data
								state |= bQuery
							}
						}
					}
				}
			}
			return state, true
		},
	}
	flow.Run(auto)
	if len(results) == 0 {
		c.Unknown(rel, "DecodeTunnelledQuery", "nil returns", fd.Pos(), "none found")
	}
	for r, v := range results {
		c.Check(v.ok, rel, "DecodeTunnelledQuery", fmt.Sprintf("nil return #%d leaves a complete request", ordinal(fd, r)), r.Pos(), "", v.why)
	}
}

func runR143(c *core.Ctx) {
	const rel = "restli"
	inf := info(c, rel)
	f, fd := mustDecl(c, rel, "DecodeTunnelledQuery")
	sig := f.Type().(*types.Signature)
	req := inf.Defs[fd.Type.Params.List[0].Names[0]]
	par := core.Parents(fd)
	isErrRet := func(r *ast.ReturnStmt) bool { return core.ErrorReturn(inf, par, sig, r) == "error" }
	guardedReturn := func(pred func(core.Fact) bool) bool {
		found := false
		for _, r := range core.ReturnsIn(fd.Body) {
			if isErrRet(r) && core.GuardedByFact(inf, par, r, pred, nil) {
				found = true
			}
		}
		return found
	}
	emptyCmp := func(f core.Fact, path string, wantEmpty bool) bool {
		be, ok := core.Unparen(f.Expr).(*ast.BinaryExpr)
		if !ok || (be.Op != token.EQL && be.Op != token.NEQ) || reqFieldPath(inf, be.X, req) != path {
			return false
		}
		cv := core.ConstOf(inf, be.Y)
		if cv == nil || cv.ExactString() != `""` {
			return false
		}
		isEmpty := (be.Op == token.EQL) == f.Val
		return isEmpty == wantEmpty
	}
	c.Check(guardedReturn(func(f core.Fact) bool { return emptyCmp(f, "URL.RawQuery", false) }), rel, "DecodeTunnelledQuery",
		"override header with a non-empty URL query is rejected", fd.Pos(), "", "no error return under req.URL.RawQuery != \"\"")
	c.Check(guardedReturn(func(f core.Fact) bool { return emptyCmp(f, "URL.RawQuery", true) }), rel, "DecodeTunnelledQuery",
		"multipart without a query part is rejected", fd.Pos(), "", "no error return under req.URL.RawQuery == \"\"")
	c.Check(guardedReturn(func(f core.Fact) bool {
		e, nonNil, ok := core.NilTest(inf, f)
		return ok && !nonNil && reqFieldPath(inf, e, req) == "Body"
	}), rel, "DecodeTunnelledQuery", "multipart without a body part is rejected", fd.Pos(), "", "no error return under req.Body == nil")
	// … and that test is live: the body is nil (or unknown) on some path reaching it.  A body that was assigned a non-nil
	// value on every path (http.NoBody as a placeholder) makes the rejection dead code.
	reach := map[int]bool{}
	tests := 0
	core.NewFlow(c.M, inf, fd.Body).Run(&core.Automaton{
		Init: 0, // 0 unknown, 1 nil, 2 non-nil
		Node: func(st int, n ast.Node) int {
			switch x := n.(type) {
			case *ast.AssignStmt:
				for i, l := range x.Lhs {
					if reqFieldPath(inf, l, req) == "Body" && len(x.Lhs) == len(x.Rhs) {
						if core.IsNil(inf, x.Rhs[i]) {
							st = 1
						} else {
							st = 2
						}
					}
				}
			case ast.Expr:
				for _, f := range core.Decompose(x, true, nil) {
					if e, _, ok := core.NilTest(inf, f); ok && reqFieldPath(inf, e, req) == "Body" {
						tests++
						reach[st] = true
					}
				}
			}
			return st
		},
	})
	c.Check(tests > 0 && (reach[0] || reach[1]), rel, "DecodeTunnelledQuery", "the missing-body test can observe a nil body", fd.Pos(), fmt.Sprintf("states reaching the test: unknown=%v nil=%v non-nil=%v", reach[0], reach[1], reach[2]),
		"req.Body is non-nil on every path reaching the `req.Body == nil` test: a multipart request without a body part is no longer rejected")
	// unknown content types are rejected: once the media type has been parsed, the function returns success only on
	// paths that compared it equal to a constant; and after a part's content type has been read, the loop goes on (or is
	// left) only on paths that compared it equal to a constant.  Stated on the control flow graph, so a switch with an
	// error default and an if/else chain ending in an error return are the same thing.
	isCTGet := func(n ast.Node) bool {
		found := false
		core.WalkNoFuncLit(n, func(m ast.Node) bool {
			call, ok := m.(*ast.CallExpr)
			if !ok || len(call.Args) != 1 {
				return true
			}
			cf := core.Callee(inf, call)
			if cf == nil || core.NameOf(cf) != "Get" || core.RecvNamed(cf) == nil {
				return true
			}
			if rn := core.RecvNamed(cf).Obj(); core.NameOf(rn) != "MIMEHeader" && core.NameOf(rn) != "Header" {
				return true
			}
			if cv := core.ConstOf(inf, call.Args[0]); cv != nil && cv.Kind() == constant.String && strings.EqualFold(constant.StringVal(cv), "Content-Type") {
				found = true
			}
			return true
		})
		return found
	}
	isParse := func(n ast.Node) bool {
		found := false
		core.WalkNoFuncLit(n, func(m ast.Node) bool {
			if call, ok := m.(*ast.CallExpr); ok && core.IsFunc(core.Callee(inf, call), "mime", "ParseMediaType") {
				found = true
			}
			return true
		})
		return found
	}
	var mediaVar types.Object
	ctVars := map[types.Object]bool{}
	var partLoop ast.Stmt
	ast.Inspect(fd.Body, func(n ast.Node) bool {
		if _, ok := n.(*ast.FuncLit); ok {
			return false
		}
		as, ok := n.(*ast.AssignStmt)
		if !ok || len(as.Rhs) != 1 {
			return true
		}
		if isParse(as.Rhs[0]) {
			mediaVar = core.ObjOf(inf, as.Lhs[0])
		}
		if isCTGet(as.Rhs[0]) && len(as.Lhs) == 1 {
			ctVars[core.ObjOf(inf, as.Lhs[0])] = true
		}
		return true
	})
	ast.Inspect(fd.Body, func(n ast.Node) bool {
		if _, ok := n.(*ast.FuncLit); ok {
			return false
		}
		switch n.(type) {
		case *ast.ForStmt, *ast.RangeStmt:
			if partLoop == nil && isCTGet(n) {
				partLoop = n.(ast.Stmt)
			}
		}
		return true
	})
	if mediaVar == nil || partLoop == nil {
		c.Unknown(rel, "DecodeTunnelledQuery", "content-type dispatch", fd.Pos(), "the parsed media type or the loop reading the parts' content types was not found")
	} else {
		const (
			sD = 1 << iota // media type parsed
			sM             // … and compared equal to a constant
			sI             // a part's content type has been read in this iteration
			sC             // … and compared equal to a constant
		)
		eqConst := func(f core.Fact, isSubject func(ast.Expr) bool) bool {
			be, ok := core.Unparen(f.Expr).(*ast.BinaryExpr)
			if !ok || !((be.Op == token.EQL && f.Val) || (be.Op == token.NEQ && !f.Val)) {
				return false
			}
			return (isSubject(be.X) && core.ConstOf(inf, be.Y) != nil) || (isSubject(be.Y) && core.ConstOf(inf, be.X) != nil)
		}
		var badOuter, badPart token.Pos
		core.NewFlow(c.M, inf, fd.Body).Run(core.TrackVals(inf, fd.Body, &core.Automaton{
			Block: func(st int, b *cfg.Block) int {
				if b.Stmt != partLoop {
					return st
				}
				head := b.Kind == cfg.KindRangeLoop || b.Kind == cfg.KindForLoop || b.Kind == cfg.KindForPost
				if fs, ok := partLoop.(*ast.ForStmt); ok && fs.Cond == nil && fs.Post == nil && b.Kind == cfg.KindForBody {
					head = true
				}
				if head || b.Kind == cfg.KindForDone || b.Kind == cfg.KindRangeDone {
					if st&sI != 0 && st&sC == 0 && badPart == 0 {
						badPart = partLoop.Pos()
					}
					st &^= sI | sC
				}
				return st
			},
			Node: func(st int, n ast.Node) int {
				if isParse(n) {
					st = (st | sD) &^ sM
				}
				if isCTGet(n) && n.Pos() >= partLoop.Pos() && n.End() <= partLoop.End() {
					st = (st | sI) &^ sC
				}
				if r, ok := n.(*ast.ReturnStmt); ok && !isErrRet(r) {
					if st&sD != 0 && st&sM == 0 && badOuter == 0 {
						badOuter = r.Pos()
					}
					if st&sI != 0 && st&sC == 0 && badPart == 0 {
						badPart = r.Pos()
					}
				}
				return st
			},
			Edge: func(st int, facts []core.Fact) (int, bool) {
				for _, f := range facts {
					if eqConst(f, func(e ast.Expr) bool { return core.ObjOf(inf, e) == mediaVar || isParse(e) }) {
						st |= sM
					}
					if eqConst(f, func(e ast.Expr) bool { return ctVars[core.ObjOf(inf, e)] || isCTGet(e) }) {
						st |= sC
					}
				}
				return st, true
			},
		}))
		c.Check(badOuter == 0, rel, "DecodeTunnelledQuery", "an unknown media type of the tunnelled request is rejected", fd.Pos(), "",
			fmt.Sprintf("the success return at %s is reached without the media type having compared equal to a known one: an unknown content type is silently accepted", c.M.Fset.Position(badOuter)))
		c.Check(badPart == 0, rel, "DecodeTunnelledQuery", "an unknown content type of a multipart part is rejected", partLoop.Pos(), "",
			"the loop over the parts goes on (or ends successfully) without the part's content type having compared equal to a known one: an unknown part is silently accepted")
	}
	// NextPart error returned
	nextErr := false
	ast.Inspect(fd.Body, func(n ast.Node) bool {
		as, ok := n.(*ast.AssignStmt)
		if !ok || len(as.Rhs) != 1 || len(as.Lhs) != 2 {
			return true
		}
		call, ok := core.Unparen(as.Rhs[0]).(*ast.CallExpr)
		if !ok {
			return true
		}
		if cf := core.Callee(inf, call); cf == nil || core.NameOf(cf) != "NextPart" {
			return true
		}
		errObj := core.ObjOf(inf, as.Lhs[1])
		for _, r := range core.ReturnsIn(fd.Body) {
			if len(r.Results) == 1 && core.ObjOf(inf, r.Results[0]) == errObj && core.GuardedNonNil(inf, par, r, errObj) {
				nextErr = true
			}
		}
		return true
	})
	c.Check(nextErr, rel, "DecodeTunnelledQuery", "multipart reader errors are returned", fd.Pos(), "", "the NextPart error is not propagated")
	// ServeHTTP order
	_, serve := mustDecl(c, rel, "(*rootNode).ServeHTTP")
	recvFn := mustFunc(c, rel, "(*pathNode).receive")
	var decPos, recvPos token.Pos
	ast.Inspect(serve.Body, func(n ast.Node) bool {
		if call, ok := n.(*ast.CallExpr); ok {
			cf := core.Callee(inf, call)
			if cf == f && decPos == 0 {
				decPos = call.Pos()
			}
			if cf != nil && cf.Origin() == recvFn && recvPos == 0 {
				recvPos = call.Pos()
			}
		}
		return true
	})
	c.Check(decPos != 0 && recvPos != 0 && decPos < recvPos, rel, "(*rootNode).ServeHTTP", "de-tunnelling precedes routing", serve.Pos(), "", "DecodeTunnelledQuery is not called before receive")
}

func runR144(c *core.Ctx) {
	const rel = "restli"
	inf := info(c, rel)
	_, fd := mustDecl(c, rel, "newRequest")
	encF := mustFunc(c, rel, "EncodeTunnelledQuery")
	par := core.Parents(fd)
	var encCall *ast.CallExpr
	ast.Inspect(fd.Body, func(n ast.Node) bool {
		if call, ok := n.(*ast.CallExpr); ok && core.Callee(inf, call) == encF {
			encCall = call
		}
		return true
	})
	if encCall == nil {
		c.Unknown(rel, "newRequest", "tunnelling block", fd.Pos(), "EncodeTunnelledQuery is not called")
		return
	}
	encStmt := core.EnclosingStmt(par, encCall)
	isThreshold := func(e ast.Expr) bool {
		fv, ok := core.ObjOf(inf, e).(*types.Var)
		return ok && fv.IsField() && core.NameOf(fv) == "QueryTunnellingThreshold"
	}
	isRawQuery := func(e ast.Expr) bool {
		fv, ok := core.ObjOf(inf, e).(*types.Var)
		return ok && fv.IsField() && core.NameOf(fv) == "RawQuery"
	}
	isLenRawQuery := func(e ast.Expr) bool {
		call, ok := core.Unparen(e).(*ast.CallExpr)
		if !ok || len(call.Args) != 1 {
			return false
		}
		if b, ok := core.ObjOf(inf, call.Fun).(*types.Builtin); !ok || b.Name() != "len" {
			return false
		}
		return isRawQuery(call.Args[0])
	}
	// a comparison fact in the form  l > r  /  l >= r  (a false `<=` is a true `>`, and so on)
	norm := func(f core.Fact) (l, r ast.Expr, op token.Token, ok bool) {
		be, isBin := core.Unparen(f.Expr).(*ast.BinaryExpr)
		if !isBin {
			return nil, nil, 0, false
		}
		l, r, op = be.X, be.Y, be.Op
		if !f.Val {
			switch op {
			case token.LSS:
				op = token.GEQ
			case token.LEQ:
				op = token.GTR
			case token.GTR:
				op = token.LEQ
			case token.GEQ:
				op = token.LSS
			default:
				return nil, nil, 0, false
			}
		}
		switch op {
		case token.LSS:
			l, r, op = r, l, token.GTR
		case token.LEQ:
			l, r, op = r, l, token.GEQ
		}
		return l, r, op, op == token.GTR || op == token.GEQ
	}
	isPositive := func(f core.Fact) bool {
		l, r, op, ok := norm(f)
		if !ok || !isThreshold(l) {
			return false
		}
		cv := core.ConstOf(inf, r)
		return cv != nil && ((op == token.GTR && cv.ExactString() == "0") || (op == token.GEQ && cv.ExactString() == "1"))
	}
	isAbove := func(f core.Fact) bool {
		l, r, op, ok := norm(f)
		return ok && op == token.GTR && isLenRawQuery(l) && isThreshold(r)
	}
	positive := core.GuardedByFact(inf, par, encStmt, isPositive, nil)
	above := core.GuardedByFact(inf, par, encStmt, isAbove, nil)
	// the conditions of the if statements the call sits in contribute nothing else
	extra, gates := []string{}, 0
	for n, child := par[ast.Node(encStmt)], ast.Node(encStmt); n != nil; child, n = n, par[n] {
		ifs, ok := n.(*ast.IfStmt)
		if !ok {
			continue
		}
		var facts []core.Fact
		switch child {
		case ast.Node(ifs.Body):
			facts = core.Decompose(ifs.Cond, true, nil)
		case ifs.Else:
			facts = core.Decompose(ifs.Cond, false, nil)
		default:
			continue
		}
		gates++
		if len(facts) == 0 {
			extra = append(extra, core.ExprString(ifs.Cond)+" (not a conjunction on this branch)")
		}
		for _, f := range facts {
			if !isPositive(f) && !isAbove(f) {
				extra = append(extra, core.ExprString(f.Expr))
			}
		}
	}
	c.Check(positive, rel, "newRequest", "tunnelling requires threshold > 0", encCall.Pos(), "", "the tunnelling call is not guarded by a positive threshold")
	c.Check(above, rel, "newRequest", "tunnelling requires len(RawQuery) > threshold (strict)", encCall.Pos(), "", "the tunnelling call is not guarded by the strict comparison of the raw query length with the threshold")
	c.Check(len(extra) == 0 && gates > 0, rel, "newRequest", "no other condition gates tunnelling", encCall.Pos(), "", "the guard has additional or disjunctive conditions: "+strings.Join(extra, "; "))
	// on the control flow graph: the encoder receives the caller's verb; on every path through it the verb then becomes
	// POST and the URL query is cleared before the request is built; on paths around it neither is touched
	var verbParam types.Object
	if len(encCall.Args) == 3 {
		verbParam = core.ObjOf(inf, encCall.Args[0])
	}
	const (
		sEnc = 1 << iota
		sPost
		sCleared
		sTouched
	)
	post, cleared, outside := "", "", ""
	set := func(dst *string, msg string) {
		if *dst == "" {
			*dst = msg
		}
	}
	isBuild := func(call *ast.CallExpr) bool {
		f := core.Callee(inf, call)
		return core.IsFunc(f, "net/http", "NewRequestWithContext") || core.IsFunc(f, "net/http", "NewRequest")
	}
	check := func(st int, where token.Pos) {
		if st&sEnc != 0 {
			if st&sPost == 0 {
				set(&post, "the verb is not replaced by POST after EncodeTunnelledQuery on the path reaching "+c.M.Position(where))
			}
			if st&sCleared == 0 {
				set(&cleared, "RawQuery is not cleared after EncodeTunnelledQuery on the path reaching "+c.M.Position(where))
			}
		} else if st&sTouched != 0 {
			set(&outside, "the verb or RawQuery is assigned on a path that does not tunnel, reaching "+c.M.Position(where))
		}
	}
	built := false
	core.NewFlow(c.M, inf, fd.Body).Run(&core.Automaton{
		AtEnd: true,
		Node: func(st int, n ast.Node) int {
			hasEnc := false
			for _, call := range core.CallsIn(n) {
				if call == encCall {
					hasEnc = true
				}
				if isBuild(call) {
					built = true
					check(st, call.Pos())
				}
			}
			if hasEnc {
				st = sEnc
			}
			if as, ok := n.(*ast.AssignStmt); ok && !hasEnc {
				for i, l := range as.Lhs {
					var rhs ast.Expr
					if len(as.Lhs) == len(as.Rhs) {
						rhs = as.Rhs[i]
					}
					switch {
					case verbParam != nil && core.ObjOf(inf, l) == verbParam:
						if cv := core.ConstOf(inf, rhs); rhs != nil && cv != nil && cv.ExactString() == `"POST"` && st&sEnc != 0 {
							st |= sPost
						} else {
							st |= sTouched
							st &^= sPost
						}
					case isRawQuery(l):
						if cv := core.ConstOf(inf, rhs); rhs != nil && cv != nil && cv.ExactString() == `""` && st&sEnc != 0 {
							st |= sCleared
						} else {
							st |= sTouched
							st &^= sCleared
						}
					}
				}
			}
			if r, ok := n.(*ast.ReturnStmt); ok && !built {
				check(st, r.Pos())
			}
			return st
		},
	})
	c.Check(verbParam != nil && isParamOf(inf, fd, asVar(verbParam)) && post == "", rel, "newRequest", "the encoder receives the original verb, which then becomes POST", encCall.Pos(), "", "the verb passed to EncodeTunnelledQuery is not the caller's verb; "+post)
	c.Check(cleared == "", rel, "newRequest", "the URL query is cleared when tunnelled", encCall.Pos(), "", cleared)
	c.Check(outside == "", rel, "newRequest", "verb and query are untouched outside the tunnelling block", fd.Pos(), "", outside)
}

func runR033(c *core.Ctx) {
	const rel = "restli"
	inf := info(c, rel)
	f, fd := mustDecl(c, rel, "newRequest")
	sig := f.Type().(*types.Signature)
	par := core.Parents(fd)
	ver, verVal, meth := mustObj(c, rel, "ProtocolVersionHeader"), mustObj(c, rel, "ProtocolVersion"), mustObj(c, rel, "MethodHeader")
	var methodParam types.Object
	for _, fl := range fd.Type.Params.List {
		for _, n := range fl.Names {
			if nt, ok := inf.Defs[n].Type().(*types.Named); ok && core.NameOf(nt.Obj()) == "Method" {
				methodParam = inf.Defs[n]
			}
		}
	}
	isSet := func(call *ast.CallExpr, key types.Object) bool {
		cf := core.Callee(inf, call)
		return cf != nil && core.NameOf(cf) == "Set" && core.IsMethod(cf, "net/http", "Header", "Set") && len(call.Args) == 2 && core.ObjOf(inf, call.Args[0]) == key
	}
	flow := core.NewFlow(c.M, inf, fd.Body)
	okAll, any := true, false
	auto := &core.Automaton{
		Init: 0,
		Node: func(state int, n ast.Node) int {
			for _, call := range core.CallsIn(n) {
				if isSet(call, ver) && core.ObjOf(inf, call.Args[1]) == verVal {
					state |= 1
				}
				if isSet(call, meth) {
					// value is method.String() of the method parameter
					if vc, ok := core.Unparen(call.Args[1]).(*ast.CallExpr); ok {
						if sel, ok := core.Unparen(vc.Fun).(*ast.SelectorExpr); ok && sel.Sel.Name == "String" && core.ObjOf(inf, sel.X) == methodParam {
							state |= 2
						}
					}
				}
			}
			if r, ok := n.(*ast.ReturnStmt); ok && core.ErrorReturn(inf, par, sig, r) == "nil" {
				any = true
				if state != 3 {
					okAll = false
				}
			}
			return state
		},
	}
	flow.Run(auto)
	c.Check(any && okAll, rel, "newRequest", "protocol-version and method headers set on every success return", fd.Pos(), "", "a success return is reachable without both headers set (version=ProtocolVersion, method=method.String())")
	// the two Set calls are not inside the tunnelling block (independent of it)
	indep := true
	ast.Inspect(fd.Body, func(n ast.Node) bool {
		if call, ok := n.(*ast.CallExpr); ok && (isSet(call, ver) || isSet(call, meth)) {
			for p := par[call]; p != nil; p = par[p] {
				if _, isIf := p.(*ast.IfStmt); isIf {
					indep = false
				}
			}
		}
		return true
	})
	c.Check(indep, rel, "newRequest", "protocol headers are set unconditionally (independent of tunnelling)", fd.Pos(), "", "a protocol header is only set under a condition")
	// ServeHTTP: version header before dispatch; content type with body
	_, serve := mustDecl(c, rel, "(*rootNode).ServeHTTP")
	recvFn := mustFunc(c, rel, "(*pathNode).receive")
	var setPos, recvPos token.Pos
	ctJSON := false
	ast.Inspect(serve.Body, func(n ast.Node) bool {
		call, ok := n.(*ast.CallExpr)
		if !ok {
			return true
		}
		if isSet(call, ver) && core.ObjOf(inf, call.Args[1]) == verVal && setPos == 0 {
			setPos = call.Pos()
		}
		if cf := core.Callee(inf, call); cf != nil && cf.Origin() == recvFn && recvPos == 0 {
			recvPos = call.Pos()
		}
		if cf := core.Callee(inf, call); cf != nil && core.NameOf(cf) == "Set" && len(call.Args) == 2 {
			k, v := core.ConstOf(inf, call.Args[0]), core.ConstOf(inf, call.Args[1])
			if k != nil && v != nil && k.ExactString() == `"Content-Type"` && v.ExactString() == `"application/json"` {
				ctJSON = true
			}
		}
		return true
	})
	c.Check(setPos != 0 && recvPos != 0 && setPos < recvPos, rel, "(*rootNode).ServeHTTP", "protocol version header set before dispatch", serve.Pos(), "", "the response protocol-version header is not set before receive")
	c.Check(ctJSON, rel, "(*rootNode).ServeHTTP", "JSON bodies carry Content-Type application/json", serve.Pos(), "", "no Header.Set(\"Content-Type\", \"application/json\")")
}
