package rules

import (
	"fmt"
	"go/ast"
	"go/constant"
	"go/token"
	"go/types"
	"strings"

	"verif/checker/core"
)

func init() {
	core.Register(&core.Rule{
		ID:    "R15.1",
		Title: "request URL provenance: resolver base + encoded path and query, all errors returned",
		Text: "In Client.formatQueryUrl every success return is data-dependent on the URL returned by the hostname resolver and on the parse of ResourcePath() [+ \"?\" + EncodeQueryParams()]; the query is appended exactly under query != nil; " +
			"the errors of ResourcePath, EncodeQueryParams, url.Parse and the resolver are each returned by the `if err != nil` that directly follows the call.",
		Props: []string{"C15"},
		Floor: map[string]int{"v2": 7, "root": 7},
		Run:   runR151,
	})
	core.Register(&core.Rule{
		ID:    "R15.2",
		Title: "no re-encoding or normalising call between the encoders and the request",
		Text: "formatQueryUrl and newRequest call none of url.PathEscape/QueryEscape/PathUnescape/QueryUnescape, path.Clean/Join, filepath.*, (*url.URL).JoinPath, and — because they apply RFC 3986 dot-segment removal to a path that carries caller keys — " +
			"(*url.URL).ResolveReference / (*url.URL).Parse.",
		Props: []string{"C15"},
		Floor: map[string]int{"v2": 2, "root": 2},
		Run:   runR152,
	})
	core.Register(&core.Rule{
		ID:    "R15.3",
		Title: "the context-path index is evaluated only in range",
		Text:  "Every index into a string in formatQueryUrl is the right operand of `len(s) == i || s[i] …` nested under `idx >= 0 && …` where idx is the result of strings.Index / strings.LastIndex on the same string, so it is in range by their postcondition; dropping either test is reported.",
		Props: []string{"C15", "C04"},
		Floor: map[string]int{"v2": 1, "root": 1},
		Run:   runR153,
	})
}

func runR151(c *core.Ctx) {
	const rel = "restli"
	inf := info(c, rel)
	f, fd := mustDecl(c, rel, "(*Client).formatQueryUrl")
	sig := f.Type().(*types.Signature)
	par := core.Parents(fd)
	fn := "(*Client).formatQueryUrl"
	// variables assigned from the interesting calls
	type src struct {
		name   string
		match  func(*ast.CallExpr) bool
		obj    types.Object
		assign *ast.AssignStmt
	}
	srcs := []*src{
		{name: "ResourcePath()", match: func(call *ast.CallExpr) bool {
			cf := core.Callee(inf, call)
			return cf != nil && core.NameOf(cf) == "ResourcePath"
		}},
		{name: "EncodeQueryParams()", match: func(call *ast.CallExpr) bool {
			cf := core.Callee(inf, call)
			return cf != nil && core.NameOf(cf) == "EncodeQueryParams"
		}},
		{name: "url.Parse(path)", match: func(call *ast.CallExpr) bool { return core.IsFunc(core.Callee(inf, call), "net/url", "Parse") }},
		{name: "hostname resolver", match: func(call *ast.CallExpr) bool {
			cf := core.Callee(inf, call)
			return cf != nil && core.NameOf(cf) == "ResolveHostnameAndContextForQuery"
		}},
	}
	// every assignment (plain statement or the init of an if) whose value is one of the calls; its error result must be
	// returned on the branch where it is known to be non-nil, wherever that test is written
	ast.Inspect(fd.Body, func(n ast.Node) bool {
		as, ok := n.(*ast.AssignStmt)
		if !ok || len(as.Rhs) != 1 {
			return true
		}
		call, ok := core.Unparen(as.Rhs[0]).(*ast.CallExpr)
		if !ok {
			return true
		}
		for _, sr := range srcs {
			if sr.obj != nil || !sr.match(call) {
				continue
			}
			sr.obj = core.ObjOf(inf, as.Lhs[0])
			sr.assign = as
			errObj := core.ObjOf(inf, as.Lhs[len(as.Lhs)-1])
			// path automaton from the call: 1 = err holds this call's verdict, 2 = known non-nil, 3 = known nil
			okErr, lost := false, false
			// a plain copy `outer = err` made while err is known non-nil carries the verdict (the caller's variable after
			// the code was split into a helper): bit 4 = the copy still holds it
			var cp types.Object
			if errObj != nil {
				core.NewFlow(c.M, inf, fd.Body).Run(&core.Automaton{
					Init: 0,
					Node: func(full int, n ast.Node) int {
						if n == ast.Node(as) {
							return 1
						}
						st, held := full&3, full&4
						switch x := n.(type) {
						case *ast.AssignStmt:
							for i, l := range x.Lhs {
								lo := core.ObjOf(inf, l)
								if lo == errObj && (st == 1 || st == 2) {
									if st == 2 && held == 0 {
										lost = true
									}
									return 0 // once the copy was made the original may be reused
								}
								if lo != nil && lo != errObj && st == 2 && len(x.Lhs) == len(x.Rhs) {
									if core.ObjOf(inf, x.Rhs[i]) == errObj && (cp == nil || cp == lo) {
										cp = lo
										return st | 4
									}
								}
								if lo != nil && lo == cp && held != 0 {
									lost = true // the copy is overwritten before it was returned
									return 0
								}
							}
						case *ast.ReturnStmt:
							if st == 2 {
								ret := false
								for _, r := range x.Results {
									if mentions(inf, r, errObj) || held != 0 && cp != nil && mentions(inf, r, cp) {
										ret = true
									}
								}
								if ret {
									okErr = true
								} else {
									lost = true
								}
							}
						}
						return full
					},
					Edge: func(full int, facts []core.Fact) (int, bool) {
						st := full & 3
						for _, f := range facts {
							if e, nonNil, ok := core.NilTest(inf, f); ok && (core.ObjOf(inf, e) == errObj || full&4 != 0 && cp != nil && core.ObjOf(inf, e) == cp) {
								switch st {
								case 1:
									if nonNil {
										return 2, true
									}
									return 3, true
								case 2:
									if !nonNil {
										return full, false // known non-nil: the nil edge is infeasible
									}
								case 3:
									if nonNil {
										return full, false
									}
								}
							}
						}
						return full, true
					},
				})
			}
			okErr = okErr && !lost
			c.Check(okErr, rel, fn, "error of "+sr.name+" is returned", as.Pos(), "", "no return of the error of "+sr.name+" on the branch where it is non-nil before the variable is reused")
		}
		return true
	})
	for _, sr := range srcs {
		if sr.obj == nil {
			c.Bad(rel, fn, "calls "+sr.name, fd.Pos(), "the call is missing")
		}
	}
	// success returns depend on the resolver URL and on the parsed path
	host, parsed := srcs[3].obj, srcs[2].obj
	nSucc := 0
	for _, r := range core.ReturnsIn(fd.Body) {
		if core.ErrorReturn(inf, par, sig, r) == "error" || len(r.Results) == 0 {
			continue
		}
		if len(r.Results) == 2 && core.IsNil(inf, r.Results[0]) {
			continue
		}
		nSucc++
		e := r.Results[0]
		dHost := host != nil && dependsOn(inf, fd, e, host, 0)
		dPath := parsed != nil && dependsOn(inf, fd, e, parsed, 0)
		c.Check(dHost && dPath, rel, fn, fmt.Sprintf("success return #%d is built from the resolver URL and the encoded path/query", ordinal(fd, r)), r.Pos(), "",
			fmt.Sprintf("depends on the resolver's URL: %v, on the parsed resource path: %v", dHost, dPath))
	}
	if nSucc == 0 {
		c.Unknown(rel, fn, "success returns", fd.Pos(), "none found")
	}
	// query appended iff query != nil: the EncodeQueryParams call is under `query != nil`
	if srcs[1].assign != nil {
		var queryParam types.Object
		for _, fl := range fd.Type.Params.List {
			for _, n := range fl.Names {
				if nt, ok := inf.Defs[n].Type().(*types.Named); ok && core.NameOf(nt.Obj()) == "QueryParamsEncoder" {
					queryParam = inf.Defs[n]
				}
			}
		}
		g := core.GuardedByFact(inf, par, srcs[1].assign, func(fct core.Fact) bool {
			e, nonNil, ok := core.NilTest(inf, fct)
			return ok && nonNil && core.ObjOf(inf, e) == queryParam && queryParam != nil
		}, nil)
		// exactly: the innermost enclosing if has that single condition
		exact := false
		for p := par[srcs[1].assign]; p != nil; p = par[p] {
			if ifs, ok := p.(*ast.IfStmt); ok {
				if ifs.Init == ast.Stmt(srcs[1].assign) {
					continue // `if params, err = query.EncodeQueryParams(); err != nil`: its own error test
				}
				facts := core.Decompose(ifs.Cond, true, nil)
				if len(facts) == 1 {
					if e, nonNil, ok := core.NilTest(inf, facts[0]); ok && nonNil && core.ObjOf(inf, e) == queryParam {
						exact = true
					}
				}
				break
			}
		}
		c.Check(g && exact, rel, fn, "the query is encoded and appended exactly when one is given", srcs[1].assign.Pos(), "", "EncodeQueryParams is not guarded by exactly `query != nil`")
		// and "?" + params appended to the path variable in the same branch
		appended := false
		ast.Inspect(fd.Body, func(n ast.Node) bool {
			as, ok := n.(*ast.AssignStmt)
			if !ok || len(as.Lhs) != 1 || len(as.Rhs) != 1 || core.ObjOf(inf, as.Lhs[0]) != srcs[0].obj {
				return true
			}
			// path += "?" + params   or   path = path + "?" + params
			rhs := core.Unparen(as.Rhs[0])
			if as.Tok == token.ASSIGN {
				be, ok := rhs.(*ast.BinaryExpr)
				if !ok || be.Op != token.ADD {
					return true
				}
				// left-associated: (path + "?") + params
				if inner, ok := core.Unparen(be.X).(*ast.BinaryExpr); ok && inner.Op == token.ADD && core.ObjOf(inf, inner.X) == srcs[0].obj {
					rhs = &ast.BinaryExpr{X: inner.Y, Op: token.ADD, Y: be.Y}
				} else {
					return true
				}
			} else if as.Tok != token.ADD_ASSIGN {
				return true
			}
			if be, ok := rhs.(*ast.BinaryExpr); ok && be.Op == token.ADD {
				if cv := core.ConstOf(inf, be.X); cv != nil && cv.ExactString() == `"?"` && core.ObjOf(inf, be.Y) == srcs[1].obj {
					appended = true
				}
			}
			return true
		})
		c.Check(appended, rel, fn, "the encoded query follows a single \"?\" after the encoded path", fd.Pos(), "", "path += \"?\" + params not found")
	}
}

func runR152(c *core.Ctx) {
	const rel = "restli"
	inf := info(c, rel)
	forbidden := func(f *types.Func) string {
		if f == nil || f.Pkg() == nil {
			return ""
		}
		switch f.Pkg().Path() {
		case "net/url":
			switch core.NameOf(f) {
			case "PathEscape", "QueryEscape", "PathUnescape", "QueryUnescape", "JoinPath":
				return "re-encodes or decodes what the encoders produced"
			case "ResolveReference":
				return "applies RFC 3986 dot-segment removal: keys \".\" and \"..\" are normalised away"
			case "Parse":
				if sig := f.Type().(*types.Signature); sig.Recv() != nil {
					return "(*URL).Parse resolves the reference and removes dot segments: keys \".\" and \"..\" are normalised away"
				}
			}
		case "path", "path/filepath":
			switch core.NameOf(f) {
			case "Clean", "Join", "Abs", "Rel", "Dir", "Base":
				return "normalises slashes and dot segments (Dir and Base clean their result / strip trailing slashes)"
			}
		}
		return ""
	}
	for _, name := range []string{"(*Client).formatQueryUrl", "newRequest"} {
		_, fd := mustDecl(c, rel, name)
		var bad []string
		var pos token.Pos = fd.Pos()
		ast.Inspect(fd.Body, func(n ast.Node) bool {
			if call, ok := n.(*ast.CallExpr); ok {
				if f := core.Callee(inf, call); f != nil {
					if why := forbidden(f); why != "" {
						bad = append(bad, f.FullName()+" — "+why)
						pos = call.Pos()
					}
				}
			}
			return true
		})
		c.Check(len(bad) == 0, rel, name, "no re-encoding / normalising call on the request URL", pos, "", strings.Join(bad, "; "))
	}
}

func runR153(c *core.Ctx) {
	const rel = "restli"
	inf := info(c, rel)
	_, fd := mustDecl(c, rel, "(*Client).formatQueryUrl")
	par := core.Parents(fd)
	lp := newLinProver(inf, fd)
	n := 0
	ast.Inspect(fd.Body, func(x ast.Node) bool {
		var subj ast.Expr
		var lo, hi, at ast.Expr
		switch y := x.(type) {
		case *ast.IndexExpr:
			subj, at = y.X, y.Index
		case *ast.SliceExpr:
			subj, lo, hi = y.X, y.Low, y.High
		default:
			return true
		}
		if b, ok := inf.Types[subj].Type.Underlying().(*types.Basic); !ok || b.Info()&types.IsString == 0 {
			return true
		}
		n++
		facts := lp.factsAt(par, x.(ast.Expr))
		var missing []string
		ln := lp.lenOf(subj)
		if at != nil {
			if !lp.proveGE(lp.lin(at), linConst(0), facts) {
				missing = append(missing, core.ExprString(at)+" >= 0")
			}
			if !lp.proveGT(ln, lp.lin(at), facts) {
				missing = append(missing, core.ExprString(at)+" < len("+core.ExprString(subj)+")")
			}
		} else {
			if lo != nil {
				if !lp.proveGE(lp.lin(lo), linConst(0), facts) {
					missing = append(missing, core.ExprString(lo)+" >= 0")
				}
				upper := ln
				if hi != nil {
					upper = lp.lin(hi)
				}
				if !lp.proveGE(upper, lp.lin(lo), facts) {
					missing = append(missing, core.ExprString(lo)+" <= upper bound")
				}
			}
			if hi != nil {
				if !lp.proveGE(lp.lin(hi), linConst(0), facts) {
					missing = append(missing, core.ExprString(hi)+" >= 0")
				}
				if !lp.proveGE(ln, lp.lin(hi), facts) {
					missing = append(missing, core.ExprString(hi)+" <= len("+core.ExprString(subj)+")")
				}
			}
		}
		c.Check(len(missing) == 0, rel, "(*Client).formatQueryUrl", fmt.Sprintf("string index/slice #%d of %s is in range", n, core.ExprString(subj)), x.Pos(), "proved from the dominating tests and the postcondition of strings.Index/LastIndex",
			core.ExprString(x.(ast.Expr))+": cannot prove "+strings.Join(missing, ", ")+" from the tests that dominate it: a context path without the root segment (or one that ends with it) panics")
		return true
	})
	if n == 0 {
		c.OK(rel, "(*Client).formatQueryUrl", "no string indexing in the URL construction", fd.Pos(), "")
	}
}

// ---- a small linear-arithmetic prover for index safety -----------------------------------
//
// Terms are integer linear forms over atoms: int-typed variables and len(x) of string expressions (len of a constant is
// its length, len(a+b) = len(a)+len(b), single-assignment locals are expanded).  Known: every len(·) >= 0; the tests that
// dominate the use (including the operands to the left in the same && / || condition); and, for v := strings.Index /
// LastIndex(s, p), the postcondition v >= 0  =>  v + len(p) <= len(s).

type linForm struct {
	k int64
	c map[string]int64
}

func linConst(k int64) linForm { return linForm{k: k, c: map[string]int64{}} }

func (a linForm) add(b linForm, sign int64) linForm {
	out := linForm{k: a.k + sign*b.k, c: map[string]int64{}}
	for x, v := range a.c {
		out.c[x] += v
	}
	for x, v := range b.c {
		out.c[x] += sign * v
	}
	for x, v := range out.c {
		if v == 0 {
			delete(out.c, x)
		}
	}
	return out
}

type linFact struct {
	// diff op 0   with op one of ">=", "!=", "=="
	diff linForm
	op   string
}

type linProver struct {
	inf  *types.Info
	fd   *ast.FuncDecl
	defs map[types.Object][]ast.Expr
	// index postconditions: variable atom -> (len(s) - v - len(p)) form
	post   map[string]linForm
	nonneg map[string]bool
}

func newLinProver(inf *types.Info, fd *ast.FuncDecl) *linProver {
	lp := &linProver{inf: inf, fd: fd, defs: map[types.Object][]ast.Expr{}, post: map[string]linForm{}, nonneg: map[string]bool{}}
	ast.Inspect(fd.Body, func(n ast.Node) bool {
		if as, ok := n.(*ast.AssignStmt); ok {
			if len(as.Lhs) == len(as.Rhs) {
				for i, l := range as.Lhs {
					if o := core.ObjOf(inf, l); o != nil {
						lp.defs[o] = append(lp.defs[o], as.Rhs[i])
					}
				}
			} else {
				for _, l := range as.Lhs {
					if o := core.ObjOf(inf, l); o != nil {
						lp.defs[o] = append(lp.defs[o], nil)
					}
				}
			}
		}
		return true
	})
	for o, ds := range lp.defs {
		if len(ds) != 1 || ds[0] == nil {
			continue
		}
		if call, ok := core.Unparen(ds[0]).(*ast.CallExpr); ok && len(call.Args) == 2 {
			if f := core.Callee(inf, call); core.IsFunc(f, "strings", "Index") || core.IsFunc(f, "strings", "LastIndex") {
				v := lp.atomVar(o)
				lp.post[v] = lp.lenOf(call.Args[0]).add(linForm{c: map[string]int64{v: 1}}, -1).add(lp.lenOf(call.Args[1]), -1)
			}
		}
	}
	return lp
}

func (lp *linProver) atomVar(o types.Object) string {
	return fmt.Sprintf("v:%s@%d", core.NameOf(o), o.Pos())
}

func (lp *linProver) singleDef(o types.Object) ast.Expr {
	if ds := lp.defs[o]; len(ds) == 1 {
		return ds[0]
	}
	return nil
}

// lenOf: the linear form of len(e) for a string expression e.
func (lp *linProver) lenOf(e ast.Expr) linForm {
	e = core.Unparen(e)
	if cv := core.ConstOf(lp.inf, e); cv != nil && cv.Kind() == constant.String {
		return linConst(int64(len(constant.StringVal(cv))))
	}
	switch x := e.(type) {
	case *ast.BinaryExpr:
		if x.Op == token.ADD {
			return lp.lenOf(x.X).add(lp.lenOf(x.Y), 1)
		}
	case *ast.Ident:
		if o := core.ObjOf(lp.inf, x); o != nil {
			if d := lp.singleDef(o); d != nil {
				switch dd := core.Unparen(d).(type) {
				case *ast.BinaryExpr:
					if dd.Op == token.ADD {
						return lp.lenOf(d)
					}
				case *ast.BasicLit:
					return lp.lenOf(d)
				}
			}
			a := "len:" + lp.atomVar(o)
			lp.nonneg[a] = true
			return linForm{c: map[string]int64{a: 1}}
		}
	}
	a := "len:" + core.ExprString(e)
	lp.nonneg[a] = true
	return linForm{c: map[string]int64{a: 1}}
}

// lin: the linear form of an int expression.
func (lp *linProver) lin(e ast.Expr) linForm {
	e = core.Unparen(e)
	if cv := core.ConstOf(lp.inf, e); cv != nil && cv.Kind() == constant.Int {
		v, _ := constant.Int64Val(cv)
		return linConst(v)
	}
	switch x := e.(type) {
	case *ast.BinaryExpr:
		switch x.Op {
		case token.ADD:
			return lp.lin(x.X).add(lp.lin(x.Y), 1)
		case token.SUB:
			return lp.lin(x.X).add(lp.lin(x.Y), -1)
		}
	case *ast.CallExpr:
		if id, ok := core.Unparen(x.Fun).(*ast.Ident); ok && id.Name == "len" && len(x.Args) == 1 {
			return lp.lenOf(x.Args[0])
		}
	case *ast.Ident:
		if o := core.ObjOf(lp.inf, x); o != nil {
			if d := lp.singleDef(o); d != nil {
				if _, isCall := core.Unparen(d).(*ast.CallExpr); !isCall {
					return lp.lin(d)
				}
			}
			return linForm{c: map[string]int64{lp.atomVar(o): 1}}
		}
	}
	return linForm{c: map[string]int64{"e:" + core.ExprString(e): 1}}
}

// factsAt: linear facts known when e is evaluated.
func (lp *linProver) factsAt(par map[ast.Node]ast.Node, e ast.Expr) []linFact {
	var raw []core.Fact
	// operands to the left inside the same condition
	var cur ast.Node = e
	for {
		p := par[cur]
		be, ok := p.(*ast.BinaryExpr)
		if pe, isParen := p.(*ast.ParenExpr); isParen {
			cur = pe
			continue
		}
		if !ok {
			if _, isExpr := p.(ast.Expr); isExpr {
				cur = p
				continue
			}
			break
		}
		if be.Y == cur {
			switch be.Op {
			case token.LAND:
				raw = core.Decompose(be.X, true, raw)
			case token.LOR:
				raw = core.Decompose(be.X, false, raw)
			}
		}
		cur = be
	}
	// dominating tests: collect every fact offered by the guard search
	stmt := core.EnclosingStmt(par, e)
	if ifs, ok := stmt.(*ast.IfStmt); ok && ifs.Cond != nil && ifs.Cond.Pos() <= e.Pos() && e.End() <= ifs.Cond.End() {
		// e sits in the condition of this if: the guards are those of the if statement itself
		stmt = ifs
	}
	core.GuardedByFact(lp.inf, par, stmt, func(f core.Fact) bool {
		raw = append(raw, f)
		return false
	}, nil)
	var out []linFact
	for _, f := range raw {
		if f.Tag != nil {
			continue
		}
		// strings.HasPrefix / HasSuffix(s, p) holds: len(s) >= len(p)
		if call, ok := core.Unparen(f.Expr).(*ast.CallExpr); ok && f.Val && len(call.Args) == 2 {
			if cf := core.Callee(lp.inf, call); core.IsFunc(cf, "strings", "HasPrefix") || core.IsFunc(cf, "strings", "HasSuffix") {
				out = append(out, linFact{lp.lenOf(call.Args[0]).add(lp.lenOf(call.Args[1]), -1), ">="})
			}
			continue
		}
		be, ok := core.Unparen(f.Expr).(*ast.BinaryExpr)
		if !ok {
			continue
		}
		// emptiness of a string: s != "" gives len(s) >= 1, s == "" gives len(s) == 0
		if lb, ok := lp.inf.Types[be.X]; ok && lb.Type != nil && (be.Op == token.EQL || be.Op == token.NEQ) {
			if b, ok := lb.Type.Underlying().(*types.Basic); ok && b.Info()&types.IsString != 0 {
				x, y := be.X, be.Y
				if cv := core.ConstOf(lp.inf, x); cv != nil {
					x, y = y, x
				}
				if cv := core.ConstOf(lp.inf, y); cv != nil && cv.ExactString() == `""` {
					if (be.Op == token.EQL) == f.Val {
						out = append(out, linFact{lp.lenOf(x), "=="})
					} else {
						out = append(out, linFact{lp.lenOf(x).add(linConst(1), -1), ">="})
					}
				}
				continue
			}
		}
		if lb, ok := lp.inf.Types[be.X]; !ok || lb.Type == nil {
			continue
		} else if b, ok := lb.Type.Underlying().(*types.Basic); !ok || b.Info()&types.IsInteger == 0 {
			continue
		}
		d := lp.lin(be.X).add(lp.lin(be.Y), -1) // X - Y
		op := be.Op
		if !f.Val {
			switch op {
			case token.EQL:
				op = token.NEQ
			case token.NEQ:
				op = token.EQL
			case token.LSS:
				op = token.GEQ
			case token.LEQ:
				op = token.GTR
			case token.GTR:
				op = token.LEQ
			case token.GEQ:
				op = token.LSS
			}
		}
		switch op {
		case token.GEQ:
			out = append(out, linFact{d, ">="})
		case token.GTR:
			out = append(out, linFact{d.add(linConst(1), -1), ">="})
		case token.LEQ:
			out = append(out, linFact{linConst(0).add(d, -1), ">="})
		case token.LSS:
			out = append(out, linFact{linConst(-1).add(d, -1), ">="})
		case token.NEQ:
			out = append(out, linFact{d, "!="})
		case token.EQL:
			out = append(out, linFact{d, "=="})
		}
	}
	return out
}

// proveGE: a - b >= 0 ?
func (lp *linProver) proveGE(a, b linForm, facts []linFact) bool {
	return lp.nonNegative(a.add(b, -1), facts, false)
}

// proveGT: a - b >= 1 ?
func (lp *linProver) proveGT(a, b linForm, facts []linFact) bool {
	return lp.nonNegative(a.add(b, -1), facts, true)
}

// nonNegative tries to show d >= 0 (or d >= 1 when strict) as a non-negative combination of: the constant, len atoms,
// at most a few known-non-negative forms (facts d' >= 0, and postconditions whose variable is known >= 0); for the strict
// case a fact d != 0 upgrades d >= 0 to d >= 1.
func (lp *linProver) nonNegative(d linForm, facts []linFact, strict bool) bool {
	var known []linForm
	for _, f := range facts {
		if f.op == ">=" {
			known = append(known, f.diff)
		}
		if f.op == "==" {
			known = append(known, f.diff, linConst(0).add(f.diff, -1))
		}
	}
	// postconditions of index variables known to be >= 0
	for v, p := range lp.post {
		for _, f := range facts {
			if f.op == ">=" && len(f.diff.c) == 1 && f.diff.c[v] == 1 && f.diff.k <= 0 {
				known = append(known, p)
				break
			}
		}
	}
	holds := func(r linForm, min int64) bool {
		// r >= min when every remaining coefficient is >= 0 on a non-negative atom and the constant is >= min
		for a, v := range r.c {
			if !strings.HasPrefix(a, "len:") || v < 0 {
				return false
			}
		}
		return r.k >= min
	}
	try := func(min int64) bool {
		if holds(d, min) {
			return true
		}
		// subtract up to three known forms (each once)
		for i := 0; i < len(known); i++ {
			r1 := d.add(known[i], -1)
			if holds(r1, min) {
				return true
			}
			for j := 0; j < len(known); j++ {
				if j == i {
					continue
				}
				r2 := r1.add(known[j], -1)
				if holds(r2, min) {
					return true
				}
				for k := 0; k < len(known); k++ {
					if k == i || k == j {
						continue
					}
					if holds(r2.add(known[k], -1), min) {
						return true
					}
				}
			}
		}
		return false
	}
	if !strict {
		return try(0)
	}
	if try(1) {
		return true
	}
	if !try(0) {
		return false
	}
	// d >= 0 and a fact says d != 0 (in either orientation)
	for _, f := range facts {
		if f.op != "!=" {
			continue
		}
		same := f.diff.add(d, -1)
		opp := f.diff.add(d, 1)
		if len(same.c) == 0 && same.k == 0 || len(opp.c) == 0 && opp.k == 0 {
			return true
		}
	}
	return false
}

func isLenOf(inf *types.Info, e ast.Expr, s ast.Expr) bool {
	call, ok := core.Unparen(e).(*ast.CallExpr)
	if !ok || len(call.Args) != 1 {
		return false
	}
	id, ok := core.Unparen(call.Fun).(*ast.Ident)
	return ok && id.Name == "len" && core.SameExpr(inf, call.Args[0], s)
}

func mentions(inf *types.Info, e ast.Expr, obj types.Object) bool {
	found := false
	ast.Inspect(e, func(n ast.Node) bool {
		if id, ok := n.(*ast.Ident); ok && core.ObjOf(inf, id) == obj && obj != nil {
			found = true
		}
		return true
	})
	return found
}

func fromStringsIndex(inf *types.Info, fd *ast.FuncDecl, idx types.Object, s ast.Expr) bool {
	found := false
	ast.Inspect(fd.Body, func(n ast.Node) bool {
		as, ok := n.(*ast.AssignStmt)
		if !ok || len(as.Rhs) != 1 || core.ObjOf(inf, as.Lhs[0]) != idx {
			return true
		}
		if call, ok := core.Unparen(as.Rhs[0]).(*ast.CallExpr); ok && (core.IsFunc(core.Callee(inf, call), "strings", "Index") || core.IsFunc(core.Callee(inf, call), "strings", "LastIndex")) && core.SameExpr(inf, call.Args[0], s) {
			found = true
		}
		return true
	})
	return found
}
