package rules

import (
	"fmt"
	"go/ast"
	"go/token"
	"go/types"
	"strings"

	"verif/checker/core"
)

func init() {
	core.Register(&core.Rule{
		ID:    "R15.1",
		Title: "request URL provenance: resolver base + encoded path and query, all errors returned",
		Text: "In Client.formatQueryUrl every success return is data-dependent on the URL returned by the hostname resolver and on the parse of ResourcePath() [+ \"?\" + EncodeQueryParams()]; the query is appended exactly under query != nil; " +
			"the errors of ResourcePath, EncodeQueryParams, url.Parse and the resolver are each returned by the `if err != nil` that directly follows the call.",
		Props: []string{"C15"},
		Floor: map[string]int{"v2": 7, "root": 7},
		Run:   runR151,
	})
	core.Register(&core.Rule{
		ID:    "R15.2",
		Title: "no re-encoding or normalising call between the encoders and the request",
		Text: "formatQueryUrl and newRequest call none of url.PathEscape/QueryEscape/PathUnescape/QueryUnescape, path.Clean/Join, filepath.*, (*url.URL).JoinPath, and — because they apply RFC 3986 dot-segment removal to a path that carries caller keys — " +
			"(*url.URL).ResolveReference / (*url.URL).Parse.",
		Props: []string{"C15"},
		Floor: map[string]int{"v2": 2, "root": 2},
		Run:   runR152,
	})
	core.Register(&core.Rule{
		ID:    "R15.3",
		Title: "the context-path index is evaluated only in range",
		Text:  "Every index into a string in formatQueryUrl is the right operand of `len(s) == i || s[i] …` nested under `idx >= 0 && …` where idx is the result of strings.Index / strings.LastIndex on the same string, so it is in range by their postcondition; dropping either test is reported.",
		Props: []string{"C15", "C04"},
		Floor: map[string]int{"v2": 1, "root": 1},
		Run:   runR153,
	})
}

func runR151(c *core.Ctx) {
	const rel = "restli"
	inf := info(c, rel)
	f, fd := mustDecl(c, rel, "(*Client).formatQueryUrl")
	sig := f.Type().(*types.Signature)
	par := core.Parents(fd)
	fn := "(*Client).formatQueryUrl"
	// variables assigned from the interesting calls
	type src struct {
		name   string
		match  func(*ast.CallExpr) bool
		obj    types.Object
		assign *ast.AssignStmt
	}
	srcs := []*src{
		{name: "ResourcePath()", match: func(call *ast.CallExpr) bool {
			cf := core.Callee(inf, call)
			return cf != nil && cf.Name() == "ResourcePath"
		}},
		{name: "EncodeQueryParams()", match: func(call *ast.CallExpr) bool {
			cf := core.Callee(inf, call)
			return cf != nil && cf.Name() == "EncodeQueryParams"
		}},
		{name: "url.Parse(path)", match: func(call *ast.CallExpr) bool { return core.IsFunc(core.Callee(inf, call), "net/url", "Parse") }},
		{name: "hostname resolver", match: func(call *ast.CallExpr) bool {
			cf := core.Callee(inf, call)
			return cf != nil && cf.Name() == "ResolveHostnameAndContextForQuery"
		}},
	}
	list := fd.Body.List
	var walk func(stmts []ast.Stmt)
	walk = func(stmts []ast.Stmt) {
		for i, s := range stmts {
			if ifs, ok := s.(*ast.IfStmt); ok {
				walk(ifs.Body.List)
			}
			as, ok := s.(*ast.AssignStmt)
			if !ok || len(as.Rhs) != 1 {
				continue
			}
			call, ok := core.Unparen(as.Rhs[0]).(*ast.CallExpr)
			if !ok {
				continue
			}
			for _, sr := range srcs {
				if sr.obj != nil || !sr.match(call) {
					continue
				}
				sr.obj = core.ObjOf(inf, as.Lhs[0])
				sr.assign = as
				// error returned right after
				okErr := false
				if i+1 < len(stmts) {
					if ifs, ok := stmts[i+1].(*ast.IfStmt); ok {
						for _, fct := range core.Decompose(ifs.Cond, true, nil) {
							if e, nonNil, ok := core.NilTest(inf, fct); ok && nonNil && core.ObjOf(inf, e) == core.ObjOf(inf, as.Lhs[len(as.Lhs)-1]) {
								for _, bs := range ifs.Body.List {
									if r, ok := bs.(*ast.ReturnStmt); ok && len(r.Results) == 2 && core.ObjOf(inf, r.Results[1]) == core.ObjOf(inf, e) {
										okErr = true
									}
								}
							}
						}
					}
				}
				c.Check(okErr, rel, fn, "error of "+sr.name+" is returned", as.Pos(), "", "the error of "+sr.name+" is not returned by the statement that follows the call")
			}
		}
	}
	walk(list)
	for _, sr := range srcs {
		if sr.obj == nil {
			c.Bad(rel, fn, "calls "+sr.name, fd.Pos(), "the call is missing")
		}
	}
	// success returns depend on the resolver URL and on the parsed path
	host, parsed := srcs[3].obj, srcs[2].obj
	nSucc := 0
	for _, r := range core.ReturnsIn(fd.Body) {
		if core.ErrorReturn(inf, par, sig, r) == "error" || len(r.Results) == 0 {
			continue
		}
		if len(r.Results) == 2 && core.IsNil(inf, r.Results[0]) {
			continue
		}
		nSucc++
		e := r.Results[0]
		dHost := host != nil && dependsOn(inf, fd, e, host, 0)
		dPath := parsed != nil && dependsOn(inf, fd, e, parsed, 0)
		c.Check(dHost && dPath, rel, fn, fmt.Sprintf("success return #%d is built from the resolver URL and the encoded path/query", ordinal(fd, r)), r.Pos(), "",
			fmt.Sprintf("depends on the resolver's URL: %v, on the parsed resource path: %v", dHost, dPath))
	}
	if nSucc == 0 {
		c.Unknown(rel, fn, "success returns", fd.Pos(), "none found")
	}
	// query appended iff query != nil: the EncodeQueryParams call is under `query != nil`
	if srcs[1].assign != nil {
		var queryParam types.Object
		for _, fl := range fd.Type.Params.List {
			for _, n := range fl.Names {
				if nt, ok := inf.Defs[n].Type().(*types.Named); ok && nt.Obj().Name() == "QueryParamsEncoder" {
					queryParam = inf.Defs[n]
				}
			}
		}
		g := core.GuardedByFact(inf, par, srcs[1].assign, func(fct core.Fact) bool {
			e, nonNil, ok := core.NilTest(inf, fct)
			return ok && nonNil && core.ObjOf(inf, e) == queryParam && queryParam != nil
		}, nil)
		// exactly: the innermost enclosing if has that single condition
		exact := false
		for p := par[srcs[1].assign]; p != nil; p = par[p] {
			if ifs, ok := p.(*ast.IfStmt); ok {
				facts := core.Decompose(ifs.Cond, true, nil)
				if len(facts) == 1 {
					if e, nonNil, ok := core.NilTest(inf, facts[0]); ok && nonNil && core.ObjOf(inf, e) == queryParam {
						exact = true
					}
				}
				break
			}
		}
		c.Check(g && exact, rel, fn, "the query is encoded and appended exactly when one is given", srcs[1].assign.Pos(), "", "EncodeQueryParams is not guarded by exactly `query != nil`")
		// and "?" + params appended to the path variable in the same branch
		appended := false
		ast.Inspect(fd.Body, func(n ast.Node) bool {
			as, ok := n.(*ast.AssignStmt)
			if !ok || as.Tok != token.ADD_ASSIGN || core.ObjOf(inf, as.Lhs[0]) != srcs[0].obj {
				return true
			}
			if be, ok := core.Unparen(as.Rhs[0]).(*ast.BinaryExpr); ok && be.Op == token.ADD {
				if cv := core.ConstOf(inf, be.X); cv != nil && cv.ExactString() == `"?"` && core.ObjOf(inf, be.Y) == srcs[1].obj {
					appended = true
				}
			}
			return true
		})
		c.Check(appended, rel, fn, "the encoded query follows a single \"?\" after the encoded path", fd.Pos(), "", "path += \"?\" + params not found")
	}
}

func runR152(c *core.Ctx) {
	const rel = "restli"
	inf := info(c, rel)
	forbidden := func(f *types.Func) string {
		if f == nil || f.Pkg() == nil {
			return ""
		}
		switch f.Pkg().Path() {
		case "net/url":
			switch f.Name() {
			case "PathEscape", "QueryEscape", "PathUnescape", "QueryUnescape", "JoinPath":
				return "re-encodes or decodes what the encoders produced"
			case "ResolveReference":
				return "applies RFC 3986 dot-segment removal: keys \".\" and \"..\" are normalised away"
			case "Parse":
				if sig := f.Type().(*types.Signature); sig.Recv() != nil {
					return "(*URL).Parse resolves the reference and removes dot segments: keys \".\" and \"..\" are normalised away"
				}
			}
		case "path", "path/filepath":
			switch f.Name() {
			case "Clean", "Join", "Abs", "Rel":
				return "normalises slashes and dot segments"
			}
		}
		return ""
	}
	for _, name := range []string{"(*Client).formatQueryUrl", "newRequest"} {
		_, fd := mustDecl(c, rel, name)
		var bad []string
		var pos token.Pos = fd.Pos()
		ast.Inspect(fd.Body, func(n ast.Node) bool {
			if call, ok := n.(*ast.CallExpr); ok {
				if f := core.Callee(inf, call); f != nil {
					if why := forbidden(f); why != "" {
						bad = append(bad, f.FullName()+" — "+why)
						pos = call.Pos()
					}
				}
			}
			return true
		})
		c.Check(len(bad) == 0, rel, name, "no re-encoding / normalising call on the request URL", pos, "", strings.Join(bad, "; "))
	}
}

func runR153(c *core.Ctx) {
	const rel = "restli"
	inf := info(c, rel)
	_, fd := mustDecl(c, rel, "(*Client).formatQueryUrl")
	par := core.Parents(fd)
	n := 0
	ast.Inspect(fd.Body, func(x ast.Node) bool {
		ix, ok := x.(*ast.IndexExpr)
		if !ok {
			return true
		}
		if b, ok := inf.Types[ix.X].Type.Underlying().(*types.Basic); !ok || b.Info()&types.IsString == 0 {
			return true
		}
		n++
		ok1, ok2 := false, false
		// climb to the || whose right operand contains ix
		var child ast.Node = ix
		for p := par[ix]; p != nil; p = par[p] {
			if be, ok := p.(*ast.BinaryExpr); ok {
				if be.Op == token.LOR && be.Y == child {
					// left: len(s) == index
					if l, ok := core.Unparen(be.X).(*ast.BinaryExpr); ok && l.Op == token.EQL {
						a, b := l.X, l.Y
						if isLenOf(inf, b, ix.X) {
							a, b = b, a
						}
						if isLenOf(inf, a, ix.X) && core.SameExpr(inf, b, ix.Index) {
							ok1 = true
						}
					}
				}
				if be.Op == token.LAND && be.Y == child {
					// left: idx >= 0 where idx := strings.Index(s, …)
					for _, f := range core.Decompose(be.X, true, nil) {
						if g, ok := core.Unparen(f.Expr).(*ast.BinaryExpr); ok && f.Val && g.Op == token.GEQ {
							if cv := core.ConstOf(inf, g.Y); cv != nil && cv.ExactString() == "0" && mentions(inf, ix.Index, core.ObjOf(inf, g.X)) && fromStringsIndex(inf, fd, core.ObjOf(inf, g.X), ix.X) {
								ok2 = true
							}
						}
					}
				}
			}
			if _, isStmt := p.(ast.Stmt); isStmt {
				// an `if idx := …; idx >= 0 && (…)` keeps everything in one condition
				break
			}
			if e, ok := p.(ast.Expr); ok {
				child = e
			}
		}
		c.Check(ok1 && ok2, rel, "(*Client).formatQueryUrl", fmt.Sprintf("string index %s is in range", core.ExprString(ix)), ix.Pos(), "guarded by idx >= 0 and the length test",
			fmt.Sprintf("length test on the left of ||: %v; idx >= 0 (from strings.Index/LastIndex on the same string) on the left of &&: %v", ok1, ok2))
		return true
	})
	if n == 0 {
		c.OK(rel, "(*Client).formatQueryUrl", "no string indexing in the URL construction", fd.Pos(), "")
	}
}

func isLenOf(inf *types.Info, e ast.Expr, s ast.Expr) bool {
	call, ok := core.Unparen(e).(*ast.CallExpr)
	if !ok || len(call.Args) != 1 {
		return false
	}
	id, ok := core.Unparen(call.Fun).(*ast.Ident)
	return ok && id.Name == "len" && core.SameExpr(inf, call.Args[0], s)
}

func mentions(inf *types.Info, e ast.Expr, obj types.Object) bool {
	found := false
	ast.Inspect(e, func(n ast.Node) bool {
		if id, ok := n.(*ast.Ident); ok && core.ObjOf(inf, id) == obj && obj != nil {
			found = true
		}
		return true
	})
	return found
}

func fromStringsIndex(inf *types.Info, fd *ast.FuncDecl, idx types.Object, s ast.Expr) bool {
	found := false
	ast.Inspect(fd.Body, func(n ast.Node) bool {
		as, ok := n.(*ast.AssignStmt)
		if !ok || len(as.Rhs) != 1 || core.ObjOf(inf, as.Lhs[0]) != idx {
			return true
		}
		if call, ok := core.Unparen(as.Rhs[0]).(*ast.CallExpr); ok && (core.IsFunc(core.Callee(inf, call), "strings", "Index") || core.IsFunc(core.Callee(inf, call), "strings", "LastIndex")) && core.SameExpr(inf, call.Args[0], s) {
			found = true
		}
		return true
	})
	return found
}
