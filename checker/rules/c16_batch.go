package rules

import (
	"fmt"
	"go/ast"
	"go/token"
	"go/types"
	"strings"

	"verif/checker/core"
)

func init() {
	core.Register(&core.Rule{
		ID:    "R16.1",
		Title: "batch response entries are filed under the caller's original key",
		Text: "In BatchResponse.UnmarshalWithKeyLocator the index used for Results, Statuses and Errors is the variable assigned from keys.LocateOriginalKeyFromReader(keyReader) on the keys != nil branch, and its error " +
			"aborts the entry before any map store; doBatchQuery passes its key-set parameter as the locator; every batch client function passes the same key-set variable to the query encoder and to doBatchQuery.",
		Props: []string{"C16", "C08"},
		Floor: map[string]int{"v2": 7, "root": 7},
		Run:   runR161,
	})
	core.Register(&core.Rule{
		ID:    "R16.2",
		Title: "unknown keys are errors; the stored original is what is returned",
		Text:  "Both BatchKeySet implementations: LocateOriginalKeyFromReader assigns a non-nil error on the not-found edge and returns it; the generic LocateOriginalKey returns the element of the hash bucket (range value), never its parameter.",
		Props: []string{"C16"},
		Floor: map[string]int{"v2": 3, "root": 3},
		Run:   runR162,
	})
	core.Register(&core.Rule{
		ID:    "R16.3",
		Title: "duplicate keys are rejected before anything is stored or sent",
		Text: "AddKey returns an error under the found test before any insert; AddAllKeys/AddAllMapKeys return the first AddKey error from inside the loop; in every batch client function the add-keys error is returned " +
			"before the request constructor is called.",
		Props: []string{"C16"},
		Floor: map[string]int{"v2": 8, "root": 8},
		Run:   runR163,
	})
	core.Register(&core.Rule{
		ID:    "R16.4",
		Title: "hash / equality pairing per key kind",
		Text:  "Every genericBatchKeySet literal pairs a hash with the matching equality: ComputeComplexKeyHash with ComplexKeyEquals (key part only on both sides), ComputeHash with Equals, HashBytes with equals.Bytes, CustomTyperefHasher with CustomTyperefEquals.",
		Props: []string{"C16", "C10"},
		Floor: map[string]int{"v2": 6, "root": 5},
		Run:   runR164,
	})
	core.Register(&core.Rule{
		ID:    "R16.5",
		Title: "each id encoded once; ids sorted before being written",
		Text:  "encodeKeys of both implementations appends exactly one encoding per stored key inside loops over every bucket/key and nothing else; encode calls sort.Strings on that slice before the array is written, and writes each element once, in order.",
		Props: []string{"C16", "C09"},
		Floor: map[string]int{"v2": 3, "root": 3},
		Run:   runR165,
	})
	core.Register(&core.Rule{
		ID:    "R16.6",
		Title: "batch entity keys use the ROR2 header writer / ROR2 reader on both ends",
		Text:  "MarshalBatchEntities encodes map keys with NewRor2HeaderWriter; UnmarshalBatchEntities and UnmarshalWithKeyLocator decode them with NewRor2Reader on the raw key.",
		Props: []string{"C16", "C02", "C01"},
		Floor: map[string]int{"v2": 3, "root": 3},
		Run:   runR166,
	})
}

func runR161(c *core.Ctx) {
	data := dataPkgRel(c)
	inf := info(c, data)
	_, fd := mustDecl(c, data, "(*BatchResponse).UnmarshalWithKeyLocator")
	fn := "(*BatchResponse).UnmarshalWithKeyLocator"
	var keysParam types.Object
	for _, fl := range fd.Type.Params.List {
		for _, n := range fl.Names {
			if _, ok := inf.Defs[n].Type().Underlying().(*types.Interface); ok && inf.Defs[n].Name() != "reader" {
				if nn, ok := inf.Defs[n].Type().(*types.Named); ok && core.NameOf(nn.Obj()) == "KeyLocator" {
					keysParam = inf.Defs[n]
				}
			}
		}
	}
	if keysParam == nil {
		c.Unknown(data, fn, "locator parameter", fd.Pos(), "no KeyLocator parameter")
		return
	}
	par := core.Parents(fd)
	// variable assigned from keys.LocateOriginalKeyFromReader
	var orig types.Object
	var locAssign *ast.AssignStmt
	ast.Inspect(fd.Body, func(n ast.Node) bool {
		as, ok := n.(*ast.AssignStmt)
		if !ok || len(as.Rhs) != 1 {
			return true
		}
		call, ok := core.Unparen(as.Rhs[0]).(*ast.CallExpr)
		if !ok {
			return true
		}
		if cf := core.Callee(inf, call); cf != nil && core.NameOf(cf) == "LocateOriginalKeyFromReader" {
			if sel, ok := core.Unparen(call.Fun).(*ast.SelectorExpr); ok && core.ObjOf(inf, sel.X) == keysParam {
				orig = core.ObjOf(inf, as.Lhs[0])
				locAssign = as
			}
		}
		return true
	})
	if orig == nil {
		c.Bad(data, fn, "original key comes from the locator", fd.Pos(), "keys.LocateOriginalKeyFromReader is never called")
		return
	}
	guarded := core.GuardedByFact(inf, par, locAssign, func(f core.Fact) bool {
		e, nonNil, ok := core.NilTest(inf, f)
		return ok && nonNil && core.ObjOf(inf, e) == keysParam
	}, nil)
	c.Check(guarded, data, fn, "the locator is used whenever one is given (keys != nil branch)", locAssign.Pos(), "", "the locator call is not on the keys != nil branch")
	// the located key, directly or handed to a local function value: the parameter of a function literal bound to a local
	// variable stands for what every call of that variable passes in its place
	var isOrig func(e ast.Expr, depth int) bool
	isOrig = func(e ast.Expr, depth int) bool {
		o := core.ObjOf(inf, e)
		if o == nil || depth > 3 {
			return false
		}
		if o == orig {
			return true
		}
		// parameter k of a literal assigned to a local F
		var lit *ast.FuncLit
		k := -1
		for _, fl := range core.AllFuncLits(fd.Body) {
			i := 0
			for _, f := range fl.Type.Params.List {
				for _, nm := range f.Names {
					if inf.Defs[nm] == o {
						lit, k = fl, i
					}
					i++
				}
			}
		}
		if lit == nil {
			return false
		}
		as, ok := par[lit].(*ast.AssignStmt)
		if !ok || len(as.Lhs) != len(as.Rhs) {
			return false
		}
		var fvar types.Object
		for i, r := range as.Rhs {
			if core.Unparen(r) == ast.Expr(lit) {
				fvar = core.ObjOf(inf, as.Lhs[i])
			}
		}
		if fvar == nil {
			return false
		}
		calls, okAll := 0, true
		ast.Inspect(fd.Body, func(n ast.Node) bool {
			call, ok := n.(*ast.CallExpr)
			if !ok || core.ObjOf(inf, call.Fun) != fvar {
				return true
			}
			calls++
			if k >= len(call.Args) || !isOrig(call.Args[k], depth+1) {
				okAll = false
			}
			return true
		})
		// the variable is only called, never passed on
		ast.Inspect(fd.Body, func(n ast.Node) bool {
			if id, ok := n.(*ast.Ident); ok && inf.Uses[id] == fvar {
				if call, ok := par[id].(*ast.CallExpr); !ok || call.Fun != ast.Expr(id) {
					if as, ok := par[id].(*ast.AssignStmt); ok {
						for _, l := range as.Lhs {
							if l == ast.Expr(id) {
								return true
							}
						}
					}
					okAll = false
				}
			}
			return true
		})
		return calls > 0 && okAll
	}
	// every store into b.Results/Statuses/Errors[...] uses orig as index
	for _, field := range []string{"Results", "Statuses", "Errors"} {
		n, okIdx := 0, true
		ast.Inspect(fd.Body, func(x ast.Node) bool {
			as, ok := x.(*ast.AssignStmt)
			if !ok {
				return true
			}
			for _, l := range as.Lhs {
				ix, ok := core.Unparen(l).(*ast.IndexExpr)
				if !ok {
					continue
				}
				sel, ok := core.Unparen(ix.X).(*ast.SelectorExpr)
				if !ok || sel.Sel.Name != field {
					continue
				}
				n++
				if !isOrig(ix.Index, 0) {
					okIdx = false
				}
			}
			return true
		})
		c.Check(n > 0 && okIdx, data, fn, field+" entries are indexed by the located original key", fd.Pos(), "", fmt.Sprintf("%d stores, all indexed by the locator's result: %v", n, okIdx))
	}
	// error aborts before stores: an `if err != nil { return err }` between the locator assignment and the stores
	abort := false
	ast.Inspect(fd.Body, func(x ast.Node) bool {
		ifs, ok := x.(*ast.IfStmt)
		if !ok || ifs.Pos() < locAssign.End() {
			return true
		}
		for _, f := range core.Decompose(ifs.Cond, true, nil) {
			if e, nonNil, ok := core.NilTest(inf, f); ok && nonNil && core.IsErrorType(inf.Types[e].Type) {
				for _, s := range ifs.Body.List {
					if r, ok := s.(*ast.ReturnStmt); ok && len(r.Results) == 1 && core.ObjOf(inf, r.Results[0]) == core.ObjOf(inf, e) {
						abort = true
					}
				}
			}
		}
		return true
	})
	c.Check(abort, data, fn, "a locator error aborts the entry", fd.Pos(), "", "no `if err != nil { return err }` after the locator call")

	// client side
	const rel = "restli"
	rinf := info(c, rel)
	dbq, dbqD := mustDecl(c, rel, "doBatchQuery")
	okPass := false
	var keysP types.Object
	for _, fl := range dbqD.Type.Params.List {
		for _, n := range fl.Names {
			if nn, ok := rinf.Defs[n].Type().(*types.Named); ok && core.NameOf(nn.Obj()) == "BatchKeySet" {
				keysP = rinf.Defs[n]
			}
		}
	}
	ast.Inspect(dbqD.Body, func(n ast.Node) bool {
		if call, ok := n.(*ast.CallExpr); ok {
			if cf := core.Callee(rinf, call); cf != nil && core.NameOf(cf) == "UnmarshalWithKeyLocator" && len(call.Args) == 2 && core.ObjOf(rinf, call.Args[1]) == keysP && keysP != nil {
				okPass = true
			}
		}
		return true
	})
	c.Check(okPass, rel, "doBatchQuery", "the request's key set is the response locator", dbqD.Pos(), "", "doBatchQuery does not pass its key set to UnmarshalWithKeyLocator")
	bqp := mustFunc(c, rel, "batchQueryParams")
	for _, name := range []string{"BatchGet", "BatchDelete", "BatchUpdate", "BatchPartialUpdate"} {
		_, d := mustDecl(c, rel, name)
		var encSet, locSet types.Object
		ast.Inspect(d.Body, func(n ast.Node) bool {
			if call, ok := n.(*ast.CallExpr); ok {
				cf := core.Callee(rinf, call)
				if cf != nil && cf.Origin() == bqp && len(call.Args) == 2 {
					encSet = core.ObjOf(rinf, call.Args[0])
				}
				if cf != nil && cf.Origin() == dbq && len(call.Args) == 3 {
					locSet = core.ObjOf(rinf, call.Args[1])
				}
			}
			return true
		})
		c.Check(encSet != nil && encSet == locSet, rel, name, "the same key set is encoded into the request and used to correlate the response", d.Pos(), "", "different key-set values are encoded and used for correlation")
	}
}

func runR162(c *core.Ctx) {
	const rel = "restli/batchkeyset"
	inf := info(c, rel)
	for _, name := range []string{"(*genericBatchKeySet).LocateOriginalKeyFromReader", "(*primitiveKeySet).LocateOriginalKeyFromReader"} {
		f, fd := mustDecl(c, rel, name)
		sig := f.Type().(*types.Signature)
		errRes := sig.Results().At(1)
		// the "found" flag: second result of LocateOriginalKey or of a comma-ok lookup in the set's map.  On every path on
		// which it is known to be false the function returns a non-nil error (directly, or through an error variable that
		// was assigned one on that path) — whatever the layout (if !found { err = … }, early return, if/else)
		var found types.Object
		ast.Inspect(fd.Body, func(n ast.Node) bool {
			if as, ok := n.(*ast.AssignStmt); ok && len(as.Rhs) == 1 && len(as.Lhs) == 2 {
				switch r := core.Unparen(as.Rhs[0]).(type) {
				case *ast.CallExpr:
					if cf := core.Callee(inf, r); cf != nil && core.NameOf(cf) == "LocateOriginalKey" {
						found = core.ObjOf(inf, as.Lhs[1])
					}
				case *ast.IndexExpr:
					if _, isMap := inf.Types[r.X].Type.Underlying().(*types.Map); isMap {
						if root := rootIdent(r.X); root != nil && inf.Uses[root] == recvObj(inf, fd) {
							found = core.ObjOf(inf, as.Lhs[1])
						}
					}
				}
			}
			return true
		})
		okErr := false
		if found != nil {
			notFoundReturns, bad := 0, 0
			// bit 1: found known false; bit 2: an error variable holds a non-nil error
			var errVar types.Object
			core.NewFlow(c.M, inf, fd.Body).Run(&core.Automaton{
				Init: 0,
				Node: func(st int, n ast.Node) int {
					switch x := n.(type) {
					case *ast.AssignStmt:
						for i, l := range x.Lhs {
							if i < len(x.Rhs) && len(x.Lhs) == len(x.Rhs) && core.IsErrorType(inf.Types[x.Rhs[i]].Type) || (i < len(x.Rhs) && core.NonNilErrorExpr(inf, x.Rhs[i])) {
								if core.NonNilErrorExpr(inf, x.Rhs[i]) {
									errVar = core.ObjOf(inf, l)
									st |= 2
								}
							}
						}
					case *ast.ReturnStmt:
						if st&1 != 0 {
							notFoundReturns++
							okRet := false
							if len(x.Results) == 2 {
								if core.NonNilErrorExpr(inf, x.Results[1]) || (st&2 != 0 && core.ObjOf(inf, x.Results[1]) == errVar) {
									okRet = true
								}
							}
							if len(x.Results) == 0 && st&2 != 0 && errVar == errRes {
								okRet = true
							}
							if !okRet {
								bad++
							}
						}
					}
					return st
				},
				Edge: func(st int, facts []core.Fact) (int, bool) {
					for _, f := range facts {
						if id, ok := core.Unparen(f.Expr).(*ast.Ident); ok && core.ObjOf(inf, id) == found {
							if !f.Val {
								return st | 1, true
							}
							if st&1 != 0 {
								return st, false
							}
						}
					}
					return st, true
				},
			})
			okErr = notFoundReturns > 0 && bad == 0
		}
		c.Check(okErr, rel, name, "a key that was never requested yields an error", fd.Pos(), "", "no non-nil error on the not-found edge")
	}
	_, gd := mustDecl(c, rel, "(*genericBatchKeySet).LocateOriginalKey")
	var keyParam types.Object
	if len(gd.Type.Params.List) == 1 {
		keyParam = inf.Defs[gd.Type.Params.List[0].Names[0]]
	}
	okProv, n := true, 0
	var resObj types.Object
	if gd.Type.Results != nil && len(gd.Type.Results.List) >= 1 && len(gd.Type.Results.List[0].Names) > 0 {
		resObj = inf.Defs[gd.Type.Results.List[0].Names[0]]
	}
	ast.Inspect(gd.Body, func(x ast.Node) bool {
		switch st := x.(type) {
		case *ast.AssignStmt:
			for i, l := range st.Lhs {
				if core.ObjOf(inf, l) == resObj && resObj != nil && i < len(st.Rhs) {
					n++
					if !isRangeValueOfBucket(inf, core.Parents(gd), st, st.Rhs[i]) {
						okProv = false
					}
				}
			}
		case *ast.ReturnStmt:
			if len(st.Results) == 2 {
				if core.ObjOf(inf, st.Results[0]) == keyParam {
					okProv = false
				}
				if core.ObjOf(inf, st.Results[0]) != resObj {
					n++
					if !isRangeValueOfBucket(inf, core.Parents(gd), st, st.Results[0]) {
						// returning the zero value on not-found is fine
						if cv := core.ObjOf(inf, st.Results[1]); cv == nil {
							okProv = okProv && false
						}
					}
				}
			}
		}
		return true
	})
	c.Check(okProv && n > 0, rel, "(*genericBatchKeySet).LocateOriginalKey", "returns the key stored in the bucket, not its argument", gd.Pos(), "", "the returned key is not the range value over the hash bucket (the caller's original would be replaced by a re-decoded copy)")
}

func isRangeValueOfBucket(inf *types.Info, par map[ast.Node]ast.Node, at ast.Node, e ast.Expr) bool {
	obj := core.ObjOf(inf, e)
	if obj == nil {
		return false
	}
	for p := par[at]; p != nil; p = par[p] {
		if rs, ok := p.(*ast.RangeStmt); ok && rs.Value != nil && core.ObjOf(inf, rs.Value) == obj {
			// range over s.originalKeys[...]
			if ix, ok := core.Unparen(rs.X).(*ast.IndexExpr); ok {
				if sel, ok := core.Unparen(ix.X).(*ast.SelectorExpr); ok && sel.Sel.Name == "originalKeys" {
					return true
				}
			}
		}
	}
	return false
}

func runR163(c *core.Ctx) {
	const rel = "restli/batchkeyset"
	inf := info(c, rel)
	for _, name := range []string{"(*genericBatchKeySet).AddKey", "(*primitiveKeySet).AddKey"} {
		_, fd := mustDecl(c, rel, name)
		recv := recvObj(inf, fd)
		// no path modifies the set and then reports an error: the duplicate test comes first, however it is written
		// (flag and break, early return from the loop, comma-ok lookup)
		rejects, dirtyReject, mutations := 0, 0, 0
		core.NewFlow(c.M, inf, fd.Body).Run(&core.Automaton{
			Init: 0,
			Node: func(st int, n ast.Node) int {
				var lhs []ast.Expr
				switch x := n.(type) {
				case *ast.AssignStmt:
					lhs = x.Lhs
				case *ast.IncDecStmt:
					lhs = []ast.Expr{x.X}
				case *ast.ReturnStmt:
					if len(x.Results) == 1 && core.NonNilErrorExpr(inf, x.Results[0]) {
						rejects++
						if st == 1 {
							dirtyReject++
						}
					}
				}
				for _, l := range lhs {
					if r := rootIdent(l); r != nil && inf.Uses[r] == recv && recv != nil {
						if _, isIdent := core.Unparen(l).(*ast.Ident); !isIdent {
							mutations++
							return 1
						}
					}
				}
				return st
			},
		})
		c.Check(rejects > 0 && mutations > 0 && dirtyReject == 0, rel, name, "a duplicate is rejected before the set is modified", fd.Pos(), "",
			fmt.Sprintf("error returns: %d, of which after a modification of the set: %d; modifications: %d", rejects, dirtyReject, mutations))
	}
	for _, name := range []string{"AddAllKeys", "AddAllMapKeys"} {
		_, fd := mustDecl(c, rel, name)
		r := errFlow(c, inf, fd, func(call *ast.CallExpr) bool {
			cf := core.Callee(inf, call)
			return cf != nil && core.NameOf(cf) == "AddKey"
		}, nil)
		c.Check(r.sources > 0 && r.propagated && !r.lost, rel, name, "the first AddKey error stops the loop and is returned", fd.Pos(), "",
			fmt.Sprintf("AddKey calls whose error is followed: %d, returned on its non-nil branch: %v, overwritten or dropped on some path: %v", r.sources, r.propagated, r.lost))
	}
	const r2 = "restli"
	rinf := info(c, r2)
	for _, name := range []string{"BatchGet", "BatchDelete", "BatchUpdate", "BatchPartialUpdate"} {
		_, d := mustDecl(c, r2, name)
		r := errFlow(c, rinf, d, func(call *ast.CallExpr) bool {
			cf := core.Callee(rinf, call)
			return cf != nil && (core.NameOf(cf) == "AddAllKeys" || core.NameOf(cf) == "AddAllMapKeys")
		}, func(n ast.Node) bool {
			call, ok := n.(*ast.CallExpr)
			if !ok {
				return false
			}
			cf := core.Callee(rinf, call)
			return cf != nil && strings.HasPrefix(core.NameOf(cf), "New") && strings.HasSuffix(core.NameOf(cf), "Request")
		})
		c.Check(r.sources > 0 && r.propagated && !r.lost && len(r.early) == 0, r2, name, "a duplicate key aborts the call before the request is built", d.Pos(), "",
			fmt.Sprintf("add-keys calls: %d; their error returned: %v, lost on some path: %v; request constructors reachable before the error was tested: %d", r.sources, r.propagated, r.lost, len(r.early)))
	}
}

// finalName extracts the function/method name a hash/equals value expression denotes.
func finalName(inf *types.Info, e ast.Expr) string {
	switch x := core.Unparen(e).(type) {
	case *ast.SelectorExpr:
		return x.Sel.Name
	case *ast.Ident:
		return x.Name
	case *ast.CallExpr:
		return finalName(inf, x.Fun)
	case *ast.IndexExpr:
		return finalName(inf, x.X)
	case *ast.FuncLit:
		name := ""
		ast.Inspect(x.Body, func(n ast.Node) bool {
			if r, ok := n.(*ast.ReturnStmt); ok && len(r.Results) == 1 {
				if call, ok := core.Unparen(r.Results[0]).(*ast.CallExpr); ok {
					name = finalName(inf, call.Fun)
				}
			}
			return true
		})
		return name
	}
	return ""
}

func runR164(c *core.Ctx) {
	const rel = "restli/batchkeyset"
	inf := info(c, rel)
	gT, _ := mustObj(c, rel, "genericBatchKeySet").(*types.TypeName)
	allowed := map[string]string{"ComputeComplexKeyHash": "ComplexKeyEquals", "ComputeHash": "Equals", "HashBytes": "Bytes", "CustomTyperefHasher": "CustomTyperefEquals"}
	n := 0
	for _, fd := range c.M.FuncDecls(rel) {
		if fd.Body == nil {
			continue
		}
		ast.Inspect(fd.Body, func(x ast.Node) bool {
			cl, ok := x.(*ast.CompositeLit)
			if !ok {
				return true
			}
			if nn := namedOf(inf.Types[cl].Type); nn == nil || nn.Obj() != gT {
				return true
			}
			n++
			var h, e string
			for _, el := range cl.Elts {
				if kv, ok := el.(*ast.KeyValueExpr); ok {
					if id, ok := kv.Key.(*ast.Ident); ok {
						switch id.Name {
						case "hash":
							h = finalName(inf, kv.Value)
						case "equals":
							e = finalName(inf, kv.Value)
						}
					}
				}
			}
			want, known := allowed[h]
			c.Check(known && want == e, rel, core.DeclName(fd), fmt.Sprintf("key set literal #%d pairs %s with its equality", ordinal(fd, cl), h), cl.Pos(), e,
				fmt.Sprintf("hash %q is paired with equality %q (expected %q): equal keys can land in different buckets or unequal keys be merged", h, e, want))
			return true
		})
	}
	if n == 0 {
		c.Unknown(rel, "-", "key set literals", token.NoPos, "none found")
	}
}

func runR165(c *core.Ctx) {
	const rel = "restli/batchkeyset"
	inf := info(c, rel)
	for _, name := range []string{"(*genericBatchKeySet).encodeKeys", "(*primitiveKeySet).encodeKeys"} {
		_, fd := mustDecl(c, rel, name)
		par := core.Parents(fd)
		appends, inLoops := 0, true
		ast.Inspect(fd.Body, func(n ast.Node) bool {
			call, ok := n.(*ast.CallExpr)
			if !ok {
				return true
			}
			if id, ok := core.Unparen(call.Fun).(*ast.Ident); ok && id.Name == "append" {
				appends++
				// must be nested in range loops over s.originalKeys (and over the bucket for the generic one)
				depth := 0
				overKeys := false
				for p := par[call]; p != nil; p = par[p] {
					if rs, ok := p.(*ast.RangeStmt); ok {
						depth++
						if sel, ok := core.Unparen(rs.X).(*ast.SelectorExpr); ok && sel.Sel.Name == "originalKeys" {
							overKeys = true
						}
					}
					if _, ok := p.(*ast.IfStmt); ok {
						inLoops = false // conditional append would drop keys
					}
				}
				want := 1
				if strings.Contains(name, "generic") {
					want = 2
				}
				if depth != want || !overKeys {
					inLoops = false
				}
			}
			return true
		})
		c.Check(appends == 1 && inLoops, rel, name, "exactly one encoding is appended per stored key", fd.Pos(), "", fmt.Sprintf("%d append sites, unconditional inside the full iteration: %v", appends, inLoops))
	}
	_, ed := mustDecl(c, rel, "encode")
	var sortPos, writePos token.Pos
	var sorted types.Object
	rangesSorted := false
	ast.Inspect(ed.Body, func(n ast.Node) bool {
		switch x := n.(type) {
		case *ast.CallExpr:
			cf := core.Callee(inf, x)
			if core.IsFunc(cf, "sort", "Strings") || core.IsFunc(cf, "slices", "Sort") {
				sortPos = x.Pos()
				sorted = core.ObjOf(inf, x.Args[0])
			}
			if cf != nil && core.NameOf(cf) == "WriteArray" && writePos == 0 {
				writePos = x.Pos()
			}
		case *ast.RangeStmt:
			if core.ObjOf(inf, x.X) == sorted && sorted != nil {
				rangesSorted = true
			}
		case *ast.ForStmt:
			// for i := 0; i < len(sorted); i++ : the ascending index walk of the same slice
			if inc, ok := x.Post.(*ast.IncDecStmt); ok && inc.Tok == token.INC && x.Cond != nil && sorted != nil && mentions(inf, x.Cond, sorted) {
				rangesSorted = true
			}
		}
		return true
	})
	c.Check(sortPos != 0 && writePos != 0 && sortPos < writePos && rangesSorted, rel, "encode", "ids are sorted ascending before they are written, each once", ed.Pos(), "", "the encoded ids are not sorted (sort.Strings) before the array is written from that slice")
}

func runR166(c *core.Ctx) {
	data := dataPkgRel(c)
	inf := info(c, data)
	uses := func(name, ctor string) {
		_, fd := mustDecl(c, data, name)
		found := false
		ast.Inspect(fd.Body, func(n ast.Node) bool {
			if call, ok := n.(*ast.CallExpr); ok {
				if cf := core.Callee(inf, call); cf != nil && core.NameOf(cf) == ctor {
					found = true
				}
			}
			return true
		})
		c.Check(found, data, name, "keys go through "+ctor, fd.Pos(), "", "the key codec "+ctor+" is not used")
	}
	uses("MarshalBatchEntities", "NewRor2HeaderWriter")
	uses("UnmarshalBatchEntities", "NewRor2Reader")
	uses("(*BatchResponse).UnmarshalWithKeyLocator", "NewRor2Reader")
}
