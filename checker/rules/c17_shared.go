package rules

import (
	"fmt"
	"go/ast"
	"go/token"
	"go/types"
	"strings"
	"sync"

	"verif/checker/core"
)

func init() {
	core.Register(&core.Rule{
		ID:    "R17.1",
		Title: "package-level state inventory: immutable, sync, or lock-protected",
		Text: "Every package-level variable of the runtime packages (restli, batchkeyset, patch, equals, restlicodec, restlidata, common, fnv1a, d2, lazymap) is classified from all of its uses outside init functions and " +
			"initialisers: (a) never stored to (no assignment, index/field store, delete, ++, address taken) and only used through non-mutating operations — methods of module types are summarised " +
			"(a method mutates if it stores through its receiver, transitively), external types by a table (*strings.Replacer, *log.Logger, error, reflect.Type: safe; *math/rand.Rand: NOT safe); " +
			"(b) a sync / sync/atomic type; (c) a module type with a mutex field all of whose methods lock first.  Anything else is a violation (mutable state shared by concurrent requests) or undecided.",
		Props: []string{"C17", "C08"},
		Floor: map[string]int{"v2": 14, "root": 10},
		Run:   runR171,
	})
	core.Register(&core.Rule{
		ID:    "R17.2",
		Title: "the routing tree has no writer reachable from ServeHTTP",
		Text: "Stores to rootNode/pathNode fields and inserts into their maps occur only in functions that are not reachable (VTA call graph) from rootNode.ServeHTTP; " +
			"the writers are the construction/registration functions (NewPrefixedServer, Register*/register*, subNode, newSubNode, clone, Handler, copy helpers).",
		Props: []string{"C17", "C05"},
		Floor: map[string]int{"v2": 5, "root": 5},
		Run:   runR172,
	})
	core.Register(&core.Rule{
		ID:      "R17.6",
		Title:   "custom-typeref registry is only touched through sync.Map",
		Text:    "The package-level adapter registry is a sync.Map used only via Load/LoadOrStore/Store/Range, and adapter values are composite literals never stored to after construction.",
		Props:   []string{"C17"},
		Modules: []string{"v2"},
		Floor:   map[string]int{"v2": 2},
		Run:     runR176,
	})
}

var runtimePkgs = []string{"restli", "restli/batchkeyset", "restli/patch", "restli/equals", "restlicodec", "restlidata", "restlidata/generated/com/linkedin/restli/common", "fnv1a", "d2", "d2/lazymap"}

// mutatingMethods summarises, for the module's declared methods, whether they
// store through their receiver (directly or via other methods on it).
func mutatingMethods(c *core.Ctx) map[*types.Func]bool {
	mut := map[*types.Func]bool{}
	type minfo struct {
		f     *types.Func
		fd    *ast.FuncDecl
		inf   *types.Info
		recv  types.Object
		calls []*types.Func
	}
	var all []*minfo
	for _, p := range c.M.Roots {
		inf := p.TypesInfo
		for _, file := range p.Syntax {
			for _, d := range file.Decls {
				fd, ok := d.(*ast.FuncDecl)
				if !ok || fd.Recv == nil || fd.Body == nil {
					continue
				}
				f, _ := inf.Defs[fd.Name].(*types.Func)
				if f == nil {
					continue
				}
				mi := &minfo{f: f, fd: fd, inf: inf, recv: recvObj(inf, fd)}
				all = append(all, mi)
				if mi.recv == nil {
					continue
				}
				_, ptrRecv := mi.recv.Type().(*types.Pointer)
				_, mapRecv := mi.recv.Type().Underlying().(*types.Map)
				ast.Inspect(fd.Body, func(n ast.Node) bool {
					var lhs []ast.Expr
					switch x := n.(type) {
					case *ast.AssignStmt:
						lhs = x.Lhs
					case *ast.IncDecStmt:
						lhs = []ast.Expr{x.X}
					case *ast.CallExpr:
						if id, ok := core.Unparen(x.Fun).(*ast.Ident); ok && id.Name == "delete" && len(x.Args) == 2 {
							lhs = []ast.Expr{x.Args[0]}
							if rootIdent(x.Args[0]) != nil && inf.Uses[rootIdent(x.Args[0])] == mi.recv {
								mut[f] = true
							}
						}
						if cf := core.Callee(inf, x); cf != nil {
							if sel, ok := core.Unparen(x.Fun).(*ast.SelectorExpr); ok {
								if r := rootIdent(sel.X); r != nil && inf.Uses[r] == mi.recv {
									mi.calls = append(mi.calls, cf.Origin())
									// a pointer-receiver method of an external type reached through the receiver
									// mutates unless the type is documented safe for concurrent use
									if rn := core.RecvNamed(cf); rn != nil && rn.Obj().Pkg() != nil && !c.M.InModule(rn.Obj().Pkg()) {
										if sig, ok := cf.Type().(*types.Signature); ok {
											if _, isPtr := sig.Recv().Type().(*types.Pointer); isPtr && !strings.HasPrefix(classifyMethod(c, cf, nil), "read") {
												mut[f] = true
											}
										}
									}
								}
							}
						}
						return true
					default:
						return true
					}
					for _, l := range lhs {
						l = core.Unparen(l)
						if _, isIdent := l.(*ast.Ident); isIdent {
							continue // rebinding the receiver variable itself is local
						}
						r := rootIdent(l)
						if r == nil || inf.Uses[r] != mi.recv {
							continue
						}
						// a store through a value receiver only matters for reference-typed parts
						if ptrRecv || mapRecv || storeThroughReference(inf, l) {
							mut[f] = true
						}
					}
					return true
				})
			}
		}
	}
	for changed := true; changed; {
		changed = false
		for _, mi := range all {
			if mut[mi.f] {
				continue
			}
			for _, cf := range mi.calls {
				if mut[cf] {
					mut[mi.f] = true
					changed = true
				}
			}
		}
	}
	return mut
}

// storeThroughReference reports whether the store target passes through a
// pointer, map or slice below its root (so it is visible to other holders).
func storeThroughReference(inf *types.Info, l ast.Expr) bool {
	cur := core.Unparen(l)
	for {
		switch x := cur.(type) {
		case *ast.IndexExpr:
			switch inf.Types[x.X].Type.Underlying().(type) {
			case *types.Map, *types.Slice, *types.Pointer:
				return true
			}
			cur = core.Unparen(x.X)
		case *ast.SelectorExpr:
			if _, ok := inf.Types[x.X].Type.Underlying().(*types.Pointer); ok {
				return true
			}
			cur = core.Unparen(x.X)
		case *ast.StarExpr:
			return true
		default:
			return false
		}
	}
}

func isSyncType(t types.Type) bool {
	if p, ok := t.(*types.Pointer); ok {
		t = p.Elem()
	}
	n, ok := t.(*types.Named)
	if !ok || n.Obj().Pkg() == nil {
		return false
	}
	switch n.Obj().Pkg().Path() {
	case "sync", "sync/atomic":
		return true
	}
	return false
}

// selfLocking reports whether T is a module struct with a mutex field whose
// every method starts with recv.mu.Lock(); defer recv.mu.Unlock().
func selfLocking(c *core.Ctx, t types.Type) bool {
	if p, ok := t.(*types.Pointer); ok {
		t = p.Elem()
	}
	n, ok := t.(*types.Named)
	if !ok || !c.M.InModule(n.Obj().Pkg()) {
		return false
	}
	st, ok := n.Underlying().(*types.Struct)
	if !ok {
		return false
	}
	hasMu := false
	for i := 0; i < st.NumFields(); i++ {
		if isSyncType(st.Field(i).Type()) && strings.Contains(st.Field(i).Type().String(), "Mutex") {
			hasMu = true
		}
	}
	if !hasMu || n.NumMethods() == 0 {
		return false
	}
	for i := 0; i < n.NumMethods(); i++ {
		fd := c.M.Decl(n.Method(i))
		inf := c.M.PkgOf(n.Method(i)).TypesInfo
		if fd == nil || fd.Body == nil || len(fd.Body.List) < 2 {
			return false
		}
		es, ok := fd.Body.List[0].(*ast.ExprStmt)
		if !ok {
			return false
		}
		call, ok := es.X.(*ast.CallExpr)
		if !ok {
			return false
		}
		cf := core.Callee(inf, call)
		if !(core.IsMethod(cf, "sync", "Mutex", "Lock") || core.IsMethod(cf, "sync", "RWMutex", "Lock") || core.IsMethod(cf, "sync", "RWMutex", "RLock")) {
			return false
		}
		ds, ok := fd.Body.List[1].(*ast.DeferStmt)
		if !ok {
			return false
		}
		df := core.Callee(inf, ds.Call)
		if !(core.IsMethod(df, "sync", "Mutex", "Unlock") || core.IsMethod(df, "sync", "RWMutex", "Unlock") || core.IsMethod(df, "sync", "RWMutex", "RUnlock")) {
			return false
		}
	}
	return true
}

func runR171(c *core.Ctx) {
	mut := mutatingMethods(c)
	nVars := 0
	for _, rel := range runtimePkgs {
		p := c.M.Pkg(rel)
		if p == nil {
			continue
		}
		scope := p.Types.Scope()
		vars := map[types.Object]bool{}
		for _, name := range scope.Names() {
			if v, ok := scope.Lookup(name).(*types.Var); ok {
				vars[v] = true
			}
		}
		if len(vars) == 0 {
			continue
		}
		// collect uses across the whole module (exported vars are used elsewhere)
		type use struct {
			kind string
			pos  token.Pos
			fn   string
		}
		uses := map[types.Object][]use{}
		for _, q := range c.M.Roots {
			inf := q.TypesInfo
			for _, file := range q.Syntax {
				if strings.HasSuffix(c.M.Fset.File(file.Pos()).Name(), "_test.go") {
					continue
				}
				par := core.Parents(file)
				ast.Inspect(file, func(n ast.Node) bool {
					id, ok := n.(*ast.Ident)
					if !ok {
						return true
					}
					obj := inf.Uses[id]
					if obj == nil || !vars[obj] {
						return true
					}
					fnName := enclosingFuncName(file, id.Pos())
					inInit := fnName == "init" || fnName == "(package level)"
					if inInit {
						return true
					}
					uses[obj] = append(uses[obj], use{classifyUse(c, inf, par, id, mut), id.Pos(), c.M.Rel(q.PkgPath) + "." + fnName})
					return true
				})
			}
		}
		for name := range vars {
			v := name.(*types.Var)
			nVars++
			construct := "package variable " + core.NameOf(v)
			t := v.Type()
			switch {
			case isSyncType(t):
				c.OK(rel, "-", construct, v.Pos(), "class (b): sync type "+t.String())
				continue
			case selfLocking(c, t):
				c.OK(rel, "-", construct, v.Pos(), "class (c): every method of "+t.String()+" locks its mutex first")
				continue
			}
			bad, undecided := "", ""
			var badPos token.Pos
			for _, u := range uses[v] {
				switch {
				case strings.HasPrefix(u.kind, "mutates"):
					if bad == "" {
						bad = u.kind + " in " + u.fn
						badPos = u.pos
					}
				case strings.HasPrefix(u.kind, "unknown"):
					if undecided == "" {
						undecided = u.kind + " in " + u.fn
						badPos = u.pos
					}
				}
			}
			switch {
			case bad != "":
				c.Bad(rel, "-", construct, badPos, "shared by concurrent requests and "+bad+" without a lock")
			case undecided != "":
				c.Unknown(rel, "-", construct, badPos, undecided)
			default:
				c.OK(rel, "-", construct, v.Pos(), fmt.Sprintf("class (a): %d uses outside init, none mutating", len(uses[v])))
			}
		}
	}
	c.Note("%d package-level variables classified", nVars)
}

// classifyUse decides what one identifier use does to the variable.
func classifyUse(c *core.Ctx, inf *types.Info, par map[ast.Node]ast.Node, id *ast.Ident, mut map[*types.Func]bool) string {
	return classifyUseX(c, inf, par, id, mut, func(call *ast.CallExpr, arg *ast.Ident) string { return argMutated(c, inf, call, arg, mut) })
}

// classifyUseX is classifyUse with the treatment of "handed to a callee" supplied by the caller (so that the
// interprocedural walk can carry its own recursion state).
func classifyUseX(c *core.Ctx, inf *types.Info, par map[ast.Node]ast.Node, id *ast.Ident, mut map[*types.Func]bool, argFn func(*ast.CallExpr, *ast.Ident) string) string {
	// climb through selectors / index expressions to find the outermost access path
	var top ast.Node = id
	for {
		p := par[top]
		switch x := p.(type) {
		case *ast.ParenExpr:
			top = x
			continue
		case *ast.SelectorExpr:
			if x.X == top {
				// method call?
				if call, ok := par[x].(*ast.CallExpr); ok && call.Fun == ast.Expr(x) {
					cf := core.Callee(inf, call)
					return classifyMethod(c, cf, mut)
				}
				top = x
				continue
			}
		case *ast.IndexExpr:
			if x.X == top {
				top = x
				continue
			}
		case *ast.StarExpr:
			top = x
			continue
		case *ast.UnaryExpr:
			// *(&v) is v: an address that is dereferenced on the spot (a pointer argument folded back into its user)
			if x.Op == token.AND && x.X == top {
				q := par[x]
				for {
					pe, ok := q.(*ast.ParenExpr)
					if !ok {
						break
					}
					q = par[pe]
				}
				if se, ok := q.(*ast.StarExpr); ok {
					top = se
					continue
				}
				// (&arr)[i]: indexing through a pointer to an array dereferences it implicitly
				if ix, ok := q.(*ast.IndexExpr); ok && core.Unparen(ix.X) == ast.Expr(x) {
					top = ix
					continue
				}
			}
		}
		break
	}
	switch p := par[top].(type) {
	case *ast.AssignStmt:
		for _, l := range p.Lhs {
			if l == top {
				return "mutates: assignment to " + core.ExprString(l)
			}
		}
	case *ast.IncDecStmt:
		return "mutates: " + core.ExprString(p.X) + p.Tok.String()
	case *ast.UnaryExpr:
		if p.Op == token.AND {
			return "unknown: address taken (&" + core.ExprString(p.X) + ")"
		}
	case *ast.CallExpr:
		// handed to a callee as a value whose own methods write through it (a Writer, a pointer to a mutable struct)
		if top == ast.Node(id) && p.Fun != ast.Expr(id) {
			for _, a := range p.Args {
				if a == ast.Expr(id) {
					if anyMutatingMethod(c, inf.Uses[id], mut) == "" {
						continue // nothing the callee could call on it writes
					}
					if why := argFn(p, id); why != "" {
						return "mutates: handed to " + core.ExprString(p.Fun) + ", which " + why
					}
				}
			}
		}
		if fid, ok := core.Unparen(p.Fun).(*ast.Ident); ok && len(p.Args) > 0 && p.Args[0] == top {
			if _, isB := inf.Uses[fid].(*types.Builtin); isB {
				switch fid.Name {
				case "delete":
					return "mutates: delete"
				case "append":
					// append(v, …) may write into v's backing array
					return "mutates: append to the shared slice"
				}
			}
		}
	case *ast.RangeStmt:
		if p.Key == top || p.Value == top {
			return "mutates: range assigns to it"
		}
	}
	return "read"
}

func classifyMethod(c *core.Ctx, f *types.Func, mut map[*types.Func]bool) string {
	if f == nil {
		return "read"
	}
	recv := core.RecvNamed(f)
	if recv == nil {
		// interface method (error.Error, reflect.Type…): by table
		if f.Pkg() == nil {
			return "read" // error.Error
		}
		switch f.Pkg().Path() {
		case "reflect", "fmt":
			return "read"
		}
		if c.M.InModule(f.Pkg()) {
			// a method of a module interface: it mutates if any implementation in the module does (class hierarchy)
			if impl := mutatingImplementation(f, mut); impl != nil {
				return "mutates: interface method " + core.NameOf(f) + " is implemented by " + impl.FullName() + ", which stores through its receiver"
			}
			return "read: interface method " + core.NameOf(f) + " (no implementation in the module stores through its receiver)"
		}
		return "unknown: interface method " + f.FullName()
	}
	pkg := recv.Obj().Pkg()
	if pkg == nil {
		return "read"
	}
	if c.M.InModule(pkg) {
		if mut[f.Origin()] {
			return "mutates: method " + core.NameOf(f) + " stores through its receiver"
		}
		return "read"
	}
	full := pkg.Path() + "." + core.NameOf(recv.Obj())
	switch full {
	case "strings.Replacer", "log.Logger", "regexp.Regexp", "sync.Map", "sync.Mutex", "sync.RWMutex", "sync.Once", "sync.WaitGroup", "sync.Pool":
		return "read" // documented safe for concurrent use
	case "math/rand.Rand":
		return "mutates: *math/rand.Rand method " + core.NameOf(f) + " (a Rand built with rand.New is not safe for concurrent use)"
	}
	return "unknown: method of external type " + full
}

func runR172(c *core.Ctx) {
	const rel = "restli"
	inf := info(c, rel)
	rootT, _ := mustObj(c, rel, "rootNode").(*types.TypeName)
	pathT, _ := mustObj(c, rel, "pathNode").(*types.TypeName)
	serve := mustFunc(c, rel, "(*rootNode).ServeHTTP")
	// writers: functions containing a store to a field of the node types or an insert into their maps
	writers := map[*types.Func]token.Pos{}
	for _, fd := range c.M.FuncDecls(rel) {
		if fd.Body == nil {
			continue
		}
		f, _ := inf.Defs[fd.Name].(*types.Func)
		ast.Inspect(fd.Body, func(n ast.Node) bool {
			var lhs []ast.Expr
			switch x := n.(type) {
			case *ast.AssignStmt:
				lhs = x.Lhs
			case *ast.IncDecStmt:
				lhs = []ast.Expr{x.X}
			case *ast.CallExpr:
				if id, ok := core.Unparen(x.Fun).(*ast.Ident); ok && id.Name == "delete" && len(x.Args) == 2 {
					lhs = []ast.Expr{x.Args[0]}
				}
			default:
				return true
			}
			for _, l := range lhs {
				cur := core.Unparen(l)
				for {
					switch y := cur.(type) {
					case *ast.IndexExpr:
						cur = core.Unparen(y.X)
						continue
					case *ast.StarExpr:
						// *p = *r.pathNode on a fresh local is construction; still counted as a writer
						if nn := namedOf(inf.Types[y.X].Type); nn != nil && (nn.Obj() == rootT || nn.Obj() == pathT) {
							writers[f] = l.Pos()
						}
						cur = core.Unparen(y.X)
						continue
					case *ast.SelectorExpr:
						if fv, ok := core.ObjOf(inf, y).(*types.Var); ok && fv.IsField() {
							if nn := namedOf(inf.Types[y.X].Type); nn != nil && (nn.Obj() == rootT || nn.Obj() == pathT) {
								writers[f] = l.Pos()
							}
						}
						cur = core.Unparen(y.X)
						continue
					}
					break
				}
			}
			return true
		})
	}
	// reachability from ServeHTTP
	cg := c.M.CallGraph()
	start := cg.Nodes[c.M.SSAFunc(serve)]
	if start == nil {
		c.Unknown(rel, "(*rootNode).ServeHTTP", "call-graph node", serve.Pos(), "ServeHTTP not in the call graph")
		return
	}
	reach := map[*types.Func]bool{}
	seen := map[int]bool{}
	stack := []int{start.ID}
	byID := map[int]interface{}{}
	_ = byID
	nodes := cg.Nodes
	idNode := map[int]*types.Func{}
	for fn, n := range nodes {
		if fn != nil {
			if o, ok := fn.Object().(*types.Func); ok {
				idNode[n.ID] = o
			} else if fn.Parent() != nil {
				// closures: attribute to the enclosing declared function
				p := fn
				for p.Parent() != nil {
					p = p.Parent()
				}
				if o, ok := p.Object().(*types.Func); ok {
					idNode[n.ID] = o
				}
			}
		}
	}
	nodeByID := map[int]interface{}{}
	_ = nodeByID
	idx := map[int][]int{}
	for _, n := range nodes {
		for _, e := range n.Out {
			idx[n.ID] = append(idx[n.ID], e.Callee.ID)
		}
	}
	for len(stack) > 0 {
		id := stack[len(stack)-1]
		stack = stack[:len(stack)-1]
		if seen[id] {
			continue
		}
		seen[id] = true
		if f := idNode[id]; f != nil {
			reach[f.Origin()] = true
		}
		stack = append(stack, idx[id]...)
	}
	if len(writers) == 0 {
		c.Unknown(rel, "-", "routing-tree writers", token.NoPos, "no function writes the routing tree")
	}
	for f, pos := range writers {
		name := core.FuncName(f)
		// closures stored as handlers are attributed to their registering function, whose *body* is not
		// executed by ServeHTTP; only flag declared functions whose own SSA node is reachable
		n := nodes[c.M.SSAFunc(f)]
		direct := n != nil && seen[n.ID]
		c.Check(!direct, rel, name, "writes the routing tree and is not reachable from ServeHTTP", pos, "", "a function that writes pathNode/rootNode state is reachable while serving requests")
	}
	_ = reach
}

func runR176(c *core.Ctx) {
	const rel = "restlicodec"
	inf := info(c, rel)
	reg := mustObj(c, rel, "customTyperefAdapters")
	c.Check(isSyncType(reg.Type()), rel, "-", "registry is a sync.Map", reg.Pos(), reg.Type().String(), "the registry is not a sync type")
	okUses, n := true, 0
	for _, file := range c.M.Pkg(rel).Syntax {
		par := core.Parents(file)
		ast.Inspect(file, func(x ast.Node) bool {
			id, ok := x.(*ast.Ident)
			if !ok || inf.Uses[id] != reg {
				return true
			}
			n++
			sel, ok := par[id].(*ast.SelectorExpr)
			if !ok {
				okUses = false
				return true
			}
			call, ok := par[sel].(*ast.CallExpr)
			if !ok || !core.IsMethod(core.Callee(inf, call), "sync", "Map", sel.Sel.Name) {
				okUses = false
			}
			return true
		})
	}
	c.Check(okUses && n > 0, rel, "-", "registry used only through sync.Map methods", reg.Pos(), fmt.Sprintf("%d uses", n), "the registry escapes as a value or is used outside sync.Map methods")
}

// mutatingImplementation returns a module method named like the interface method f, whose receiver type implements f's
// interface and which stores through its receiver.
func mutatingImplementation(f *types.Func, mut map[*types.Func]bool) *types.Func {
	sig, _ := f.Type().(*types.Signature)
	if sig == nil || sig.Recv() == nil {
		return nil
	}
	iface, _ := sig.Recv().Type().Underlying().(*types.Interface)
	for m, isMut := range mut {
		if !isMut || core.NameOf(m) != core.NameOf(f) {
			continue
		}
		ms, _ := m.Type().(*types.Signature)
		if ms == nil || ms.Recv() == nil {
			continue
		}
		rt := ms.Recv().Type()
		if iface == nil || types.Implements(rt, iface) || types.Implements(types.NewPointer(rt), iface) {
			return m
		}
	}
	return nil
}

// anyMutatingMethod names a method in the method set of v's type that stores through its receiver ("" if none or if the
// type is one of the documented concurrency-safe ones).
func anyMutatingMethod(c *core.Ctx, v types.Object, mut map[*types.Func]bool) string {
	if v == nil {
		return ""
	}
	t := v.Type()
	switch u := t.Underlying().(type) {
	case *types.Interface:
		for i := 0; i < u.NumMethods(); i++ {
			m := u.Method(i)
			if m.Pkg() != nil && c.M.InModule(m.Pkg()) {
				if impl := mutatingImplementation(m, mut); impl != nil {
					return core.NameOf(m) + " (" + impl.FullName() + ")"
				}
			}
		}
	case *types.Pointer:
		if n, ok := u.Elem().(*types.Named); ok && n.Obj().Pkg() != nil && c.M.InModule(n.Obj().Pkg()) {
			for i := 0; i < n.NumMethods(); i++ {
				if mut[n.Method(i).Origin()] {
					return core.NameOf(n.Method(i))
				}
			}
		}
	}
	return ""
}

// ---- does a callee write through one of its parameters? ------------------------

type paramKey struct {
	f *types.Func
	i int
}

// memo of finished summaries, per module (rules of different modules run concurrently)
var paramMutMemo sync.Map // key: paramMemoKey -> string

type paramMemoKey struct {
	m *core.Module
	k paramKey
}

// argMutated: the call passes the identifier arg; does the callee (transitively, through module functions and the module
// implementations of interface methods) store through that parameter or call a mutating method on it?  "" = no.
func argMutated(c *core.Ctx, inf *types.Info, call *ast.CallExpr, arg *ast.Ident, mut map[*types.Func]bool) string {
	idx := -1
	for i, a := range call.Args {
		if a == ast.Expr(arg) {
			idx = i
		}
	}
	if idx < 0 {
		return ""
	}
	return calleeMutatesParam(c, inf, call, idx, mut, 0, map[paramKey]bool{})
}

func calleeMutatesParam(c *core.Ctx, inf *types.Info, call *ast.CallExpr, idx int, mut map[*types.Func]bool, depth int, inprog map[paramKey]bool) string {
	f := core.Callee(inf, call)
	if f == nil {
		return "is a function value (what it does with the argument is unknown)"
	}
	if f.Pkg() == nil || !c.M.InModule(f.Pkg()) {
		return "" // standard library / third party: trusted not to keep or write arguments beyond their documented API
	}
	var targets []*types.Func
	if core.RecvNamed(f) == nil && f.Type().(*types.Signature).Recv() != nil {
		// interface method: every module implementation
		sig := f.Type().(*types.Signature)
		iface, _ := sig.Recv().Type().Underlying().(*types.Interface)
		for _, p := range c.M.Roots {
			for _, file := range p.Syntax {
				for _, d := range file.Decls {
					fd, ok := d.(*ast.FuncDecl)
					if !ok || fd.Recv == nil || fd.Name.Name != core.NameOf(f) || fd.Body == nil {
						continue
					}
					m, _ := p.TypesInfo.Defs[fd.Name].(*types.Func)
					if m == nil {
						continue
					}
					rt := m.Type().(*types.Signature).Recv().Type()
					if iface == nil || types.Implements(rt, iface) || types.Implements(types.NewPointer(rt), iface) {
						targets = append(targets, m)
					}
				}
			}
		}
	} else {
		targets = []*types.Func{f.Origin()}
	}
	for _, t := range targets {
		if why := funcMutatesParam(c, t, idx, mut, depth, inprog); why != "" {
			return why
		}
	}
	return ""
}

func funcMutatesParam(c *core.Ctx, f *types.Func, idx int, mut map[*types.Func]bool, depth int, inprog map[paramKey]bool) string {
	k := paramKey{f, idx}
	if v, ok := paramMutMemo.Load(paramMemoKey{c.M, k}); ok {
		return v.(string)
	}
	if inprog[k] || depth > 5 {
		return ""
	}
	inprog[k] = true
	defer delete(inprog, k)
	fd := c.M.Decl(f)
	if fd == nil || fd.Body == nil {
		return ""
	}
	inf := c.M.InfoFor(fd.Pos())
	var params []types.Object
	for _, fl := range fd.Type.Params.List {
		for _, n := range fl.Names {
			params = append(params, inf.Defs[n])
		}
		if len(fl.Names) == 0 {
			params = append(params, nil)
		}
	}
	sig := f.Type().(*types.Signature)
	pi := idx
	if sig.Variadic() && idx >= len(params)-1 {
		pi = len(params) - 1
	}
	if pi < 0 || pi >= len(params) || params[pi] == nil {
		return ""
	}
	po := params[pi]
	res := ""
	par := core.Parents(fd)
	ast.Inspect(fd.Body, func(n ast.Node) bool {
		if res != "" {
			return false
		}
		id, ok := n.(*ast.Ident)
		if !ok || inf.Uses[id] != po {
			return true
		}
		k := classifyUseX(c, inf, par, id, mut, func(call *ast.CallExpr, arg *ast.Ident) string {
			j := -1
			for i, a := range call.Args {
				if a == ast.Expr(arg) {
					j = i
				}
			}
			if j < 0 {
				return ""
			}
			return calleeMutatesParam(c, inf, call, j, mut, depth+1, inprog)
		})
		if strings.HasPrefix(k, "mutates") {
			res = "reaches " + f.FullName() + ", where the parameter " + strings.TrimPrefix(k, "mutates: ")
		} else if strings.HasPrefix(k, "unknown: address") {
			res = "reaches " + f.FullName() + ", which takes the parameter's address"
		}
		// captured by a closure that is itself handed on: look inside (uses inside FuncLits are visited by this walk too)
		return true
	})
	paramMutMemo.Store(paramMemoKey{c.M, k}, res)
	return res
}
