package rules

import (
	"fmt"
	"go/ast"
	"go/token"
	"go/types"

	"verif/checker/core"
)

func init() {
	core.Register(&core.Rule{
		ID:    "R18",
		Title: "lazy map: the orderings each clause of the contract needs",
		Text: "In d2/lazymap (go/cfg path automata, all paths): R18.1 on the winner's path value.v = f() and sync.Map.Store(key, value.v) both precede wg.Done(); " +
			"R18.2 wg.Add(1) precedes the sync.Map.LoadOrStore that publishes the placeholder, Done is reached exactly once on the !loaded path and never on the loaded path; " +
			"R18.3 every read of .v of an *inFlightValue obtained from the map is preceded by wg.Wait() on it, and a map-loaded value is returned only on the failed-assertion edge of s.(*inFlightValue); " +
			"R18.4 Store overwrites unconditionally on the !stored edge and its closure only sets the flag and returns the value; " +
			"R18.5 f is called at exactly one site, on the !loaded edge; R18.6 the map is touched only through sync.Map methods.",
		Props: []string{"C18", "C17"},
		Floor: map[string]int{"v2": 12, "root": 12},
		Run:   runR18,
	})
}

func runR18(c *core.Ctx) {
	const rel = "d2/lazymap"
	inf := info(c, rel)
	_, los := mustDecl(c, rel, "(*LazySyncMap).LoadOrStore")
	_, load := mustDecl(c, rel, "(*LazySyncMap).Load")
	_, store := mustDecl(c, rel, "(*LazySyncMap).Store")
	inflight, _ := mustObj(c, rel, "inFlightValue").(*types.TypeName)
	isSyncMap := func(call *ast.CallExpr, name string) bool {
		return core.IsMethod(core.Callee(inf, call), "sync", "Map", name)
	}
	isWG := func(call *ast.CallExpr, name string) (ast.Expr, bool) {
		if !core.IsMethod(core.Callee(inf, call), "sync", "WaitGroup", name) {
			return nil, false
		}
		sel, ok := core.Unparen(call.Fun).(*ast.SelectorExpr)
		if !ok {
			return nil, false
		}
		// receiver X.wg -> X
		if inner, ok := core.Unparen(sel.X).(*ast.SelectorExpr); ok {
			return inner.X, true
		}
		return sel.X, true
	}
	// the compute callback parameter of LoadOrStore
	var fParam types.Object
	for _, fl := range los.Type.Params.List {
		for _, n := range fl.Names {
			if _, ok := inf.Defs[n].Type().Underlying().(*types.Signature); ok {
				fParam = inf.Defs[n]
			}
		}
	}
	if fParam == nil {
		c.Unknown(rel, "(*LazySyncMap).LoadOrStore", "compute parameter", los.Pos(), "no function-typed parameter")
		return
	}
	isF := func(call *ast.CallExpr) bool {
		id, ok := core.Unparen(call.Fun).(*ast.Ident)
		return ok && core.ObjOf(inf, id) == fParam
	}
	isVField := func(e ast.Expr) (ast.Expr, bool) {
		sel, ok := core.Unparen(e).(*ast.SelectorExpr)
		if !ok {
			return nil, false
		}
		fv, ok := core.ObjOf(inf, sel).(*types.Var)
		if !ok || !fv.IsField() || fv.Name() != "v" {
			return nil, false
		}
		if n := namedOf(inf.Types[sel.X].Type); n == nil || n.Obj() != inflight {
			return nil, false
		}
		return sel.X, true
	}

	// ---- LoadOrStore: one automaton, state bits
	const (
		bAdd = 1 << iota
		bAssigned
		bStored
		bDone
		bDone2
		bLoadedT
		bLoadedF
	)
	fn := "(*LazySyncMap).LoadOrStore"
	flow := core.NewFlow(c.M, inf, los.Body)
	type verdict struct{ bad string }
	v := map[string]string{} // construct -> first failure
	seen := map[string]token.Pos{}
	fail := func(construct, why string, pos token.Pos) {
		if _, ok := v[construct]; !ok {
			v[construct] = why
		}
		seen[construct] = pos
	}
	pass := func(construct string, pos token.Pos) {
		if _, ok := seen[construct]; !ok {
			seen[construct] = pos
		}
	}
	fSites := map[*ast.CallExpr]bool{}
	// which variable holds `loaded`
	var loadedObj types.Object
	ast.Inspect(los.Body, func(n ast.Node) bool {
		if as, ok := n.(*ast.AssignStmt); ok && len(as.Rhs) == 1 && len(as.Lhs) == 2 {
			if call, ok := core.Unparen(as.Rhs[0]).(*ast.CallExpr); ok && isSyncMap(call, "LoadOrStore") {
				loadedObj = core.ObjOf(inf, as.Lhs[1])
			}
		}
		return true
	})
	auto := &core.Automaton{
		Init: 0,
		Node: func(state int, n ast.Node) int {
			// assignment value.v = f()
			if as, ok := n.(*ast.AssignStmt); ok && len(as.Lhs) == 1 && len(as.Rhs) == 1 {
				if _, ok := isVField(as.Lhs[0]); ok {
					if call, ok := core.Unparen(as.Rhs[0]).(*ast.CallExpr); ok && isF(call) {
						state |= bAssigned
					}
				}
			}
			for _, call := range core.CallsIn(n) {
				switch {
				case isF(call):
					fSites[call] = true
					if state&bLoadedT != 0 || state&bLoadedF == 0 {
						fail("R18.5 compute function runs only on the !loaded edge", "f() is reachable on a path where the key was already present (or before the atomic LoadOrStore)", call.Pos())
					} else {
						pass("R18.5 compute function runs only on the !loaded edge", call.Pos())
					}
				case isSyncMap(call, "LoadOrStore"):
					if state&bAdd == 0 {
						fail("R18.2 wg.Add(1) precedes publication of the placeholder", "the placeholder becomes visible before its WaitGroup is armed: a waiter's Wait() can return before the value is set", call.Pos())
					} else {
						pass("R18.2 wg.Add(1) precedes publication of the placeholder", call.Pos())
					}
				case isSyncMap(call, "Store"):
					// stored value must be value.v after assignment
					okArg := false
					if len(call.Args) == 2 {
						if _, ok := isVField(call.Args[1]); ok && state&bAssigned != 0 {
							okArg = true
						}
					}
					if okArg {
						state |= bStored
					}
				}
				if _, ok := isWG(call, "Add"); ok {
					state |= bAdd
				}
				if _, ok := isWG(call, "Done"); ok {
					if state&bAssigned == 0 || state&bStored == 0 {
						fail("R18.1 value assigned and published before wg.Done()", "Done() is reachable before value.v = f() and sync.Map.Store(key, value.v): a later Store can be overwritten and waiters can read an unset value", call.Pos())
					} else {
						pass("R18.1 value assigned and published before wg.Done()", call.Pos())
					}
					if state&bDone != 0 {
						state |= bDone2
					}
					state |= bDone
				}
			}
			if r, ok := n.(*ast.ReturnStmt); ok {
				switch {
				case state&bLoadedT != 0:
					if state&bDone != 0 {
						fail("R18.2 Done exactly once, only on the winner's path", "Done() is called on the path where the key was already present", r.Pos())
					} else {
						pass("R18.2 Done exactly once, only on the winner's path", r.Pos())
					}
				default:
					if state&bDone == 0 || state&bDone2 != 0 {
						fail("R18.2 Done exactly once, only on the winner's path", "the winner's path returns without calling Done() exactly once: waiters block forever or the WaitGroup panics", r.Pos())
					} else {
						pass("R18.2 Done exactly once, only on the winner's path", r.Pos())
					}
				}
			}
			return state
		},
		Edge: func(state int, facts []core.Fact) (int, bool) {
			for _, f := range facts {
				if id, ok := core.Unparen(f.Expr).(*ast.Ident); ok && loadedObj != nil && core.ObjOf(inf, id) == loadedObj {
					if f.Val {
						state |= bLoadedT
					} else {
						state |= bLoadedF
					}
				}
			}
			return state, true
		},
	}
	flow.Run(auto)
	for _, k := range []string{"R18.1 value assigned and published before wg.Done()", "R18.2 wg.Add(1) precedes publication of the placeholder",
		"R18.2 Done exactly once, only on the winner's path", "R18.5 compute function runs only on the !loaded edge"} {
		pos, ok := seen[k]
		if !ok {
			c.Bad(rel, fn, k, los.Pos(), "the required call is absent from LoadOrStore")
			continue
		}
		if why, bad := v[k]; bad {
			c.Bad(rel, fn, k, pos, why)
		} else {
			c.OK(rel, fn, k, pos, "")
		}
	}
	c.Check(len(fSites) == 1, rel, fn, "R18.5 compute function has exactly one call site", los.Pos(), "", fmt.Sprintf("%d call sites of f", len(fSites)))

	// ---- R18.3 in LoadOrStore and Load
	for _, fd := range []*ast.FuncDecl{los, load} {
		fnName := core.DeclName(fd)
		par := core.Parents(fd)
		// variables bound by assertion to *inFlightValue, and the map-loaded source variable
		assertVars := map[types.Object]types.Object{} // v -> ok
		var srcVar types.Object
		ast.Inspect(fd.Body, func(n ast.Node) bool {
			as, ok := n.(*ast.AssignStmt)
			if !ok || len(as.Rhs) != 1 {
				return true
			}
			switch r := core.Unparen(as.Rhs[0]).(type) {
			case *ast.TypeAssertExpr:
				if nn := namedOf(inf.Types[r.Type].Type); nn != nil && nn.Obj() == inflight && len(as.Lhs) == 2 {
					assertVars[core.ObjOf(inf, as.Lhs[0])] = core.ObjOf(inf, as.Lhs[1])
				}
			case *ast.CallExpr:
				if isSyncMap(r, "Load") || isSyncMap(r, "LoadOrStore") {
					srcVar = core.ObjOf(inf, as.Lhs[0])
				}
			}
			return true
		})
		if srcVar == nil {
			c.Unknown(rel, fnName, "R18.3 map-loaded value", fd.Pos(), "no sync.Map Load/LoadOrStore result variable")
			continue
		}
		// reads of X.v for asserted X need Wait before
		fl := core.NewFlow(c.M, inf, fd.Body)
		waitBad := false
		reads := 0
		fl.Run(&core.Automaton{
			Init: 0,
			Node: func(state int, n ast.Node) int {
				for _, call := range core.CallsIn(n) {
					if x, ok := isWG(call, "Wait"); ok {
						if _, isAsserted := assertVars[core.ObjOf(inf, x)]; isAsserted {
							state = 1
						}
					}
				}
				core.WalkNoFuncLit(n, func(m ast.Node) bool {
					if e, ok := m.(ast.Expr); ok {
						if x, ok := isVField(e); ok {
							if _, isAsserted := assertVars[core.ObjOf(inf, x)]; isAsserted {
								reads++
								if state != 1 {
									waitBad = true
								}
							}
						}
					}
					return true
				})
				return state
			},
		})
		c.Check(reads > 0 && !waitBad, rel, fnName, "R18.3 in-flight value is read only after wg.Wait()", fd.Pos(), fmt.Sprintf("%d reads", reads),
			"a placeholder's v is read on a path that has not waited for the computation (or is never read)")
		// returns of the raw loaded value only on the failed-assertion edge
		okRet, nRet := true, 0
		for _, r := range core.ReturnsIn(fd.Body) {
			if len(r.Results) == 0 || core.ObjOf(inf, r.Results[0]) != srcVar {
				continue
			}
			nRet++
			g := core.GuardedByFact(inf, par, r, func(f core.Fact) bool {
				id, ok := core.Unparen(f.Expr).(*ast.Ident)
				if !ok || f.Val {
					return false
				}
				for _, okv := range assertVars {
					if core.ObjOf(inf, id) == okv {
						return true
					}
				}
				return false
			}, nil)
			if !g {
				okRet = false
			}
		}
		c.Check(okRet && nRet > 0, rel, fnName, "R18.3 a map-loaded value is returned only when it is not a placeholder", fd.Pos(), "", "the raw map value is returned on a path where it can be an *inFlightValue")
	}

	// ---- R18.4 Store
	sfn := "(*LazySyncMap).Store"
	var valueParam, keyParam types.Object
	if len(store.Type.Params.List) >= 2 {
		keyParam = inf.Defs[store.Type.Params.List[0].Names[0]]
		valueParam = inf.Defs[store.Type.Params.List[len(store.Type.Params.List)-1].Names[0]]
	}
	var flag types.Object
	closureOK, overwriteOK := false, false
	ast.Inspect(store.Body, func(n ast.Node) bool {
		switch x := n.(type) {
		case *ast.FuncLit:
			if len(x.Body.List) == 2 {
				as, ok1 := x.Body.List[0].(*ast.AssignStmt)
				ret, ok2 := x.Body.List[1].(*ast.ReturnStmt)
				if ok1 && ok2 && len(as.Lhs) == 1 && len(ret.Results) == 1 && core.ObjOf(inf, ret.Results[0]) == valueParam {
					if cv := core.ConstOf(inf, as.Rhs[0]); cv != nil && cv.ExactString() == "true" {
						flag = core.ObjOf(inf, as.Lhs[0])
						closureOK = true
					}
				}
			}
			return false
		case *ast.IfStmt:
			u, ok := core.Unparen(x.Cond).(*ast.UnaryExpr)
			if ok && u.Op == token.NOT && flag != nil && core.ObjOf(inf, u.X) == flag && x.Else == nil {
				for _, s := range x.Body.List {
					if es, ok := s.(*ast.ExprStmt); ok {
						if call, ok := es.X.(*ast.CallExpr); ok && isSyncMap(call, "Store") && len(call.Args) == 2 &&
							core.ObjOf(inf, call.Args[0]) == keyParam && core.ObjOf(inf, call.Args[1]) == valueParam {
							overwriteOK = true
						}
					}
				}
			}
		}
		return true
	})
	c.Check(closureOK, rel, sfn, "R18.4 the closure only sets the flag and returns the value", store.Pos(), "", "Store's compute closure does more than `stored = true; return value`")
	c.Check(overwriteOK, rel, sfn, "R18.4 Store overwrites unconditionally when it did not create the entry", store.Pos(), "", "no `if !stored { sync.Map.Store(key, value) }`: a Store ordered after an in-flight computation is lost")

	// ---- R18.6 conversions of the receiver are only used as sync.Map method receivers
	p := c.M.Pkg(rel)
	lazyT, _ := mustObj(c, rel, "LazySyncMap").(*types.TypeName)
	badConv := 0
	convs := 0
	for _, file := range p.Syntax {
		par := core.Parents(file)
		ast.Inspect(file, func(n ast.Node) bool {
			call, ok := n.(*ast.CallExpr)
			if !ok || len(call.Args) != 1 {
				return true
			}
			tv, ok := inf.Types[call.Fun]
			if !ok || !tv.IsType() {
				return true
			}
			at := inf.Types[call.Args[0]].Type
			if nn := namedOf(at); nn == nil || nn.Obj() != lazyT {
				return true
			}
			convs++
			// parent must be a selector used as the function of a call (method call)
			pn := par[call]
			if pe, ok := pn.(*ast.ParenExpr); ok {
				pn = par[pe]
			}
			sel, ok := pn.(*ast.SelectorExpr)
			if !ok {
				badConv++
				return true
			}
			if mc, ok := par[sel].(*ast.CallExpr); !ok || mc.Fun != ast.Expr(sel) || !core.IsMethod(core.Callee(inf, mc), "sync", "Map", sel.Sel.Name) {
				badConv++
			}
			return true
		})
	}
	c.Check(convs > 0 && badConv == 0, rel, "-", "R18.6 the map is touched only through sync.Map methods", token.NoPos, fmt.Sprintf("%d conversions, all method receivers", convs), fmt.Sprintf("%d of %d conversions of *LazySyncMap escape as values", badConv, convs))
}
