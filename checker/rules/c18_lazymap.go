package rules

import (
	"fmt"
	"go/ast"
	"go/token"
	"go/types"

	"verif/checker/core"
)

func init() {
	core.Register(&core.Rule{
		ID:    "R18",
		Title: "lazy map: the orderings each clause of the contract needs",
		Text: "In d2/lazymap (go/cfg path automata, all paths, every exit including falling off the end; conditions are edge facts, so if/else, early exits, " +
			"switches and type switches are the same thing; locals with one definition and aliases of the sync.Map conversion are resolved): " +
			"for every function that publishes a fresh placeholder with sync.Map.LoadOrStore — R18.1 on the winner's path the placeholder's v is assigned the payload " +
			"and sync.Map.Store(key, that same value) is called, both before wg.Done(); R18.2 wg.Add(1) on the placeholder precedes its publication, Done is reached " +
			"exactly once on the !loaded path and never on the loaded path; R18.5 the compute function is called at exactly one site, on the !loaded edge; " +
			"for every function that obtains a value from the map — R18.3 every read of .v of a placeholder that is not the function's own is preceded by wg.Wait() on it, " +
			"the raw map value is returned only where its assertion to *inFlightValue failed, and what is returned is the entry's value (the raw value, a placeholder's v, or the payload); " +
			"R18.4 Store either funnels through LoadOrStore with a closure that only returns the value (optionally raising a flag) and overwrites on every exit where the flag is not known raised, " +
			"or runs the placeholder protocol itself and, where the key was present, waits for an in-flight computation and then overwrites; " +
			"R18.6 the map is touched only through sync.Map methods; R18.7 a Store that funnels through LoadOrStore reaches the raw sync.Map.Store only where the flag is known lowered (its own closure did not run): the value is published once.",
		Props: []string{"C18", "C17"},
		Floor: map[string]int{"v2": 12, "root": 12},
		Run:   runR18,
	})
}

// lazyFn is what R18 knows about one function of the lazy map.
type lazyFn struct {
	c    *core.Ctx
	inf  *types.Info
	fd   *ast.FuncDecl
	name string
	// nDefs counts the assignments of each local; def is the right-hand side of a local assigned exactly once, 1:1
	nDefs map[types.Object]int
	def   map[types.Object]ast.Expr
	// key and val are the first and last parameter, fParam the function-typed one (the compute callback)
	key, val, fParam types.Object
	// pubCall is the sync.Map.LoadOrStore call, pub the fresh placeholder it publishes, loaded its second result
	pubCall *ast.CallExpr
	pub     types.Object
	loaded  types.Object
	// src is the variable holding the value obtained from the map, found the second result of sync.Map.Load
	src, found types.Object
	inflight   *types.TypeName
	// result is the first named result, if any
	result types.Object
}

func (l *lazyFn) isSyncMap(call *ast.CallExpr, name string) bool {
	return core.IsMethod(core.Callee(l.inf, call), "sync", "Map", name)
}

// resolve follows locals that are assigned exactly once back to what they were assigned.
func (l *lazyFn) resolve(e ast.Expr) ast.Expr {
	for i := 0; i < 8; i++ {
		e = core.Unparen(e)
		id, ok := e.(*ast.Ident)
		if !ok {
			return e
		}
		o := core.ObjOf(l.inf, id)
		if o == nil || l.nDefs[o] != 1 || l.def[o] == nil {
			return e
		}
		e = l.def[o]
	}
	return e
}

// isFresh: new(inFlightValue) or &inFlightValue{…}
func (l *lazyFn) isFresh(e ast.Expr) bool {
	switch x := l.resolve(e).(type) {
	case *ast.CallExpr:
		if b, ok := core.ObjOf(l.inf, x.Fun).(*types.Builtin); ok && core.NameOf(b) == "new" && len(x.Args) == 1 {
			nn := namedOf(l.inf.Types[x.Args[0]].Type)
			return nn != nil && nn.Obj() == l.inflight
		}
	case *ast.UnaryExpr:
		if cl, ok := core.Unparen(x.X).(*ast.CompositeLit); ok && x.Op == token.AND {
			nn := namedOf(l.inf.Types[cl].Type)
			return nn != nil && nn.Obj() == l.inflight
		}
	}
	return false
}

// placeholderOf returns the variable X of an expression X (of type *inFlightValue), resolving aliases.
func (l *lazyFn) placeholderOf(e ast.Expr) types.Object {
	e = core.Unparen(e)
	if id, ok := e.(*ast.Ident); ok {
		o := core.ObjOf(l.inf, id)
		if o == nil {
			return nil
		}
		if nn := namedOf(o.Type()); nn == nil || nn.Obj() != l.inflight {
			return nil
		}
		// alias of another placeholder variable
		if l.nDefs[o] == 1 && l.def[o] != nil {
			if id2, ok := core.Unparen(l.def[o]).(*ast.Ident); ok {
				if o2 := l.placeholderOf(id2); o2 != nil {
					return o2
				}
			}
		}
		return o
	}
	return nil
}

// vField: X.v of a placeholder X
func (l *lazyFn) vField(e ast.Expr) (types.Object, bool) {
	sel, ok := core.Unparen(e).(*ast.SelectorExpr)
	if !ok {
		return nil, false
	}
	fv, ok := core.ObjOf(l.inf, sel).(*types.Var)
	if !ok || !fv.IsField() || core.NameOf(fv) != "v" {
		return nil, false
	}
	if n := namedOf(l.inf.Types[sel.X].Type); n == nil || n.Obj() != l.inflight {
		return nil, false
	}
	return l.placeholderOf(sel.X), true
}

// wg: X.wg.<name>() on a placeholder X
func (l *lazyFn) wg(call *ast.CallExpr, name string) (types.Object, bool) {
	if !core.IsMethod(core.Callee(l.inf, call), "sync", "WaitGroup", name) {
		return nil, false
	}
	sel, ok := core.Unparen(call.Fun).(*ast.SelectorExpr)
	if !ok {
		return nil, false
	}
	if inner, ok := core.Unparen(sel.X).(*ast.SelectorExpr); ok {
		return l.placeholderOf(inner.X), true
	}
	return nil, true
}

func (l *lazyFn) isF(call *ast.CallExpr) bool {
	id, ok := core.Unparen(call.Fun).(*ast.Ident)
	return ok && l.fParam != nil && core.ObjOf(l.inf, id) == l.fParam
}

// payload: what the winner publishes — the result of the compute callback where there is one, else the value parameter.
// It returns the node (call) or object (parameter) that identifies it.
func (l *lazyFn) payload(e ast.Expr) interface{} {
	r := l.resolve(e)
	if l.fParam != nil {
		if call, ok := r.(*ast.CallExpr); ok && l.isF(call) {
			return call
		}
		return nil
	}
	if id, ok := r.(*ast.Ident); ok && l.val != nil && core.ObjOf(l.inf, id) == l.val && l.nDefs[l.val] == 0 {
		return l.val
	}
	return nil
}

func newLazyFn(c *core.Ctx, inf *types.Info, fd *ast.FuncDecl, inflight *types.TypeName) *lazyFn {
	l := &lazyFn{c: c, inf: inf, fd: fd, name: core.DeclName(fd), nDefs: map[types.Object]int{}, def: map[types.Object]ast.Expr{}, inflight: inflight}
	var params []types.Object
	for _, fl := range fd.Type.Params.List {
		for _, n := range fl.Names {
			o := inf.Defs[n]
			params = append(params, o)
			if _, ok := o.Type().Underlying().(*types.Signature); ok {
				l.fParam = o
			}
		}
	}
	if fd.Type.Results != nil {
		for _, fl := range fd.Type.Results.List {
			for _, n := range fl.Names {
				if o := inf.Defs[n]; o != nil {
					l.nDefs[o] += 2 // starts as the zero value: never a single definition
					if l.result == nil {
						l.result = o
					}
				}
			}
		}
	}
	if len(params) > 0 {
		l.key = params[0]
		if len(params) > 1 && l.fParam == nil {
			l.val = params[len(params)-1]
		}
	}
	ast.Inspect(fd.Body, func(n ast.Node) bool {
		switch x := n.(type) {
		case *ast.AssignStmt:
			for i, lhs := range x.Lhs {
				o := core.ObjOf(inf, lhs)
				if o == nil {
					continue
				}
				l.nDefs[o]++
				if len(x.Lhs) == len(x.Rhs) && (x.Tok == token.DEFINE || x.Tok == token.ASSIGN) {
					l.def[o] = x.Rhs[i]
				} else {
					l.def[o] = nil
				}
			}
			if len(x.Rhs) == 1 && len(x.Lhs) == 2 {
				if call, ok := core.Unparen(x.Rhs[0]).(*ast.CallExpr); ok {
					switch {
					case l.isSyncMap(call, "LoadOrStore"):
						l.src, l.loaded = core.ObjOf(inf, x.Lhs[0]), core.ObjOf(inf, x.Lhs[1])
					case l.isSyncMap(call, "Load"):
						l.src, l.found = core.ObjOf(inf, x.Lhs[0]), core.ObjOf(inf, x.Lhs[1])
					}
				}
			}
		case *ast.IncDecStmt:
			if o := core.ObjOf(inf, x.X); o != nil {
				l.nDefs[o] += 2
			}
		case *ast.ValueSpec:
			for i, nm := range x.Names {
				o := inf.Defs[nm]
				l.nDefs[o]++
				if i < len(x.Values) && len(x.Values) == len(x.Names) {
					l.def[o] = x.Values[i]
				}
			}
		case *ast.UnaryExpr:
			if x.Op == token.AND {
				if o := core.ObjOf(inf, x.X); o != nil {
					l.nDefs[o] += 2 // address taken: not tracked
				}
			}
		case *ast.CallExpr:
			if l.isSyncMap(x, "LoadOrStore") && len(x.Args) == 2 {
				l.pubCall = x
			}
		}
		return true
	})
	if l.pubCall != nil && l.isFresh(l.pubCall.Args[1]) {
		l.pub = l.placeholderOf(l.pubCall.Args[1])
	}
	return l
}

type lazyVerdicts struct {
	c     *core.Ctx
	rel   string
	fn    string
	order []string
	why   map[string]string
	pos   map[string]token.Pos
}

func newLazyVerdicts(c *core.Ctx, rel, fn string, constructs ...string) *lazyVerdicts {
	return &lazyVerdicts{c: c, rel: rel, fn: fn, order: constructs, why: map[string]string{}, pos: map[string]token.Pos{}}
}

func (v *lazyVerdicts) fail(construct, why string, pos token.Pos) {
	if _, ok := v.why[construct]; !ok {
		v.why[construct] = why
		v.pos[construct] = pos
	}
}

func (v *lazyVerdicts) pass(construct string, pos token.Pos) {
	if _, ok := v.pos[construct]; !ok {
		v.pos[construct] = pos
	}
}

// flush reports every construct: violated with the first reason, discharged when it was met, violated as absent otherwise.
func (v *lazyVerdicts) flush(at token.Pos, absent string) {
	for _, k := range v.order {
		pos, seen := v.pos[k]
		switch why, bad := v.why[k]; {
		case bad:
			v.c.Bad(v.rel, v.fn, k, pos, why)
		case !seen:
			v.c.Bad(v.rel, v.fn, k, at, absent)
		default:
			v.c.OK(v.rel, v.fn, k, pos, "")
		}
	}
}

const (
	r181  = "R18.1 value assigned and published before wg.Done()"
	r182a = "R18.2 wg.Add(1) precedes publication of the placeholder"
	r182b = "R18.2 Done exactly once, only on the winner's path"
	r185a = "R18.5 compute function runs only on the !loaded edge"
	r185b = "R18.5 compute function has exactly one call site"
	r183a = "R18.3 in-flight value is read only after wg.Wait()"
	r183b = "R18.3 a map-loaded value is returned only when it is not a placeholder"
	r183c = "R18.3 what is returned is the entry's value"
	r184a = "R18.4 the closure only sets the flag and returns the value"
	r184b = "R18.4 Store overwrites unconditionally when it did not create the entry"
	r184c = "R18.4 Store waits for an in-flight computation before overwriting"
	r186  = "R18.6 the map is touched only through sync.Map methods"
	r187  = "R18.7 Store publishes the value once"
)

// publisher checks the winner's protocol of a function that publishes a fresh placeholder.
func (l *lazyFn) publisher(rel string) {
	const (
		bAdd = 1 << iota
		bAssigned
		bStored
		bDone
		bDone2
		bLoadedT
		bLoadedF
		bPub
		bRetOK // the local that is returned holds the published value
	)
	constructs := []string{r181, r182a, r182b}
	if l.fParam != nil {
		constructs = append(constructs, r185a)
	}
	v := newLazyVerdicts(l.c, rel, l.name, constructs...)
	if l.pub == nil {
		l.c.Bad(rel, l.name, r182a, l.pubCall.Pos(), "what sync.Map.LoadOrStore publishes is not a fresh *inFlightValue of this call")
		return
	}
	fSites := map[*ast.CallExpr]bool{}
	var assigned interface{} // identity of the payload assigned to pub.v
	hasResults := l.fd.Type.Results != nil && len(l.fd.Type.Results.List) > 0
	winnerRet := ""
	// a local through which the result is handed to the return statement (`res = value.v; …; return res`)
	retVars := map[types.Object]bool{}
	for _, r := range core.ReturnsIn(l.fd.Body) {
		if len(r.Results) > 0 {
			if id, ok := core.Unparen(r.Results[0]).(*ast.Ident); ok {
				if vr, ok := core.ObjOf(l.inf, id).(*types.Var); ok && !vr.IsField() && vr.Pkg() != nil && vr.Parent() != vr.Pkg().Scope() {
					retVars[vr] = true
				}
			}
		}
	}
	isPublished := func(state int, e ast.Expr) bool {
		if x, ok := l.vField(e); ok && x == l.pub && state&bAssigned != 0 {
			return true
		}
		if p := l.payload(e); p != nil && p == assigned {
			if _, isCall := core.Unparen(e).(*ast.CallExpr); !isCall {
				return true
			}
		}
		return false
	}
	core.NewFlow(l.c.M, l.inf, l.fd.Body).Run(&core.Automaton{
		AtEnd: true,
		Node: func(state int, n ast.Node) int {
			if as, ok := n.(*ast.AssignStmt); ok && len(as.Lhs) == len(as.Rhs) {
				for i := range as.Lhs {
					if x, ok := l.vField(as.Lhs[i]); ok && x == l.pub {
						if p := l.payload(as.Rhs[i]); p != nil {
							assigned = p
							state |= bAssigned
						} else {
							state &^= bAssigned
						}
					}
				}
				for i := range as.Lhs {
					if id, ok := core.Unparen(as.Lhs[i]).(*ast.Ident); ok && len(retVars) == 1 && retVars[core.ObjOf(l.inf, id)] {
						if isPublished(state, as.Rhs[i]) {
							state |= bRetOK
						} else {
							state &^= bRetOK
						}
					}
				}
			}
			for _, call := range core.CallsIn(n) {
				switch {
				case l.isF(call):
					fSites[call] = true
					if state&bLoadedT != 0 || state&bLoadedF == 0 {
						v.fail(r185a, "the compute function is reachable on a path where the key was already present (or before the atomic LoadOrStore)", call.Pos())
					} else {
						v.pass(r185a, call.Pos())
					}
				case call == l.pubCall:
					if state&bAdd == 0 {
						v.fail(r182a, "the placeholder becomes visible before its WaitGroup is armed: a waiter's Wait() can return before the value is set", call.Pos())
					} else {
						v.pass(r182a, call.Pos())
					}
					state |= bPub
				case l.isSyncMap(call, "Store"):
					if len(call.Args) == 2 && core.ObjOf(l.inf, call.Args[0]) == l.key && state&bAssigned != 0 && state&bLoadedF != 0 {
						if x, ok := l.vField(call.Args[1]); ok && x == l.pub {
							state |= bStored
						} else if p := l.payload(call.Args[1]); p != nil && p == assigned {
							if _, isCall := core.Unparen(call.Args[1]).(*ast.CallExpr); !isCall {
								state |= bStored
							}
						}
					}
				}
				if x, ok := l.wg(call, "Add"); ok && x == l.pub {
					if cv := core.ConstOf(l.inf, call.Args[0]); cv != nil && cv.ExactString() == "1" {
						state |= bAdd
					}
				}
				if x, ok := l.wg(call, "Done"); ok && x == l.pub {
					if state&bAssigned == 0 || state&bStored == 0 {
						v.fail(r181, "Done() is reachable before the placeholder's v is assigned the computed value and sync.Map.Store(key, that value) was called: a later Store can be overwritten and waiters can read an unset value", call.Pos())
					} else {
						v.pass(r181, call.Pos())
					}
					if state&bDone != 0 {
						state |= bDone2
					}
					state |= bDone
				}
			}
			if r, ok := n.(*ast.ReturnStmt); ok {
				switch {
				case state&bPub == 0:
					// left before publishing anything
					if state&bDone != 0 {
						v.fail(r182b, "Done() is called on a path that never published the placeholder", r.Pos())
					}
				case state&bLoadedT != 0:
					if state&bDone != 0 {
						v.fail(r182b, "Done() is called on the path where the key was already present", r.Pos())
					} else {
						v.pass(r182b, r.Pos())
					}
				default:
					if state&bDone == 0 || state&bDone2 != 0 {
						v.fail(r182b, "the winner's path returns without calling Done() exactly once: waiters block forever or the WaitGroup panics", r.Pos())
					} else {
						v.pass(r182b, r.Pos())
					}
					if hasResults && len(r.Results) > 0 {
						okRes := isPublished(state, r.Results[0])
						if id, isId := core.Unparen(r.Results[0]).(*ast.Ident); isId && len(retVars) == 1 && retVars[core.ObjOf(l.inf, id)] && state&bRetOK != 0 {
							okRes = true
						}
						if !okRes {
							winnerRet = fmt.Sprintf("the winner returns %s, which is not the value it published", core.ExprString(r.Results[0]))
						}
					}
				}
			}
			return state
		},
		Edge: func(state int, facts []core.Fact) (int, bool) {
			for _, f := range facts {
				if id, ok := core.Unparen(f.Expr).(*ast.Ident); ok && l.loaded != nil && core.ObjOf(l.inf, id) == l.loaded && state&bPub != 0 {
					if (f.Val && state&bLoadedF != 0) || (!f.Val && state&bLoadedT != 0) {
						return state, false
					}
					if f.Val {
						state |= bLoadedT
					} else {
						state |= bLoadedF
					}
				}
			}
			return state, true
		},
	})
	_ = isPublished
	v.flush(l.fd.Pos(), "the required call is absent from "+l.name)
	if l.fParam != nil {
		l.c.Check(len(fSites) == 1, rel, l.name, r185b, l.fd.Pos(), "", fmt.Sprintf("%d call sites of the compute function", len(fSites)))
	}
	if hasResults {
		l.c.Check(winnerRet == "", rel, l.name, "R18.1 the winner returns the value it published", l.fd.Pos(), "", winnerRet)
	}
}

// reader checks what a function does with a value obtained from the map.
func (l *lazyFn) reader(rel string) {
	hasResults := l.fd.Type.Results != nil && len(l.fd.Type.Results.List) > 0
	// foreign placeholders and the reads of their v
	foreign := map[types.Object]bool{}
	ast.Inspect(l.fd.Body, func(n ast.Node) bool {
		if e, ok := n.(ast.Expr); ok {
			if x, ok := l.vField(e); ok && x != nil && x != l.pub {
				foreign[x] = true
			}
		}
		return true
	})
	reads, waitBad := 0, false
	for x := range foreign {
		x := x
		core.NewFlow(l.c.M, l.inf, l.fd.Body).Run(&core.Automaton{
			Node: func(state int, n ast.Node) int {
				for _, call := range core.CallsIn(n) {
					if y, ok := l.wg(call, "Wait"); ok && y == x {
						state = 1
					}
				}
				var lhs map[ast.Expr]bool
				if as, ok := n.(*ast.AssignStmt); ok {
					lhs = map[ast.Expr]bool{}
					for _, e := range as.Lhs {
						lhs[core.Unparen(e)] = true
					}
				}
				core.WalkNoFuncLit(n, func(m ast.Node) bool {
					if e, ok := m.(ast.Expr); ok && !lhs[e] {
						if y, ok := l.vField(e); ok && y == x {
							reads++
							if state != 1 {
								waitBad = true
							}
						}
					}
					return true
				})
				return state
			},
		})
	}
	if hasResults || len(foreign) > 0 {
		l.c.Check((reads > 0 || !hasResults) && !waitBad, rel, l.name, r183a, l.fd.Pos(), fmt.Sprintf("%d reads", reads),
			"a placeholder's v is read on a path that has not waited for the computation (or is never read)")
	}
	if !hasResults {
		return
	}
	// what is returned
	const (
		bNotPH = 1 << iota
		bNotFound
		bLoadedF
	)
	isInflightAssert := func(e ast.Expr) bool {
		ta, ok := core.Unparen(e).(*ast.TypeAssertExpr)
		if !ok || ta.Type == nil || core.ObjOf(l.inf, l.resolve(ta.X)) != l.src {
			return false
		}
		tv, ok := l.inf.Types[ta.Type]
		if !ok {
			return false
		}
		nn := namedOf(tv.Type)
		return nn != nil && nn.Obj() == l.inflight
	}
	okVars := map[types.Object]bool{}
	ast.Inspect(l.fd.Body, func(n ast.Node) bool {
		if as, ok := n.(*ast.AssignStmt); ok && len(as.Rhs) == 1 && len(as.Lhs) == 2 && isInflightAssert(as.Rhs[0]) {
			if o := core.ObjOf(l.inf, as.Lhs[1]); o != nil {
				okVars[o] = true
			}
		}
		return true
	})
	rawBad, rawN, valueBad := "", 0, ""
	// a result variable assigned on several paths (a named result, or a local returned at the end) is followed along
	// the path: what it holds is classified where it is assigned
	resVar := l.result
	if resVar == nil {
		for _, r := range core.ReturnsIn(l.fd.Body) {
			if len(r.Results) > 0 {
				if id, ok := core.Unparen(r.Results[0]).(*ast.Ident); ok {
					if o := core.ObjOf(l.inf, id); o != nil && o != l.src && l.nDefs[o] > 1 && resVar == nil {
						resVar = o
					}
				}
			}
		}
	}
	const (
		hUnset = iota
		hRawOK
		hRawBad
		hV
		hPayload
		hOther
	)
	classify := func(state int, e ast.Expr) int {
		res := l.resolve(e)
		switch {
		case core.ObjOf(l.inf, res) == l.src && l.src != nil:
			if state&bNotPH == 0 {
				return hRawBad
			}
			return hRawOK
		case core.IsNil(l.inf, res):
			return hUnset
		}
		if _, isV := l.vField(res); isV {
			return hV
		}
		if l.payload(res) != nil && state&bLoadedF != 0 {
			return hPayload
		}
		return hOther
	}
	core.NewFlow(l.c.M, l.inf, l.fd.Body).Run(&core.Automaton{
		Node: func(state int, n ast.Node) int {
			// a new lookup or assertion invalidates what was known
			if as, ok := n.(*ast.AssignStmt); ok {
				for i, lhs := range as.Lhs {
					o := core.ObjOf(l.inf, lhs)
					if o != nil && (o == l.src || okVars[o]) {
						state &^= bNotPH
					}
					if o != nil && o == resVar {
						if _, isId := core.Unparen(lhs).(*ast.Ident); isId {
							h := hOther
							if len(as.Lhs) == len(as.Rhs) {
								h = classify(state, as.Rhs[i])
							}
							state = state&7 | h<<3
						}
					}
				}
			}
			r, ok := n.(*ast.ReturnStmt)
			if !ok || len(r.Results) == 0 {
				return state
			}
			h := classify(state, r.Results[0])
			if id, isId := core.Unparen(r.Results[0]).(*ast.Ident); isId && resVar != nil && core.ObjOf(l.inf, id) == resVar {
				h = state >> 3
			}
			switch h {
			case hRawOK:
				rawN++
			case hRawBad:
				rawN++
				rawBad = "the raw map value is returned on a path where it can be an *inFlightValue"
			case hV, hPayload:
			default:
				if state&bNotFound == 0 {
					valueBad = fmt.Sprintf("%s is returned, which is neither the entry found in the map nor the value this call computed", core.ExprString(r.Results[0]))
				}
			}
			return state
		},
		Edge: func(state int, facts []core.Fact) (int, bool) {
			for _, f := range facts {
				e := core.Unparen(f.Expr)
				if id, ok := e.(*ast.Ident); ok {
					o := core.ObjOf(l.inf, id)
					switch {
					case okVars[o] && !f.Val:
						state |= bNotPH
					case o != nil && o == l.found && !f.Val:
						state |= bNotFound
					case o != nil && o == l.loaded && !f.Val:
						state |= bLoadedF
					}
				}
				if isInflightAssert(e) && !f.Val {
					state |= bNotPH
				}
			}
			return state, true
		},
	})
	l.c.Check(rawBad == "" && rawN > 0, rel, l.name, r183b, l.fd.Pos(), "", "the raw map value is returned on a path where it can be an *inFlightValue (or is never returned: completed entries are lost)")
	l.c.Check(valueBad == "", rel, l.name, r183c, l.fd.Pos(), "", valueBad)
}

// storeFunnel checks a Store that delegates to LoadOrStore with a closure.
func (l *lazyFn) storeFunnel(rel string, funnel *ast.CallExpr) {
	var lit *ast.FuncLit
	if len(funnel.Args) == 2 {
		lit, _ = l.resolve(funnel.Args[1]).(*ast.FuncLit)
	}
	keyOK := len(funnel.Args) == 2 && core.ObjOf(l.inf, funnel.Args[0]) == l.key
	if lit == nil || !keyOK {
		l.c.Bad(rel, l.name, r184a, funnel.Pos(), "LoadOrStore is not called with Store's key and a function literal")
		return
	}
	// the closure: every return yields the value parameter; the only effect is raising a flag
	var flag types.Object
	closureWhy := ""
	for _, r := range core.ReturnsIn(lit.Body) {
		if len(r.Results) != 1 || core.ObjOf(l.inf, l.resolve(r.Results[0])) != l.val {
			closureWhy = "Store's compute closure returns something other than the value being stored"
		}
	}
	if len(core.CallsIn(lit.Body)) > 0 {
		closureWhy = "Store's compute closure does more than raise a flag and return the value"
	}
	ast.Inspect(lit.Body, func(n ast.Node) bool {
		as, ok := n.(*ast.AssignStmt)
		if !ok {
			return true
		}
		for i, lhs := range as.Lhs {
			o := core.ObjOf(l.inf, lhs)
			if o == nil || core.ObjPos(o) > lit.Pos() && core.ObjPos(o) < lit.End() {
				continue // the closure's own locals
			}
			cv := core.ConstOf(l.inf, as.Rhs[min(i, len(as.Rhs)-1)])
			_, topLevel := indexOfStmt(lit.Body.List, as)
			if len(as.Lhs) != len(as.Rhs) || cv == nil || cv.ExactString() != "true" || !topLevel || (flag != nil && flag != o) {
				closureWhy = "Store's compute closure does more than raise a flag and return the value"
				continue
			}
			flag = o
		}
		return true
	})
	if flag != nil {
		// the flag starts lowered and is raised nowhere else
		var init ast.Expr
		n := 0
		ast.Inspect(l.fd.Body, func(m ast.Node) bool {
			if as, ok := m.(*ast.AssignStmt); ok {
				for i, lhs := range as.Lhs {
					if core.ObjOf(l.inf, lhs) == flag {
						n++
						if id, ok := core.Unparen(lhs).(*ast.Ident); ok && l.inf.Defs[id] == flag && len(as.Lhs) == len(as.Rhs) {
							init = as.Rhs[i]
						}
					}
				}
			}
			if vs, ok := m.(*ast.ValueSpec); ok {
				for i, nm := range vs.Names {
					if l.inf.Defs[nm] == flag && i < len(vs.Values) {
						init = vs.Values[i]
						n++
					}
				}
			}
			return true
		})
		startsFalse := false
		if init == nil {
			startsFalse = n == 1 // `var stored bool` plus the closure's assignment
		} else if cv := core.ConstOf(l.inf, init); cv != nil && cv.ExactString() == "false" {
			startsFalse = n == 2 // `stored := false` plus the closure's assignment
		}
		if !startsFalse {
			closureWhy = "the flag does not start lowered, or is assigned outside the closure"
		}
	}
	l.c.Check(closureWhy == "", rel, l.name, r184a, lit.Pos(), "", closureWhy)
	const (
		bCalled = 1 << iota
		bOver
		bFlagT
		bFlagF
	)
	why, twice := "", ""
	core.NewFlow(l.c.M, l.inf, l.fd.Body).Run(&core.Automaton{
		AtEnd: true,
		Node: func(state int, n ast.Node) int {
			for _, call := range core.CallsIn(n) {
				switch {
				case call == funnel:
					state = bCalled
				case l.isSyncMap(call, "Store"):
					if len(call.Args) == 2 && core.ObjOf(l.inf, call.Args[0]) == l.key && core.ObjOf(l.inf, l.resolve(call.Args[1])) == l.val && state&bCalled != 0 {
						if state&bFlagF == 0 && twice == "" {
							twice = fmt.Sprintf("sync.Map.Store at %s runs on a path where this call's own closure may already have published the value through LoadOrStore: the second publication overwrites a Store that another goroutine completed in between, although that Store was ordered later", l.c.M.Fset.Position(call.Pos()))
						}
						state |= bOver
					}
				}
			}
			if r, ok := n.(*ast.ReturnStmt); ok && why == "" {
				switch {
				case state&bCalled == 0:
					why = fmt.Sprintf("the exit at %s is reached without going through LoadOrStore: a value stored while a computation is in flight is overwritten by its result", l.c.M.Fset.Position(r.Pos()))
				case state&(bOver|bFlagT) == 0:
					why = fmt.Sprintf("the exit at %s is reached without sync.Map.Store(key, value) on a path where this call may not have created the entry: a Store ordered after an in-flight computation is lost", l.c.M.Fset.Position(r.Pos()))
				}
			}
			return state
		},
		Edge: func(state int, facts []core.Fact) (int, bool) {
			for _, f := range facts {
				if id, ok := core.Unparen(f.Expr).(*ast.Ident); ok && flag != nil && core.ObjOf(l.inf, id) == flag && f.Val && state&bCalled != 0 {
					state |= bFlagT
				}
				if id, ok := core.Unparen(f.Expr).(*ast.Ident); ok && flag != nil && core.ObjOf(l.inf, id) == flag && !f.Val && f.Tag == nil && state&bCalled != 0 {
					state |= bFlagF
				}
			}
			return state, true
		},
	})
	l.c.Check(why == "", rel, l.name, r184b, l.fd.Pos(), "", why)
	l.c.Check(twice == "", rel, l.name, r187, l.fd.Pos(), "", twice)
}

func indexOfStmt(list []ast.Stmt, s ast.Stmt) (int, bool) {
	for i, x := range list {
		if x == s {
			return i, true
		}
	}
	return -1, false
}

// storeInline checks a Store that runs the placeholder protocol itself: where the key was present, it overwrites after
// having waited for a computation in flight.
func (l *lazyFn) storeInline(rel string) {
	const (
		bLoadedT = 1 << iota
		bLoadedF
		bNotPH
		bWaited
		bOver
		bPub
	)
	isInflightAssert := func(e ast.Expr) bool {
		ta, ok := core.Unparen(e).(*ast.TypeAssertExpr)
		if !ok || ta.Type == nil || core.ObjOf(l.inf, l.resolve(ta.X)) != l.src {
			return false
		}
		tv, ok := l.inf.Types[ta.Type]
		if !ok {
			return false
		}
		nn := namedOf(tv.Type)
		return nn != nil && nn.Obj() == l.inflight
	}
	okVars := map[types.Object]bool{}
	ast.Inspect(l.fd.Body, func(n ast.Node) bool {
		if as, ok := n.(*ast.AssignStmt); ok && len(as.Rhs) == 1 && len(as.Lhs) == 2 && isInflightAssert(as.Rhs[0]) {
			if o := core.ObjOf(l.inf, as.Lhs[1]); o != nil {
				okVars[o] = true
			}
		}
		return true
	})
	overWhy, waitWhy := "", ""
	core.NewFlow(l.c.M, l.inf, l.fd.Body).Run(&core.Automaton{
		AtEnd: true,
		Node: func(state int, n ast.Node) int {
			for _, call := range core.CallsIn(n) {
				if call == l.pubCall {
					state = bPub
				}
				if x, ok := l.wg(call, "Wait"); ok && x != nil && x != l.pub {
					state |= bWaited
				}
				if l.isSyncMap(call, "Store") && state&bLoadedT != 0 && len(call.Args) == 2 && core.ObjOf(l.inf, call.Args[0]) == l.key && core.ObjOf(l.inf, l.resolve(call.Args[1])) == l.val {
					if state&(bNotPH|bWaited) == 0 && waitWhy == "" {
						waitWhy = "sync.Map.Store(key, value) is reachable while the entry may be a computation in flight that was not waited for: its result then overwrites the stored value"
					}
					state |= bOver
				}
			}
			if r, ok := n.(*ast.ReturnStmt); ok && overWhy == "" {
				if state&bPub == 0 || (state&bLoadedT != 0 && state&bOver == 0) {
					overWhy = fmt.Sprintf("the exit at %s is reached, with the key already present, without sync.Map.Store(key, value): the Store is lost", l.c.M.Fset.Position(r.Pos()))
				}
			}
			return state
		},
		Edge: func(state int, facts []core.Fact) (int, bool) {
			for _, f := range facts {
				e := core.Unparen(f.Expr)
				if id, ok := e.(*ast.Ident); ok {
					o := core.ObjOf(l.inf, id)
					switch {
					case o != nil && o == l.loaded && state&bPub != 0:
						if f.Val {
							state |= bLoadedT
						} else {
							state |= bLoadedF
						}
					case okVars[o] && !f.Val:
						state |= bNotPH
					}
				}
				if isInflightAssert(e) && !f.Val {
					state |= bNotPH
				}
			}
			return state, true
		},
	})
	l.c.Check(overWhy == "", rel, l.name, r184b, l.fd.Pos(), "", overWhy)
	l.c.Check(waitWhy == "", rel, l.name, r184c, l.fd.Pos(), "", waitWhy)
}

func runR18(c *core.Ctx) {
	const rel = "d2/lazymap"
	inf := info(c, rel)
	losF, los := mustDecl(c, rel, "(*LazySyncMap).LoadOrStore")
	_, load := mustDecl(c, rel, "(*LazySyncMap).Load")
	_, store := mustDecl(c, rel, "(*LazySyncMap).Store")
	inflight, _ := mustObj(c, rel, "inFlightValue").(*types.TypeName)

	lLos := newLazyFn(c, inf, los, inflight)
	lLoad := newLazyFn(c, inf, load, inflight)
	lStore := newLazyFn(c, inf, store, inflight)
	if lLos.fParam == nil {
		c.Unknown(rel, lLos.name, "compute parameter", los.Pos(), "no function-typed parameter")
		return
	}
	if lLos.pubCall == nil {
		c.Bad(rel, lLos.name, r182a, los.Pos(), "LoadOrStore does not claim the key with sync.Map.LoadOrStore: racing callers can both compute")
		return
	}
	lLos.publisher(rel)
	for _, l := range []*lazyFn{lLos, lLoad} {
		if l.src == nil {
			c.Unknown(rel, l.name, "R18.3 map-loaded value", l.fd.Pos(), "no sync.Map Load/LoadOrStore result variable")
			continue
		}
		l.reader(rel)
	}
	// Store
	var funnel *ast.CallExpr
	ast.Inspect(store.Body, func(n ast.Node) bool {
		if call, ok := n.(*ast.CallExpr); ok {
			if cf := core.Callee(inf, call); cf != nil && cf.Origin() == losF {
				funnel = call
			}
		}
		return true
	})
	switch {
	case funnel != nil && lStore.pubCall == nil:
		lStore.storeFunnel(rel, funnel)
	case lStore.pubCall != nil && funnel == nil:
		lStore.publisher(rel)
		if lStore.src != nil {
			lStore.reader(rel)
		}
		lStore.storeInline(rel)
	default:
		c.Bad(rel, lStore.name, r184b, store.Pos(), "Store neither funnels through LoadOrStore nor claims the key with a placeholder of its own: a value stored while a computation is in flight is overwritten by its result")
	}

	// ---- R18.6 conversions of the receiver to *sync.Map are used only as receivers of sync.Map methods, directly or
	// through a local that is used for nothing else
	p := c.M.Pkg(rel)
	lazyT, _ := mustObj(c, rel, "LazySyncMap").(*types.TypeName)
	badConv, convs := 0, 0
	for _, file := range p.Syntax {
		par := core.Parents(file)
		isRecvUse := func(e ast.Expr) bool {
			pn := par[e]
			if pe, ok := pn.(*ast.ParenExpr); ok {
				pn = par[pe]
			}
			sel, ok := pn.(*ast.SelectorExpr)
			if !ok {
				return false
			}
			mc, ok := par[sel].(*ast.CallExpr)
			return ok && mc.Fun == ast.Expr(sel) && core.IsMethod(core.Callee(inf, mc), "sync", "Map", sel.Sel.Name)
		}
		ast.Inspect(file, func(n ast.Node) bool {
			call, ok := n.(*ast.CallExpr)
			if !ok || len(call.Args) != 1 {
				return true
			}
			tv, ok := inf.Types[call.Fun]
			if !ok || !tv.IsType() {
				return true
			}
			at := inf.Types[call.Args[0]].Type
			if nn := namedOf(at); nn == nil || nn.Obj() != lazyT {
				return true
			}
			convs++
			if isRecvUse(call) {
				return true
			}
			// underlying := (*sync.Map)(m): every use of the local is a method receiver
			pn := par[call]
			if pe, ok := pn.(*ast.ParenExpr); ok {
				pn = par[pe]
			}
			as, ok := pn.(*ast.AssignStmt)
			if !ok || as.Tok != token.DEFINE || len(as.Lhs) != 1 || len(as.Rhs) != 1 {
				badConv++
				return true
			}
			local := core.ObjOf(inf, as.Lhs[0])
			okAll := local != nil
			ast.Inspect(file, func(m ast.Node) bool {
				if id, ok := m.(*ast.Ident); ok && inf.Uses[id] == local && !isRecvUse(id) {
					okAll = false
				}
				return true
			})
			if !okAll {
				badConv++
			}
			return true
		})
	}
	c.Check(convs > 0 && badConv == 0, rel, "-", r186, token.NoPos, fmt.Sprintf("%d conversions, all method receivers", convs), fmt.Sprintf("%d of %d conversions of *LazySyncMap escape as values", badConv, convs))
}
