package rules

import (
	"fmt"
	"go/ast"
	"go/token"
	"go/types"
	"golang.org/x/tools/go/cfg"
	"os"
	"path/filepath"
	"strings"

	"verif/checker/core"
)

func init() {
	core.Register(&core.Rule{
		ID:    "R19.1",
		Title: "URI snapshots are copy-on-write",
		Text: "In package d2 every write to a serviceUris.uris map (index assignment, delete) has as base a variable that, on every path to the write, was last assigned in the same function from serviceUris.copy() or a " +
			"composite literal; copy() allocates a new map with make and copies every entry; no function stores into a Uri's maps, or through a *Uri at all, except Uri.UnmarshalJSON on its receiver.",
		Props: []string{"C19", "C17"},
		Floor: map[string]int{"v2": 3, "root": 3}, // write sites merge when the copy-then-write pairs become helpers (benign C19-g2)
		Run:   runR191,
	})
	core.Register(&core.Rule{
		ID:    "R19.2",
		Title: "ignored events return the snapshot untouched; updates touch exactly one path",
		Text: "handleUriUpdate is decided world by world on its control flow graph: a world fixes (event for the cluster node itself, deletion, malformed payload, weight-less announcement); edges whose condition contradicts the world are infeasible; " +
			"every return reached must yield — ignored event: the parameter (or an unmodified copy); deletion: a fresh copy with exactly delete(uris, path); update: a fresh copy with exactly uris[path] = the decoded announcement.  The client receiver is not used.  " +
			"waitForUriUpdates unconditionally stores the fold of every event, inside the range over the event channel.",
		Props: []string{"C19"},
		Floor: map[string]int{"v2": 6, "root": 6},
		Run:   runR192,
	})
	core.Register(&core.Rule{
		ID:    "R19.3",
		Title: "host selection frame",
		Text: "Every host that leaves filterAndChooseHost is an announced host (the callback argument of iterateHostWeights, or the address of the key of a range over the Weights of an entry of the receiver's uris) under the hostFilter test, and nil is returned early only on an emptiness test; " +
			"chooseHost on its control flow graph: a constant-true filter is used exactly where len(schemes) == 0 is known; scheme filters `u.Scheme == <current scheme>` are used inside a loop visiting the schemes in slice order; a further scheme is tried only where the previous choice is known nil; " +
			"a choice is returned only where it is known non-nil or the loop ran to its end, nil only after the loop ran to its end with nothing found; ResolveHostnameAndContextForQuery returns the chosen host only where it is known non-nil and a non-nil error where it is known nil.",
		Props: []string{"C19"},
		Floor: map[string]int{"v2": 6, "root": 6},
		Run:   runR193,
	})
}

func fieldNamed(inf *types.Info, e ast.Expr, owner *types.TypeName, name string) (ast.Expr, bool) {
	sel, ok := core.Unparen(e).(*ast.SelectorExpr)
	if !ok {
		return nil, false
	}
	fv, ok := core.ObjOf(inf, sel).(*types.Var)
	if !ok || !fv.IsField() || core.NameOf(fv) != name {
		return nil, false
	}
	if n := namedOf(inf.Types[sel.X].Type); n == nil || n.Obj() != owner {
		return nil, false
	}
	return sel.X, true
}

func runR191(c *core.Ctx) {
	const rel = "d2"
	inf := info(c, rel)
	su, _ := mustObj(c, rel, "serviceUris").(*types.TypeName)
	uriT, _ := mustObj(c, rel, "Uri").(*types.TypeName)
	copyF := mustFunc(c, rel, "(*serviceUris).copy")
	isCopyOrLit := func(e ast.Expr) bool {
		switch x := core.Unparen(e).(type) {
		case *ast.CallExpr:
			f := core.Callee(inf, x)
			return f != nil && f.Origin() == copyF
		case *ast.UnaryExpr:
			if cl, ok := x.X.(*ast.CompositeLit); ok && x.Op == token.AND {
				n := namedOf(inf.Types[cl].Type)
				return n != nil && n.Obj() == su
			}
		}
		return false
	}
	writes := 0
	for _, fd := range c.M.FuncDecls(rel) {
		if fd.Body == nil {
			continue
		}
		fn := core.DeclName(fd)
		// collect write sites: X.uris[k] = v ; delete(X.uris, k)
		type site struct {
			node ast.Node
			base ast.Expr
			desc string
		}
		var sites []site
		ast.Inspect(fd.Body, func(n ast.Node) bool {
			switch x := n.(type) {
			case *ast.AssignStmt:
				for _, l := range x.Lhs {
					if ix, ok := core.Unparen(l).(*ast.IndexExpr); ok {
						if base, ok := fieldNamed(inf, ix.X, su, "uris"); ok {
							sites = append(sites, site{x, base, "assignment " + core.ExprString(l)})
						}
					}
				}
			case *ast.CallExpr:
				if id, ok := core.Unparen(x.Fun).(*ast.Ident); ok && id.Name == "delete" && len(x.Args) == 2 {
					if _, isB := inf.Uses[id].(*types.Builtin); isB {
						if base, ok := fieldNamed(inf, x.Args[0], su, "uris"); ok {
							sites = append(sites, site{x, base, "delete from " + core.ExprString(x.Args[0])})
						}
					}
				}
			}
			return true
		})
		if len(sites) == 0 {
			continue
		}
		// automaton per base variable: state 1 = base currently holds a fresh copy
		flow := core.NewFlow(c.M, inf, fd.Body)
		for _, s := range sites {
			writes++
			baseObj := core.ObjOf(inf, s.base)
			okAll, reached := true, false
			flow.Run(&core.Automaton{
				Init: 0,
				Node: func(state int, n ast.Node) int {
					// does this node contain the write?
					contains := false
					core.WalkNoFuncLit(n, func(m ast.Node) bool {
						if m == s.node {
							contains = true
						}
						return !contains
					})
					if contains {
						reached = true
						if state != 1 {
							okAll = false
						}
					}
					if as, ok := n.(*ast.AssignStmt); ok {
						for i, l := range as.Lhs {
							if core.ObjOf(inf, l) == baseObj && baseObj != nil {
								if i < len(as.Rhs) && len(as.Lhs) == len(as.Rhs) && isCopyOrLit(as.Rhs[i]) {
									state = 1
								} else {
									state = 0
								}
							}
						}
					}
					return state
				},
			})
			if !reached {
				// the write is inside a function literal: analyse conservatively
				c.Unknown(rel, fn, s.desc+" writes a fresh copy", s.node.Pos(), "write site inside a closure")
				continue
			}
			c.Check(okAll, rel, fn, s.desc+" writes a fresh copy", s.node.Pos(), "base was assigned from copy()/a literal on every path",
				"the map of a snapshot that may already have been handed out is modified in place")
		}
	}
	if writes == 0 {
		c.Unknown(rel, "-", "writes to serviceUris.uris", token.NoPos, "none found")
	}
	// copy(): the map that ends up in the new snapshot is made here and receives every entry of the receiver's map
	copyD := c.M.Decl(copyF)
	mk, loop := false, false
	isMake := func(e ast.Expr) bool {
		switch r := core.Unparen(e).(type) {
		case *ast.CompositeLit:
			return true
		case *ast.CallExpr:
			if fid, ok := core.Unparen(r.Fun).(*ast.Ident); ok && fid.Name == "make" {
				return true
			}
		}
		return false
	}
	isClone := func(e ast.Expr) bool {
		call, ok := core.Unparen(e).(*ast.CallExpr)
		if !ok || len(call.Args) != 1 {
			return false
		}
		cf := core.Callee(inf, call)
		if cf == nil || cf.Pkg() == nil || cf.Pkg().Path() != "maps" || cf.Name() != "Clone" {
			return false
		}
		base, ok := fieldNamed(inf, call.Args[0], su, "uris")
		return ok && core.ObjOf(inf, base) == recvObj(inf, copyD)
	}
	// destinations: local map variables and struct locals whose uris field is the new map
	dstMaps := map[types.Object]bool{}    // m   in `uris: m` / `X.uris = m`
	dstStructs := map[types.Object]bool{} // X   in `X := &serviceUris{uris: make(…)}` / `X.uris = make(…)`
	note := func(holder ast.Expr, val ast.Expr) {
		if isClone(val) {
			mk, loop = true, true
			return
		}
		if isMake(val) {
			mk = true
			if holder != nil {
				if o := core.ObjOf(inf, holder); o != nil {
					dstStructs[o] = true
				}
			}
			return
		}
		if o := core.ObjOf(inf, val); o != nil {
			dstMaps[o] = true
		}
	}
	ast.Inspect(copyD.Body, func(n ast.Node) bool {
		as, ok := n.(*ast.AssignStmt)
		if !ok || len(as.Lhs) != len(as.Rhs) {
			return true
		}
		for i, l := range as.Lhs {
			r := core.Unparen(as.Rhs[i])
			if u, ok := r.(*ast.UnaryExpr); ok && u.Op == token.AND {
				r = core.Unparen(u.X)
			}
			if cl, ok := r.(*ast.CompositeLit); ok {
				if t := namedOf(inf.Types[cl].Type); t != nil && t.Obj() == su {
					for _, el := range cl.Elts {
						if kv, ok := el.(*ast.KeyValueExpr); ok {
							if id, ok := kv.Key.(*ast.Ident); ok && core.NameOf(inf.Uses[id]) == "uris" {
								note(l, kv.Value)
							}
						}
					}
				}
			}
			if base, isF := fieldNamed(inf, l, su, "uris"); isF && core.ObjOf(inf, base) != recvObj(inf, copyD) {
				note(base, as.Rhs[i])
			}
		}
		return true
	})
	// literals that are returned directly
	ast.Inspect(copyD.Body, func(n ast.Node) bool {
		if cl, ok := n.(*ast.CompositeLit); ok {
			if t := namedOf(inf.Types[cl].Type); t != nil && t.Obj() == su {
				for _, el := range cl.Elts {
					if kv, ok := el.(*ast.KeyValueExpr); ok {
						if id, ok := kv.Key.(*ast.Ident); ok && core.NameOf(inf.Uses[id]) == "uris" {
							note(nil, kv.Value)
						}
					}
				}
			}
		}
		return true
	})
	// a local map destination must itself be made here
	for m := range dstMaps {
		made := false
		ast.Inspect(copyD.Body, func(n ast.Node) bool {
			if as, ok := n.(*ast.AssignStmt); ok && len(as.Lhs) == len(as.Rhs) {
				for i, l := range as.Lhs {
					if core.ObjOf(inf, l) == m && isMake(as.Rhs[i]) {
						made = true
					}
					if core.ObjOf(inf, l) == m && isClone(as.Rhs[i]) {
						mk, loop = true, true
					}
				}
			}
			return true
		})
		if made {
			mk = true
		} else {
			delete(dstMaps, m)
		}
	}
	ast.Inspect(copyD.Body, func(n ast.Node) bool {
		x, ok := n.(*ast.RangeStmt)
		if !ok {
			return true
		}
		if base, ok := fieldNamed(inf, x.X, su, "uris"); ok && core.ObjOf(inf, base) == recvObj(inf, copyD) {
			for _, s := range x.Body.List {
				as, ok := s.(*ast.AssignStmt)
				if !ok || len(as.Lhs) != 1 || len(as.Rhs) != 1 {
					continue
				}
				ix, ok := core.Unparen(as.Lhs[0]).(*ast.IndexExpr)
				if !ok || x.Key == nil || x.Value == nil || core.ObjOf(inf, ix.Index) != core.ObjOf(inf, x.Key) || core.ObjOf(inf, as.Rhs[0]) != core.ObjOf(inf, x.Value) {
					continue
				}
				if b, ok := fieldNamed(inf, ix.X, su, "uris"); ok && dstStructs[core.ObjOf(inf, b)] {
					loop = true
				}
				if dstMaps[core.ObjOf(inf, ix.X)] {
					loop = true
				}
			}
		}
		return true
	})
	c.Check(mk && loop, rel, "(*serviceUris).copy", "allocates a new map and copies every entry", copyD.Pos(), "", fmt.Sprintf("make=%v full copy loop=%v", mk, loop))
	// Uri maps written only by UnmarshalJSON on its receiver
	uriWrites, badUri := 0, 0
	for _, fd := range c.M.FuncDecls(rel) {
		if fd.Body == nil {
			continue
		}
		ast.Inspect(fd.Body, func(n ast.Node) bool {
			as, ok := n.(*ast.AssignStmt)
			if !ok {
				return true
			}
			for _, l := range as.Lhs {
				target := core.Unparen(l)
				// whole-value or field store through a *Uri (`*existing = *uri`, `u.Weights = m`)
				var through ast.Expr
				switch t := target.(type) {
				case *ast.StarExpr:
					through = t.X
				case *ast.SelectorExpr:
					if fv, ok := core.ObjOf(inf, t).(*types.Var); ok && fv.IsField() {
						through = t.X
					}
				}
				if through != nil {
					if pt, ok := inf.Types[through].Type.(*types.Pointer); ok {
						if nn := namedOf(pt.Elem()); nn != nil && nn.Obj() == uriT {
							uriWrites++
							if core.DeclName(fd) != "(*Uri).UnmarshalJSON" || core.ObjOf(inf, through) != recvObj(inf, fd) {
								badUri++
								c.Bad(rel, core.DeclName(fd), "store through a *Uri outside its decoder", l.Pos(), "announced Uri values are shared by every snapshot: "+core.ExprString(l)+" changes snapshots handed out earlier")
							}
						}
					}
				}
				for {
					ix, ok := target.(*ast.IndexExpr)
					if !ok {
						break
					}
					target = core.Unparen(ix.X)
					for _, fname := range []string{"Weights", "Properties", "PartitionDesc"} {
						if base, ok := fieldNamed(inf, target, uriT, fname); ok {
							uriWrites++
							if core.DeclName(fd) != "(*Uri).UnmarshalJSON" || core.ObjOf(inf, base) != recvObj(inf, fd) {
								badUri++
								c.Bad(rel, core.DeclName(fd), "store into a Uri's map outside its decoder", l.Pos(), "announced Uri values are shared by every snapshot")
							}
						}
					}
				}
			}
			return true
		})
	}
	if badUri == 0 {
		c.OK(rel, "(*Uri).UnmarshalJSON", fmt.Sprintf("the %d stores into Uri maps are all in the decoder, on its receiver", uriWrites), token.NoPos, "")
	}
}

// lenCmpZero recognises len(x) compared with a constant as an emptiness test: ==0, <1, <=0 (empty) and !=0, >0, >=1
// (not empty), constant on either side, under the fact's truth value.
func lenCmpZero(inf *types.Info, f core.Fact) (arg ast.Expr, empty bool, ok bool) {
	be, isBin := core.Unparen(f.Expr).(*ast.BinaryExpr)
	if !isBin {
		return nil, false, false
	}
	x, y, op := be.X, be.Y, be.Op
	if core.ConstOf(inf, x) != nil && core.ConstOf(inf, y) == nil {
		x, y = y, x
		switch op {
		case token.LSS:
			op = token.GTR
		case token.GTR:
			op = token.LSS
		case token.LEQ:
			op = token.GEQ
		case token.GEQ:
			op = token.LEQ
		}
	}
	cv := core.ConstOf(inf, y)
	call, isCall := core.Unparen(x).(*ast.CallExpr)
	if cv == nil || !isCall || len(call.Args) != 1 {
		return nil, false, false
	}
	if b, isB := core.ObjOf(inf, call.Fun).(*types.Builtin); !isB || core.NameOf(b) != "len" {
		return nil, false, false
	}
	k := cv.ExactString()
	switch {
	case (op == token.EQL && k == "0") || (op == token.LSS && k == "1") || (op == token.LEQ && k == "0"):
		empty = true
	case (op == token.NEQ && k == "0") || (op == token.GTR && k == "0") || (op == token.GEQ && k == "1"):
		empty = false
	default:
		return nil, false, false
	}
	if !f.Val {
		empty = !empty
	}
	return call.Args[0], empty, true
}

func rootIdentObj(inf *types.Info, e ast.Expr) types.Object {
	for {
		switch x := core.Unparen(e).(type) {
		case *ast.Ident:
			return core.ObjOf(inf, x)
		case *ast.SelectorExpr:
			e = x.X
		case *ast.StarExpr:
			e = x.X
		case *ast.UnaryExpr:
			e = x.X
		case *ast.IndexExpr:
			e = x.X
		default:
			return nil
		}
	}
}

func runR192(c *core.Ctx) {
	const rel = "d2"
	inf := info(c, rel)
	su, _ := mustObj(c, rel, "serviceUris").(*types.TypeName)
	_, fd := mustDecl(c, rel, "(*Client).handleUriUpdate")
	copyF := mustFunc(c, rel, "(*serviceUris).copy")
	fn := "(*Client).handleUriUpdate"
	var watcher, event types.Object
	for _, fl := range fd.Type.Params.List {
		for _, n := range fl.Names {
			if nn := namedOf(inf.Defs[n].Type()); nn != nil && nn.Obj() == su {
				watcher = inf.Defs[n]
			} else {
				event = inf.Defs[n]
			}
		}
	}
	if watcher == nil || event == nil {
		c.Unknown(rel, fn, "snapshot parameter", fd.Pos(), "no *serviceUris parameter and event parameter")
		return
	}
	// path: the local assigned from strings.TrimPrefix; uri: what the payload is decoded into
	var pathVar, uriVar types.Object
	ast.Inspect(fd.Body, func(n ast.Node) bool {
		switch x := n.(type) {
		case *ast.AssignStmt:
			if len(x.Rhs) == 1 && pathVar == nil {
				if call, ok := core.Unparen(x.Rhs[0]).(*ast.CallExpr); ok && core.IsFunc(core.Callee(inf, call), "strings", "TrimPrefix") {
					pathVar = core.ObjOf(inf, x.Lhs[0])
				}
			}
		case *ast.CallExpr:
			if core.IsFunc(core.Callee(inf, x), "encoding/json", "Unmarshal") && len(x.Args) == 2 && rootIdentObj(inf, x.Args[0]) == event {
				uriVar = rootIdentObj(inf, x.Args[1])
			}
		}
		return true
	})
	if pathVar == nil || uriVar == nil {
		c.Unknown(rel, fn, "event decoding", fd.Pos(), "the node path (strings.TrimPrefix) or the decoded announcement (json.Unmarshal of the event's data) was not found")
		return
	}
	// variables that can hold a copy
	copyIdx := map[types.Object]int{}
	isCopyCall := func(e ast.Expr) (types.Object, bool) {
		call, ok := core.Unparen(e).(*ast.CallExpr)
		if !ok {
			return nil, false
		}
		if cf := core.Callee(inf, call); cf == nil || cf.Origin() != copyF {
			return nil, false
		}
		sel, ok := core.Unparen(call.Fun).(*ast.SelectorExpr)
		if !ok {
			return nil, false
		}
		return core.ObjOf(inf, sel.X), true
	}
	ast.Inspect(fd.Body, func(n ast.Node) bool {
		if as, ok := n.(*ast.AssignStmt); ok && len(as.Lhs) == len(as.Rhs) {
			for i := range as.Lhs {
				if _, ok := isCopyCall(as.Rhs[i]); ok {
					if o := core.ObjOf(inf, as.Lhs[i]); o != nil {
						if _, seen := copyIdx[o]; !seen {
							copyIdx[o] = len(copyIdx) + 1
						}
					}
				}
			}
		}
		return true
	})
	if len(copyIdx) > 7 {
		c.Unknown(rel, fn, "snapshot copies", fd.Pos(), "more than 7 variables hold copies of the snapshot")
		return
	}
	copyVar := func(idx int) types.Object {
		for o, i := range copyIdx {
			if i == idx {
				return o
			}
		}
		return nil
	}
	// The fold step is decided world by world: a world fixes the four things the contract distinguishes (is the event
	// for the cluster node itself, is it a deletion, is the payload malformed, is the announcement weight-less); edges
	// whose condition contradicts the world are infeasible; on every remaining path the function must do what the
	// contract prescribes for that world.
	const (
		wEmptyPath = 1 << iota
		wDataNil
		wJSONErr
		wNoWeights
	)
	const (
		aParam = iota // the parameter, nothing copied
		aCopy         // a copy, nothing written
		aDel          // a copy with delete(uris, path)
		aSet          // a copy with uris[path] = uri
		aBad
	)
	classes := []string{
		"ignored event returns the untouched snapshot: empty path (event for the cluster node itself)",
		"node deletion removes exactly the event's path",
		"ignored event returns the untouched snapshot: malformed payload (JSON error)",
		"ignored event returns the untouched snapshot: weight-less announcement",
		"node update assigns exactly uris[path] (last write wins, no merge)",
	}
	classOf := func(w int) int {
		switch {
		case w&wEmptyPath != 0:
			return 0
		case w&wDataNil != 0:
			return 1
		case w&wJSONErr != 0:
			return 2
		case w&wNoWeights != 0:
			return 3
		}
		return 4
	}
	why := make([]string, len(classes))
	describe := func(w int) string {
		return fmt.Sprintf("path empty=%v, data nil=%v, JSON error=%v, no weights=%v", w&wEmptyPath != 0, w&wDataNil != 0, w&wJSONErr != 0, w&wNoWeights != 0)
	}
	actionName := []string{"the parameter itself", "an unmodified copy", "a copy with the path deleted", "a copy with the path set to the decoded announcement", "something else (a write to a map that is not a fresh copy, a write at another key, or an untracked value)"}
	for w := 0; w < 16; w++ {
		w := w
		cls := classOf(w)
		reached := false
		fail := func(msg string) {
			if why[cls] == "" {
				why[cls] = msg
			}
		}
		core.NewFlow(c.M, inf, fd.Body).Run(core.TrackVals(inf, fd.Body, &core.Automaton{
			AtEnd: true,
			Node: func(state int, n ast.Node) int {
				action, idx := state%5, state/5
				if as, ok := n.(*ast.AssignStmt); ok {
					for i, lhs := range as.Lhs {
						if o := core.ObjOf(inf, lhs); o != nil {
							if id, isId := core.Unparen(lhs).(*ast.Ident); isId && id != nil {
								if len(as.Lhs) == len(as.Rhs) {
									if from, ok := isCopyCall(as.Rhs[i]); ok {
										switch {
										case action == aParam && from == watcher, action == aCopy && from == copyVar(idx):
											action, idx = aCopy, copyIdx[o]
										default:
											action = aBad
										}
										continue
									}
								}
								if o == watcher || (idx != 0 && o == copyVar(idx)) {
									action = aBad
								}
								continue
							}
						}
						if ix, ok := core.Unparen(lhs).(*ast.IndexExpr); ok {
							if base, ok := fieldNamed(inf, ix.X, su, "uris"); ok {
								okWrite := idx != 0 && core.ObjOf(inf, base) == copyVar(idx) && core.ObjOf(inf, ix.Index) == pathVar &&
									len(as.Lhs) == len(as.Rhs) && rootIdentObj(inf, as.Rhs[i]) == uriVar && (action == aCopy || action == aSet)
								if okWrite {
									action = aSet
								} else {
									action = aBad
								}
							}
						}
					}
				}
				for _, call := range core.CallsIn(n) {
					if b, ok := core.ObjOf(inf, call.Fun).(*types.Builtin); ok && core.NameOf(b) == "delete" && len(call.Args) == 2 {
						if base, ok := fieldNamed(inf, call.Args[0], su, "uris"); ok {
							if idx != 0 && core.ObjOf(inf, base) == copyVar(idx) && core.ObjOf(inf, call.Args[1]) == pathVar && (action == aCopy || action == aDel) {
								action = aDel
							} else {
								action = aBad
							}
						}
					}
				}
				if r, ok := n.(*ast.ReturnStmt); ok {
					reached = true
					eff := aBad
					if len(r.Results) == 1 {
						switch o := core.ObjOf(inf, r.Results[0]); {
						case action == aBad:
						case o != nil && idx != 0 && o == copyVar(idx):
							eff = action
						case o == watcher:
							eff = aParam // whatever was written went to a copy that is dropped
						}
					}
					want := map[int][]int{0: {aParam, aCopy}, 1: {aDel}, 2: {aParam, aCopy}, 3: {aParam, aCopy}, 4: {aSet}}[cls]
					okAct := false
					for _, a := range want {
						if a == eff {
							okAct = true
						}
					}
					if !okAct {
						fail(fmt.Sprintf("for an event with %s the return at %s yields %s", describe(w), c.M.Position(r.Pos()), actionName[eff]))
					}
				}
				return action + 5*idx
			},
			Edge: func(state int, facts []core.Fact) (int, bool) {
				for _, f := range facts {
					atom, val, ok := 0, false, false
					if be, isBin := core.Unparen(f.Expr).(*ast.BinaryExpr); isBin && (be.Op == token.EQL || be.Op == token.NEQ) {
						x, y := be.X, be.Y
						if cv := core.ConstOf(inf, x); cv != nil {
							x, y = y, x
						}
						if cv := core.ConstOf(inf, y); cv != nil && cv.ExactString() == `""` && core.ObjOf(inf, x) == pathVar {
							atom, val, ok = wEmptyPath, (be.Op == token.EQL) == f.Val, true
						}
					}
					if e, nonNil, isNil := core.NilTest(inf, f); isNil {
						if sel, isSel := core.Unparen(e).(*ast.SelectorExpr); isSel && sel.Sel.Name == "Data" && rootIdentObj(inf, sel) == event {
							atom, val, ok = wDataNil, !nonNil, true
						} else if tv, has := inf.Types[e]; has && core.IsErrorType(tv.Type) {
							atom, val, ok = wJSONErr, nonNil, true
						}
					}
					if arg, empty, isLen := lenCmpZero(inf, f); isLen {
						if sel, isSel := core.Unparen(arg).(*ast.SelectorExpr); isSel && sel.Sel.Name == "Weights" && rootIdentObj(inf, sel) == uriVar {
							atom, val, ok = wNoWeights, empty, true
						}
					}
					if ok && (w&atom != 0) != val {
						return state, false
					}
				}
				return state, true
			},
		}))
		if !reached {
			fail(fmt.Sprintf("for an event with %s no return is reached", describe(w)))
		}
	}
	for i, name := range classes {
		c.Check(why[i] == "", rel, fn, name, fd.Pos(), "", why[i])
	}
	// the fold step depends on (snapshot, event) only: the client receiver is not consulted
	var recvUses []string
	if r := recvObj(inf, fd); r != nil {
		ast.Inspect(fd.Body, func(n ast.Node) bool {
			if id, ok := n.(*ast.Ident); ok && inf.Uses[id] == r {
				recvUses = append(recvUses, c.M.Position(id.Pos()))
			}
			return true
		})
	}
	c.Check(len(recvUses) == 0, rel, fn, "the fold step reads and writes no client state besides the snapshot it was given", fd.Pos(), "",
		"the client receiver is used at "+strings.Join(recvUses, ", ")+": the tracked set then depends on more than the fold of the history")
	// waitForUriUpdates: inside the loop over the event channel, unconditionally, the fold of the current event is stored
	_, wd := mustDecl(c, rel, "(*Client).waitForUriUpdates")
	hu := mustFunc(c, rel, "(*Client).handleUriUpdate")
	okLoop := false
	ast.Inspect(wd.Body, func(n ast.Node) bool {
		rs, ok := n.(*ast.RangeStmt)
		if !ok {
			return true
		}
		if _, isChan := inf.Types[rs.X].Type.Underlying().(*types.Chan); !isChan {
			return true
		}
		// the fold result: the call itself or the local it is assigned to
		isFold := func(e ast.Expr) bool {
			call, ok := core.Unparen(e).(*ast.CallExpr)
			return ok && core.Callee(inf, call) == hu && len(call.Args) == 2 && core.ObjOf(inf, call.Args[1]) == core.ObjOf(inf, rs.Key) && rs.Key != nil
		}
		folded := map[types.Object]bool{}
		for _, s := range rs.Body.List {
			switch st := s.(type) {
			case *ast.AssignStmt:
				if len(st.Lhs) == 1 && len(st.Rhs) == 1 && isFold(st.Rhs[0]) {
					folded[core.ObjOf(inf, st.Lhs[0])] = true
				}
			case *ast.ExprStmt:
				call, ok := core.Unparen(st.X).(*ast.CallExpr)
				if !ok {
					continue
				}
				if cf := core.Callee(inf, call); cf != nil && core.NameOf(cf) == "Store" && len(call.Args) == 2 {
					if isFold(call.Args[1]) || (folded[core.ObjOf(inf, call.Args[1])] && core.ObjOf(inf, call.Args[1]) != nil) {
						okLoop = true
					}
				}
			}
		}
		return true
	})
	c.Check(okLoop, rel, "(*Client).waitForUriUpdates", "every event's fold result is stored, in channel order", wd.Pos(), "", "the loop over the event channel does not unconditionally Store(handleUriUpdate(current, event)) for each event")
}

func runR193(c *core.Ctx) {
	const rel = "d2"
	inf := info(c, rel)
	su, _ := mustObj(c, rel, "serviceUris").(*types.TypeName)
	_, fc := mustDecl(c, rel, "(*serviceUris).filterAndChooseHost")
	iter := c.M.LookupFunc(rel, "(*serviceUris).iterateHostWeights") // optional: the walk may be written out in place
	fac := mustFunc(c, rel, "(*serviceUris).filterAndChooseHost")
	_, ch := mustDecl(c, rel, "(*serviceUris).chooseHost")
	fcName := "(*serviceUris).filterAndChooseHost"

	// 1. every host that leaves filterAndChooseHost is an announced host — the callback argument of iterateHostWeights,
	// or the address of the key of a range over the Weights of an entry of the receiver's uris — under hostFilter(host)
	var filterParam types.Object
	if len(fc.Type.Params.List) == 1 && len(fc.Type.Params.List[0].Names) == 1 {
		filterParam = inf.Defs[fc.Type.Params.List[0].Names[0]]
	}
	par := core.Parents(fc)
	recv := recvObj(inf, fc)
	rangeOf := map[types.Object]*ast.RangeStmt{} // key / value variable -> its range statement
	ast.Inspect(fc.Body, func(n ast.Node) bool {
		if rs, ok := n.(*ast.RangeStmt); ok {
			if rs.Key != nil {
				rangeOf[core.ObjOf(inf, rs.Key)] = rs
			}
			if rs.Value != nil {
				rangeOf[core.ObjOf(inf, rs.Value)] = rs
			}
		}
		return true
	})
	directHosts := 0
	isHost := func(e ast.Expr) bool {
		e = core.Unparen(e)
		if id, ok := e.(*ast.Ident); ok && iter != nil {
			// parameter 0 of a function literal passed to iterateHostWeights
			o := core.ObjOf(inf, id)
			for p := par[id]; p != nil; p = par[p] {
				lit, ok := p.(*ast.FuncLit)
				if !ok {
					continue
				}
				if len(lit.Type.Params.List) > 0 && len(lit.Type.Params.List[0].Names) > 0 && inf.Defs[lit.Type.Params.List[0].Names[0]] == o {
					call, ok := par[lit].(*ast.CallExpr)
					return ok && core.Callee(inf, call) == iter
				}
			}
			return false
		}
		u, ok := e.(*ast.UnaryExpr)
		if !ok || u.Op != token.AND {
			return false
		}
		k := core.ObjOf(inf, u.X)
		inner := rangeOf[k]
		if inner == nil || core.ObjOf(inf, inner.Key) != k {
			return false
		}
		wsel, ok := core.Unparen(inner.X).(*ast.SelectorExpr)
		if !ok || wsel.Sel.Name != "Weights" {
			return false
		}
		outer := rangeOf[core.ObjOf(inf, wsel.X)]
		if outer == nil || outer.Value == nil || core.ObjOf(inf, outer.Value) != core.ObjOf(inf, wsel.X) {
			return false
		}
		base, ok := fieldNamed(inf, outer.X, su, "uris")
		if !ok || core.ObjOf(inf, base) != recv {
			return false
		}
		directHosts++
		return true
	}
	filtered := func(at ast.Node, host ast.Expr) bool {
		return core.GuardedByFact(inf, par, at, func(f core.Fact) bool {
			fcall, ok := core.Unparen(f.Expr).(*ast.CallExpr)
			if !ok || !f.Val || filterParam == nil || len(fcall.Args) != 1 || !core.SameExpr(inf, fcall.Args[0], host) {
				return false
			}
			if core.ObjOf(inf, fcall.Fun) == filterParam {
				return true
			}
			// the filter as a one-method interface: filter.accepts(host)
			if sel, ok := core.Unparen(fcall.Fun).(*ast.SelectorExpr); ok && core.ObjOf(inf, sel.X) == filterParam {
				if it, ok := filterParam.Type().Underlying().(*types.Interface); ok && it.NumMethods() == 1 {
					return true
				}
			}
			return false
		}, nil)
	}
	provenance, nHosts := "", 0
	retVars := map[types.Object]bool{}
	var topReturns []*ast.ReturnStmt
	core.WalkNoFuncLit(fc.Body, func(n ast.Node) bool {
		if r, ok := n.(*ast.ReturnStmt); ok {
			topReturns = append(topReturns, r)
		}
		return true
	})
	for _, r := range topReturns {
		if len(r.Results) != 1 {
			continue
		}
		e := core.Unparen(r.Results[0])
		switch {
		case core.IsNil(inf, e):
		case isHost(e):
			nHosts++
			if !filtered(r, e) {
				provenance = "a host is returned without having passed hostFilter"
			}
		default:
			if id, ok := e.(*ast.Ident); ok && core.ObjOf(inf, id) != nil {
				retVars[core.ObjOf(inf, id)] = true
			} else {
				provenance = fmt.Sprintf("%s is returned, which is not an announced host", core.ExprString(e))
			}
		}
	}
	ast.Inspect(fc.Body, func(n ast.Node) bool {
		as, ok := n.(*ast.AssignStmt)
		if !ok {
			return true
		}
		for i, l := range as.Lhs {
			if !retVars[core.ObjOf(inf, l)] {
				continue
			}
			if len(as.Lhs) != len(as.Rhs) {
				provenance = "the returned host is assigned from a multi-value expression"
				continue
			}
			if core.IsNil(inf, as.Rhs[i]) {
				continue
			}
			nHosts++
			if !isHost(as.Rhs[i]) {
				provenance = fmt.Sprintf("the returned host is assigned %s, which is not an announced host", core.ExprString(as.Rhs[i]))
			} else if !filtered(as, as.Rhs[i]) {
				provenance = "the returned host is assigned without having passed hostFilter"
			}
		}
		return true
	})
	c.Check(nHosts > 0 && provenance == "", rel, fcName, "the chosen host is an announced host that passed the filter", fc.Pos(), "", provenance+" (or no host is ever returned)")
	// 1a. (modules whose go directive is below 1.22, where a range variable is one variable for the whole loop) the host
	// handed to the callback is the address of the walk's loop variable: a callback that keeps it must stop the walk at
	// once, or the next iteration overwrites what the kept pointer points to
	if goBelow122(c) {
		keptOK, kept := true, 0
		for _, lit := range core.AllFuncLits(fc.Body) {
			call, ok := par[lit].(*ast.CallExpr)
			if !ok || iter == nil || core.Callee(inf, call) != iter || len(lit.Type.Params.List) == 0 || len(lit.Type.Params.List[0].Names) == 0 {
				continue
			}
			hostParam := inf.Defs[lit.Type.Params.List[0].Names[0]]
			core.NewFlow(c.M, inf, lit.Body).Run(&core.Automaton{
				AtEnd: true,
				Node: func(st int, n ast.Node) int {
					if as, ok := n.(*ast.AssignStmt); ok && len(as.Lhs) == len(as.Rhs) {
						for i := range as.Lhs {
							if core.ObjOf(inf, as.Rhs[i]) == hostParam && hostParam != nil {
								if o := core.ObjOf(inf, as.Lhs[i]); o != nil && !(core.ObjPos(o) > lit.Pos() && core.ObjPos(o) < lit.End()) {
									kept++
									st = 1
								}
							}
						}
					}
					if r, ok := n.(*ast.ReturnStmt); ok && st == 1 {
						stop := false
						if len(r.Results) == 1 {
							if cv := core.ConstOf(inf, r.Results[0]); cv != nil && cv.ExactString() == "false" {
								stop = true
							}
						}
						if !stop {
							keptOK = false
						}
					}
					return st
				},
			})
		}
		// the walk written in place: chosen = &host must leave the loops before the next iteration
		for o, rs := range rangeOf {
			if rs.Key == nil || core.ObjOf(inf, rs.Key) != o {
				continue
			}
			if wsel, ok := core.Unparen(rs.X).(*ast.SelectorExpr); !ok || wsel.Sel.Name != "Weights" {
				continue
			}
			core.NewFlow(c.M, inf, fc.Body).Run(&core.Automaton{
				Block: func(st int, b *cfg.Block) int {
					if st == 1 && b.Stmt == ast.Stmt(rs) && b.Kind == cfg.KindRangeLoop {
						keptOK = false
					}
					return st
				},
				Node: func(st int, n ast.Node) int {
					if as, ok := n.(*ast.AssignStmt); ok && len(as.Lhs) == len(as.Rhs) {
						for i := range as.Lhs {
							if u, ok := core.Unparen(as.Rhs[i]).(*ast.UnaryExpr); ok && u.Op == token.AND && core.ObjOf(inf, u.X) == o {
								kept++
								st = 1
							}
						}
					}
					return st
				},
			})
		}
		c.Check(keptOK, rel, fcName, "a kept host pointer ends the walk", fc.Pos(), fmt.Sprintf("%d places keep the yielded host", kept),
			"the walk goes on after the yielded host pointer was kept: with the go directive of this module below 1.22 it points at the loop variable, which the next announcement of the same node overwrites — a host of another scheme or weight is returned")
	}
	// 1b. nil is returned only when the selection walk chose nothing: no early return guarded by a weight sum (zero-weight
	// hosts are still hosts: they keep their scheme's priority and are a valid answer when nothing else is eligible)
	var early []string
	for _, r := range topReturns {
		if len(r.Results) != 1 || !core.IsNil(inf, r.Results[0]) {
			continue
		}
		if len(fc.Body.List) > 0 && fc.Body.List[len(fc.Body.List)-1] == ast.Stmt(r) {
			continue // after the walk
		}
		onlyLen := core.GuardedByFact(inf, par, r, func(f core.Fact) bool {
			_, empty, ok := lenCmpZero(inf, f)
			return ok && empty
		}, nil)
		if !onlyLen {
			early = append(early, c.M.Position(r.Pos()))
		}
	}
	c.Check(len(early) == 0, rel, fcName, "no host is reported only when the selection walk found none", fc.Pos(), "",
		"early return at "+strings.Join(early, ", ")+" that is not an emptiness test: a condition on the weight sum also fires for eligible zero-weight hosts")
	// 2. iterateHostWeights (where the walk is factored out) yields keys of uri.Weights of entries of uris.uris
	if iter != nil {
		iterD := c.M.Decl(iter)
		okIter := false
		ast.Inspect(iterD.Body, func(n ast.Node) bool {
			rs, ok := n.(*ast.RangeStmt)
			if !ok {
				return true
			}
			if sel, ok := core.Unparen(rs.X).(*ast.SelectorExpr); ok && sel.Sel.Name == "Weights" {
				ast.Inspect(rs.Body, func(m ast.Node) bool {
					if call, ok := m.(*ast.CallExpr); ok && len(call.Args) == 2 {
						if u, ok := core.Unparen(call.Args[0]).(*ast.UnaryExpr); ok && u.Op == token.AND && core.ObjOf(inf, u.X) == core.ObjOf(inf, rs.Key) && core.ObjOf(inf, call.Args[1]) == core.ObjOf(inf, rs.Value) {
							okIter = true
						}
					}
					return true
				})
			}
			return true
		})
		c.Check(okIter, rel, "(*serviceUris).iterateHostWeights", "yields each announced host with its own weight", iterD.Pos(), "", "the receiver is not called with (&host, weight) of the Weights map")
	} else {
		c.Check(directHosts > 0, rel, fcName, "yields each announced host with its own weight", fc.Pos(), "", "hosts are not taken from a range over the Weights of the receiver's announcements")
	}

	// 3. chooseHost, on the control flow graph
	chName := "(*serviceUris).chooseHost"
	cpar := core.Parents(ch)
	var schemes types.Object
	if len(ch.Type.Params.List) == 1 && len(ch.Type.Params.List[0].Names) == 1 {
		schemes = inf.Defs[ch.Type.Params.List[0].Names[0]]
	}
	defs := map[types.Object][]ast.Expr{}
	choiceVars := map[types.Object]bool{}
	isFac := func(e ast.Expr) *ast.CallExpr {
		call, ok := core.Unparen(e).(*ast.CallExpr)
		if ok && core.Callee(inf, call) == fac && len(call.Args) == 1 {
			return call
		}
		return nil
	}
	ast.Inspect(ch.Body, func(n ast.Node) bool {
		if as, ok := n.(*ast.AssignStmt); ok && len(as.Lhs) == len(as.Rhs) {
			for i, l := range as.Lhs {
				if o := core.ObjOf(inf, l); o != nil {
					defs[o] = append(defs[o], as.Rhs[i])
					if isFac(as.Rhs[i]) != nil {
						choiceVars[o] = true
					}
				}
			}
		}
		return true
	})
	isLenSchemes := func(e ast.Expr) bool {
		call, ok := core.Unparen(e).(*ast.CallExpr)
		if !ok || len(call.Args) != 1 {
			return false
		}
		b, ok := core.ObjOf(inf, call.Fun).(*types.Builtin)
		return ok && core.NameOf(b) == "len" && core.ObjOf(inf, call.Args[0]) == schemes
	}
	// loops that visit the schemes in slice order: `range schemes`, or i from 0 by 1 while i < len(schemes) (and,
	// optionally, while nothing has been chosen yet)
	loopIndex := map[ast.Stmt]types.Object{}
	loopValue := map[ast.Stmt]types.Object{}
	ast.Inspect(ch.Body, func(n ast.Node) bool {
		switch x := n.(type) {
		case *ast.RangeStmt:
			if core.ObjOf(inf, x.X) == schemes && schemes != nil {
				loopIndex[x], loopValue[x] = nil, nil
				if x.Key != nil {
					loopIndex[x] = core.ObjOf(inf, x.Key)
				}
				if x.Value != nil {
					loopValue[x] = core.ObjOf(inf, x.Value)
				}
			}
		case *ast.ForStmt:
			as, ok := x.Init.(*ast.AssignStmt)
			if !ok || as.Tok != token.DEFINE || len(as.Lhs) != 1 || len(as.Rhs) != 1 || x.Cond == nil {
				return true
			}
			if cv := core.ConstOf(inf, as.Rhs[0]); cv == nil || cv.ExactString() != "0" {
				return true
			}
			i := core.ObjOf(inf, as.Lhs[0])
			inc, ok := x.Post.(*ast.IncDecStmt)
			if !ok || inc.Tok != token.INC || core.ObjOf(inf, inc.X) != i {
				return true
			}
			bound, okCond := false, true
			for _, f := range core.Decompose(x.Cond, true, nil) {
				be, isBin := core.Unparen(f.Expr).(*ast.BinaryExpr)
				switch {
				case isBin && f.Val && be.Op == token.LSS && core.ObjOf(inf, be.X) == i && isLenSchemes(be.Y),
					isBin && f.Val && be.Op == token.GTR && core.ObjOf(inf, be.Y) == i && isLenSchemes(be.X):
					bound = true
				default:
					if e, nonNil, ok := core.NilTest(inf, f); ok && !nonNil && choiceVars[core.ObjOf(inf, e)] {
						continue
					}
					okCond = false
				}
			}
			for _, o := range core.AssignedObjs(inf, x.Body) {
				if o == i {
					okCond = false
				}
			}
			if bound && okCond {
				loopIndex[x], loopValue[x] = i, nil
			}
		}
		return true
	})
	enclosingLoop := func(n ast.Node) ast.Stmt {
		for p := cpar[n]; p != nil; p = cpar[p] {
			switch x := p.(type) {
			case *ast.RangeStmt, *ast.ForStmt:
				st := x.(ast.Stmt)
				if _, ok := loopIndex[st]; ok {
					return st
				}
				return nil
			}
		}
		return nil
	}
	isCurrentScheme := func(e ast.Expr, loop ast.Stmt) bool {
		for depth := 0; depth < 4; depth++ {
			e = core.Unparen(e)
			if ix, ok := e.(*ast.IndexExpr); ok {
				return core.ObjOf(inf, ix.X) == schemes && loopIndex[loop] != nil && core.ObjOf(inf, ix.Index) == loopIndex[loop]
			}
			o := core.ObjOf(inf, e)
			if o == nil {
				return false
			}
			if loopValue[loop] != nil && o == loopValue[loop] {
				return true
			}
			if len(defs[o]) != 1 {
				return false
			}
			e = defs[o][0]
		}
		return false
	}
	const (
		kNone = iota
		kTrue
		kScheme
		kOther
	)
	classify := func(call *ast.CallExpr) int {
		arg := core.Unparen(call.Args[0])
		if o := core.ObjOf(inf, arg); o != nil && len(defs[o]) == 1 {
			arg = core.Unparen(defs[o][0])
		}
		lit, ok := arg.(*ast.FuncLit)
		// the filter as a value of a small type implementing a one-method interface: the method body plays the part of
		// the literal, with the receiver standing for what the value was built from
		recvStandsFor := map[types.Object]ast.Expr{}
		if !ok {
			nn := namedOf(inf.Types[arg].Type)
			var md *ast.FuncDecl
			// a named function, or a method value T(x).m / v.m: the declaration plays the part of the literal
			if fn, isFn := core.ObjOf(inf, arg).(*types.Func); isFn {
				if d := c.M.Decl(fn.Origin()); d != nil && d.Body != nil {
					md, nn = d, nil
					if sel, isSel := arg.(*ast.SelectorExpr); isSel && d.Recv != nil {
						arg = core.Unparen(sel.X)
						if o := core.ObjOf(inf, arg); o != nil && len(defs[o]) == 1 {
							arg = core.Unparen(defs[o][0])
						}
					}
				}
			}
			if nn != nil {
				for i := 0; i < nn.NumMethods(); i++ {
					if d := c.M.Decl(nn.Method(i).Origin()); d != nil && d.Body != nil && d.Type.Results != nil && len(d.Type.Results.List) == 1 {
						if md != nil {
							return kOther
						}
						md = d
					}
				}
			}
			if md == nil {
				return kOther
			}
			if r := recvObj(inf, md); r != nil {
				switch x := arg.(type) {
				case *ast.CallExpr: // conversion T(x)
					if tv, isConv := inf.Types[x.Fun]; isConv && tv.IsType() && len(x.Args) == 1 {
						recvStandsFor[r] = x.Args[0]
					}
				}
			}
			lit = &ast.FuncLit{Type: md.Type, Body: md.Body}
		}
		rets := core.ReturnsIn(lit.Body)
		realCalls := 0
		for _, cc := range core.CallsIn(lit.Body) {
			if tv, isConv := inf.Types[cc.Fun]; !isConv || !tv.IsType() {
				realCalls++
			}
		}
		if len(rets) == 0 || realCalls > 0 {
			return kOther
		}
		allTrue := true
		for _, r := range rets {
			if cv := core.ConstOf(inf, r.Results[0]); cv == nil || cv.ExactString() != "true" {
				allTrue = false
			}
		}
		if allTrue {
			return kTrue
		}
		if len(lit.Body.List) != 1 || len(rets) != 1 || len(lit.Type.Params.List) != 1 || len(lit.Type.Params.List[0].Names) != 1 {
			return kOther
		}
		p := inf.Defs[lit.Type.Params.List[0].Names[0]]
		be, ok := core.Unparen(rets[0].Results[0]).(*ast.BinaryExpr)
		if !ok || be.Op != token.EQL {
			return kOther
		}
		l, r := be.X, be.Y
		if sel, ok := core.Unparen(r).(*ast.SelectorExpr); ok && sel.Sel.Name == "Scheme" {
			l, r = r, l
		}
		sel, ok := core.Unparen(l).(*ast.SelectorExpr)
		if !ok || sel.Sel.Name != "Scheme" || core.ObjOf(inf, sel.X) != p {
			return kOther
		}
		// string(recv) / recv of a converted value is the value it was converted from
		for depth := 0; depth < 3; depth++ {
			r = core.Unparen(r)
			if conv, ok := r.(*ast.CallExpr); ok && len(conv.Args) == 1 {
				if tv, isConv := inf.Types[conv.Fun]; isConv && tv.IsType() {
					r = conv.Args[0]
					continue
				}
			}
			if e, ok := recvStandsFor[core.ObjOf(inf, r)]; ok {
				r = e
				continue
			}
			break
		}
		if loop := enclosingLoop(call); loop != nil && isCurrentScheme(r, loop) {
			return kScheme
		}
		return kOther
	}
	const (
		csNone = iota
		csUnknown
		csNil
		csNonNil
	)
	const (
		bHead      = 16
		bExhausted = 32
		lzEmpty    = 64
		lzNonEmpty = 128
	)
	noPrioWhy, filterWhy, orderWhy := "", "", ""
	seenTrue, seenScheme, seenReturn := false, false, false
	set := func(dst *string, msg string) {
		if *dst == "" {
			*dst = msg
		}
	}
	core.NewFlow(c.M, inf, ch.Body).Run(&core.Automaton{
		AtEnd: true,
		Block: func(st int, b *cfg.Block) int {
			if _, ok := loopIndex[b.Stmt]; !ok || b.Stmt == nil {
				return st
			}
			switch b.Kind {
			case cfg.KindRangeLoop, cfg.KindForLoop:
				st |= bHead
			case cfg.KindRangeBody, cfg.KindForBody, cfg.KindForPost:
				st &^= bHead
			case cfg.KindRangeDone, cfg.KindForDone:
				if st&bHead != 0 {
					st = (st &^ bHead) | bExhausted
				} else if st&3 != csNonNil {
					set(&orderWhy, "the loop over the schemes is left before all of them were tried although no host was found yet")
				}
			}
			return st
		},
		Node: func(st int, n ast.Node) int {
			cs, kind := st&3, (st>>2)&3
			upd := func() int { return (st &^ 15) | cs | kind<<2 }
			for _, call := range core.CallsIn(n) {
				if core.Callee(inf, call) != fac || len(call.Args) != 1 {
					continue
				}
				k := classify(call)
				switch k {
				case kTrue:
					if st&lzEmpty == 0 {
						set(&noPrioWhy, "a constant-true filter is used on a path where priorities may be configured: the priority order is ignored")
					} else {
						seenTrue = true
					}
				case kScheme:
					seenScheme = true
					if st&lzEmpty != 0 {
						set(&noPrioWhy, "a scheme filter is used although no priorities are configured")
					}
					if cs != csNone && cs != csNil {
						set(&orderWhy, "a later scheme is tried although an earlier one may have produced a host: the highest-priority scheme does not win")
					}
				default:
					set(&filterWhy, fmt.Sprintf("the filter passed at %s is neither constant-true nor `u.Scheme == <the scheme being tried, in slice order>`", c.M.Position(call.Pos())))
				}
				cs, kind = csUnknown, k
			}
			if as, ok := n.(*ast.AssignStmt); ok && len(as.Lhs) == len(as.Rhs) {
				for i, l := range as.Lhs {
					if choiceVars[core.ObjOf(inf, l)] && isFac(as.Rhs[i]) == nil {
						if core.IsNil(inf, as.Rhs[i]) {
							cs = csNil
						} else {
							cs, kind = csUnknown, kOther
						}
					}
				}
			}
			if r, ok := n.(*ast.ReturnStmt); ok {
				seenReturn = true
				var e ast.Expr
				if len(r.Results) == 1 {
					e = core.Unparen(r.Results[0])
				}
				isChoice := e != nil && (isFac(e) != nil || choiceVars[core.ObjOf(inf, e)])
				// a choice variable that no selection was assigned to yet still holds its zero value
				zeroChoice := isChoice && isFac(e) == nil && cs == csNone && st&lzEmpty == 0
				switch {
				case zeroChoice:
					if st&bExhausted == 0 {
						set(&orderWhy, fmt.Sprintf("nil is returned at %s before all schemes were tried", c.M.Position(r.Pos())))
					}
				case st&lzEmpty != 0:
					if !isChoice || kind != kTrue {
						set(&noPrioWhy, fmt.Sprintf("without priorities the return at %s does not yield the choice made with a constant-true filter", c.M.Position(r.Pos())))
					}
				case isChoice:
					if kind != kScheme && kind != kTrue {
						set(&filterWhy, fmt.Sprintf("the choice returned at %s was not made with a recognised filter", c.M.Position(r.Pos())))
					}
					if cs != csNonNil && st&bExhausted == 0 && kind != kTrue {
						set(&orderWhy, fmt.Sprintf("the return at %s yields a choice that may be nil before all schemes were tried", c.M.Position(r.Pos())))
					}
				case e != nil && core.IsNil(inf, e):
					if st&bExhausted == 0 || (cs != csNone && cs != csNil) {
						set(&orderWhy, fmt.Sprintf("nil is returned at %s before all schemes were tried, or although a host may have been found", c.M.Position(r.Pos())))
					}
				default:
					set(&orderWhy, fmt.Sprintf("the return at %s yields something that is not the result of the selection", c.M.Position(r.Pos())))
				}
			}
			return upd()
		},
		Edge: func(st int, facts []core.Fact) (int, bool) {
			for _, f := range facts {
				if arg, empty, ok := lenCmpZero(inf, f); ok && core.ObjOf(inf, arg) == schemes && schemes != nil {
					if (empty && st&lzNonEmpty != 0) || (!empty && st&lzEmpty != 0) {
						return st, false
					}
					if empty {
						st |= lzEmpty
					} else {
						st |= lzNonEmpty
					}
				}
				if e, nonNil, ok := core.NilTest(inf, f); ok && choiceVars[core.ObjOf(inf, e)] {
					cs := st & 3
					switch {
					case nonNil && (cs == csNil || cs == csNone), !nonNil && cs == csNonNil:
						return st, false
					case nonNil:
						st = (st &^ 3) | csNonNil
					case cs == csUnknown:
						st = (st &^ 3) | csNil
					}
				}
			}
			return st, true
		},
	})
	c.Check(noPrioWhy == "" && seenTrue, rel, chName, "without priorities every scheme is eligible", ch.Pos(), "", noPrioWhy+" (or the no-priorities branch does not select with a constant-true filter)")
	c.Check(filterWhy == "" && seenScheme, rel, chName, "scheme filter compares the host's scheme with the current priority", ch.Pos(), "", filterWhy+" (or no scheme filter of the form `u.Scheme == scheme` is used inside a loop over the schemes in slice order)")
	c.Check(orderWhy == "" && seenReturn, rel, chName, "schemes tried in slice order, first non-nil choice returned, nil when none", ch.Pos(), "", orderWhy)

	// 4. resolver returns an error for nil: on the control flow graph, the chosen host is returned only where it is known
	// non-nil, and where it is known nil the error result is a non-nil error
	_, rd := mustDecl(c, rel, "(*Client).ResolveHostnameAndContextForQuery")
	choose := mustFunc(c, rel, "(*serviceUris).chooseHost")
	var chosenVar types.Object
	ast.Inspect(rd.Body, func(n ast.Node) bool {
		if as, ok := n.(*ast.AssignStmt); ok && len(as.Rhs) == 1 {
			if call, ok := core.Unparen(as.Rhs[0]).(*ast.CallExpr); ok && core.Callee(inf, call) == choose {
				chosenVar = core.ObjOf(inf, as.Lhs[0])
			}
		}
		return true
	})
	resWhy, errOnNil, hostReturned := "", false, false
	if chosenVar == nil {
		resWhy = "the result of chooseHost is not kept in a variable"
	} else {
		core.NewFlow(c.M, inf, rd.Body).Run(&core.Automaton{
			Node: func(st int, n ast.Node) int {
				if as, ok := n.(*ast.AssignStmt); ok {
					for _, l := range as.Lhs {
						if core.ObjOf(inf, l) == chosenVar {
							st = 1 // assigned, nil-ness unknown
						}
					}
				}
				if r, ok := n.(*ast.ReturnStmt); ok && len(r.Results) == 2 && st != 0 {
					if rootIdentObj(inf, r.Results[0]) == chosenVar {
						hostReturned = true
						if st != 3 {
							set(&resWhy, fmt.Sprintf("the chosen host is returned at %s on a path where it can be nil", c.M.Position(r.Pos())))
						}
					}
					if st == 2 {
						if core.NonNilErrorExpr(inf, r.Results[1]) {
							errOnNil = true
						} else {
							set(&resWhy, fmt.Sprintf("the return at %s, reached when no host is eligible, does not report an error", c.M.Position(r.Pos())))
						}
					}
				}
				return st
			},
			Edge: func(st int, facts []core.Fact) (int, bool) {
				for _, f := range facts {
					if e, nonNil, ok := core.NilTest(inf, f); ok && core.ObjOf(inf, e) == chosenVar && st != 0 {
						switch {
						case nonNil && st == 2, !nonNil && st == 3:
							return st, false
						case nonNil:
							st = 3
						default:
							st = 2
						}
					}
				}
				return st, true
			},
		})
	}
	c.Check(resWhy == "" && errOnNil && hostReturned, rel, "(*Client).ResolveHostnameAndContextForQuery", "no eligible host is an error, never a nil URL", rd.Pos(), "", resWhy+" (or the nil case is not tested)")
}

// goBelow122 reports whether the analysed module's go directive selects the per-loop (pre-1.22) semantics of range
// variables.
func goBelow122(c *core.Ctx) bool {
	b, err := os.ReadFile(filepath.Join(c.M.Dir, "go.mod"))
	if err != nil {
		return true
	}
	for _, l := range strings.Split(string(b), "\n") {
		f := strings.Fields(l)
		if len(f) == 2 && f[0] == "go" {
			var maj, min int
			fmt.Sscanf(f[1], "%d.%d", &maj, &min)
			return maj < 1 || (maj == 1 && min < 22)
		}
	}
	return true
}
