package rules

import (
	"fmt"
	"go/ast"
	"go/token"
	"go/types"
	"sort"
	"strings"

	"verif/checker/core"
)

func init() {
	core.Register(&core.Rule{
		ID:    "R19.1",
		Title: "URI snapshots are copy-on-write",
		Text: "In package d2 every write to a serviceUris.uris map (index assignment, delete) has as base a variable that, on every path to the write, was last assigned in the same function from serviceUris.copy() or a " +
			"composite literal; copy() allocates a new map with make and copies every entry; no function stores into a Uri's maps, or through a *Uri at all, except Uri.UnmarshalJSON on its receiver.",
		Props: []string{"C19", "C17"},
		Floor: map[string]int{"v2": 5, "root": 5},
		Run:   runR191,
	})
	core.Register(&core.Rule{
		ID:    "R19.2",
		Title: "ignored events return the snapshot untouched; updates touch exactly one path",
		Text: "In handleUriUpdate the returns guarded by the empty-path, JSON-error and empty-weights tests return the parameter itself on paths without any copy or write; the Data == nil edge deletes exactly `path` from a copy; " +
			"the update edge assigns exactly uris[path] on a copy.  waitForUriUpdates stores the result of every event through the lazy map, inside the range over the event channel.",
		Props: []string{"C19"},
		Floor: map[string]int{"v2": 6, "root": 6},
		Run:   runR192,
	})
	core.Register(&core.Rule{
		ID:    "R19.3",
		Title: "host selection frame",
		Text: "Every host assigned as the choice in filterAndChooseHost is the callback argument of iterateHostWeights under the hostFilter test; chooseHost tries schemes in slice order and returns the first non-nil choice, " +
			"with a constant-true filter when there are no priorities; the scheme filter compares the host's Scheme with the loop's scheme; ResolveHostnameAndContextForQuery returns an error, never a nil URL, when chooseHost returns nil.",
		Props: []string{"C19"},
		Floor: map[string]int{"v2": 6, "root": 6},
		Run:   runR193,
	})
}

func fieldNamed(inf *types.Info, e ast.Expr, owner *types.TypeName, name string) (ast.Expr, bool) {
	sel, ok := core.Unparen(e).(*ast.SelectorExpr)
	if !ok {
		return nil, false
	}
	fv, ok := core.ObjOf(inf, sel).(*types.Var)
	if !ok || !fv.IsField() || fv.Name() != name {
		return nil, false
	}
	if n := namedOf(inf.Types[sel.X].Type); n == nil || n.Obj() != owner {
		return nil, false
	}
	return sel.X, true
}

func runR191(c *core.Ctx) {
	const rel = "d2"
	inf := info(c, rel)
	su, _ := mustObj(c, rel, "serviceUris").(*types.TypeName)
	uriT, _ := mustObj(c, rel, "Uri").(*types.TypeName)
	copyF := mustFunc(c, rel, "(*serviceUris).copy")
	isCopyOrLit := func(e ast.Expr) bool {
		switch x := core.Unparen(e).(type) {
		case *ast.CallExpr:
			f := core.Callee(inf, x)
			return f != nil && f.Origin() == copyF
		case *ast.UnaryExpr:
			if cl, ok := x.X.(*ast.CompositeLit); ok && x.Op == token.AND {
				n := namedOf(inf.Types[cl].Type)
				return n != nil && n.Obj() == su
			}
		}
		return false
	}
	writes := 0
	for _, fd := range c.M.FuncDecls(rel) {
		if fd.Body == nil {
			continue
		}
		fn := core.DeclName(fd)
		// collect write sites: X.uris[k] = v ; delete(X.uris, k)
		type site struct {
			node ast.Node
			base ast.Expr
			desc string
		}
		var sites []site
		ast.Inspect(fd.Body, func(n ast.Node) bool {
			switch x := n.(type) {
			case *ast.AssignStmt:
				for _, l := range x.Lhs {
					if ix, ok := core.Unparen(l).(*ast.IndexExpr); ok {
						if base, ok := fieldNamed(inf, ix.X, su, "uris"); ok {
							sites = append(sites, site{x, base, "assignment " + core.ExprString(l)})
						}
					}
				}
			case *ast.CallExpr:
				if id, ok := core.Unparen(x.Fun).(*ast.Ident); ok && id.Name == "delete" && len(x.Args) == 2 {
					if _, isB := inf.Uses[id].(*types.Builtin); isB {
						if base, ok := fieldNamed(inf, x.Args[0], su, "uris"); ok {
							sites = append(sites, site{x, base, "delete from " + core.ExprString(x.Args[0])})
						}
					}
				}
			}
			return true
		})
		if len(sites) == 0 {
			continue
		}
		// automaton per base variable: state 1 = base currently holds a fresh copy
		flow := core.NewFlow(c.M, inf, fd.Body)
		for _, s := range sites {
			writes++
			baseObj := core.ObjOf(inf, s.base)
			okAll, reached := true, false
			flow.Run(&core.Automaton{
				Init: 0,
				Node: func(state int, n ast.Node) int {
					// does this node contain the write?
					contains := false
					core.WalkNoFuncLit(n, func(m ast.Node) bool {
						if m == s.node {
							contains = true
						}
						return !contains
					})
					if contains {
						reached = true
						if state != 1 {
							okAll = false
						}
					}
					if as, ok := n.(*ast.AssignStmt); ok {
						for i, l := range as.Lhs {
							if core.ObjOf(inf, l) == baseObj && baseObj != nil {
								if i < len(as.Rhs) && len(as.Lhs) == len(as.Rhs) && isCopyOrLit(as.Rhs[i]) {
									state = 1
								} else {
									state = 0
								}
							}
						}
					}
					return state
				},
			})
			if !reached {
				// the write is inside a function literal: analyse conservatively
				c.Unknown(rel, fn, s.desc+" writes a fresh copy", s.node.Pos(), "write site inside a closure")
				continue
			}
			c.Check(okAll, rel, fn, s.desc+" writes a fresh copy", s.node.Pos(), "base was assigned from copy()/a literal on every path",
				"the map of a snapshot that may already have been handed out is modified in place")
		}
	}
	if writes == 0 {
		c.Unknown(rel, "-", "writes to serviceUris.uris", token.NoPos, "none found")
	}
	// copy(): make + full copy loop
	copyD := c.M.Decl(copyF)
	mk, loop := false, false
	var newVar types.Object
	ast.Inspect(copyD.Body, func(n ast.Node) bool {
		switch x := n.(type) {
		case *ast.KeyValueExpr:
			if id, ok := x.Key.(*ast.Ident); ok && id.Name == "uris" {
				if call, ok := core.Unparen(x.Value).(*ast.CallExpr); ok {
					if fid, ok := core.Unparen(call.Fun).(*ast.Ident); ok && fid.Name == "make" {
						mk = true
					}
				}
			}
		case *ast.AssignStmt:
			if len(x.Lhs) == 1 && x.Tok == token.DEFINE {
				newVar = core.ObjOf(inf, x.Lhs[0])
			}
		case *ast.RangeStmt:
			if base, ok := fieldNamed(inf, x.X, su, "uris"); ok && core.ObjOf(inf, base) == recvObj(inf, copyD) {
				for _, s := range x.Body.List {
					if as, ok := s.(*ast.AssignStmt); ok && len(as.Lhs) == 1 {
						if ix, ok := core.Unparen(as.Lhs[0]).(*ast.IndexExpr); ok && core.ObjOf(inf, ix.Index) == core.ObjOf(inf, x.Key) {
							if b, ok := fieldNamed(inf, ix.X, su, "uris"); ok && core.ObjOf(inf, b) == newVar && core.ObjOf(inf, as.Rhs[0]) == core.ObjOf(inf, x.Value) {
								loop = true
							}
						}
					}
				}
			}
		}
		return true
	})
	c.Check(mk && loop, rel, "(*serviceUris).copy", "allocates a new map and copies every entry", copyD.Pos(), "", fmt.Sprintf("make=%v full copy loop=%v", mk, loop))
	// Uri maps written only by UnmarshalJSON on its receiver
	uriWrites, badUri := 0, 0
	for _, fd := range c.M.FuncDecls(rel) {
		if fd.Body == nil {
			continue
		}
		ast.Inspect(fd.Body, func(n ast.Node) bool {
			as, ok := n.(*ast.AssignStmt)
			if !ok {
				return true
			}
			for _, l := range as.Lhs {
				target := core.Unparen(l)
				// whole-value or field store through a *Uri (`*existing = *uri`, `u.Weights = m`)
				var through ast.Expr
				switch t := target.(type) {
				case *ast.StarExpr:
					through = t.X
				case *ast.SelectorExpr:
					if fv, ok := core.ObjOf(inf, t).(*types.Var); ok && fv.IsField() {
						through = t.X
					}
				}
				if through != nil {
					if pt, ok := inf.Types[through].Type.(*types.Pointer); ok {
						if nn := namedOf(pt.Elem()); nn != nil && nn.Obj() == uriT {
							uriWrites++
							if core.DeclName(fd) != "(*Uri).UnmarshalJSON" || core.ObjOf(inf, through) != recvObj(inf, fd) {
								badUri++
								c.Bad(rel, core.DeclName(fd), "store through a *Uri outside its decoder", l.Pos(), "announced Uri values are shared by every snapshot: "+core.ExprString(l)+" changes snapshots handed out earlier")
							}
						}
					}
				}
				for {
					ix, ok := target.(*ast.IndexExpr)
					if !ok {
						break
					}
					target = core.Unparen(ix.X)
					for _, fname := range []string{"Weights", "Properties", "PartitionDesc"} {
						if base, ok := fieldNamed(inf, target, uriT, fname); ok {
							uriWrites++
							if core.DeclName(fd) != "(*Uri).UnmarshalJSON" || core.ObjOf(inf, base) != recvObj(inf, fd) {
								badUri++
								c.Bad(rel, core.DeclName(fd), "store into a Uri's map outside its decoder", l.Pos(), "announced Uri values are shared by every snapshot")
							}
						}
					}
				}
			}
			return true
		})
	}
	if badUri == 0 {
		c.OK(rel, "(*Uri).UnmarshalJSON", fmt.Sprintf("the %d stores into Uri maps are all in the decoder, on its receiver", uriWrites), token.NoPos, "")
	}
}

func runR192(c *core.Ctx) {
	const rel = "d2"
	inf := info(c, rel)
	su, _ := mustObj(c, rel, "serviceUris").(*types.TypeName)
	f, fd := mustDecl(c, rel, "(*Client).handleUriUpdate")
	copyF := mustFunc(c, rel, "(*serviceUris).copy")
	_ = f
	fn := "(*Client).handleUriUpdate"
	var watcher types.Object
	for _, fl := range fd.Type.Params.List {
		for _, n := range fl.Names {
			if nn := namedOf(inf.Defs[n].Type()); nn != nil && nn.Obj() == su {
				watcher = inf.Defs[n]
			}
		}
	}
	if watcher == nil {
		c.Unknown(rel, fn, "snapshot parameter", fd.Pos(), "no *serviceUris parameter")
		return
	}
	par := core.Parents(fd)
	// path variable: first local string assigned from strings.TrimPrefix
	var pathVar types.Object
	ast.Inspect(fd.Body, func(n ast.Node) bool {
		if as, ok := n.(*ast.AssignStmt); ok && len(as.Rhs) == 1 && pathVar == nil {
			if call, ok := core.Unparen(as.Rhs[0]).(*ast.CallExpr); ok && core.IsFunc(core.Callee(inf, call), "strings", "TrimPrefix") {
				pathVar = core.ObjOf(inf, as.Lhs[0])
			}
		}
		return true
	})
	// automaton: bit0 copied (watcher reassigned), bit1 written
	flow := core.NewFlow(c.M, inf, fd.Body)
	type rinfo struct{ copied, written bool }
	rets := map[*ast.ReturnStmt]*rinfo{}
	flow.Run(&core.Automaton{
		Init: 0,
		Node: func(state int, n ast.Node) int {
			if as, ok := n.(*ast.AssignStmt); ok {
				for _, l := range as.Lhs {
					if core.ObjOf(inf, l) == watcher {
						state |= 1
					}
					if ix, ok := core.Unparen(l).(*ast.IndexExpr); ok {
						if _, ok := fieldNamed(inf, ix.X, su, "uris"); ok {
							state |= 2
						}
					}
				}
			}
			for _, call := range core.CallsIn(n) {
				if id, ok := core.Unparen(call.Fun).(*ast.Ident); ok && id.Name == "delete" {
					state |= 2
				}
			}
			if r, ok := n.(*ast.ReturnStmt); ok {
				ri := rets[r]
				if ri == nil {
					ri = &rinfo{}
					rets[r] = ri
				}
				ri.copied = ri.copied || state&1 != 0
				ri.written = ri.written || state&2 != 0
			}
			return state
		},
	})
	guards := []struct {
		name string
		pred func(core.Fact) bool
	}{
		{"empty path (event for the cluster node itself)", func(f core.Fact) bool {
			be, ok := core.Unparen(f.Expr).(*ast.BinaryExpr)
			if !ok || be.Op != token.EQL || !f.Val {
				return false
			}
			cv := core.ConstOf(inf, be.Y)
			return cv != nil && cv.ExactString() == `""` && core.ObjOf(inf, be.X) == pathVar && pathVar != nil
		}},
		{"malformed payload (JSON error)", func(f core.Fact) bool {
			e, nonNil, ok := core.NilTest(inf, f)
			return ok && nonNil && core.IsErrorType(inf.Types[e].Type)
		}},
		{"weight-less announcement", func(f core.Fact) bool {
			be, ok := core.Unparen(f.Expr).(*ast.BinaryExpr)
			if !ok || be.Op != token.EQL || !f.Val {
				return false
			}
			call, ok := core.Unparen(be.X).(*ast.CallExpr)
			if !ok || len(call.Args) != 1 {
				return false
			}
			sel, ok := core.Unparen(call.Args[0]).(*ast.SelectorExpr)
			cv := core.ConstOf(inf, be.Y)
			return ok && sel.Sel.Name == "Weights" && cv != nil && cv.ExactString() == "0"
		}},
	}
	for _, g := range guards {
		found, okRet := false, true
		for r, ri := range rets {
			if !core.GuardedByFact(inf, par, r, g.pred, nil) {
				continue
			}
			found = true
			if len(r.Results) != 1 || core.ObjOf(inf, r.Results[0]) != watcher || ri.copied || ri.written {
				okRet = false
			}
		}
		c.Check(found && okRet, rel, fn, "ignored event returns the untouched snapshot: "+g.name, fd.Pos(), "", fmt.Sprintf("guarded return found=%v, returns the parameter without copy/write=%v", found, okRet))
	}
	// the enumerated ignore edges are the only ones: every return of the untouched parameter sits under one of them
	var extra []string
	for r, ri := range rets {
		if len(r.Results) != 1 || core.ObjOf(inf, r.Results[0]) != watcher || ri.copied || ri.written {
			continue
		}
		listed := false
		for _, g := range guards {
			if core.GuardedByFact(inf, par, r, g.pred, nil) {
				listed = true
			}
		}
		if !listed {
			extra = append(extra, c.M.Position(r.Pos()))
		}
	}
	sort.Strings(extra)
	c.Check(len(extra) == 0, rel, fn, "events are ignored only for the listed reasons (cluster node, malformed, weight-less)", fd.Pos(), "",
		"the snapshot is returned untouched at "+strings.Join(extra, ", ")+" for a reason the contract does not list: an announcement that must be applied (e.g. a re-add after a delete) is dropped")
	// the fold step depends on (snapshot, event) only: the client receiver is not consulted
	var recvUses []string
	if r := recvObj(inf, fd); r != nil {
		ast.Inspect(fd.Body, func(n ast.Node) bool {
			if id, ok := n.(*ast.Ident); ok && inf.Uses[id] == r {
				recvUses = append(recvUses, c.M.Position(id.Pos()))
			}
			return true
		})
	}
	c.Check(len(recvUses) == 0, rel, fn, "the fold step reads and writes no client state besides the snapshot it was given", fd.Pos(), "",
		"the client receiver is used at "+strings.Join(recvUses, ", ")+": the tracked set then depends on more than the fold of the history")
	// delete edge and update edge
	delOK, updOK := false, false
	nWrites := 0
	ast.Inspect(fd.Body, func(n ast.Node) bool {
		switch x := n.(type) {
		case *ast.CallExpr:
			if id, ok := core.Unparen(x.Fun).(*ast.Ident); ok && id.Name == "delete" && len(x.Args) == 2 {
				nWrites++
				if base, ok := fieldNamed(inf, x.Args[0], su, "uris"); ok && core.ObjOf(inf, base) == watcher && core.ObjOf(inf, x.Args[1]) == pathVar {
					// guarded by Data == nil
					delOK = core.GuardedByFact(inf, par, core.EnclosingStmt(par, x), func(f core.Fact) bool {
						e, nonNil, ok := core.NilTest(inf, f)
						if !ok || nonNil {
							return false
						}
						sel, isSel := core.Unparen(e).(*ast.SelectorExpr)
						return isSel && sel.Sel.Name == "Data"
					}, nil)
				}
			}
		case *ast.AssignStmt:
			for _, l := range x.Lhs {
				if ix, ok := core.Unparen(l).(*ast.IndexExpr); ok {
					if base, ok := fieldNamed(inf, ix.X, su, "uris"); ok {
						nWrites++
						if core.ObjOf(inf, base) == watcher && core.ObjOf(inf, ix.Index) == pathVar {
							updOK = true
						}
					}
				}
			}
		}
		return true
	})
	c.Check(delOK, rel, fn, "node deletion removes exactly the event's path", fd.Pos(), "", "no delete(watcher.uris, path) under event.Data == nil")
	c.Check(updOK && nWrites == 2, rel, fn, "node update assigns exactly uris[path] (last write wins, no merge)", fd.Pos(), "", fmt.Sprintf("update assignment found=%v, total map writes=%d (expected 2)", updOK, nWrites))
	_ = copyF
	// waitForUriUpdates
	_, wd := mustDecl(c, rel, "(*Client).waitForUriUpdates")
	hu := mustFunc(c, rel, "(*Client).handleUriUpdate")
	okLoop := false
	ast.Inspect(wd.Body, func(n ast.Node) bool {
		rs, ok := n.(*ast.RangeStmt)
		if !ok {
			return true
		}
		if _, isChan := inf.Types[rs.X].Type.Underlying().(*types.Chan); !isChan {
			return true
		}
		ast.Inspect(rs.Body, func(m ast.Node) bool {
			call, ok := m.(*ast.CallExpr)
			if !ok {
				return true
			}
			if cf := core.Callee(inf, call); cf != nil && cf.Name() == "Store" && len(call.Args) == 2 {
				if inner, ok := core.Unparen(call.Args[1]).(*ast.CallExpr); ok && core.Callee(inf, inner) == hu {
					// the event passed is the range variable
					if len(inner.Args) == 2 && core.ObjOf(inf, inner.Args[1]) == core.ObjOf(inf, rs.Key) {
						okLoop = true
					}
				}
			}
			return true
		})
		return true
	})
	c.Check(okLoop, rel, "(*Client).waitForUriUpdates", "every event's fold result is stored, in channel order", wd.Pos(), "", "the loop over the event channel does not Store(handleUriUpdate(current, event)) for each event")
}

func runR193(c *core.Ctx) {
	const rel = "d2"
	inf := info(c, rel)
	_, fc := mustDecl(c, rel, "(*serviceUris).filterAndChooseHost")
	iter := mustFunc(c, rel, "(*serviceUris).iterateHostWeights")
	fac := mustFunc(c, rel, "(*serviceUris).filterAndChooseHost")
	_, ch := mustDecl(c, rel, "(*serviceUris).chooseHost")
	// 1. every assignment to the returned variable is inside a callback passed to iterateHostWeights, under hostFilter(host), with the callback's host param
	var retVar types.Object
	for _, r := range core.ReturnsIn(fc.Body) {
		if len(r.Results) == 1 {
			retVar = core.ObjOf(inf, r.Results[0])
		}
	}
	var filterParam types.Object
	if len(fc.Type.Params.List) == 1 && len(fc.Type.Params.List[0].Names) == 1 {
		filterParam = inf.Defs[fc.Type.Params.List[0].Names[0]]
	}
	par := core.Parents(fc)
	nAssign, okAssign := 0, true
	ast.Inspect(fc.Body, func(n ast.Node) bool {
		as, ok := n.(*ast.AssignStmt)
		if !ok {
			return true
		}
		for i, l := range as.Lhs {
			if core.ObjOf(inf, l) != retVar || retVar == nil {
				continue
			}
			nAssign++
			// enclosing FuncLit passed to iterateHostWeights
			var lit *ast.FuncLit
			for p := par[as]; p != nil; p = par[p] {
				if fl, ok := p.(*ast.FuncLit); ok {
					lit = fl
					break
				}
			}
			if lit == nil {
				okAssign = false
				continue
			}
			call, ok := par[lit].(*ast.CallExpr)
			if !ok || core.Callee(inf, call) != iter {
				okAssign = false
				continue
			}
			hostParam := inf.Defs[lit.Type.Params.List[0].Names[0]]
			if i >= len(as.Rhs) || core.ObjOf(inf, as.Rhs[i]) != hostParam {
				okAssign = false
			}
			if !core.GuardedByFact(inf, par, as, func(f core.Fact) bool {
				fcall, ok := core.Unparen(f.Expr).(*ast.CallExpr)
				return ok && f.Val && core.ObjOf(inf, fcall.Fun) == filterParam && len(fcall.Args) == 1 && core.ObjOf(inf, fcall.Args[0]) == hostParam
			}, nil) {
				okAssign = false
			}
		}
		return true
	})
	c.Check(retVar != nil && nAssign > 0 && okAssign, rel, "(*serviceUris).filterAndChooseHost", "the chosen host is an announced host that passed the filter", fc.Pos(), "",
		"the returned host is assigned outside the iterateHostWeights callback or without the hostFilter test")
	// 1b. nil is returned only when the selection walk chose nothing: no early return guarded by a weight sum (zero-weight
	// hosts are still hosts: they keep their scheme's priority and are a valid answer when nothing else is eligible)
	var early []string
	for _, r := range core.ReturnsIn(fc.Body) {
		if len(r.Results) == 1 && core.ObjOf(inf, r.Results[0]) == retVar && retVar != nil {
			continue
		}
		onlyLen := core.GuardedByFact(inf, par, r, func(f core.Fact) bool {
			be, ok := core.Unparen(f.Expr).(*ast.BinaryExpr)
			if !ok || be.Op != token.EQL || !f.Val {
				return false
			}
			call, ok := core.Unparen(be.X).(*ast.CallExpr)
			if !ok {
				return false
			}
			id, ok := core.Unparen(call.Fun).(*ast.Ident)
			return ok && id.Name == "len"
		}, nil)
		if !onlyLen {
			early = append(early, c.M.Position(r.Pos()))
		}
	}
	c.Check(len(early) == 0, rel, "(*serviceUris).filterAndChooseHost", "no host is reported only when the selection walk found none", fc.Pos(), "",
		"early return at "+strings.Join(early, ", ")+" that is not an emptiness test: a condition on the weight sum also fires for eligible zero-weight hosts")
	// 2. iterateHostWeights yields keys of uri.Weights of entries of uris.uris
	iterD := c.M.Decl(iter)
	okIter := false
	ast.Inspect(iterD.Body, func(n ast.Node) bool {
		rs, ok := n.(*ast.RangeStmt)
		if !ok {
			return true
		}
		if sel, ok := core.Unparen(rs.X).(*ast.SelectorExpr); ok && sel.Sel.Name == "Weights" {
			ast.Inspect(rs.Body, func(m ast.Node) bool {
				if call, ok := m.(*ast.CallExpr); ok && len(call.Args) == 2 {
					if u, ok := core.Unparen(call.Args[0]).(*ast.UnaryExpr); ok && u.Op == token.AND && core.ObjOf(inf, u.X) == core.ObjOf(inf, rs.Key) && core.ObjOf(inf, call.Args[1]) == core.ObjOf(inf, rs.Value) {
						okIter = true
					}
				}
				return true
			})
		}
		return true
	})
	c.Check(okIter, rel, "(*serviceUris).iterateHostWeights", "yields each announced host with its own weight", iterD.Pos(), "", "the receiver is not called with (&host, weight) of the Weights map")
	// 3. chooseHost
	cpar := core.Parents(ch)
	var schemes types.Object
	if len(ch.Type.Params.List) == 1 && len(ch.Type.Params.List[0].Names) == 1 {
		schemes = inf.Defs[ch.Type.Params.List[0].Names[0]]
	}
	noPrioOK, loopOK, filterOK, tailNil := false, false, false, false
	ast.Inspect(ch.Body, func(n ast.Node) bool {
		switch x := n.(type) {
		case *ast.IfStmt:
			// if len(schemes) == 0 { return uris.filterAndChooseHost(func(*url.URL) bool { return true }) }
			if be, ok := core.Unparen(x.Cond).(*ast.BinaryExpr); ok && be.Op == token.EQL {
				if lc, ok := core.Unparen(be.X).(*ast.CallExpr); ok && len(lc.Args) == 1 && core.ObjOf(inf, lc.Args[0]) == schemes {
					for _, s := range x.Body.List {
						if r, ok := s.(*ast.ReturnStmt); ok && len(r.Results) == 1 {
							if call, ok := core.Unparen(r.Results[0]).(*ast.CallExpr); ok && core.Callee(inf, call) == fac && len(call.Args) == 1 {
								if fl, ok := core.Unparen(call.Args[0]).(*ast.FuncLit); ok && len(fl.Body.List) == 1 {
									if rr, ok := fl.Body.List[0].(*ast.ReturnStmt); ok && len(rr.Results) == 1 {
										if cv := core.ConstOf(inf, rr.Results[0]); cv != nil && cv.ExactString() == "true" {
											noPrioOK = true
										}
									}
								}
							}
						}
					}
				}
			}
		case *ast.RangeStmt:
			if core.ObjOf(inf, x.X) == schemes && x.Value != nil {
				schemeVar := core.ObjOf(inf, x.Value)
				var chosen types.Object
				for _, s := range x.Body.List {
					switch st := s.(type) {
					case *ast.AssignStmt:
						if len(st.Rhs) == 1 {
							if call, ok := core.Unparen(st.Rhs[0]).(*ast.CallExpr); ok && core.Callee(inf, call) == fac && len(call.Args) == 1 {
								chosen = core.ObjOf(inf, st.Lhs[0])
								if fl, ok := core.Unparen(call.Args[0]).(*ast.FuncLit); ok && len(fl.Body.List) == 1 {
									if rr, ok := fl.Body.List[0].(*ast.ReturnStmt); ok && len(rr.Results) == 1 {
										if be, ok := core.Unparen(rr.Results[0]).(*ast.BinaryExpr); ok && be.Op == token.EQL {
											l, r := be.X, be.Y
											if core.ObjOf(inf, l) == schemeVar {
												l, r = r, l
											}
											if sel, ok := core.Unparen(l).(*ast.SelectorExpr); ok && sel.Sel.Name == "Scheme" && core.ObjOf(inf, r) == schemeVar {
												filterOK = true
											}
										}
									}
								}
							}
						}
					case *ast.IfStmt:
						for _, f := range core.Decompose(st.Cond, true, nil) {
							if e, nonNil, ok := core.NilTest(inf, f); ok && nonNil && core.ObjOf(inf, e) == chosen && chosen != nil {
								for _, bs := range st.Body.List {
									if r, ok := bs.(*ast.ReturnStmt); ok && len(r.Results) == 1 && core.ObjOf(inf, r.Results[0]) == chosen {
										loopOK = true
									}
								}
							}
						}
					}
				}
			}
		case *ast.ReturnStmt:
			if _, isFn := cpar[cpar[x]].(*ast.FuncDecl); isFn && len(x.Results) == 1 && core.IsNil(inf, x.Results[0]) {
				tailNil = true
			}
		}
		return true
	})
	c.Check(noPrioOK, rel, "(*serviceUris).chooseHost", "without priorities every scheme is eligible", ch.Pos(), "", "the no-priorities branch does not select with a constant-true filter")
	c.Check(filterOK, rel, "(*serviceUris).chooseHost", "scheme filter compares the host's scheme with the current priority", ch.Pos(), "", "the per-scheme filter is not `u.Scheme == scheme`")
	c.Check(loopOK && tailNil, rel, "(*serviceUris).chooseHost", "schemes tried in slice order, first non-nil choice returned, nil when none", ch.Pos(), "", fmt.Sprintf("first-non-nil return in the loop=%v, nil after the loop=%v", loopOK, tailNil))
	// 4. resolver returns an error for nil
	_, rd := mustDecl(c, rel, "(*Client).ResolveHostnameAndContextForQuery")
	rpar := core.Parents(rd)
	choose := mustFunc(c, rel, "(*serviceUris).chooseHost")
	var chosenVar types.Object
	ast.Inspect(rd.Body, func(n ast.Node) bool {
		if as, ok := n.(*ast.AssignStmt); ok && len(as.Rhs) == 1 {
			if call, ok := core.Unparen(as.Rhs[0]).(*ast.CallExpr); ok && core.Callee(inf, call) == choose {
				chosenVar = core.ObjOf(inf, as.Lhs[0])
			}
		}
		return true
	})
	okRes := chosenVar != nil
	errOnNil := false
	for _, r := range core.ReturnsIn(rd.Body) {
		if len(r.Results) == 2 && core.ObjOf(inf, r.Results[0]) == chosenVar && chosenVar != nil {
			// must not be reachable with nil: preceded by `if chosen == nil { return nil, err }`
			list, idx := core.StmtListOf(rpar, r)
			g := false
			for i := 0; i < idx; i++ {
				if ifs, ok := list[i].(*ast.IfStmt); ok {
					for _, f := range core.Decompose(ifs.Cond, true, nil) {
						if e, nonNil, ok := core.NilTest(inf, f); ok && !nonNil && core.ObjOf(inf, e) == chosenVar {
							for _, bs := range ifs.Body.List {
								if rr, ok := bs.(*ast.ReturnStmt); ok && len(rr.Results) == 2 && core.NonNilErrorExpr(inf, rr.Results[1]) {
									g = true
									errOnNil = true
								}
							}
						}
					}
				}
			}
			if !g {
				okRes = false
			}
		}
	}
	c.Check(okRes && errOnNil, rel, "(*Client).ResolveHostnameAndContextForQuery", "no eligible host is an error, never a nil URL", rd.Pos(), "", "the chosen host can be returned while nil")
}
