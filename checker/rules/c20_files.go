package rules

import (
	"fmt"
	"go/ast"
	"go/constant"
	"go/token"
	"go/types"
	"golang.org/x/tools/go/cfg"
	"strings"
	"sync"
	"unicode"

	"verif/checker/core"
)

func init() {
	core.Register(&core.Rule{
		ID:    "R20.1",
		Title: "every destructive filesystem call of the generator is confined to generator-owned names",
		Text: "Inventory (typed AST, all generator packages: cmd, codegen/*, module root) of calls to os.Remove, RemoveAll, Rename, Truncate, WriteFile, Create, OpenFile, Chmod, ioutil.WriteFile. Each must match a row: " +
			"(owned) the path is filepath.Join(…, last) whose last component is <x>+GeneratedFileSuffix, a constant ending in GeneratedFileSuffix, or ManifestFile — through local single definitions and, for a path parameter, at every call site of the function; " +
			"(cleaner-file) os.Remove of join(dir, core.NameOf(entry)) dominated by HasSuffix(core.NameOf(entry), GeneratedFileSuffix) on the not-IsDir branch; (empty-dir) os.Remove(dir) dominated by len(ReadDir(dir)) == 0; " +
			"(temp) os.Remove(core.NameOf(f)) of a file obtained from os.CreateTemp in the same function.  RemoveAll, Rename, Truncate, Chmod are forbidden.",
		Props: []string{"C20"},
		// 8 and 6 sites today; the floor leaves room for merging the duplicated "remove the directory if it is empty" block
		Floor: map[string]int{"v2": 6, "root": 4},
		Run:   runR201,
	})
	core.Register(&core.Rule{
		ID:    "R20.2",
		Title: "owned names cannot collide with user files",
		Text:  "GeneratedFileSuffix ends in .go, is longer than .go and its stem contains a character that cannot occur in a Go identifier, so no <TypeName>.go custom typeref file (the pattern LocateCustomTyperefs stats) can carry it; ManifestFile is one fixed non-.go name.",
		Props: []string{"C20"},
		Floor: map[string]int{"v2": 2, "root": 2},
		Run:   runR202,
	})
	core.Register(&core.Rule{
		ID:      "R20.3",
		Title:   "user files are only looked at",
		Text:    "LocateCustomTyperefs performs no destructive filesystem call (only os.Stat) and looks for <TypeName>+\".go\"; Typeref.GenerateCode returns nil on the custom-typeref edge before building any code, and GenerateCode skips nil code.",
		Props:   []string{"C20"},
		Modules: []string{"v2"},
		Floor:   map[string]int{"v2": 3},
		Run:     runR203,
	})
	core.Register(&core.Rule{
		ID:    "R20.4",
		Title: "the cleaner recurses only into directories and removes them only when empty",
		Text:  "In the cleaner (CleanTargetDir and the package functions on a call cycle with it) every call that hands a directory entry to a function or closure of the cleaner is on the entry.IsDir() branch; in every body that loops over a directory listing the listing is re-read after the loop, and the directory removed only under len(children) == 0 of that listing (R20.1 empty-dir row), never with RemoveAll.",
		Props: []string{"C20"},
		Floor: map[string]int{"v2": 2, "root": 2},
		Run:   runR204,
	})
}

var destructiveOS = map[string]string{
	"Remove": "path0", "RemoveAll": "forbidden", "Rename": "forbidden", "Truncate": "forbidden", "Chmod": "forbidden", "Chown": "forbidden",
	"WriteFile": "path0", "Create": "path0", "OpenFile": "path0",
}

func generatorPkgs(c *core.Ctx) []string {
	out := []string{}
	for rel := range c.M.Pkgs {
		if rel == "" || rel == "cmd" || strings.HasPrefix(rel, "codegen/") {
			out = append(out, rel)
		}
	}
	return out
}

type ownedCtx struct {
	c      *core.Ctx
	suffix types.Object // GeneratedFileSuffix
	mani   types.Object // ManifestFile
	sufVal string
}

// constObj is core.ObjOf, except that a struct field which every composite literal of its type in the module sets to
// one and the same package-level constant, and which is assigned nowhere else, stands for that constant (the cleaner's
// configuration moved into a small struct).
func constObj(c *core.Ctx, inf *types.Info, e ast.Expr) types.Object {
	o := core.ObjOf(inf, e)
	fv, ok := o.(*types.Var)
	if !ok || !fv.IsField() {
		return o
	}
	if k, ok := constFieldMemo.Load(fv); ok {
		if k == nil {
			return o
		}
		return k.(types.Object)
	}
	var konst types.Object
	okAll, lits := true, 0
	for _, p := range c.M.Roots {
		pinf := p.TypesInfo
		for _, file := range p.Syntax {
			ast.Inspect(file, func(n ast.Node) bool {
				switch x := n.(type) {
				case *ast.CompositeLit:
					st, isStruct := pinf.Types[x].Type.Underlying().(*types.Struct)
					if !isStruct {
						return true
					}
					idx := -1
					for i := 0; i < st.NumFields(); i++ {
						if st.Field(i) == fv {
							idx = i
						}
					}
					if idx < 0 {
						return true
					}
					lits++
					var val ast.Expr
					for i, el := range x.Elts {
						if kv, isKV := el.(*ast.KeyValueExpr); isKV {
							if core.ObjOf(pinf, kv.Key) == fv {
								val = kv.Value
							}
						} else if i == idx {
							val = el
						}
					}
					ko, _ := core.ObjOf(pinf, val).(*types.Const)
					if val == nil || ko == nil || (konst != nil && konst != types.Object(ko)) {
						okAll = false
					} else {
						konst = ko
					}
				case *ast.AssignStmt:
					for _, l := range x.Lhs {
						if core.ObjOf(pinf, l) == fv {
							okAll = false
						}
					}
				case *ast.UnaryExpr:
					if x.Op == token.AND && core.ObjOf(pinf, x.X) == fv {
						okAll = false
					}
				}
				return true
			})
		}
	}
	if !okAll || lits == 0 || konst == nil {
		constFieldMemo.Store(fv, nil)
		return o
	}
	constFieldMemo.Store(fv, konst)
	return konst
}

var constFieldMemo sync.Map

func (o *ownedCtx) ownedLast(inf *types.Info, e ast.Expr) bool {
	e = core.Unparen(e)
	if obj := constObj(o.c, inf, e); obj != nil && obj == o.mani {
		return true
	}
	if be, ok := e.(*ast.BinaryExpr); ok && be.Op == token.ADD {
		return o.ownedLast(inf, be.Y) || o.isSuffixConst(inf, be.Y)
	}
	if cv := core.ConstOf(inf, e); cv != nil && cv.Kind() == constant.String {
		s := constant.StringVal(cv)
		return strings.HasSuffix(s, o.sufVal) && len(s) >= len(o.sufVal)
	}
	return false
}

func (o *ownedCtx) isSuffixConst(inf *types.Info, e ast.Expr) bool {
	return constObj(o.c, inf, e) == o.suffix
}

// ownedPath decides whether path expression e (in fd) always denotes an owned name.
func (o *ownedCtx) ownedPath(inf *types.Info, fd *ast.FuncDecl, e ast.Expr, depth int) (bool, string) {
	e = core.Unparen(e)
	if call, ok := e.(*ast.CallExpr); ok {
		f := core.Callee(inf, call)
		if (core.IsFunc(f, "path/filepath", "Join") || core.IsFunc(f, "path", "Join")) && len(call.Args) > 0 {
			if o.ownedLast(inf, call.Args[len(call.Args)-1]) {
				return true, "join(…, owned name)"
			}
			return false, "last path component " + core.ExprString(call.Args[len(call.Args)-1]) + " is not an owned name"
		}
	}
	id, ok := e.(*ast.Ident)
	if !ok {
		return false, "path " + core.ExprString(e) + " is not a join or a variable"
	}
	obj := core.ObjOf(inf, id)
	// parameter: interprocedural
	if v, ok := obj.(*types.Var); ok && isParamOf(inf, fd, v) {
		if depth > 2 {
			return false, "call chain too deep"
		}
		fobj, _ := inf.Defs[fd.Name].(*types.Func)
		idx := paramIndex(inf, fd, v)
		sites, okAll, why := 0, true, ""
		for _, p := range o.c.M.Roots {
			pinf := p.TypesInfo
			for _, file := range p.Syntax {
				if strings.HasSuffix(o.c.M.Fset.File(file.Pos()).Name(), "_test.go") {
					continue
				}
				for _, d := range file.Decls {
					cfd, ok := d.(*ast.FuncDecl)
					if !ok || cfd.Body == nil {
						continue
					}
					ast.Inspect(cfd.Body, func(n ast.Node) bool {
						call, ok := n.(*ast.CallExpr)
						if !ok {
							return true
						}
						if cf := core.Callee(pinf, call); cf == nil || cf.Origin() != fobj || idx >= len(call.Args) {
							return true
						}
						sites++
						if ok2, w := o.ownedPath(pinf, cfd, call.Args[idx], depth+1); !ok2 {
							okAll = false
							why = fmt.Sprintf("call site in %s: %s", core.DeclName(cfd), w)
						}
						return true
					})
				}
			}
		}
		if sites == 0 {
			return false, "exported path parameter with no in-module call site to examine"
		}
		if !okAll {
			return false, why
		}
		return true, fmt.Sprintf("parameter, owned at all %d call sites", sites)
	}
	// local: every assignment must be owned
	n, okAll, why := 0, true, ""
	ast.Inspect(fd.Body, func(x ast.Node) bool {
		as, ok := x.(*ast.AssignStmt)
		if !ok {
			return true
		}
		for i, l := range as.Lhs {
			if core.ObjOf(inf, l) == obj && i < len(as.Rhs) && len(as.Lhs) == len(as.Rhs) {
				n++
				if ok2, w := o.ownedPath(inf, fd, as.Rhs[i], depth+1); !ok2 {
					okAll = false
					why = w
				}
			}
		}
		return true
	})
	if n == 0 {
		return false, "no definition of " + id.Name + " found"
	}
	return okAll, why
}

func paramIndex(inf *types.Info, fd *ast.FuncDecl, v *types.Var) int {
	i := 0
	for _, fl := range fd.Type.Params.List {
		for _, n := range fl.Names {
			if inf.Defs[n] == v {
				return i
			}
			i++
		}
	}
	return -1
}

func runR201(c *core.Ctx) {
	o := &ownedCtx{c: c, suffix: mustObj(c, "codegen/utils", "GeneratedFileSuffix"), mani: manifestConst(c)}
	o.sufVal = constant.StringVal(o.suffix.(*types.Const).Val())
	sites := 0
	for _, rel := range generatorPkgs(c) {
		p := c.M.Pkg(rel)
		inf := p.TypesInfo
		for _, file := range p.Syntax {
			if strings.HasSuffix(c.M.Fset.File(file.Pos()).Name(), "_test.go") {
				continue
			}
			for _, d := range file.Decls {
				fd, ok := d.(*ast.FuncDecl)
				if !ok || fd.Body == nil {
					continue
				}
				par := core.Parents(fd)
				ast.Inspect(fd.Body, func(n ast.Node) bool {
					call, ok := n.(*ast.CallExpr)
					if !ok {
						return true
					}
					f := core.Callee(inf, call)
					if f == nil || f.Pkg() == nil {
						return true
					}
					kind := ""
					switch f.Pkg().Path() {
					case "os":
						kind = destructiveOS[core.NameOf(f)]
					case "io/ioutil":
						if core.NameOf(f) == "WriteFile" {
							kind = "path0"
						}
					}
					if sig, _ := f.Type().(*types.Signature); kind == "" || sig == nil || sig.Recv() != nil {
						return true
					}
					sites++
					fn := core.DeclName(fd)
					construct := fmt.Sprintf("%s.%s #%d", f.Pkg().Name(), core.NameOf(f), ordinalOfCallee(inf, fd, call, f))
					if kind == "forbidden" {
						c.Bad(rel, fn, construct, call.Pos(), "forbidden call: it can destroy files the generator does not own")
						return true
					}
					arg := call.Args[0]
					// row: owned
					if ok, how := o.ownedPath(inf, fd, arg, 0); ok {
						c.OK(rel, fn, construct, call.Pos(), "row owned: "+how)
						return true
					}
					stmt := core.EnclosingStmt(par, call)
					if core.NameOf(f) == "Remove" {
						// row: temp
						if tcall, ok := core.Unparen(arg).(*ast.CallExpr); ok {
							if sel, ok := core.Unparen(tcall.Fun).(*ast.SelectorExpr); ok && sel.Sel.Name == "Name" {
								if fromCreateTemp(inf, fd, core.ObjOf(inf, sel.X)) {
									c.OK(rel, fn, construct, call.Pos(), "row temp: the file was created by os.CreateTemp in this function")
									return true
								}
							}
						}
						// row: cleaner-file
						if id, ok := core.Unparen(arg).(*ast.Ident); ok {
							if entry := joinOfEntryName(inf, fd, core.ObjOf(inf, id)); entry != nil {
								suffixGuard := core.GuardedByFact(inf, par, stmt, func(fa core.Fact) bool {
									hc, ok := core.Unparen(fa.Expr).(*ast.CallExpr)
									if !ok || !fa.Val || !core.IsFunc(core.Callee(inf, hc), "strings", "HasSuffix") || len(hc.Args) != 2 {
										return false
									}
									return isEntryName(inf, hc.Args[0], entry) && constObj(c, inf, hc.Args[1]) == o.suffix
								}, nil)
								notDir := core.GuardedByFact(inf, par, stmt, func(fa core.Fact) bool {
									hc, ok := core.Unparen(fa.Expr).(*ast.CallExpr)
									if !ok || fa.Val {
										return false
									}
									sel, ok := core.Unparen(hc.Fun).(*ast.SelectorExpr)
									return ok && sel.Sel.Name == "IsDir" && core.ObjOf(inf, sel.X) == entry
								}, nil)
								if suffixGuard && notDir {
									c.OK(rel, fn, construct, call.Pos(), "row cleaner-file: entry has the generated suffix and is not a directory")
									return true
								}
								c.Bad(rel, fn, construct, call.Pos(), fmt.Sprintf("directory entry removed without the ownership guards (suffix guard=%v, not-a-directory=%v)", suffixGuard, notDir))
								return true
							}
							// row: empty-dir
							dirObj := core.ObjOf(inf, id)
							empty := core.GuardedByFact(inf, par, stmt, func(fa core.Fact) bool {
								be, ok := core.Unparen(fa.Expr).(*ast.BinaryExpr)
								if !ok || be.Op != token.EQL || !fa.Val {
									return false
								}
								lc, ok := core.Unparen(be.X).(*ast.CallExpr)
								cv := core.ConstOf(inf, be.Y)
								if !ok || cv == nil || cv.ExactString() != "0" || len(lc.Args) != 1 {
									return false
								}
								return readDirOf(inf, fd, core.ObjOf(inf, lc.Args[0]), dirObj)
							}, nil)
							if empty {
								c.OK(rel, fn, construct, call.Pos(), "row empty-dir: os.Remove of a directory whose listing is empty")
								return true
							}
						}
					}
					_, why := o.ownedPath(inf, fd, arg, 0)
					c.Bad(rel, fn, construct, call.Pos(), "matches no ownership row: "+why)
					return true
				})
			}
		}
	}
	if sites == 0 {
		c.Unknown("-", "-", "destructive call inventory", token.NoPos, "no destructive filesystem call found in the generator")
	}
}

func ordinalOfCallee(inf *types.Info, fd *ast.FuncDecl, target *ast.CallExpr, f *types.Func) int {
	i, res := 0, 0
	ast.Inspect(fd.Body, func(n ast.Node) bool {
		if call, ok := n.(*ast.CallExpr); ok && core.Callee(inf, call) == f {
			i++
			if call == target {
				res = i
			}
		}
		return true
	})
	return res
}

func fromCreateTemp(inf *types.Info, fd *ast.FuncDecl, obj types.Object) bool {
	found := false
	ast.Inspect(fd.Body, func(n ast.Node) bool {
		if as, ok := n.(*ast.AssignStmt); ok && len(as.Rhs) == 1 && len(as.Lhs) >= 1 && core.ObjOf(inf, as.Lhs[0]) == obj {
			if call, ok := core.Unparen(as.Rhs[0]).(*ast.CallExpr); ok {
				f := core.Callee(inf, call)
				if core.IsFunc(f, "os", "CreateTemp") || core.IsFunc(f, "io/ioutil", "TempFile") {
					found = true
				}
			}
		}
		return true
	})
	return found
}

// joinOfEntryName: obj := filepath.Join(dir, core.NameOf(entry)) -> entry object.
func joinOfEntryName(inf *types.Info, fd *ast.FuncDecl, obj types.Object) types.Object {
	var entry types.Object
	ast.Inspect(fd.Body, func(n ast.Node) bool {
		as, ok := n.(*ast.AssignStmt)
		if !ok || len(as.Rhs) != 1 || len(as.Lhs) != 1 || core.ObjOf(inf, as.Lhs[0]) != obj {
			return true
		}
		call, ok := core.Unparen(as.Rhs[0]).(*ast.CallExpr)
		if !ok || !core.IsFunc(core.Callee(inf, call), "path/filepath", "Join") || len(call.Args) < 2 {
			return true
		}
		if nc, ok := core.Unparen(call.Args[len(call.Args)-1]).(*ast.CallExpr); ok {
			if sel, ok := core.Unparen(nc.Fun).(*ast.SelectorExpr); ok && sel.Sel.Name == "Name" {
				entry = core.ObjOf(inf, sel.X)
			}
		}
		return true
	})
	return entry
}

func isEntryName(inf *types.Info, e ast.Expr, entry types.Object) bool {
	nc, ok := core.Unparen(e).(*ast.CallExpr)
	if !ok {
		return false
	}
	sel, ok := core.Unparen(nc.Fun).(*ast.SelectorExpr)
	return ok && sel.Sel.Name == "Name" && core.ObjOf(inf, sel.X) == entry
}

// readDirOf: listing was (last) assigned from os.ReadDir(dir) / ioutil.ReadDir(dir).
func readDirOf(inf *types.Info, fd *ast.FuncDecl, listing, dir types.Object) bool {
	found, other := false, false
	ast.Inspect(fd.Body, func(n ast.Node) bool {
		as, ok := n.(*ast.AssignStmt)
		if !ok || len(as.Rhs) != 1 || len(as.Lhs) < 1 || core.ObjOf(inf, as.Lhs[0]) != listing {
			return true
		}
		call, ok := core.Unparen(as.Rhs[0]).(*ast.CallExpr)
		if ok {
			f := core.Callee(inf, call)
			if (core.IsFunc(f, "os", "ReadDir") || core.IsFunc(f, "io/ioutil", "ReadDir")) && len(call.Args) == 1 && core.ObjOf(inf, call.Args[0]) == dir {
				found = true
				return true
			}
		}
		other = true
		return true
	})
	return found && !other
}

func runR202(c *core.Ctx) {
	suf := constant.StringVal(mustObj(c, "codegen/utils", "GeneratedFileSuffix").(*types.Const).Val())
	mani := constant.StringVal(manifestConst(c).(*types.Const).Val())
	stem := strings.TrimSuffix(suf, ".go")
	nonIdent := false
	for _, r := range stem {
		if !(unicode.IsLetter(r) || unicode.IsDigit(r) || r == '_') {
			nonIdent = true
		}
	}
	ok := strings.HasSuffix(suf, ".go") && len(suf) > len(".go") && nonIdent
	c.Check(ok, "codegen/utils", "GeneratedFileSuffix", "generated suffix cannot end a hand-written <Identifier>.go file name", mustObj(c, "codegen/utils", "GeneratedFileSuffix").Pos(), fmt.Sprintf("%q", suf),
		fmt.Sprintf("suffix %q: a user file named <Identifier>.go could carry it and be deleted by the cleaner", suf))
	c.Check(mani != "" && !strings.HasSuffix(mani, ".go") && !strings.ContainsAny(mani, "/*?"), "codegen/utils", "ManifestFile", "manifest is one fixed, non-Go file name", manifestConst(c).Pos(), fmt.Sprintf("%q", mani), fmt.Sprintf("manifest name %q", mani))
}

func runR203(c *core.Ctx) {
	if c.M.Name == "v2" {
		inf := info(c, "cmd")
		_, fd := mustDecl(c, "cmd", "LocateCustomTyperefs")
		bad := ""
		statGo := false
		ast.Inspect(fd.Body, func(n ast.Node) bool {
			call, ok := n.(*ast.CallExpr)
			if !ok {
				return true
			}
			f := core.Callee(inf, call)
			if f != nil && f.Pkg() != nil && (f.Pkg().Path() == "os" || f.Pkg().Path() == "io/ioutil") {
				if core.NameOf(f) != "Stat" && core.NameOf(f) != "IsNotExist" && core.NameOf(f) != "Lstat" {
					bad = f.FullName()
				}
			}
			if core.IsFunc(f, "path/filepath", "Join") {
				last := call.Args[len(call.Args)-1]
				if cv := core.ConstOf(inf, rightmostOperand(last)); cv != nil && cv.ExactString() == `".go"` {
					statGo = true
				}
			}
			return true
		})
		c.Check(bad == "", "cmd", "LocateCustomTyperefs", "custom typeref files are only stat-ed", fd.Pos(), "", "LocateCustomTyperefs calls "+bad)
		c.Check(statGo, "cmd", "LocateCustomTyperefs", "looks for <TypeName>.go (never a generated-suffix name)", fd.Pos(), "", "the expected custom typeref location is not <TypeName>+\".go\"")
	}
	// Typeref.GenerateCode returns nil first on the custom edge
	tinf := info(c, "codegen/types")
	f := c.M.LookupFunc("codegen/types", "(*Typeref).GenerateCode")
	if f == nil {
		if c.M.Name == "root" {
			c.OK("codegen/types", "-", "root generator has no custom typerefs", token.NoPos, "")
			return
		}
		panic(&core.AnchorError{Pkg: "codegen/types", Name: "(*Typeref).GenerateCode", What: "function"})
	}
	fd := c.M.Decl(f)
	okNil := false
	if len(fd.Body.List) > 0 {
		if ifs, ok := fd.Body.List[0].(*ast.IfStmt); ok {
			if call, ok := core.Unparen(ifs.Cond).(*ast.CallExpr); ok {
				if cf := core.Callee(tinf, call); cf != nil && strings.Contains(core.NameOf(cf), "Custom") {
					for _, s := range ifs.Body.List {
						if r, ok := s.(*ast.ReturnStmt); ok && len(r.Results) == 1 && core.IsNil(tinf, r.Results[0]) {
							okNil = true
						}
					}
				}
			}
		}
	}
	c.Check(okNil, "codegen/types", "(*Typeref).GenerateCode", "custom typerefs produce no code file", fd.Pos(), "", "GenerateCode does not return nil first for custom typerefs: a generated file would shadow the user's implementation")
}

// cleanerComponent returns CleanTargetDir and the functions and methods of its package that it reaches through static
// calls (the cleaner written as several, possibly mutually recursive, functions), root first.
func cleanerComponent(c *core.Ctx, rel string, root *types.Func) []*ast.FuncDecl {
	inf := info(c, rel)
	declOf := map[*types.Func]*ast.FuncDecl{}
	for _, fd := range c.M.FuncDecls(rel) {
		if f, _ := inf.Defs[fd.Name].(*types.Func); f != nil && fd.Body != nil {
			declOf[f] = fd
		}
	}
	callees := func(fd *ast.FuncDecl) []*types.Func {
		var out []*types.Func
		ast.Inspect(fd.Body, func(n ast.Node) bool {
			if call, ok := n.(*ast.CallExpr); ok {
				if f := core.Callee(inf, call); f != nil && declOf[f.Origin()] != nil {
					out = append(out, f.Origin())
				}
			}
			return true
		})
		return out
	}
	fwd := map[*types.Func]bool{root: true}
	work := []*types.Func{root}
	for len(work) > 0 {
		f := work[0]
		work = work[1:]
		for _, g := range callees(declOf[f]) {
			if !fwd[g] {
				fwd[g] = true
				work = append(work, g)
			}
		}
	}
	out := []*ast.FuncDecl{declOf[root]}
	for _, fd := range c.M.FuncDecls(rel) {
		if f, _ := inf.Defs[fd.Name].(*types.Func); f != nil && f != root && fwd[f] {
			out = append(out, fd)
		}
	}
	return out
}

// descent is a call, somewhere in the cleaner, that hands a directory entry (join(dir, core.NameOf(entry))) to a function of
// the cleaner: the recursion into a sub-directory.
type descent struct {
	in     *ast.FuncDecl
	call   *ast.CallExpr
	entry  types.Object
	target ast.Node // body of the function or closure called
	par    map[ast.Node]ast.Node
}

func cleanerDescents(c *core.Ctx, rel string, comp []*ast.FuncDecl) []descent {
	inf := info(c, rel)
	bodyOf := map[*types.Func]*ast.FuncDecl{}
	for _, fd := range comp {
		if f, _ := inf.Defs[fd.Name].(*types.Func); f != nil {
			bodyOf[f] = fd
		}
	}
	var out []descent
	for _, fd := range comp {
		par := core.Parents(fd)
		closures := localClosures(inf, fd)
		ast.Inspect(fd.Body, func(n ast.Node) bool {
			call, ok := n.(*ast.CallExpr)
			if !ok {
				return true
			}
			var target ast.Node
			if f := core.Callee(inf, call); f != nil && bodyOf[f.Origin()] != nil {
				target = bodyOf[f.Origin()].Body
			} else if id, ok := core.Unparen(call.Fun).(*ast.Ident); ok {
				if fl := closures[inf.Uses[id]]; fl != nil {
					target = fl.Body
				}
			}
			if target == nil {
				return true
			}
			for _, a := range call.Args {
				var entry types.Object
				if id, ok := core.Unparen(a).(*ast.Ident); ok {
					entry = joinOfEntryName(inf, fd, core.ObjOf(inf, id))
				} else if j, ok := core.Unparen(a).(*ast.CallExpr); ok && core.IsFunc(core.Callee(inf, j), "path/filepath", "Join") && len(j.Args) >= 2 {
					if nc, ok := core.Unparen(j.Args[len(j.Args)-1]).(*ast.CallExpr); ok {
						if sel, ok := core.Unparen(nc.Fun).(*ast.SelectorExpr); ok && sel.Sel.Name == "Name" {
							entry = core.ObjOf(inf, sel.X)
						}
					}
				}
				if entry != nil {
					out = append(out, descent{in: fd, call: call, entry: entry, target: target, par: par})
					break
				}
			}
			return true
		})
	}
	return out
}

func (d descent) underIsDir(inf *types.Info) bool {
	return core.GuardedByFact(inf, d.par, core.EnclosingStmt(d.par, d.call), func(fa core.Fact) bool {
		hc, ok := core.Unparen(fa.Expr).(*ast.CallExpr)
		if !ok || !fa.Val {
			return false
		}
		sel, ok := core.Unparen(hc.Fun).(*ast.SelectorExpr)
		return ok && sel.Sel.Name == "IsDir" && core.ObjOf(inf, sel.X) == d.entry
	}, nil)
}

func runR204(c *core.Ctx) {
	const rel = "codegen/utils"
	inf := info(c, rel)
	cf, fd := mustDecl(c, rel, "CleanTargetDir")
	comp := cleanerComponent(c, rel, cf)
	rec, okRec := 0, true
	for _, d := range cleanerDescents(c, rel, comp) {
		rec++
		if !d.underIsDir(inf) {
			okRec = false
		}
	}
	c.Check(rec > 0 && okRec, rel, "CleanTargetDir", "recursion only into entries that are directories", fd.Pos(), "", fmt.Sprintf("%d recursive calls, all under IsDir(): %v", rec, okRec))
	// the listing is re-read after the cleaning loop: in every function (or closure) of the cleaner that loops over a
	// directory listing, os.ReadDir is called again after the loop
	loops, stale := 0, 0
	isReadDir := func(e ast.Expr) bool {
		call, ok := core.Unparen(e).(*ast.CallExpr)
		if !ok {
			return false
		}
		f := core.Callee(inf, call)
		return core.IsFunc(f, "os", "ReadDir") || core.IsFunc(f, "io/ioutil", "ReadDir")
	}
	for _, cfd := range comp {
		listings := map[types.Object]bool{}
		ast.Inspect(cfd.Body, func(n ast.Node) bool {
			if as, ok := n.(*ast.AssignStmt); ok && len(as.Rhs) == 1 && len(as.Lhs) >= 1 && isReadDir(as.Rhs[0]) {
				if o := core.ObjOf(inf, as.Lhs[0]); o != nil {
					listings[o] = true
				}
			}
			return true
		})
		// every body of the function: its own and those of its function literals
		bodies := []*ast.BlockStmt{cfd.Body}
		for _, fl := range core.AllFuncLits(cfd.Body) {
			bodies = append(bodies, fl.Body)
		}
		for _, body := range bodies {
			var sweeps []*ast.RangeStmt
			core.WalkNoFuncLit(body, func(n ast.Node) bool {
				if rs, ok := n.(*ast.RangeStmt); ok && (listings[core.ObjOf(inf, rs.X)] || isReadDir(rs.X)) {
					sweeps = append(sweeps, rs)
				}
				return true
			})
			if len(sweeps) == 0 {
				continue
			}
			loops += len(sweeps)
			isSweep := map[ast.Stmt]bool{}
			for _, rs := range sweeps {
				isSweep[rs] = true
			}
			// path property: once a sweep loop has been left, the directory itself (a path that is not a joined entry
			// name) is removed only after os.ReadDir ran again
			bad := false
			core.NewFlow(c.M, inf, body).Run(&core.Automaton{
				Block: func(st int, b *cfg.Block) int {
					if b.Kind == cfg.KindRangeDone && isSweep[b.Stmt] {
						return 1
					}
					return st
				},
				Node: func(st int, n ast.Node) int {
					for _, call := range core.CallsIn(n) {
						if isReadDir(call) {
							st = 0
						}
						if core.IsFunc(core.Callee(inf, call), "os", "Remove") && len(call.Args) == 1 && st == 1 {
							if id, ok := core.Unparen(call.Args[0]).(*ast.Ident); ok && joinOfEntryName(inf, cfd, core.ObjOf(inf, id)) == nil {
								bad = true
							}
						}
					}
					return st
				},
			})
			if bad {
				stale++
			}
		}
	}
	c.Check(loops > 0 && stale == 0, rel, "CleanTargetDir", "directory is re-listed after cleaning before it may be removed", fd.Pos(), "", "the emptiness test after the loop uses the stale listing")
}

func enclosingFuncLit(par map[ast.Node]ast.Node, n ast.Node) *ast.FuncLit {
	for p := par[n]; p != nil; p = par[p] {
		if fl, ok := p.(*ast.FuncLit); ok {
			return fl
		}
	}
	return nil
}

// manifestConst is the constant naming the one non-Go file the generator owns
// (ManifestFile in v2, ParsedSpecsFile in the root module).
func manifestConst(c *core.Ctx) types.Object {
	if o := c.M.LookupObj("codegen/utils", "ManifestFile"); o != nil {
		return o
	}
	return mustObj(c, "codegen/utils", "ParsedSpecsFile")
}
