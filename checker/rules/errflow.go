package rules

import (
	"go/ast"
	"go/types"

	"verif/checker/core"
)

// errFlow follows, on every path of fd, the error produced by a call selected by isSource:
//
//	propagated — on the branch where the error is known to be non-nil a return mentions it (or the call's results are
//	             returned directly), on every such path;
//	lost       — some path overwrites the error while it is untested / non-nil, or returns something else while it is non-nil;
//	early      — positions of nodes selected by isEvent that are reachable before the error was tested nil.
//
// The test may be written in any form the fact engine understands (if / else, if-init, early return, switch, tagged
// switch on the error), and the call may sit in a helper that was folded into fd.
type errFlowResult struct {
	sources    int
	propagated bool
	lost       bool
	early      []ast.Node
}

func errFlow(c *core.Ctx, inf *types.Info, fd *ast.FuncDecl, isSource func(*ast.CallExpr) bool, isEvent func(ast.Node) bool) errFlowResult {
	var res errFlowResult
	// sources: assignments whose single right-hand side is a selected call, and returns of such a call
	srcErr := map[ast.Node]types.Object{}
	ast.Inspect(fd.Body, func(n ast.Node) bool {
		switch x := n.(type) {
		case *ast.AssignStmt:
			if len(x.Rhs) == 1 {
				if call, ok := core.Unparen(x.Rhs[0]).(*ast.CallExpr); ok && isSource(call) {
					if o := core.ObjOf(inf, x.Lhs[len(x.Lhs)-1]); o != nil && core.IsErrorType(o.Type()) {
						srcErr[x] = o
						res.sources++
					}
				}
			}
		case *ast.ReturnStmt:
			for _, r := range x.Results {
				if call, ok := core.Unparen(r).(*ast.CallExpr); ok && isSource(call) {
					res.sources++
					res.propagated = true
				}
			}
		}
		return true
	})
	if len(srcErr) == 0 {
		return res
	}
	okAny, lost := false, false
	seenEarly := map[ast.Node]bool{}
	for src, errObj := range srcErr {
		src, errObj := src, errObj
		// 0 before the call, 1 untested, 2 known non-nil, 3 known nil
		core.NewFlow(c.M, inf, fd.Body).Run(&core.Automaton{
			Init: 0,
			Node: func(st int, n ast.Node) int {
				if n == src {
					return 1
				}
				if isEvent != nil && st != 3 {
					core.WalkNoFuncLit(n, func(m ast.Node) bool {
						if isEvent(m) && !seenEarly[m] {
							seenEarly[m] = true
							res.early = append(res.early, m)
						}
						return true
					})
				}
				switch x := n.(type) {
				case *ast.AssignStmt:
					for _, l := range x.Lhs {
						if core.ObjOf(inf, l) == errObj && (st == 1 || st == 2) {
							if st == 2 {
								lost = true
							}
							return 0
						}
					}
				case *ast.ReturnStmt:
					if st == 2 {
						ret := len(x.Results) == 0 // named result
						for _, r := range x.Results {
							if mentions(inf, r, errObj) {
								ret = true
							}
						}
						if ret {
							okAny = true
						} else {
							lost = true
						}
					}
				}
				return st
			},
			Edge: func(st int, facts []core.Fact) (int, bool) {
				for _, f := range facts {
					if e, nonNil, ok := core.NilTest(inf, f); ok && core.ObjOf(inf, e) == errObj {
						switch st {
						case 1:
							if nonNil {
								return 2, true
							}
							return 3, true
						case 2:
							if !nonNil {
								return st, false
							}
						case 3:
							if nonNil {
								return st, false
							}
						}
					}
				}
				return st, true
			},
		})
	}
	res.propagated = res.propagated || okAny
	res.lost = lost
	return res
}
