package rules

import (
	"go/ast"
	"go/token"
	"go/types"
	"sort"
	"strings"

	"golang.org/x/tools/go/packages"

	"verif/checker/core"
)

// genType is one type declared in a generated package, with its methods.
type genType struct {
	Kind    string // record, setfields, union, enum, fixed, typeref, complexkey, params, other
	Pkg     *packages.Package
	Rel     string
	Name    string
	Named   *types.Named
	Spec    *ast.TypeSpec
	Methods map[string]*ast.FuncDecl
	Fields  []genField
}

type genField struct {
	Name     string
	Var      *types.Var
	Embedded bool
}

func (g *genType) inf() *types.Info { return g.Pkg.TypesInfo }

// genModel extracts the declared types of a generated module.
func genModel(c *core.Ctx) []*genType {
	var out []*genType
	for _, p := range c.M.Roots {
		if p.Name == "main" {
			continue
		}
		rel := c.M.Rel(p.PkgPath)
		byName := map[string]*genType{}
		for _, f := range p.Syntax {
			if !strings.HasSuffix(c.M.Fset.File(f.Pos()).Name(), ".gr.go") {
				continue // hand-written overlay files (custom typerefs)
			}
			for _, d := range f.Decls {
				switch x := d.(type) {
				case *ast.GenDecl:
					if x.Tok != token.TYPE {
						continue
					}
					for _, sp := range x.Specs {
						ts := sp.(*ast.TypeSpec)
						obj, _ := p.TypesInfo.Defs[ts.Name].(*types.TypeName)
						if obj == nil {
							continue
						}
						named, _ := obj.Type().(*types.Named)
						if named == nil {
							continue
						}
						g := &genType{Pkg: p, Rel: rel, Name: ts.Name.Name, Named: named, Spec: ts, Methods: map[string]*ast.FuncDecl{}}
						if st, ok := named.Underlying().(*types.Struct); ok {
							for i := 0; i < st.NumFields(); i++ {
								fv := st.Field(i)
								g.Fields = append(g.Fields, genField{Name: core.NameOf(fv), Var: fv, Embedded: fv.Embedded()})
							}
						}
						byName[g.Name] = g
						out = append(out, g)
					}
				}
			}
		}
		for _, f := range p.Syntax {
			for _, d := range f.Decls {
				fd, ok := d.(*ast.FuncDecl)
				if !ok || fd.Recv == nil || fd.Body == nil {
					continue
				}
				recv := core.DeclName(fd)
				tn := strings.TrimSuffix(strings.TrimPrefix(strings.TrimPrefix(recv, "(*"), "("), "")
				if i := strings.Index(tn, ")"); i >= 0 {
					tn = tn[:i]
				} else if i := strings.Index(tn, "."); i >= 0 {
					tn = tn[:i]
				}
				if g := byName[tn]; g != nil {
					g.Methods[fd.Name.Name] = fd
				}
			}
		}
	}
	for _, g := range out {
		has := func(m string) bool { return g.Methods[m] != nil }
		_, isStruct := g.Named.Underlying().(*types.Struct)
		switch {
		case isStruct && has("ValidateUnionFields"):
			g.Kind = "union"
		case isStruct && strings.HasSuffix(g.Name, "_PartialUpdate_Set_Fields"):
			g.Kind = "setfields"
		case isStruct && strings.Contains(g.Name, "_PartialUpdate"):
			g.Kind = "partial"
		case isStruct && has("ComplexKeyEquals"):
			g.Kind = "complexkey"
		case isStruct && has("MarshalFields") && has("UnmarshalField") && has("Equals"):
			g.Kind = "record"
		case isStruct && has("EncodeQueryParams"):
			g.Kind = "params"
		case !isStruct && has("IsValid") && has("MarshalRestLi"):
			g.Kind = "enum"
		case !isStruct && has("MarshalRestLi"):
			if _, isArr := g.Named.Underlying().(*types.Array); isArr {
				g.Kind = "fixed"
			} else {
				g.Kind = "typeref"
			}
		default:
			g.Kind = "other"
		}
	}
	sort.Slice(out, func(i, j int) bool {
		if out[i].Rel != out[j].Rel {
			return out[i].Rel < out[j].Rel
		}
		return out[i].Name < out[j].Name
	})
	return out
}

// manifestTypes indexes the manifest's inputDataTypes by "namespace.name".
type manifestType struct {
	Kind      string
	Name, NS  string
	Raw       map[string]interface{}
	Fields    []map[string]interface{}
	Includes  []string // "namespace.name"
	Symbols   []string
	Size      float64
	Members   []map[string]interface{}
	ParamsRef string
}

func manifestIndex(c *core.Ctx) map[string]*manifestType {
	out := map[string]*manifestType{}
	if c.Corpus == nil {
		return out
	}
	idts, _ := c.Corpus.Manifest["inputDataTypes"].([]interface{})
	for _, e := range idts {
		m, _ := e.(map[string]interface{})
		for kind, v := range m {
			body, _ := v.(map[string]interface{})
			if body == nil {
				continue
			}
			mt := &manifestType{Kind: kind, Raw: body}
			mt.Name, _ = body["name"].(string)
			mt.NS, _ = body["namespace"].(string)
			if fs, ok := body["fields"].([]interface{}); ok {
				for _, f := range fs {
					if fm, ok := f.(map[string]interface{}); ok {
						mt.Fields = append(mt.Fields, fm)
					}
				}
			}
			if incs, ok := body["includes"].([]interface{}); ok {
				for _, i := range incs {
					if im, ok := i.(map[string]interface{}); ok {
						n, _ := im["name"].(string)
						ns, _ := im["namespace"].(string)
						mt.Includes = append(mt.Includes, ns+"."+n)
					}
				}
			}
			if syms, ok := body["symbols"].([]interface{}); ok {
				for _, s := range syms {
					switch sv := s.(type) {
					case string:
						mt.Symbols = append(mt.Symbols, sv)
					case map[string]interface{}:
						if n, ok := sv["name"].(string); ok {
							mt.Symbols = append(mt.Symbols, n)
						}
					}
				}
			}
			if symsDoc, ok := body["symbolToDoc"].(map[string]interface{}); ok && len(mt.Symbols) == 0 {
				for s := range symsDoc {
					mt.Symbols = append(mt.Symbols, s)
				}
			}
			if sz, ok := body["size"].(float64); ok {
				mt.Size = sz
			}
			out[mt.NS+"."+mt.Name] = mt
		}
	}
	return out
}

// manifestFor finds the manifest entry of a generated type: the namespace is
// the package path relative to the module root with "/" for ".".
func manifestFor(idx map[string]*manifestType, g *genType) *manifestType {
	ns := strings.ReplaceAll(g.Rel, "/", ".")
	if mt := idx[ns+"."+g.Name]; mt != nil {
		return mt
	}
	// conflict resolution may move a type to another package: match by name if unique
	var found *manifestType
	n := 0
	for _, mt := range idx {
		if mt.Name == g.Name {
			found = mt
			n++
		}
	}
	if n == 1 {
		return found
	}
	return nil
}

// recvSelFields lists the receiver's fields mentioned in node n (b.F or b.F.G -> F).
func recvSelFields(inf *types.Info, recv types.Object, n ast.Node) []string {
	seen := map[string]bool{}
	var out []string
	ast.Inspect(n, func(x ast.Node) bool {
		sel, ok := x.(*ast.SelectorExpr)
		if !ok {
			return true
		}
		if id, ok := core.Unparen(sel.X).(*ast.Ident); ok && core.ObjOf(inf, id) == recv && recv != nil {
			if fv, ok := core.ObjOf(inf, sel).(*types.Var); ok && fv.IsField() && !seen[core.NameOf(fv)] {
				seen[core.NameOf(fv)] = true
				out = append(out, core.NameOf(fv))
			}
		}
		return true
	})
	return out
}

// codecTokens maps the codec-related names mentioned in n to a normalised
// token sequence, so that the marshal and the unmarshal side can be compared.
func codecTokens(n ast.Node) []string {
	var toks []string
	ast.Inspect(n, func(x ast.Node) bool {
		var name string
		switch y := x.(type) {
		case *ast.SelectorExpr:
			name = y.Sel.Name
		case *ast.Ident:
			name = y.Name
		default:
			return true
		}
		if t := codecToken(name); t != "" {
			toks = append(toks, t)
		}
		return true
	})
	return toks
}

func codecToken(name string) string {
	switch name {
	case "WriteArray", "ReadArray":
		return "Array"
	case "WriteMap", "ReadMap", "WriteGenericMap":
		return "Map"
	case "MarshalRestLi", "UnmarshalRestLi":
		return "Obj"
	case "MarshalFields", "UnmarshalField":
		return "Fields"
	case "WriteCustomTyperef", "ReadCustomTyperef", "MarshalCustomTyperef", "UnmarshalCustomTyperef":
		return "Custom"
	}
	for _, pre := range []string{"Write", "Read"} {
		if strings.HasPrefix(name, pre) {
			switch suf := strings.TrimPrefix(name, pre); suf {
			case "Int", "Int32", "Int64", "Float32", "Float64", "Bool", "String", "Bytes", "RawBytes":
				return suf
			}
		}
	}
	return ""
}
