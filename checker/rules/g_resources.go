package rules

import (
	"fmt"
	"go/ast"
	"go/constant"
	"go/token"
	"go/types"
	"sort"
	"strings"

	"golang.org/x/tools/go/packages"

	"verif/checker/core"
)

func init() {
	core.Register(&core.Rule{
		ID: "R02.3", Generated: true,
		Title: "generated resource paths: writer and reader are dual, root and segments agree",
		Text: "For every generated resource-path struct: ResourcePath() writes, after each constant segment, the key fields in declaration order; UnmarshalResourcePath reads the same fields from segments[0..n-1] in the same order with the dual codec; " +
			"RootResource() returns the first constant path segment; RegisterResource's ResourcePathSegment list names the same segments in order, with isCollection exactly where a key follows.",
		Props: []string{"C02", "C05", "C15"},
		Floor: map[string]int{"corpus": 4},
		Run:   runR023,
	})
	core.Register(&core.Rule{
		ID: "R02.4", Generated: true,
		Title: "generated client methods and registrations pair up and pass keys in order",
		Text: "For every generated resource package: the set of restli.Register* calls in RegisterResource corresponds one-to-one (by the runtime's client/Register pairing) to the restli client functions the generated client calls; " +
			"each registration closure invokes the resource interface with ctx, then the path keys rp.<key> in path order, then exactly its own decoded parameters, and returns that call's results.",
		Props: []string{"C02"},
		Floor: map[string]int{"corpus": 4},
		Run:   runR024,
	})
	core.Register(&core.Rule{
		ID: "R07.5", Generated: true,
		Title: "the right exclusion spec reaches the right call on both sides",
		Text: "Generated Create / BatchCreate (client call and registration) pass ReadOnlyFields; Update, PartialUpdate, BatchUpdate, BatchPartialUpdate pass CreateAndReadOnlyFields; " +
			"the NewPathSpec literals equal the manifest's readOnlyFields and readOnlyFields ∪ createOnlyFields (leading '/' ignored).",
		Props: []string{"C07"},
		Floor: map[string]int{"corpus": 4},
		Run:   runR075,
	})
	core.Register(&core.Rule{
		ID: "R07.6", Generated: true,
		Title: "partial updates check every field before anything is written or accepted",
		Text: "For every generated _PartialUpdate: CheckFields calls CheckField once per record field (and delegates to included records); MarshalRestLiPatch calls CheckFields before the first key is written; " +
			"UnmarshalRestLiPatch calls CheckFields on the success path after reading.",
		Props: []string{"C07", "C11"},
		Floor: map[string]int{"corpus": 10},
		Run:   runR076,
	})
	core.Register(&core.Rule{
		ID: "R11.4", Generated: true,
		Title: "partial updates cannot delete required fields; every field has a delete case",
		Text: "For every generated Delete_Fields struct: UnmarshalDeleteField has a case for every field of the record — NewFieldCannotBeDeletedError for required fields, assignment of true for optional/defaulted ones — and returns the no-such-field sentinel by default; " +
			"the struct has members only for deletable fields.",
		Props: []string{"C11"},
		Floor: map[string]int{"corpus": 10},
		Run:   runR114,
	})
}

// resourcePkgs: generated packages that declare RegisterResource.
func resourcePkgs(c *core.Ctx) []*packages.Package {
	var out []*packages.Package
	for _, p := range c.M.Roots {
		if p.Types.Scope().Lookup("RegisterResource") != nil {
			out = append(out, p)
		}
	}
	return out
}

func declOf(p *packages.Package, recv, name string) *ast.FuncDecl {
	for _, f := range p.Syntax {
		for _, d := range f.Decls {
			fd, ok := d.(*ast.FuncDecl)
			if !ok || fd.Name.Name != name || fd.Body == nil {
				continue
			}
			if recv == "" && fd.Recv == nil {
				return fd
			}
			if recv != "" && fd.Recv != nil && strings.Contains(core.DeclName(fd), recv+")") {
				return fd
			}
		}
	}
	return nil
}

type pathWrite struct {
	segs   []string // constant segments
	fields []string // key fields written, in order
	toks   [][]string
}

func runR023(c *core.Ctx) {
	if c.Corpus.Failure != "" {
		return
	}
	for _, p := range resourcePkgs(c) {
		rel := c.M.Rel(p.PkgPath)
		inf := p.TypesInfo
		var rootLits []string
		for _, tn := range []string{"ResourcePath", "ResourceEntityPath"} {
			obj := p.Types.Scope().Lookup(tn)
			if obj == nil {
				continue
			}
			w := declOf(p, tn, "ResourcePath")
			r := declOf(p, tn, "UnmarshalResourcePath")
			rr := declOf(p, tn, "RootResource")
			if w == nil || r == nil || rr == nil {
				c.Bad(rel, tn, "path struct has writer, reader and root", obj.Pos(), "ResourcePath / UnmarshalResourcePath / RootResource missing")
				continue
			}
			recv := recvObj(inf, w)
			var pw pathWrite
			for _, st := range w.Body.List {
				var call *ast.CallExpr
				switch x := st.(type) {
				case *ast.ExprStmt:
					call, _ = x.X.(*ast.CallExpr)
				case *ast.AssignStmt:
					if len(x.Rhs) == 1 {
						call, _ = core.Unparen(x.Rhs[0]).(*ast.CallExpr)
					}
				}
				if call == nil {
					continue
				}
				cf := core.Callee(inf, call)
				if cf != nil && core.NameOf(cf) == "RawPathSegment" && len(call.Args) == 1 {
					if cv := core.ConstOf(inf, call.Args[0]); cv != nil {
						pw.segs = append(pw.segs, constant.StringVal(cv))
					}
					continue
				}
				if fs := recvSelFields(inf, recv, call); len(fs) == 1 {
					if toks := codecTokens(call); len(toks) > 0 {
						pw.fields = append(pw.fields, fs[0])
						pw.toks = append(pw.toks, toks)
					}
				}
			}
			// reader: segments[i] in increasing order, field i
			rrecv := recvObj(inf, r)
			type rd struct {
				idx   int64
				field string
				toks  []string
			}
			var reads []rd
			ast.Inspect(r.Body, func(n ast.Node) bool {
				as, ok := n.(*ast.AssignStmt)
				if !ok {
					return true
				}
				var idx int64 = -1
				ast.Inspect(as, func(m ast.Node) bool {
					if ix, ok := m.(*ast.IndexExpr); ok {
						if cv := core.ConstOf(inf, ix.Index); cv != nil {
							idx, _ = constant.Int64Val(cv)
						}
					}
					return true
				})
				if idx < 0 {
					return true
				}
				fs := recvSelFields(inf, rrecv, as)
				if len(fs) == 1 {
					reads = append(reads, rd{idx, fs[0], codecTokens(as)})
				}
				return true
			})
			var problems []string
			// struct field order
			var declared []string
			if st, ok := obj.Type().Underlying().(*types.Struct); ok {
				for i := 0; i < st.NumFields(); i++ {
					declared = append(declared, core.NameOf(st.Field(i)))
				}
			}
			if strings.Join(pw.fields, ",") != strings.Join(declared, ",") {
				problems = append(problems, fmt.Sprintf("keys written %v, declared %v", pw.fields, declared))
			}
			if len(reads) != len(declared) {
				problems = append(problems, fmt.Sprintf("%d keys declared, %d read", len(declared), len(reads)))
			}
			for i, rdv := range reads {
				if int(rdv.idx) != i {
					problems = append(problems, fmt.Sprintf("key %s is read from segments[%d], expected [%d]", rdv.field, rdv.idx, i))
				}
				if i < len(pw.fields) {
					if rdv.field != pw.fields[i] {
						problems = append(problems, fmt.Sprintf("position %d: written from %s, read into %s", i, pw.fields[i], rdv.field))
					}
					if strings.Join(rdv.toks, ",") != strings.Join(pw.toks[i], ",") {
						problems = append(problems, fmt.Sprintf("key %s written as %v, read as %v", rdv.field, pw.toks[i], rdv.toks))
					}
				}
			}
			// root
			root := ""
			for _, ret := range core.ReturnsIn(rr.Body) {
				if len(ret.Results) == 1 {
					if cv := core.ConstOf(inf, ret.Results[0]); cv != nil {
						root = constant.StringVal(cv)
					}
				}
			}
			first := ""
			if len(pw.segs) > 0 {
				first = strings.Split(strings.TrimPrefix(pw.segs[0], "/"), "/")[0]
			}
			if root == "" || root != first {
				problems = append(problems, fmt.Sprintf("RootResource() is %q, the path starts with %q", root, first))
			}
			if tn == "ResourcePath" || rootLits == nil {
				rootLits = pw.segs
			}
			sort.Strings(problems)
			c.Check(len(problems) == 0, rel, tn, "path writer and reader are dual; root is the first segment", obj.Pos(), fmt.Sprintf("%d keys", len(declared)), strings.Join(problems, "; "))
		}
		// RegisterResource segments vs the path literal of ResourcePath (the collection/simple path without entity key)
		reg := declOf(p, "", "RegisterResource")
		if reg == nil {
			continue
		}
		var names []string
		ast.Inspect(reg.Body, func(n ast.Node) bool {
			if call, ok := n.(*ast.CallExpr); ok {
				if cf := core.Callee(inf, call); cf != nil && core.NameOf(cf) == "NewResourcePathSegment" && len(call.Args) == 2 {
					if cv := core.ConstOf(inf, call.Args[0]); cv != nil {
						names = append(names, constant.StringVal(cv))
					}
				}
			}
			return true
		})
		var pathNames []string
		for _, seg := range rootLits {
			for _, part := range strings.Split(seg, "/") {
				if part != "" {
					pathNames = append(pathNames, part)
				}
			}
		}
		c.Check(len(names) > 0 && strings.Join(names, "/") == strings.Join(pathNames, "/"), rel, "RegisterResource", "registered path segments equal the client's path segments", reg.Pos(), strings.Join(names, "/"),
			fmt.Sprintf("server registers %v, client path is %v", names, pathNames))
	}
}

var registerToClient = map[string]string{
	"RegisterGet": "Get", "RegisterCreate": "Create", "RegisterCreateWithReturnEntity": "CreateWithReturnEntity", "RegisterUpdate": "Update",
	"RegisterPartialUpdate": "PartialUpdate", "RegisterPartialUpdateWithReturnEntity": "PartialUpdateWithReturnEntity", "RegisterDelete": "Delete",
	"RegisterGetAll": "GetAll", "RegisterFinder": "Find", "RegisterFinderWithMetadata": "FindWithMetadata",
	"RegisterBatchGet": "BatchGet", "RegisterBatchCreate": "BatchCreate", "RegisterBatchCreateWithReturnEntity": "BatchCreateWithReturnEntity",
	"RegisterBatchDelete": "BatchDelete", "RegisterBatchUpdate": "BatchUpdate", "RegisterBatchPartialUpdate": "BatchPartialUpdate",
	"RegisterAction": "DoActionRequest", "RegisterActionWithResults": "DoActionRequestWithResults",
}

func runR024(c *core.Ctx) {
	if c.Corpus.Failure != "" {
		return
	}
	restliPath := "github.com/PapaCharlie/go-restli/v2/restli"
	for _, p := range resourcePkgs(c) {
		rel := c.M.Rel(p.PkgPath)
		inf := p.TypesInfo
		reg := declOf(p, "", "RegisterResource")
		if reg == nil {
			continue
		}
		// registrations
		regs := map[string]int{}
		var resourceParam types.Object
		if len(reg.Type.Params.List) == 2 {
			resourceParam = inf.Defs[reg.Type.Params.List[1].Names[0]]
		}
		var problems []string
		ast.Inspect(reg.Body, func(n ast.Node) bool {
			call, ok := n.(*ast.CallExpr)
			if !ok {
				return true
			}
			cf := core.Callee(inf, call)
			if cf == nil || cf.Pkg() == nil || cf.Pkg().Path() != restliPath || !strings.HasPrefix(core.NameOf(cf), "Register") {
				return true
			}
			regs[core.NameOf(cf)]++
			// closure: last argument
			fl, ok := core.Unparen(call.Args[len(call.Args)-1]).(*ast.FuncLit)
			if !ok {
				problems = append(problems, core.NameOf(cf)+": implementation adapter is not a closure")
				return true
			}
			var names []*ast.Ident
			for _, pl := range fl.Type.Params.List {
				names = append(names, pl.Names...)
			}
			params := map[types.Object]int{}
			for i, nm := range names {
				params[inf.Defs[nm]] = i
			}
			// the single resource.<M>(...) call
			var rc *ast.CallExpr
			ast.Inspect(fl.Body, func(m ast.Node) bool {
				if cc, ok := m.(*ast.CallExpr); ok {
					if sel, ok := core.Unparen(cc.Fun).(*ast.SelectorExpr); ok && core.ObjOf(inf, sel.X) == resourceParam && resourceParam != nil {
						rc = cc
					}
				}
				return true
			})
			if rc == nil {
				problems = append(problems, core.NameOf(cf)+": the closure does not call the resource implementation")
				return true
			}
			// args: ctx (param 0), then rp.<keys> in declaration order, then remaining params in order
			lastKeyIdx, lastParam := -1, 0
			for i, a := range rc.Args {
				a = core.Unparen(a)
				if i == 0 {
					if params[core.ObjOf(inf, a)] != 0 || core.ObjOf(inf, a) != inf.Defs[names[0]] {
						problems = append(problems, core.NameOf(cf)+": first argument is not the request context")
					}
					continue
				}
				if sel, ok := a.(*ast.SelectorExpr); ok {
					if pi, isParam := params[core.ObjOf(inf, sel.X)]; isParam && pi == 1 {
						// key field of the path struct: order = field index
						if fv, ok := core.ObjOf(inf, sel).(*types.Var); ok {
							idx := fieldIndex(inf.Types[sel.X].Type, fv)
							if idx <= lastKeyIdx {
								problems = append(problems, fmt.Sprintf("%s: path key %s is passed out of order", core.NameOf(cf), core.NameOf(fv)))
							}
							lastKeyIdx = idx
							if lastParam > 1 {
								problems = append(problems, core.NameOf(cf)+": a path key follows a body/parameter argument")
							}
							continue
						}
					}
					// qp.keys / v.Elements style projections of a later parameter
					if r := rootIdent(a); r != nil {
						if pi, ok := params[core.ObjOf(inf, r)]; ok && pi >= lastParam {
							lastParam = pi
							continue
						}
					}
					problems = append(problems, fmt.Sprintf("%s: argument %s is not a decoded value of this request", core.NameOf(cf), core.ExprString(a)))
					continue
				}
				if pi, ok := params[core.ObjOf(inf, a)]; ok && pi >= 2 && pi >= lastParam {
					lastParam = pi
					continue
				}
				problems = append(problems, fmt.Sprintf("%s: argument %s is out of order or not a decoded value", core.NameOf(cf), core.ExprString(a)))
			}
			// the closure returns the call's results
			returned := false
			for _, r := range core.ReturnsIn(fl.Body) {
				for _, res := range r.Results {
					if core.Unparen(res) == ast.Expr(rc) {
						returned = true
					}
				}
			}
			if !returned {
				// `x, err := resource.M(...)` then return x…: accept when results flow to a return
				ast.Inspect(fl.Body, func(m ast.Node) bool {
					if as, ok := m.(*ast.AssignStmt); ok && len(as.Rhs) == 1 && core.Unparen(as.Rhs[0]) == ast.Expr(rc) {
						returned = true
					}
					return true
				})
			}
			if !returned {
				problems = append(problems, core.NameOf(cf)+": the implementation's result is not returned")
			}
			return true
		})
		// client calls
		clients := map[string]int{}
		for _, f := range p.Syntax {
			ast.Inspect(f, func(n ast.Node) bool {
				call, ok := n.(*ast.CallExpr)
				if !ok {
					return true
				}
				cf := core.Callee(inf, call)
				if cf == nil || cf.Pkg() == nil || cf.Pkg().Path() != restliPath {
					return true
				}
				for _, cn := range registerToClient {
					if core.NameOf(cf) == cn {
						clients[cn]++
					}
				}
				return true
			})
		}
		for rn, n := range regs {
			cn, ok := registerToClient[rn]
			if !ok {
				problems = append(problems, "unknown registration "+rn)
				continue
			}
			if clients[cn] != n {
				problems = append(problems, fmt.Sprintf("%d × %s on the server but %d × restli.%s in the client", n, rn, clients[cn], cn))
			}
		}
		for cn, n := range clients {
			found := false
			for rn, c2 := range registerToClient {
				if c2 == cn && regs[rn] == n {
					found = true
				}
			}
			if !found {
				problems = append(problems, fmt.Sprintf("client calls restli.%s %d times without matching registrations", cn, n))
			}
		}
		sort.Strings(problems)
		c.Check(len(problems) == 0, rel, "RegisterResource", "client methods and registrations pair up; keys and parameters pass through in order", reg.Pos(), fmt.Sprintf("%d registrations", len(regs)), strings.Join(dedupe(problems), "; "))
	}
}

func fieldIndex(t types.Type, fv *types.Var) int {
	if p, ok := t.(*types.Pointer); ok {
		t = p.Elem()
	}
	if st, ok := t.Underlying().(*types.Struct); ok {
		for i := 0; i < st.NumFields(); i++ {
			if st.Field(i) == fv {
				return i
			}
		}
	}
	return -1
}

var specOfMethod = map[string]string{
	"Create": "ReadOnlyFields", "CreateWithReturnEntity": "ReadOnlyFields", "BatchCreate": "ReadOnlyFields", "BatchCreateWithReturnEntity": "ReadOnlyFields",
	"Update": "CreateAndReadOnlyFields", "PartialUpdate": "CreateAndReadOnlyFields", "PartialUpdateWithReturnEntity": "CreateAndReadOnlyFields",
	"BatchUpdate": "CreateAndReadOnlyFields", "BatchPartialUpdate": "CreateAndReadOnlyFields",
}

func runR075(c *core.Ctx) {
	if c.Corpus.Failure != "" {
		return
	}
	restliPath := "github.com/PapaCharlie/go-restli/v2/restli"
	// manifest resources by namespace
	type mres struct{ ro, co []string }
	byNS := map[string]mres{}
	if rs, ok := c.Corpus.Manifest["resources"].([]interface{}); ok {
		for _, r := range rs {
			rm, _ := r.(map[string]interface{})
			ns, _ := rm["namespace"].(string)
			var m mres
			for _, x := range toStrings(rm["readOnlyFields"]) {
				m.ro = append(m.ro, strings.TrimPrefix(x, "/"))
			}
			for _, x := range toStrings(rm["createOnlyFields"]) {
				m.co = append(m.co, strings.TrimPrefix(x, "/"))
			}
			byNS[ns] = m
		}
	}
	for _, p := range resourcePkgs(c) {
		rel := c.M.Rel(p.PkgPath)
		inf := p.TypesInfo
		var problems []string
		n := 0
		for _, f := range p.Syntax {
			ast.Inspect(f, func(x ast.Node) bool {
				call, ok := x.(*ast.CallExpr)
				if !ok {
					return true
				}
				cf := core.Callee(inf, call)
				if cf == nil || cf.Pkg() == nil || cf.Pkg().Path() != restliPath {
					return true
				}
				name := strings.TrimPrefix(core.NameOf(cf), "Register")
				want, ok := specOfMethod[name]
				if !ok {
					return true
				}
				n++
				// find the PathSpec-typed argument
				got := ""
				for _, a := range call.Args {
					if tv, ok := inf.Types[a]; ok {
						if nt, ok := tv.Type.(*types.Named); ok && core.NameOf(nt.Obj()) == "PathSpec" {
							if o := core.ObjOf(inf, a); o != nil {
								got = core.NameOf(o)
							} else {
								got = core.ExprString(a)
							}
						}
					}
				}
				if got != want && got != "NoExcludedFields" {
					problems = append(problems, fmt.Sprintf("%s passes %s, expected %s", core.NameOf(cf), got, want))
				}
				if got == "NoExcludedFields" {
					if m, ok := byNS[strings.ReplaceAll(rel, "/", ".")]; ok {
						relevant := len(m.ro)
						if want == "CreateAndReadOnlyFields" {
							relevant += len(m.co)
						}
						if relevant > 0 {
							problems = append(problems, fmt.Sprintf("%s passes NoExcludedFields although the resource declares fields excluded for this method", core.NameOf(cf)))
						}
					}
				}
				return true
			})
		}
		// literals vs manifest
		if m, ok := byNS[strings.ReplaceAll(rel, "/", ".")]; ok {
			lits := func(varName string) ([]string, bool) {
				obj := p.Types.Scope().Lookup(varName)
				if obj == nil {
					return nil, false
				}
				var out []string
				for _, f := range p.Syntax {
					ast.Inspect(f, func(x ast.Node) bool {
						if vs, ok := x.(*ast.ValueSpec); ok {
							for i, id := range vs.Names {
								if inf.Defs[id] == obj && i < len(vs.Values) {
									if call, ok := vs.Values[i].(*ast.CallExpr); ok {
										for _, a := range call.Args {
											if cv := core.ConstOf(inf, a); cv != nil {
												out = append(out, strings.TrimPrefix(constant.StringVal(cv), "/"))
											}
										}
									}
								}
							}
						}
						return true
					})
				}
				return out, true
			}
			cmp := func(varName string, want []string) {
				got, declared := lits(varName)
				if !declared {
					if len(want) > 0 {
						problems = append(problems, varName+" is not declared although the manifest lists fields")
					}
					return
				}
				a, b := append([]string{}, got...), dedupe(append([]string{}, want...))
				sort.Strings(a)
				sort.Strings(b)
				if strings.Join(a, ",") != strings.Join(b, ",") {
					problems = append(problems, fmt.Sprintf("%s = %v, manifest says %v", varName, a, b))
				}
			}
			cmp("ReadOnlyFields", m.ro)
			cmp("CreateAndReadOnlyFields", append(append([]string{}, m.ro...), m.co...))
		}
		sort.Strings(problems)
		if n == 0 && len(problems) == 0 {
			continue
		}
		c.Check(len(problems) == 0, rel, "resource", "writing methods pass the exclusion spec of their kind; specs equal the manifest", token.NoPos, fmt.Sprintf("%d calls", n), strings.Join(dedupe(problems), "; "))
	}
}

func toStrings(v interface{}) []string {
	var out []string
	if l, ok := v.([]interface{}); ok {
		for _, x := range l {
			if s, ok := x.(string); ok {
				out = append(out, s)
			}
		}
	}
	return out
}

func runR076(c *core.Ctx) {
	if c.Corpus.Failure != "" {
		return
	}
	model := genModel(c)
	records := map[string]*genType{}
	for _, g := range model {
		if g.Kind == "record" {
			records[g.Rel+"."+g.Name] = g
		}
	}
	for _, g := range model {
		if g.Kind != "partial" || !strings.HasSuffix(g.Name, "_PartialUpdate") {
			continue
		}
		inf := g.inf()
		rec := records[g.Rel+"."+strings.TrimSuffix(g.Name, "_PartialUpdate")]
		var problems []string
		cf := g.Methods["CheckFields"]
		if cf == nil {
			problems = append(problems, "CheckFields missing")
		} else if rec != nil {
			// one CheckField call per own field (by wire name), plus delegation per include
			wires := map[string]int{}
			delegations := 0
			ast.Inspect(cf.Body, func(n ast.Node) bool {
				call, ok := n.(*ast.CallExpr)
				if !ok {
					return true
				}
				f := core.Callee(inf, call)
				if f == nil {
					return true
				}
				switch core.NameOf(f) {
				case "CheckField":
					if len(call.Args) >= 2 {
						if cv := core.ConstOf(inf, call.Args[1]); cv != nil {
							wires[constant.StringVal(cv)]++
						}
					}
				case "CheckFields":
					delegations++
				}
				return true
			})
			if mf := rec.Methods["MarshalFields"]; mf != nil {
				entries, incs := marshalTable(rec, mf)
				for _, e := range entries {
					if wires[e.key] != 1 {
						problems = append(problems, fmt.Sprintf("field %s is checked %d times", e.key, wires[e.key]))
					}
				}
				nInc := 0
				for _, i := range incs {
					if !strings.Contains(i, "EmptyRecord") {
						nInc++
					}
				}
				if delegations < nInc {
					problems = append(problems, fmt.Sprintf("%d included records but %d delegated CheckFields calls", nInc, delegations))
				}
			}
		}
		if mp := g.Methods["MarshalRestLiPatch"]; mp == nil {
			problems = append(problems, "MarshalRestLiPatch missing")
		} else {
			var chk, firstKey token.Pos
			ast.Inspect(mp.Body, func(n ast.Node) bool {
				call, ok := n.(*ast.CallExpr)
				if !ok {
					return true
				}
				if f := core.Callee(inf, call); f != nil && core.NameOf(f) == "CheckFields" && chk == 0 {
					chk = call.Pos()
				}
				if id, ok := core.Unparen(call.Fun).(*ast.Ident); ok && len(call.Args) == 1 && firstKey == 0 {
					if v, ok := core.ObjOf(inf, id).(*types.Var); ok {
						if _, isSig := v.Type().Underlying().(*types.Signature); isSig && core.ConstOf(inf, call.Args[0]) != nil {
							firstKey = call.Pos()
						}
					}
				}
				return true
			})
			if chk == 0 || (firstKey != 0 && chk > firstKey) {
				problems = append(problems, "MarshalRestLiPatch writes a key before CheckFields (an illegal patch is partially emitted / sent)")
			}
		}
		if up := g.Methods["UnmarshalRestLiPatch"]; up == nil {
			problems = append(problems, "UnmarshalRestLiPatch missing")
		} else {
			var read, chk token.Pos
			ast.Inspect(up.Body, func(n ast.Node) bool {
				if call, ok := n.(*ast.CallExpr); ok {
					if f := core.Callee(inf, call); f != nil {
						if core.NameOf(f) == "ReadMap" && read == 0 {
							read = call.Pos()
						}
						if core.NameOf(f) == "CheckFields" && enclosingFuncLitOf(up, call) == nil {
							chk = call.Pos()
						}
					}
				}
				return true
			})
			if chk == 0 || chk < read {
				problems = append(problems, "UnmarshalRestLiPatch does not call CheckFields after reading the patch")
			}
		}
		sort.Strings(problems)
		c.Check(len(problems) == 0, g.Rel, g.Name, "every field is checked once, before writing and after reading", g.Spec.Pos(), "", strings.Join(dedupe(problems), "; "))
	}
}

func runR114(c *core.Ctx) {
	if c.Corpus.Failure != "" {
		return
	}
	model := genModel(c)
	records := map[string]*genType{}
	for _, g := range model {
		if g.Kind == "record" {
			records[g.Rel+"."+g.Name] = g
		}
	}
	for _, g := range model {
		if !strings.HasSuffix(g.Name, "_PartialUpdate_Delete_Fields") {
			continue
		}
		inf := g.inf()
		rec := records[g.Rel+"."+strings.TrimSuffix(g.Name, "_PartialUpdate_Delete_Fields")]
		ud := g.Methods["UnmarshalDeleteField"]
		if rec == nil || ud == nil {
			continue
		}
		var problems []string
		// classify record fields: required (non-pointer, or pointer-to-struct without nil guard) vs optional
		required := map[string]bool{}
		wires := []string{}
		if mf := rec.Methods["MarshalFields"]; mf != nil {
			entries, _ := marshalTable(rec, mf)
			for _, e := range entries {
				wires = append(wires, e.key)
				required[e.key] = !e.guard
			}
		}
		cases := map[string]string{}
		hasDefault := false
		ast.Inspect(ud.Body, func(n ast.Node) bool {
			cc, ok := n.(*ast.CaseClause)
			if !ok {
				return true
			}
			if cc.List == nil {
				for _, s := range cc.Body {
					if r, ok := s.(*ast.ReturnStmt); ok && len(r.Results) == 1 {
						if sel, ok := core.Unparen(r.Results[0]).(*ast.SelectorExpr); ok && sel.Sel.Name == "NoSuchFieldErr" {
							hasDefault = true
						}
					}
				}
				return true
			}
			for _, ce := range cc.List {
				cv := core.ConstOf(inf, ce)
				if cv == nil {
					continue
				}
				kind := "other"
				for _, s := range cc.Body {
					switch st := s.(type) {
					case *ast.ReturnStmt:
						if len(st.Results) == 1 {
							if call, ok := core.Unparen(st.Results[0]).(*ast.CallExpr); ok {
								if f := core.Callee(inf, call); f != nil && core.NameOf(f) == "NewFieldCannotBeDeletedError" {
									kind = "cannot"
								}
							}
						}
					case *ast.AssignStmt:
						if len(st.Rhs) == 1 {
							if v := core.ConstOf(inf, st.Rhs[0]); v != nil && v.ExactString() == "true" {
								kind = "delete"
							}
						}
					}
				}
				cases[constant.StringVal(cv)] = kind
			}
			return true
		})
		for _, w := range wires {
			k, ok := cases[w]
			switch {
			case !ok:
				problems = append(problems, "field "+w+" has no case (deleting it is reported as an unknown field)")
			case required[w] && k != "cannot":
				problems = append(problems, "required field "+w+" can be deleted")
			case !required[w] && k != "delete":
				problems = append(problems, "optional field "+w+" cannot be deleted")
			}
		}
		if !hasDefault {
			problems = append(problems, "unknown field names are not reported with the no-such-field sentinel")
		}
		// struct members only for deletable fields
		nOpt := 0
		for _, w := range wires {
			if !required[w] {
				nOpt++
			}
		}
		own := 0
		for _, f := range g.Fields {
			if !f.Embedded {
				own++
			}
		}
		if own != nOpt {
			problems = append(problems, fmt.Sprintf("%d deletable fields but %d delete flags", nOpt, own))
		}
		sort.Strings(problems)
		c.Check(len(problems) == 0, g.Rel, g.Name, "every field has a delete case of the right kind", g.Spec.Pos(), fmt.Sprintf("%d fields", len(wires)), strings.Join(problems, "; "))
	}
}
