package rules

import (
	"bytes"
	"encoding/json"
	"fmt"
	"go/ast"
	"go/constant"
	"go/token"
	"go/types"
	"os"
	"path/filepath"
	"sort"
	"strconv"
	"strings"

	"verif/checker/core"
)

func init() {
	core.Register(&core.Rule{
		ID: "R12.1", Generated: true, GeneratedRoot: true,
		Title: "generator output type-checks against the current runtime",
		Text: "Every corpus manifest (and the checked-in manifest) is generated with the current tree's generator and loaded with go/packages against the current runtime: zero type errors, no import cycle, no duplicate declaration. " +
			"In the thorough tier the manifests under corpus/v2/failing (recorded generator defects) are generated too; each is reported as a known finding while it still fails. A second generator run must produce byte-identical files.",
		Props: []string{"C12", "C09"},
		Floor: map[string]int{"corpus": 5},
		Run:   runR121,
	})
	core.Register(&core.Rule{
		ID: "R12.2", Generated: true,
		Title: "checked-in bindings equal the current generator's output",
		Text:  "Regenerating v2/restlidata/generated/go-restli-manifest.gr.json with the current generator yields *.gr.go files byte-identical to the checked-in ones (same set of files, same bytes).",
		Props: []string{"C12"},
		Floor: map[string]int{"corpus": 1},
		Run:   runR122,
	})
	core.Register(&core.Rule{
		ID: "R01.5", Generated: true,
		Title: "marshal / unmarshal tables of every generated record are dual",
		Text: "For each generated record and partial-update Set_Fields struct: from MarshalFields extract per statement (wire key literal, struct field, codec token sequence, nil-guard), from UnmarshalField per case (key literal, field, token sequence, allocation). " +
			"Required: same key set; each key maps to the same field on both sides; token sequences equal under the Write/Read, Marshal/Unmarshal duality (Int32, String, Array, Map, Obj, nested); every struct field and embedded include occurs exactly once per side; " +
			"pointer fields are nil-guarded when written and allocated before being read.",
		Props: []string{"C01", "C02"},
		Floor: map[string]int{"corpus": 30},
		Run:   runR015,
	})
	core.Register(&core.Rule{
		ID: "R06.4", Generated: true,
		Title: "required-field lists are exact",
		Text: "For every generated record the <T>RequiredFields initialiser is NewRequiredFields(<one list per embedded include>).Add(<exactly the wire names of the fields whose Go type is not a pointer>), " +
			"and that set equals the manifest's fields that are neither optional nor defaulted.",
		Props: []string{"C06", "C13"},
		Floor: map[string]int{"corpus": 15},
		Run:   runR064,
	})
	core.Register(&core.Rule{
		ID: "R10.1", Generated: true, GeneratedRoot: true,
		Title: "generated Equals compares every field, with an operator fit for its type",
		Text:  "For every generated record, union and complex key: Equals mentions every struct field and embedded include on both sides (receiver and other); a direct == between fields is used only for non-pointer comparable basic types (never for pointers, slices or maps).",
		Props: []string{"C10"},
		Floor: map[string]int{"corpus": 20},
		Run:   runR101,
	})
	core.Register(&core.Rule{
		ID: "R10.2", Generated: true, GeneratedRoot: true,
		Title: "hash folds a subset of what Equals compares, under nil tests",
		Text:  "For every generated record and union: every field folded into ComputeHash is compared by Equals (a field hashed but not compared breaks Equal => same hash); pointer-typed fields are dereferenced only under their nil test; ComputeHash contains no map range.",
		Props: []string{"C10"},
		Floor: map[string]int{"corpus": 20},
		Run:   runR102,
	})
	core.Register(&core.Rule{
		ID: "R13.1", Generated: true,
		Title: "defaults are applied with the declared literal and never override",
		Text: "For every manifest field with a defaultValue: populateLocalDefaultValues of its record assigns that field only under `field == nil`, and the assigned value is — for primitives, enums, typerefs — a constant equal to the manifest literal, " +
			"for bytes/fixed the same byte sequence, and for records, unions, arrays, maps a decode of a string literal JSON-equal to the manifest's default (an empty container only for [] / {}).",
		Props: []string{"C13", "C01"},
		Floor: map[string]int{"corpus": 15},
		Run:   runR131,
	})
	core.Register(&core.Rule{
		ID: "R13.2", Generated: true,
		Title: "decoding and construction reach every default, including inherited ones",
		Text: "For every record whose transitive include closure (or itself) declares a default: every success path of UnmarshalRestLi calls populateLocalDefaultValues of each record of that closure that declares one, after the fields were read; " +
			"New<T>WithDefaultValues exists and does the same.",
		Props: []string{"C13", "C01"},
		Floor: map[string]int{"corpus": 8},
		Run:   runR132,
	})
	core.Register(&core.Rule{
		ID: "R13.3", Generated: true, GeneratedRoot: true,
		Title: "default values are never shared between instances",
		Text:  "populateLocalDefaultValues references no package-level variable: every assigned value is the address of a local, new(…), a composite literal or the result of a decode into a fresh target.",
		Props: []string{"C13", "C01"},
		Floor: map[string]int{"corpus": 8},
		Run:   runR133,
	})
	core.Register(&core.Rule{
		ID: "R11.1", Generated: true,
		Title: "unions: exactly-one (at-most-one if nullable) on both sides, every alias has a case, unknown members rejected",
		Text: "For every generated union: ValidateUnionFields and MarshalRestLi test every member for non-nil and return an error on a second set member (and on none unless nullable); UnmarshalRestLi returns an error on a second key, " +
			"on zero keys unless nullable, has a case for every member alias of the manifest which allocates the member it reads, and does not accept an unknown member key silently (default clause returning an error).",
		Props: []string{"C11"},
		Floor: map[string]int{"corpus": 4},
		Run:   runR111,
	})
	core.Register(&core.Rule{
		ID: "R11.2", Generated: true, GeneratedRoot: true,
		Title: "fixed: the length test dominates the copy",
		Text:  "For every generated fixed type: UnmarshalRestLi compares len(data) with the declared array length and returns an error before copy; the marshaler writes the whole array (f[:]).",
		Props: []string{"C11", "C04"},
		Floor: map[string]int{"corpus": 2},
		Run:   runR112,
	})
	core.Register(&core.Rule{
		ID: "R11.3", Generated: true, GeneratedRoot: true,
		Title: "enums: only declared symbols are written; unknown symbols decode to the unknown value",
		Text: "For every generated enum: the _values and _strings literals are inverse bijections over exactly the manifest's symbols; MarshalRestLi returns IllegalEnumConstant on the not-found edge before anything is written; " +
			"UnmarshalRestLi assigns the _values lookup (zero = the unknown constant, which is not in _strings); IsValid's bounds equal the number of symbols.",
		Props: []string{"C11", "C10"},
		Floor: map[string]int{"corpus": 2},
		Run:   runR113,
	})
	core.Register(&core.Rule{
		ID: "R09.4", Generated: true, GeneratedRoot: true,
		Title: "generated code never iterates a map into a shared sink",
		Text:  "R09.1's classifier over every generated package: maps are serialised only through WriteMap / WriteGenericMap / AddMap (which sort), query parameters only through the BuildQueryParams callback.",
		Props: []string{"C09"},
		Floor: map[string]int{"corpus": 3},
		Run:   runR094,
	})
	core.Register(&core.Rule{
		ID: "R06.3G", Generated: true,
		Title: "generated record decoders skip unknown fields",
		Text:  "R06.3 over every generated package of the corpus: each ReadRecord callback returns Skip() (or the interpreted sentinel) on the unknown-key path.",
		Props: []string{"C06", "C03"},
		Floor: map[string]int{"corpus": 20},
		Run:   runR063G,
	})
}

func corpusName(c *core.Ctx) string {
	if c.Corpus != nil {
		return c.Corpus.Name
	}
	return c.M.Name
}

func runR121(c *core.Ctx) {
	cp := c.Corpus
	construct := "manifest " + cp.Name + " generates bindings that type-check"
	if cp.Failure != "" {
		c.Bad("-", "-", construct, token.NoPos, cp.Failure)
	} else {
		c.OK("-", "-", construct, token.NoPos, fmt.Sprintf("%d packages", len(c.M.Roots)))
	}
	if c.Tier == "thorough" && cp.Failure == "" || cp.SecondRunDiff != "" {
		c.Check(cp.SecondRunDiff == "", "-", "-", "manifest "+cp.Name+": two generator runs produce identical files", token.NoPos, "", "file "+cp.SecondRunDiff+" differs between two runs of the same generator on the same manifest")
	}
}

func runR122(c *core.Ctx) {
	if c.Corpus.Name != "checked-in" {
		return
	}
	if c.Corpus.Failure != "" {
		return // reported by R12.1
	}
	checked := filepath.Join(core.RepoRoot, "v2", "restlidata", "generated")
	gen := c.Corpus.OutDir
	collect := func(root string) map[string][]byte {
		m := map[string][]byte{}
		filepath.Walk(root, func(p string, info os.FileInfo, err error) error {
			if err != nil || info.IsDir() || !strings.HasSuffix(p, ".gr.go") || strings.HasSuffix(p, "all_imports_test.gr.go") {
				return nil
			}
			rel, _ := filepath.Rel(root, p)
			b, _ := os.ReadFile(p)
			m[rel] = b
			return nil
		})
		return m
	}
	a, b := collect(checked), collect(gen)
	var names []string
	for n := range a {
		names = append(names, n)
	}
	for n := range b {
		if _, ok := a[n]; !ok {
			names = append(names, n)
		}
	}
	sort.Strings(names)
	if len(names) == 0 {
		c.Unknown("restlidata/generated", "-", "checked-in bindings", token.NoPos, "no *.gr.go files found")
		return
	}
	for _, n := range names {
		x, okx := a[n]
		y, oky := b[n]
		switch {
		case !okx:
			c.Bad("restlidata/generated", "-", "file "+n+" identical to regenerated output", token.NoPos, "the current generator produces this file but it is not checked in")
		case !oky:
			c.Bad("restlidata/generated", "-", "file "+n+" identical to regenerated output", token.NoPos, "checked in but no longer produced by the current generator")
		case !bytes.Equal(x, y):
			line := 1
			for i := 0; i < len(x) && i < len(y) && x[i] == y[i]; i++ {
				if x[i] == '\n' {
					line++
				}
			}
			c.Bad("restlidata/generated", "-", "file "+n+" identical to regenerated output", token.NoPos, fmt.Sprintf("first difference at line %d: the checked-in bindings are stale with respect to the current generator", line))
		default:
			c.OK("restlidata/generated", "-", "file "+n+" identical to regenerated output", token.NoPos, fmt.Sprintf("%d bytes", len(x)))
		}
	}
}

// ---- R01.5 ---------------------------------------------------------------

type codecEntry struct {
	key    string
	fields []string
	toks   []string
	guard  bool // marshal: nil-guarded; unmarshal: allocated
	pos    token.Pos
}

func literalKey(inf *types.Info, n ast.Node) (string, bool) {
	key, ok := "", false
	ast.Inspect(n, func(x ast.Node) bool {
		call, isCall := x.(*ast.CallExpr)
		if !isCall || len(call.Args) != 1 {
			return true
		}
		if id, isID := core.Unparen(call.Fun).(*ast.Ident); isID {
			if v, isVar := core.ObjOf(inf, id).(*types.Var); isVar {
				if sig, isSig := v.Type().Underlying().(*types.Signature); isSig && sig.Params().Len() == 1 && sig.Results().Len() == 1 {
					if cv := core.ConstOf(inf, call.Args[0]); cv != nil && cv.Kind() == constant.String && !ok {
						key, ok = constant.StringVal(cv), true
					}
				}
			}
		}
		return true
	})
	return key, ok
}

func marshalTable(g *genType, fd *ast.FuncDecl) (entries []codecEntry, includes []string) {
	inf := g.inf()
	recv := recvObj(inf, fd)
	for _, s := range fd.Body.List {
		if _, ok := s.(*ast.ReturnStmt); ok {
			continue
		}
		key, hasKey := literalKey(inf, s)
		if !hasKey {
			// include delegation: b.C.MarshalFields(keyWriter)
			ast.Inspect(s, func(x ast.Node) bool {
				if call, ok := x.(*ast.CallExpr); ok {
					if sel, ok := core.Unparen(call.Fun).(*ast.SelectorExpr); ok && sel.Sel.Name == "MarshalFields" {
						for _, f := range recvSelFields(inf, recv, sel.X) {
							includes = append(includes, f)
						}
					}
				}
				return true
			})
			continue
		}
		e := codecEntry{key: key, fields: recvSelFields(inf, recv, s), toks: codecTokens(s), pos: s.Pos()}
		if ifs, ok := s.(*ast.IfStmt); ok {
			for _, f := range core.Decompose(ifs.Cond, true, nil) {
				if _, nonNil, ok := core.NilTest(inf, f); ok && nonNil {
					e.guard = true
				}
			}
		}
		entries = append(entries, e)
	}
	return
}

func unmarshalTable(g *genType, fd *ast.FuncDecl) (entries []codecEntry, includes []string) {
	inf := g.inf()
	recv := recvObj(inf, fd)
	ast.Inspect(fd.Body, func(n ast.Node) bool {
		switch x := n.(type) {
		case *ast.CallExpr:
			if sel, ok := core.Unparen(x.Fun).(*ast.SelectorExpr); ok && sel.Sel.Name == "UnmarshalField" {
				for _, f := range recvSelFields(inf, recv, sel.X) {
					includes = append(includes, f)
				}
			}
		case *ast.CaseClause:
			for _, ce := range x.List {
				cv := core.ConstOf(inf, ce)
				if cv == nil || cv.Kind() != constant.String {
					continue
				}
				e := codecEntry{key: constant.StringVal(cv), pos: x.Pos()}
				for _, s := range x.Body {
					e.fields = append(e.fields, recvSelFields(inf, recv, s)...)
					e.toks = append(e.toks, codecTokens(s)...)
					if as, ok := s.(*ast.AssignStmt); ok && len(as.Rhs) == 1 {
						if call, ok := core.Unparen(as.Rhs[0]).(*ast.CallExpr); ok {
							if id, ok := core.Unparen(call.Fun).(*ast.Ident); ok && id.Name == "new" {
								e.guard = true
							}
						}
					}
				}
				e.fields = dedupe(e.fields)
				entries = append(entries, e)
			}
			return false
		}
		return true
	})
	return
}

func dedupe(in []string) []string {
	seen := map[string]bool{}
	var out []string
	for _, s := range in {
		if !seen[s] {
			seen[s] = true
			out = append(out, s)
		}
	}
	return out
}

func runR015(c *core.Ctx) {
	if c.Corpus.Failure != "" {
		return
	}
	for _, g := range genModel(c) {
		if g.Kind != "record" && g.Kind != "setfields" {
			continue
		}
		mf, uf := g.Methods["MarshalFields"], g.Methods["UnmarshalField"]
		if mf == nil || uf == nil {
			c.Bad(g.Rel, g.Name, "has MarshalFields and UnmarshalField", g.Spec.Pos(), "one of the two codec methods is missing")
			continue
		}
		m, mInc := marshalTable(g, mf)
		u, uInc := unmarshalTable(g, uf)
		mBy, uBy := map[string]codecEntry{}, map[string]codecEntry{}
		var problems []string
		for _, e := range m {
			if _, dup := mBy[e.key]; dup {
				problems = append(problems, "key "+e.key+" written twice")
			}
			mBy[e.key] = e
		}
		for _, e := range u {
			if _, dup := uBy[e.key]; dup {
				problems = append(problems, "key "+e.key+" read by two cases")
			}
			uBy[e.key] = e
		}
		for k, me := range mBy {
			ue, ok := uBy[k]
			if !ok {
				problems = append(problems, "key "+k+" is written but has no case in UnmarshalField")
				continue
			}
			if len(me.fields) != 1 || len(ue.fields) != 1 || me.fields[0] != ue.fields[0] {
				problems = append(problems, fmt.Sprintf("key %s: written from %v, read into %v", k, me.fields, ue.fields))
			}
			if strings.Join(me.toks, ",") != strings.Join(ue.toks, ",") {
				problems = append(problems, fmt.Sprintf("key %s: written as %v, read as %v", k, me.toks, ue.toks))
			}
		}
		for k := range uBy {
			if _, ok := mBy[k]; !ok {
				problems = append(problems, "key "+k+" is read but never written")
			}
		}
		// field coverage and pointer discipline
		covered := map[string]int{}
		for _, e := range m {
			for _, f := range e.fields {
				covered[f]++
			}
		}
		for _, f := range mInc {
			covered[f]++
		}
		for _, f := range g.Fields {
			if covered[f.Name] != 1 {
				problems = append(problems, fmt.Sprintf("field %s is marshaled %d times", f.Name, covered[f.Name]))
			}
			if f.Embedded {
				inU := false
				for _, i := range uInc {
					if i == f.Name {
						inU = true
					}
				}
				if !inU {
					problems = append(problems, "include "+f.Name+" is not delegated to in UnmarshalField")
				}
				continue
			}
			_, isPtr := f.Var.Type().(*types.Pointer)
			for _, e := range m {
				if len(e.fields) == 1 && e.fields[0] == f.Name && isPtr && !e.guard {
					// record-typed required fields are pointers to structs: a nil check is not generated for them
					if !pointsToGeneratedStruct(f.Var.Type()) {
						problems = append(problems, "optional field "+f.Name+" is written without a nil test")
					}
				}
			}
			for _, e := range u {
				if len(e.fields) == 1 && e.fields[0] == f.Name && isPtr && !e.guard && !pointsToGeneratedStruct(f.Var.Type()) {
					problems = append(problems, "pointer field "+f.Name+" is read without being allocated")
				}
			}
		}
		sort.Strings(problems)
		if len(problems) > 0 {
			c.Bad(g.Rel, g.Name, "marshal and unmarshal tables are dual", g.Spec.Pos(), strings.Join(problems, "; "))
		} else {
			c.OK(g.Rel, g.Name, "marshal and unmarshal tables are dual", g.Spec.Pos(), fmt.Sprintf("%d keys, %d includes", len(mBy), len(mInc)))
		}
	}
}

func pointsToGeneratedStruct(t types.Type) bool {
	p, ok := t.(*types.Pointer)
	if !ok {
		return false
	}
	n, ok := p.Elem().(*types.Named)
	if !ok {
		return false
	}
	switch n.Underlying().(type) {
	case *types.Struct, *types.Array:
		return true
	}
	return false
}

// ---- R06.4 ---------------------------------------------------------------

func runR064(c *core.Ctx) {
	if c.Corpus.Failure != "" {
		return
	}
	idx := manifestIndex(c)
	for _, g := range genModel(c) {
		if g.Kind != "record" {
			continue
		}
		inf := g.inf()
		obj := g.Pkg.Types.Scope().Lookup(g.Name + "RequiredFields")
		if obj == nil {
			c.Bad(g.Rel, g.Name, "required-field list is exact", g.Spec.Pos(), g.Name+"RequiredFields is not declared")
			continue
		}
		// find the initialiser
		var initExpr ast.Expr
		for _, f := range g.Pkg.Syntax {
			ast.Inspect(f, func(n ast.Node) bool {
				if vs, ok := n.(*ast.ValueSpec); ok {
					for i, id := range vs.Names {
						if inf.Defs[id] == obj && i < len(vs.Values) {
							initExpr = vs.Values[i]
						}
					}
				}
				return true
			})
		}
		if initExpr == nil {
			c.Unknown(g.Rel, g.Name, "required-field list is exact", g.Spec.Pos(), "initialiser not found")
			continue
		}
		added := map[string]bool{}
		incLists := 0
		ast.Inspect(initExpr, func(n ast.Node) bool {
			call, ok := n.(*ast.CallExpr)
			if !ok {
				return true
			}
			if sel, ok := core.Unparen(call.Fun).(*ast.SelectorExpr); ok {
				switch sel.Sel.Name {
				case "Add":
					for _, a := range call.Args {
						if cv := core.ConstOf(inf, a); cv != nil && cv.Kind() == constant.String {
							added[constant.StringVal(cv)] = true
						}
					}
				case "NewRequiredFields":
					incLists = len(call.Args)
				}
			}
			return true
		})
		// wire name -> field via the marshal table
		var problems []string
		want := map[string]bool{}
		if mf := g.Methods["MarshalFields"]; mf != nil {
			entries, _ := marshalTable(g, mf)
			for _, e := range entries {
				if len(e.fields) != 1 {
					continue
				}
				for _, f := range g.Fields {
					if f.Name == e.fields[0] {
						if _, isPtr := f.Var.Type().(*types.Pointer); !isPtr || (pointsToGeneratedStruct(f.Var.Type()) && !e.guard) {
							want[e.key] = true
						}
					}
				}
			}
		}
		for k := range want {
			if !added[k] {
				problems = append(problems, "required field "+k+" is missing from the list (its absence would go unreported)")
			}
		}
		for k := range added {
			if !want[k] {
				problems = append(problems, "field "+k+" is listed as required but its Go type is optional (it would be reported missing)")
			}
		}
		nInc := 0
		for _, f := range g.Fields {
			if f.Embedded {
				nInc++
			}
		}
		if incLists != nInc {
			problems = append(problems, fmt.Sprintf("%d included records but %d included required lists", nInc, incLists))
		}
		// manifest cross-check
		if mt := manifestFor(idx, g); mt != nil && mt.Kind == "record" {
			mwant := map[string]bool{}
			for _, f := range mt.Fields {
				opt, _ := f["isOptional"].(bool)
				_, hasDef := f["defaultValue"]
				if dv, ok := f["defaultValue"].(string); ok && dv == "" {
					hasDef = false
				}
				if f["defaultValue"] == nil {
					hasDef = false
				}
				if !opt && !hasDef {
					mwant[f["name"].(string)] = true
				}
			}
			for k := range mwant {
				if !added[k] {
					problems = append(problems, "schema-required field "+k+" is not in the list")
				}
			}
			for k := range added {
				if !mwant[k] {
					problems = append(problems, "listed field "+k+" is optional or defaulted in the schema")
				}
			}
		}
		sort.Strings(problems)
		problems = dedupe(problems)
		c.Check(len(problems) == 0, g.Rel, g.Name, "required-field list is exact", initExpr.Pos(), fmt.Sprintf("%d required, %d included lists", len(added), incLists), strings.Join(problems, "; "))
	}
}

// ---- R10.1 / R10.2 -------------------------------------------------------

func otherParam(inf *types.Info, fd *ast.FuncDecl) types.Object {
	if len(fd.Type.Params.List) == 1 && len(fd.Type.Params.List[0].Names) == 1 {
		return inf.Defs[fd.Type.Params.List[0].Names[0]]
	}
	return nil
}

func runR101(c *core.Ctx) {
	if c.Corpus.Failure != "" {
		return
	}
	for _, g := range genModel(c) {
		if g.Kind != "record" && g.Kind != "union" && g.Kind != "complexkey" {
			continue
		}
		eq := g.Methods["Equals"]
		if eq == nil {
			c.Bad(g.Rel, g.Name, "Equals covers every field", g.Spec.Pos(), "no Equals method")
			continue
		}
		inf := g.inf()
		recv, other := recvObj(inf, eq), otherParam(inf, eq)
		mine := map[string]bool{}
		theirs := map[string]bool{}
		for _, f := range recvSelFields(inf, recv, eq.Body) {
			mine[f] = true
		}
		for _, f := range recvSelFields(inf, other, eq.Body) {
			theirs[f] = true
		}
		var problems []string
		for _, f := range g.Fields {
			if !mine[f.Name] || !theirs[f.Name] {
				problems = append(problems, "field "+f.Name+" is not compared: values differing only there are Equal")
			}
		}
		// direct == only on comparable non-reference types
		ast.Inspect(eq.Body, func(n ast.Node) bool {
			be, ok := n.(*ast.BinaryExpr)
			if !ok || (be.Op != token.EQL && be.Op != token.NEQ) {
				return true
			}
			lf := recvSelFields(inf, recv, be.X)
			rf := recvSelFields(inf, other, be.Y)
			if len(lf) == 1 && len(rf) == 1 {
				t := inf.Types[be.X].Type
				switch t.Underlying().(type) {
				case *types.Pointer, *types.Slice, *types.Map, *types.Interface:
					problems = append(problems, "field "+lf[0]+" of type "+t.String()+" is compared with ==: identity, not value")
				}
			}
			return true
		})
		sort.Strings(problems)
		c.Check(len(problems) == 0, g.Rel, g.Name, "Equals covers every field with a value comparison", eq.Pos(), fmt.Sprintf("%d fields", len(g.Fields)), strings.Join(problems, "; "))
	}
}

func runR102(c *core.Ctx) {
	if c.Corpus.Failure != "" {
		return
	}
	for _, g := range genModel(c) {
		if g.Kind != "record" && g.Kind != "union" {
			continue
		}
		eq, h := g.Methods["Equals"], g.Methods["ComputeHash"]
		if eq == nil || h == nil {
			c.Bad(g.Rel, g.Name, "hash is consistent with Equals", g.Spec.Pos(), "Equals or ComputeHash is missing")
			continue
		}
		inf := g.inf()
		compared := map[string]bool{}
		for _, f := range recvSelFields(inf, recvObj(inf, eq), eq.Body) {
			compared[f] = true
		}
		hrecv := recvObj(inf, h)
		var problems []string
		for _, f := range recvSelFields(inf, hrecv, h.Body) {
			if !compared[f] {
				problems = append(problems, "field "+f+" is hashed but not compared by Equals: Equal values can have different hashes")
			}
		}
		par := core.Parents(h)
		ast.Inspect(h.Body, func(n ast.Node) bool {
			switch x := n.(type) {
			case *ast.StarExpr:
				sel, ok := core.Unparen(x.X).(*ast.SelectorExpr)
				if !ok {
					return true
				}
				if fs := recvSelFields(inf, hrecv, sel); len(fs) == 1 {
					guarded := core.GuardedByFact(inf, par, core.EnclosingStmt(par, x), func(f core.Fact) bool {
						e, nonNil, ok := core.NilTest(inf, f)
						return ok && nonNil && core.SameExpr(inf, e, sel)
					}, nil)
					if !guarded {
						problems = append(problems, "optional field "+fs[0]+" is dereferenced in ComputeHash without its nil test")
					}
				}
			case *ast.RangeStmt:
				if _, isMap := inf.Types[x.X].Type.Underlying().(*types.Map); isMap {
					problems = append(problems, "ComputeHash iterates a map directly (order-dependent hash)")
				}
			}
			return true
		})
		sort.Strings(problems)
		c.Check(len(problems) == 0, g.Rel, g.Name, "hash folds only compared fields, under nil tests, without map iteration", h.Pos(), "", strings.Join(dedupe(problems), "; "))
	}
}

// ---- R13 -----------------------------------------------------------------

// defaultBlocks maps field name -> the `if recv.F == nil { … }` block of populateLocalDefaultValues.
func defaultBlocks(g *genType) (map[string]*ast.IfStmt, []string) {
	fd := g.Methods["populateLocalDefaultValues"]
	out := map[string]*ast.IfStmt{}
	var unguarded []string
	if fd == nil {
		return out, nil
	}
	inf := g.inf()
	recv := recvObj(inf, fd)
	for _, s := range fd.Body.List {
		ifs, ok := s.(*ast.IfStmt)
		if !ok {
			// any assignment to a receiver field outside an if-nil block overrides present values
			for _, f := range recvSelFields(inf, recv, s) {
				unguarded = append(unguarded, f)
			}
			continue
		}
		okGuard := false
		var field string
		for _, f := range core.Decompose(ifs.Cond, true, nil) {
			if e, nonNil, ok := core.NilTest(inf, f); ok && !nonNil {
				if fs := recvSelFields(inf, recv, e); len(fs) == 1 {
					field, okGuard = fs[0], true
				}
			}
		}
		if !okGuard {
			for _, f := range recvSelFields(inf, recv, ifs.Body) {
				unguarded = append(unguarded, f)
			}
			continue
		}
		out[field] = ifs
		// assignments inside the block must target that field only
		for _, f := range recvSelFields(inf, recv, ifs.Body) {
			if f != field {
				unguarded = append(unguarded, f)
			}
		}
	}
	return out, unguarded
}

func jsonEqual(a, b string) bool {
	var x, y interface{}
	da := json.NewDecoder(strings.NewReader(a))
	da.UseNumber()
	db := json.NewDecoder(strings.NewReader(b))
	db.UseNumber()
	if da.Decode(&x) != nil || db.Decode(&y) != nil {
		return false
	}
	return jsonDeepEqual(x, y)
}

func jsonDeepEqual(x, y interface{}) bool {
	switch a := x.(type) {
	case map[string]interface{}:
		b, ok := y.(map[string]interface{})
		if !ok || len(a) != len(b) {
			return false
		}
		for k, v := range a {
			w, ok := b[k]
			if !ok || !jsonDeepEqual(v, w) {
				return false
			}
		}
		return true
	case []interface{}:
		b, ok := y.([]interface{})
		if !ok || len(a) != len(b) {
			return false
		}
		for i := range a {
			if !jsonDeepEqual(a[i], b[i]) {
				return false
			}
		}
		return true
	case json.Number:
		b, ok := y.(json.Number)
		if !ok {
			return false
		}
		fa, e1 := strconv.ParseFloat(a.String(), 64)
		fb, e2 := strconv.ParseFloat(b.String(), 64)
		return e1 == nil && e2 == nil && fa == fb
	default:
		return x == y
	}
}

// defaultMatches compares the generated default block of a field with the manifest literal.
func defaultMatches(mod *core.Module, g *genType, ifs *ast.IfStmt, manifestDefault string, isFloat32 bool) (bool, string) {
	inf := g.inf()
	var want interface{}
	dec := json.NewDecoder(strings.NewReader(manifestDefault))
	dec.UseNumber()
	if err := dec.Decode(&want); err != nil {
		return false, "manifest default is not JSON: " + manifestDefault
	}
	// decoded complex default: a string literal passed to NewJsonReader([]byte("…"))
	var decoded *string
	ast.Inspect(ifs.Body, func(n ast.Node) bool {
		if call, ok := n.(*ast.CallExpr); ok {
			if cf := core.Callee(inf, call); cf != nil && strings.HasPrefix(core.NameOf(cf), "NewJsonReader") && len(call.Args) >= 1 {
				if conv, ok := core.Unparen(call.Args[0]).(*ast.CallExpr); ok && len(conv.Args) == 1 {
					if cv := core.ConstOf(inf, conv.Args[0]); cv != nil && cv.Kind() == constant.String {
						s := constant.StringVal(cv)
						decoded = &s
					}
				}
			}
		}
		return true
	})
	switch w := want.(type) {
	case map[string]interface{}, []interface{}:
		if decoded != nil {
			if jsonEqual(*decoded, manifestDefault) {
				return true, "decodes " + *decoded
			}
			return false, fmt.Sprintf("decodes %s, the schema default is %s", *decoded, manifestDefault)
		}
		empty := false
		switch v := w.(type) {
		case map[string]interface{}:
			empty = len(v) == 0
		case []interface{}:
			empty = len(v) == 0
		}
		if empty {
			return true, "empty container"
		}
		return false, "the schema default " + manifestDefault + " is not decoded: the field gets an empty container"
	}
	// scalar: find the constant assigned in the block
	var consts []constant.Value
	var byteElems []int64
	ast.Inspect(ifs.Body, func(n ast.Node) bool {
		switch x := n.(type) {
		case *ast.CompositeLit:
			for _, el := range x.Elts {
				if cv := core.ConstOf(inf, el); cv != nil && cv.Kind() == constant.Int {
					v, _ := constant.Int64Val(cv)
					byteElems = append(byteElems, v)
				}
			}
			return false
		case ast.Expr:
			if cv := core.ConstOf(inf, x); cv != nil {
				consts = append(consts, cv)
				return false
			}
		}
		return true
	})
	switch w := want.(type) {
	case bool:
		for _, cv := range consts {
			if cv.Kind() == constant.Bool && constant.BoolVal(cv) == w {
				return true, fmt.Sprint(w)
			}
		}
	case json.Number:
		wf, _ := strconv.ParseFloat(w.String(), 64)
		for _, cv := range consts {
			if cv.Kind() == constant.Int || cv.Kind() == constant.Float {
				f, _ := constant.Float64Val(cv)
				if f == wf || (isFloat32 && float32(f) == float32(wf)) {
					return true, w.String()
				}
			}
		}
	case string:
		// a string constant converted to a byte slice yields its UTF-8 encoding, while the schema literal of a bytes /
		// fixed default holds one byte per character (<= U+00FF): the two agree for 7-bit text only
		var convProblem string
		ast.Inspect(ifs.Body, func(n ast.Node) bool {
			conv, ok := n.(*ast.CallExpr)
			if !ok || len(conv.Args) != 1 {
				return true
			}
			tv, isConv := inf.Types[conv.Fun]
			if !isConv || !tv.IsType() {
				return true
			}
			if sl, ok := tv.Type.Underlying().(*types.Slice); !ok || !types.Identical(sl.Elem().Underlying(), types.Typ[types.Byte]) {
				return true
			}
			if cv := core.ConstOf(inf, conv.Args[0]); cv != nil && cv.Kind() == constant.String {
				got := []byte(constant.StringVal(cv))
				var wantB []byte
				for _, r := range w {
					wantB = append(wantB, byte(r))
				}
				if string(got) != string(wantB) {
					convProblem = fmt.Sprintf("[]byte(%s) is % x (UTF-8), the schema default is the bytes % x", strconv.Quote(constant.StringVal(cv)), got, wantB)
				}
			}
			return true
		})
		if convProblem != "" {
			return false, convProblem
		}
		for _, cv := range consts {
			if cv.Kind() == constant.String && constant.StringVal(cv) == w {
				return true, strconv.Quote(w)
			}
		}
		// bytes / fixed: one element per rune
		runes := []rune(w)
		if len(byteElems) == len(runes) {
			same := true
			for i, r := range runes {
				if int64(r) != byteElems[i] {
					same = false
				}
			}
			if same {
				return true, fmt.Sprintf("%d bytes", len(runes))
			}
		}
		// enum symbol: a constant whose entry in its enum's _strings table is the symbol
		found := false
		ast.Inspect(ifs.Body, func(n ast.Node) bool {
			var k *types.Const
			switch x := n.(type) {
			case *ast.Ident:
				k, _ = inf.Uses[x].(*types.Const)
			case *ast.SelectorExpr:
				k, _ = inf.Uses[x.Sel].(*types.Const)
			}
			if k != nil && (strings.HasSuffix(core.NameOf(k), "_"+w) || enumSymbolOf(mod, k) == w) {
				found = true
			}
			return true
		})
		if found {
			return true, "enum symbol " + w
		}
		if w == "" && len(byteElems) == 0 {
			// empty bytes / empty string literal
			for _, cv := range consts {
				if cv.Kind() == constant.String && constant.StringVal(cv) == "" {
					return true, `""`
				}
			}
			return true, "empty bytes"
		}
	}
	return false, "the assigned constant does not equal the schema default " + manifestDefault
}

func runR131(c *core.Ctx) {
	if c.Corpus.Failure != "" {
		return
	}
	idx := manifestIndex(c)
	for _, g := range genModel(c) {
		if g.Kind != "record" {
			continue
		}
		mt := manifestFor(idx, g)
		if mt == nil || mt.Kind != "record" {
			continue
		}
		blocks, unguarded := defaultBlocks(g)
		if len(unguarded) > 0 {
			c.Bad(g.Rel, g.Name, "defaults never override a present value", g.Spec.Pos(), "fields assigned outside an `if field == nil` block: "+strings.Join(dedupe(unguarded), ", "))
		}
		// wire name -> Go field through the marshal table
		wire := map[string]string{}
		if mf := g.Methods["MarshalFields"]; mf != nil {
			entries, _ := marshalTable(g, mf)
			for _, e := range entries {
				if len(e.fields) == 1 {
					wire[e.key] = e.fields[0]
				}
			}
		}
		type dfield struct {
			f     map[string]interface{}
			owner string
		}
		var dfields []dfield
		for _, q := range includeClosure(idx, mt.NS+"."+mt.Name, map[string]bool{}) {
			if qm := idx[q]; qm != nil {
				for _, f := range qm.Fields {
					dfields = append(dfields, dfield{f, q})
				}
			}
		}
		for _, df := range dfields {
			f := df.f
			dv, ok := f["defaultValue"].(string)
			if !ok || dv == "" {
				continue
			}
			name, _ := f["name"].(string)
			goField := wire[name]
			own := df.owner == mt.NS+"."+mt.Name
			if !own {
				goField = exportedIdentifier(name)
			}
			construct := "default of field " + name + " equals the schema literal"
			if !own {
				construct = "inherited default of field " + name + " (declared in " + df.owner + ") equals the schema literal"
			}
			ifs := blocks[goField]
			if ifs == nil {
				if !own {
					continue // reachability of inherited defaults is R13.2's business
				}
				c.Bad(g.Rel, g.Name, construct, g.Spec.Pos(), "populateLocalDefaultValues has no `if field == nil` block for this defaulted field")
				continue
			}
			isF32 := false
			if tm, ok := f["type"].(map[string]interface{}); ok {
				isF32 = tm["primitive"] == "float32"
			}
			ok2, how := defaultMatches(c.M, g, ifs, dv, isF32)
			c.Check(ok2, g.Rel, g.Name, construct, ifs.Pos(), how, how)
		}
	}
}

// declaresDefault: record g (by manifest) has at least one defaulted field of its own.
func declaresDefault(mt *manifestType) bool {
	if mt == nil {
		return false
	}
	for _, f := range mt.Fields {
		if dv, ok := f["defaultValue"].(string); ok && dv != "" {
			return true
		}
	}
	return false
}

// exportedIdentifier mirrors codegen/utils.ExportedIdentifier (field name -> Go field name).
func exportedIdentifier(id string) string {
	var b strings.Builder
	for i, c := range id {
		switch {
		case c == '$':
			if i != 0 {
				b.WriteRune('_')
			}
			b.WriteString("DOLLAR_")
		case c == '_':
			if i == 0 {
				b.WriteString("Exported")
			}
			b.WriteRune(c)
		case c >= '0' && c <= '9':
			if i == 0 {
				b.WriteString("Exported_")
			}
			b.WriteRune(c)
		default:
			if i == 0 {
				b.WriteString(strings.ToUpper(string(c)))
			} else {
				b.WriteRune(c)
			}
		}
	}
	return b.String()
}

// includeClosure lists the qualified names of mt and every record it includes, transitively.
func includeClosure(idx map[string]*manifestType, q string, seen map[string]bool) []string {
	if seen[q] {
		return nil
	}
	seen[q] = true
	out := []string{q}
	if mt := idx[q]; mt != nil {
		for _, i := range mt.Includes {
			out = append(out, includeClosure(idx, i, seen)...)
		}
	}
	return out
}

func runR132(c *core.Ctx) {
	if c.Corpus.Failure != "" {
		return
	}
	idx := manifestIndex(c)
	for _, g := range genModel(c) {
		if g.Kind != "record" && g.Kind != "complexkey" {
			continue
		}
		mt := manifestFor(idx, g)
		if mt == nil {
			continue
		}
		start := []string{mt.NS + "." + mt.Name}
		if mt.Kind == "complexKey" {
			if k, ok := mt.Raw["key"].(map[string]interface{}); ok {
				start = []string{fmt.Sprint(k["namespace"]) + "." + fmt.Sprint(k["name"])}
			}
		} else if mt.Kind != "record" {
			continue
		}
		type need struct{ q, wire, goField string }
		var needs []need
		for _, q := range includeClosure(idx, start[0], map[string]bool{}) {
			if qm := idx[q]; qm != nil {
				for _, f := range qm.Fields {
					if dv, ok := f["defaultValue"].(string); ok && dv != "" {
						name, _ := f["name"].(string)
						needs = append(needs, need{q, name, exportedIdentifier(name)})
					}
				}
			}
		}
		if len(needs) == 0 {
			continue
		}
		um := g.Methods["UnmarshalRestLi"]
		if um == nil {
			c.Bad(g.Rel, g.Name, "decoding applies every default of the include closure", g.Spec.Pos(), "no UnmarshalRestLi")
			continue
		}
		inf := g.inf()
		// the success path of UnmarshalRestLi calls the receiver's own populateLocalDefaultValues after ReadRecord
		var readPos, popPos token.Pos
		ast.Inspect(um.Body, func(n ast.Node) bool {
			if call, ok := n.(*ast.CallExpr); ok {
				if cf := core.Callee(inf, call); cf != nil {
					if core.NameOf(cf) == "ReadRecord" && readPos == 0 {
						readPos = call.Pos()
					}
					if core.NameOf(cf) == "populateLocalDefaultValues" && core.RecvNamed(cf) != nil && core.RecvNamed(cf).Obj() == g.Named.Obj() && enclosingFuncLitOf(um, call) == nil {
						popPos = call.Pos()
					}
				}
			}
			return true
		})
		blocks, _ := defaultBlocks(g)
		var missing []string
		for _, n := range needs {
			if popPos == 0 || blocks[n.goField] == nil {
				missing = append(missing, n.q+"."+n.wire)
			}
		}
		sort.Strings(missing)
		c.Check(len(missing) == 0 && (popPos > readPos || len(missing) > 0), g.Rel, g.Name, "decoding applies every default of the include closure", um.Pos(), fmt.Sprintf("%d defaulted fields (own and inherited)", len(needs)),
			"defaults never applied when "+g.Name+" is decoded: "+strings.Join(missing, ", "))
		if g.Kind == "record" {
			ctorName := "New" + g.Name + "WithDefaultValues"
			ctor := g.Pkg.Types.Scope().Lookup(ctorName)
			c.Check(ctor != nil, g.Rel, g.Name, "a default-populated constructor exists", g.Spec.Pos(), ctorName, ctorName+" is not generated although the record (or a record it includes) declares defaults")
		}
	}
}

func enclosingFuncLitOf(fd *ast.FuncDecl, n ast.Node) *ast.FuncLit {
	var res *ast.FuncLit
	ast.Inspect(fd.Body, func(x ast.Node) bool {
		if fl, ok := x.(*ast.FuncLit); ok && fl.Pos() <= n.Pos() && n.End() <= fl.End() {
			res = fl
		}
		return true
	})
	return res
}

func runR133(c *core.Ctx) {
	if c.Corpus.Failure != "" {
		return
	}
	for _, g := range genModel(c) {
		fd := g.Methods["populateLocalDefaultValues"]
		if fd == nil {
			continue
		}
		inf := g.inf()
		var shared []string
		ast.Inspect(fd.Body, func(n ast.Node) bool {
			if id, ok := n.(*ast.Ident); ok {
				if v, ok := inf.Uses[id].(*types.Var); ok && !v.IsField() && v.Pkg() != nil && v.Parent() == v.Pkg().Scope() {
					shared = append(shared, v.Pkg().Name()+"."+core.NameOf(v))
				}
			}
			return true
		})
		sort.Strings(shared)
		c.Check(len(shared) == 0, g.Rel, g.Name, "default values are built fresh for every instance", fd.Pos(), "", "package-level variables stored into instances: "+strings.Join(dedupe(shared), ", "))
	}
}

// ---- R11 -----------------------------------------------------------------

func returnsErrorIn(inf *types.Info, n ast.Node) bool {
	found := false
	ast.Inspect(n, func(x ast.Node) bool {
		if r, ok := x.(*ast.ReturnStmt); ok && len(r.Results) >= 1 && core.NonNilErrorExpr(inf, r.Results[len(r.Results)-1]) {
			found = true
		}
		return true
	})
	return found
}

func runR111(c *core.Ctx) {
	if c.Corpus.Failure != "" {
		return
	}
	idx := manifestIndex(c)
	for _, g := range genModel(c) {
		if g.Kind != "union" {
			continue
		}
		inf := g.inf()
		mt := manifestFor(idx, g)
		nullable := false
		var aliases []string
		if mt != nil {
			if u, ok := mt.Raw["union"].(map[string]interface{}); ok {
				nullable, _ = u["hasNull"].(bool)
				if ms, ok := u["members"].([]interface{}); ok {
					for _, m := range ms {
						if mm, ok := m.(map[string]interface{}); ok {
							if a, ok := mm["alias"].(string); ok {
								aliases = append(aliases, a)
							}
						}
					}
				}
			}
		}
		var problems []string
		// validate + marshal: each field nil-tested; error on second; error on none unless nullable
		for _, name := range []string{"ValidateUnionFields", "MarshalRestLi"} {
			fd := g.Methods[name]
			if fd == nil {
				problems = append(problems, name+" missing")
				continue
			}
			recv := recvObj(inf, fd)
			tested := map[string]bool{}
			errOnSecond := 0
			ast.Inspect(fd.Body, func(n ast.Node) bool {
				ifs, ok := n.(*ast.IfStmt)
				if !ok {
					return true
				}
				for _, f := range core.Decompose(ifs.Cond, true, nil) {
					if e, nonNil, ok := core.NilTest(inf, f); ok && nonNil {
						if fs := recvSelFields(inf, recv, e); len(fs) == 1 {
							tested[fs[0]] = true
							if returnsErrorIn(inf, ifs.Body) {
								errOnSecond++
							}
						}
					}
				}
				return true
			})
			for _, f := range g.Fields {
				if !tested[f.Name] {
					problems = append(problems, name+" does not test member "+f.Name)
				}
			}
			if len(g.Fields) > 1 && errOnSecond < len(g.Fields)-1 {
				problems = append(problems, fmt.Sprintf("%s rejects a second member in only %d of %d positions", name, errOnSecond, len(g.Fields)-1))
			}
			// none set
			noneErr := false
			ast.Inspect(fd.Body, func(n ast.Node) bool {
				if ifs, ok := n.(*ast.IfStmt); ok {
					if u, ok := core.Unparen(ifs.Cond).(*ast.UnaryExpr); ok && u.Op == token.NOT {
						if _, isIdent := core.Unparen(u.X).(*ast.Ident); isIdent && returnsErrorIn(inf, ifs.Body) && ifs.Else == nil {
							// top-level `if !isSet { return error }`
							par := core.Parents(fd)
							if _, nested := par[par[ifs]].(*ast.IfStmt); !nested {
								noneErr = true
							}
						}
					}
				}
				return true
			})
			if !nullable && !noneErr && len(g.Fields) > 0 {
				problems = append(problems, name+" accepts a union with no member set")
			}
			if nullable && noneErr {
				problems = append(problems, name+" rejects the null value of a nullable union")
			}
		}
		// unmarshal
		if um := g.Methods["UnmarshalRestLi"]; um == nil {
			problems = append(problems, "UnmarshalRestLi missing")
		} else {
			cases := map[string]bool{}
			hasDefaultErr := false
			secondKeyErr := false
			ast.Inspect(um.Body, func(n ast.Node) bool {
				switch x := n.(type) {
				case *ast.CaseClause:
					if x.List == nil {
						if returnsErrorIn(inf, x) {
							hasDefaultErr = true
						}
						for _, s := range x.Body {
							if as, ok := s.(*ast.AssignStmt); ok && len(as.Rhs) == 1 && core.NonNilErrorExpr(inf, as.Rhs[0]) {
								hasDefaultErr = true
							}
						}
					}
					for _, ce := range x.List {
						if cv := core.ConstOf(inf, ce); cv != nil && cv.Kind() == constant.String {
							cases[constant.StringVal(cv)] = true
							alloc := false
							for _, s := range x.Body {
								if as, ok := s.(*ast.AssignStmt); ok && len(as.Rhs) == 1 {
									if call, ok := core.Unparen(as.Rhs[0]).(*ast.CallExpr); ok {
										if id, ok := core.Unparen(call.Fun).(*ast.Ident); ok && id.Name == "new" {
											alloc = true
										}
									}
								}
							}
							if !alloc {
								problems = append(problems, "member "+constant.StringVal(cv)+" is read without being allocated")
							}
						}
					}
				case *ast.IfStmt:
					if id, ok := core.Unparen(x.Cond).(*ast.Ident); ok && returnsErrorIn(inf, x.Body) {
						_ = id
						secondKeyErr = true
					}
				}
				return true
			})
			for _, a := range aliases {
				if !cases[a] {
					problems = append(problems, "member alias "+a+" has no case in UnmarshalRestLi")
				}
			}
			if !secondKeyErr && len(g.Fields) > 0 {
				problems = append(problems, "UnmarshalRestLi accepts a second member key")
			}
			zeroErr := false
			for _, s := range um.Body.List {
				if ifs, ok := s.(*ast.IfStmt); ok {
					if u, ok := core.Unparen(ifs.Cond).(*ast.UnaryExpr); ok && u.Op == token.NOT && returnsErrorIn(inf, ifs.Body) {
						zeroErr = true
					}
				}
			}
			if !nullable && !zeroErr && len(g.Fields) > 0 {
				problems = append(problems, "UnmarshalRestLi accepts an empty object for a non-nullable union")
			}
			if !hasDefaultErr && len(g.Fields) > 0 {
				problems = append(problems, "unknown member key is accepted silently (the switch has no default clause returning an error): the decoded union has no member set")
			}
		}
		sort.Strings(problems)
		c.Check(len(problems) == 0, g.Rel, g.Name, "union carries exactly one member on every path (at most one if nullable)", g.Spec.Pos(), fmt.Sprintf("%d members, nullable=%v", len(g.Fields), nullable), strings.Join(dedupe(problems), "; "))
	}
}

func runR112(c *core.Ctx) {
	if c.Corpus.Failure != "" {
		return
	}
	for _, g := range genModel(c) {
		if g.Kind != "fixed" {
			continue
		}
		inf := g.inf()
		arr := g.Named.Underlying().(*types.Array)
		um := g.Methods["UnmarshalRestLi"]
		okLen := false
		if um != nil {
			// every copy into the array is made where len(source) == declared size is known (a length test with an error
			// exit before it, in any spelling); a copy whose own result is compared with the size accepts longer input
			upar := core.Parents(um)
			copies, guardedCopies := 0, 0
			ast.Inspect(um.Body, func(n ast.Node) bool {
				call, ok := n.(*ast.CallExpr)
				if !ok || len(call.Args) != 2 {
					return true
				}
				if b, isB := core.ObjOf(inf, call.Fun).(*types.Builtin); !isB || b.Name() != "copy" {
					return true
				}
				copies++
				src := core.Unparen(call.Args[1])
				if sl, ok := src.(*ast.SliceExpr); ok {
					src = core.Unparen(sl.X)
				}
				stmt := core.EnclosingStmt(upar, call)
				if ifs, ok := stmt.(*ast.IfStmt); ok && ifs.Cond != nil && ifs.Cond.Pos() <= call.Pos() && call.End() <= ifs.Cond.End() {
					return true // the copy is part of a condition: nothing was known before it ran
				}
				if core.GuardedByFact(inf, upar, stmt, func(f core.Fact) bool {
					be, ok := core.Unparen(f.Expr).(*ast.BinaryExpr)
					if !ok || !((be.Op == token.EQL && f.Val) || (be.Op == token.NEQ && !f.Val)) {
						return false
					}
					x, y := be.X, be.Y
					if core.ConstOf(inf, x) != nil {
						x, y = y, x
					}
					cv := core.ConstOf(inf, y)
					lc, isCall := core.Unparen(x).(*ast.CallExpr)
					if cv == nil || !isCall || len(lc.Args) != 1 {
						return false
					}
					if b, isB := core.ObjOf(inf, lc.Fun).(*types.Builtin); !isB || b.Name() != "len" {
						return false
					}
					v, _ := constant.Int64Val(cv)
					return v == arr.Len() && core.SameExpr(inf, lc.Args[0], src)
				}, nil) {
					guardedCopies++
				}
				return true
			})
			okLen = copies > 0 && guardedCopies == copies
		}
		whole := false
		if m := g.Methods["MarshalRestLi"]; m != nil {
			ast.Inspect(m.Body, func(n ast.Node) bool {
				if se, ok := n.(*ast.SliceExpr); ok && se.Low == nil && se.High == nil {
					whole = true
				}
				return true
			})
		}
		c.Check(okLen && whole, g.Rel, g.Name, fmt.Sprintf("fixed has exactly its declared size (%d) in both directions", arr.Len()), g.Spec.Pos(), "",
			fmt.Sprintf("length guard with the declared size before copy: %v; marshals the whole array: %v", okLen, whole))
	}
}

func runR113(c *core.Ctx) {
	if c.Corpus.Failure != "" {
		return
	}
	idx := manifestIndex(c)
	for _, g := range genModel(c) {
		if g.Kind != "enum" {
			continue
		}
		inf := g.inf()
		var problems []string
		lit := func(varName string) *ast.CompositeLit {
			obj := g.Pkg.Types.Scope().Lookup(varName)
			var out *ast.CompositeLit
			for _, f := range g.Pkg.Syntax {
				ast.Inspect(f, func(n ast.Node) bool {
					if vs, ok := n.(*ast.ValueSpec); ok {
						for i, id := range vs.Names {
							if inf.Defs[id] == obj && obj != nil && i < len(vs.Values) {
								out, _ = vs.Values[i].(*ast.CompositeLit)
							}
						}
					}
					return true
				})
			}
			return out
		}
		vals, strs := lit("_"+g.Name+"_values"), lit("_"+g.Name+"_strings")
		s2c, c2s := map[string]string{}, map[string]string{}
		if vals == nil || strs == nil {
			problems = append(problems, "symbol tables not found")
		} else {
			for _, el := range vals.Elts {
				kv, isKV := el.(*ast.KeyValueExpr)
				if !isKV {
					problems = append(problems, "the symbol table _"+g.Name+"_values is not a keyed literal (symbol -> constant)")
					break
				}
				if cv := core.ConstOf(inf, kv.Key); cv != nil {
					s2c[constant.StringVal(cv)] = core.ExprString(kv.Value)
				}
			}
			for _, el := range strs.Elts {
				kv, isKV := el.(*ast.KeyValueExpr)
				if !isKV {
					problems = append(problems, "the symbol table _"+g.Name+"_strings is not a keyed literal (constant -> symbol)")
					break
				}
				if cv := core.ConstOf(inf, kv.Value); cv != nil {
					c2s[core.ExprString(kv.Key)] = constant.StringVal(cv)
				}
			}
			for s, k := range s2c {
				if c2s[k] != s {
					problems = append(problems, "symbol "+s+" does not map back to itself")
				}
			}
			if len(s2c) != len(c2s) {
				problems = append(problems, fmt.Sprintf("%d names but %d constants", len(s2c), len(c2s)))
			}
			if mt := manifestFor(idx, g); mt != nil && len(mt.Symbols) > 0 {
				for _, s := range mt.Symbols {
					if _, ok := s2c[s]; !ok {
						problems = append(problems, "declared symbol "+s+" is missing from the tables")
					}
				}
				if len(mt.Symbols) != len(s2c) {
					problems = append(problems, fmt.Sprintf("schema declares %d symbols, tables have %d", len(mt.Symbols), len(s2c)))
				}
			}
		}
		// marshal: not-found edge returns an error before any write
		if m := g.Methods["MarshalRestLi"]; m != nil {
			var errPos, writePos token.Pos
			ast.Inspect(m.Body, func(n ast.Node) bool {
				switch x := n.(type) {
				case *ast.IfStmt:
					if u, ok := core.Unparen(x.Cond).(*ast.UnaryExpr); ok && u.Op == token.NOT && returnsErrorIn(inf, x.Body) {
						errPos = x.Pos()
					}
				case *ast.CallExpr:
					if cf := core.Callee(inf, x); cf != nil && strings.HasPrefix(core.NameOf(cf), "Write") && writePos == 0 {
						writePos = x.Pos()
					}
				}
				return true
			})
			if errPos == 0 || writePos == 0 || errPos > writePos {
				problems = append(problems, "MarshalRestLi does not return an error for an undeclared constant before writing")
			}
		} else {
			problems = append(problems, "MarshalRestLi missing")
		}
		// unmarshal assigns the lookup, on every path to a success return: the zero value of the table is the unknown constant
		if um := g.Methods["UnmarshalRestLi"]; um != nil && um.Recv != nil && len(um.Recv.List) == 1 && len(um.Recv.List[0].Names) == 1 {
			recv := inf.Defs[um.Recv.List[0].Names[0]]
			isLookup := func(e ast.Expr) bool {
				if ix, ok := core.Unparen(e).(*ast.IndexExpr); ok {
					if id, ok := core.Unparen(ix.X).(*ast.Ident); ok && id.Name == "_"+g.Name+"_values" {
						return true
					}
				}
				return false
			}
			// locals that hold the (comma-ok) lookup
			holds := map[types.Object]bool{}
			ast.Inspect(um.Body, func(n ast.Node) bool {
				if as, ok := n.(*ast.AssignStmt); ok && len(as.Rhs) == 1 && isLookup(as.Rhs[0]) {
					if o := core.ObjOf(inf, as.Lhs[0]); o != nil {
						holds[o] = true
					}
				}
				return true
			})
			par := core.Parents(um)
			sig, _ := inf.Defs[um.Name].Type().(*types.Signature)
			unassigned := reachWithout(c, inf, um.Body, core.MainErrorVar(inf, um),
				func(n ast.Node) bool {
					as, ok := n.(*ast.AssignStmt)
					if !ok || len(as.Lhs) != len(as.Rhs) {
						return false
					}
					for i, l := range as.Lhs {
						if st, ok := core.Unparen(l).(*ast.StarExpr); ok && core.ObjOf(inf, st.X) == recv {
							if isLookup(as.Rhs[i]) || holds[core.ObjOf(inf, as.Rhs[i])] {
								return true
							}
						}
					}
					return false
				},
				func(n ast.Node) bool {
					r, ok := n.(*ast.ReturnStmt)
					return ok && core.ErrorReturn(inf, par, sig, r) != "error"
				})
			if len(unassigned) > 0 {
				problems = append(problems, "UnmarshalRestLi can succeed without assigning the _values lookup to the receiver (unknown symbols must become the zero/unknown constant, not keep the previous value)")
			}
		} else {
			problems = append(problems, "UnmarshalRestLi missing")
		}
		// IsValid bounds
		if iv := g.Methods["IsValid"]; iv != nil && len(s2c) > 0 {
			okBound := false
			ast.Inspect(iv.Body, func(n ast.Node) bool {
				if be, ok := n.(*ast.BinaryExpr); ok && be.Op == token.LEQ {
					if cv := core.ConstOf(inf, be.Y); cv != nil {
						if v, _ := constant.Int64Val(cv); v == int64(len(s2c)) {
							okBound = true
						}
					}
				}
				return true
			})
			if !okBound {
				problems = append(problems, "IsValid's upper bound is not the number of symbols")
			}
		}
		sort.Strings(problems)
		c.Check(len(problems) == 0, g.Rel, g.Name, "enum tables are inverse bijections over the declared symbols; undeclared values are rejected / decoded as unknown", g.Spec.Pos(), fmt.Sprintf("%d symbols", len(s2c)), strings.Join(problems, "; "))
	}
}

func runR094(c *core.Ctx) {
	if c.Corpus.Failure != "" {
		return
	}
	n := 0
	for _, p := range c.M.Roots {
		if p.Name == "main" {
			continue
		}
		rel := c.M.Rel(p.PkgPath)
		inf := p.TypesInfo
		for _, file := range p.Syntax {
			for _, d := range file.Decls {
				fd, ok := d.(*ast.FuncDecl)
				if !ok || fd.Body == nil {
					continue
				}
				k := 0
				ast.Inspect(fd.Body, func(x ast.Node) bool {
					rs, ok := x.(*ast.RangeStmt)
					if !ok {
						return true
					}
					if _, isMap := inf.Types[rs.X].Type.Underlying().(*types.Map); !isMap {
						return true
					}
					n++
					k++
					s := &mapRangeSite{rel: rel, fn: core.DeclName(fd), pos: rs.Pos(), node: rs, body: rs.Body, key: rs.Key, value: rs.Value, fd: fd, inf: inf}
					idiom, bad := classifyMapRange(c, s)
					construct := fmt.Sprintf("range over %s #%d", core.ExprString(rs.X), k)
					if bad != "" {
						c.Bad(rel, s.fn, construct, rs.Pos(), bad)
					} else {
						c.OK(rel, s.fn, construct, rs.Pos(), "idiom "+idiom)
					}
					return true
				})
			}
		}
	}
	c.OK("-", "-", fmt.Sprintf("generated packages of %s scanned for map ranges", corpusName(c)), token.NoPos, fmt.Sprintf("%d map ranges", n))
}

func runR063G(c *core.Ctx) {
	if c.Corpus.Failure != "" {
		return
	}
	codec := "github.com/PapaCharlie/go-restli/v2/restlicodec"
	u := &unknownAnalyzer{c: c, codec: codec, memo: map[*types.Func]map[string]token.Pos{}, active: map[*types.Func]bool{}}
	if p := c.M.AllByPath[codec]; p != nil {
		u.sentinel = p.Types.Scope().Lookup("NoSuchFieldErr")
	}
	for _, p := range c.M.Roots {
		if p.Name == "main" {
			continue
		}
		rel := c.M.Rel(p.PkgPath)
		inf := p.TypesInfo
		for _, file := range p.Syntax {
			for _, d := range file.Decls {
				fd, ok := d.(*ast.FuncDecl)
				if !ok || fd.Body == nil {
					continue
				}
				k := 0
				ast.Inspect(fd.Body, func(n ast.Node) bool {
					call, ok := n.(*ast.CallExpr)
					if !ok || len(call.Args) != 2 {
						return true
					}
					cf := core.Callee(inf, call)
					if cf == nil || core.NameOf(cf) != "ReadRecord" || !calleeInPkg(cf, codec) {
						return true
					}
					k++
					var set map[string]token.Pos
					var outer types.Object
					if sel, ok := core.Unparen(call.Fun).(*ast.SelectorExpr); ok {
						outer = core.ObjOf(inf, sel.X)
					}
					switch x := core.Unparen(call.Args[1]).(type) {
					case *ast.FuncLit:
						set = u.analyze(inf, x.Type, x.Body, outer)
					default:
						if f, ok := core.ObjOf(inf, call.Args[1]).(*types.Func); ok {
							set = u.analyzeFunc(f)
						}
					}
					construct := fmt.Sprintf("ReadRecord callback #%d", k)
					fn := core.DeclName(fd)
					switch {
					case set == nil || has(set, ukOther):
						c.Unknown(rel, fn, construct, call.Pos(), "callback shape outside the rule's idioms")
					case has(set, ukNil):
						c.Bad(rel, fn, construct, call.Pos(), "unknown field: "+ukNil)
					case has(set, ukError):
						c.Bad(rel, fn, construct, call.Pos(), "unknown field: "+ukError)
					default:
						c.OK(rel, fn, construct, call.Pos(), "unknown-key path skips")
					}
					return true
				})
			}
		}
	}
}

// enumSymbolOf returns the wire symbol of a generated enum constant by looking
// it up in the enum's _<Type>_strings literal.
func enumSymbolOf(mod *core.Module, k *types.Const) string {
	named, ok := k.Type().(*types.Named)
	if !ok || k.Pkg() == nil {
		return ""
	}
	p := mod.AllByPath[k.Pkg().Path()]
	if p == nil {
		return ""
	}
	tab := p.Types.Scope().Lookup("_" + core.NameOf(named.Obj()) + "_strings")
	if tab == nil {
		return ""
	}
	res := ""
	for _, f := range p.Syntax {
		ast.Inspect(f, func(n ast.Node) bool {
			vs, ok := n.(*ast.ValueSpec)
			if !ok {
				return true
			}
			for i, id := range vs.Names {
				if p.TypesInfo.Defs[id] != tab || i >= len(vs.Values) {
					continue
				}
				if cl, ok := vs.Values[i].(*ast.CompositeLit); ok {
					for _, el := range cl.Elts {
						if kv, ok := el.(*ast.KeyValueExpr); ok && core.ObjOf(p.TypesInfo, kv.Key) == k {
							if cv := core.ConstOf(p.TypesInfo, kv.Value); cv != nil {
								res = constant.StringVal(cv)
							}
						}
					}
				}
			}
			return true
		})
	}
	return res
}
