package rules

import "verif/checker/core"

var commonAssumptions = []string{
	"go/types, go/cfg, go/ssa (x/tools v0.29.0) and the Go compiler's reading of the source are trusted",
	"third-party code (easyjson, net/http, net/url, mime/multipart, zk, jennifer) is trusted at its documented API",
	"an obligation the rule cannot classify is reported as UNDECIDED and fails the check; a rule matching fewer instances than its floor fails the check",
}

func prop(id, expl, notCovered string, extra ...string) {
	core.Properties[id] = &core.PropertyInfo{ID: id, Explanation: expl, NotCovered: notCovered, Assumptions: append(append([]string{}, commonAssumptions...), extra...)}
}

func init() {
	prop("C01", "Static necessary conditions of codec round-trip: escape tables cover every structural byte of the paired reader, the empty-string sentinel is shared, keys/bytes are not routed raw or through a text escaper, raw codec width/kind duality, and marshal/unmarshal tables of every generated type and hand-written envelope are dual.",
		"all value-level behaviour: float formatting beyond 'shortest 64-bit form, escaped in ROR2', integer extremes, NaN identity, the top-level-primitive heuristic, correctness of net/url and easyjson.")
	prop("C02", "The client half and the server half of every Rest.li method are siblings that must agree: method constant, HTTP verb (checked against the router's own inference table), envelope keys, request/response types, created-id header symmetry, resource path writer/reader pairing in generated bindings; the server reads the request path only in its encoded form and the client never rebuilds or re-encodes the URL it formatted; JSON member names are unescaped by the lexer.",
		"anything depending on key content on the wire beyond those encode/decode-once conditions; ServeMux and the HTTP stack.")
	prop("C03", "The protocol fixes literal tables (delimiters, reserved names, headers, special float strings); the code's tables, extracted by constant folding, must equal reference tables taken from the Rest.li 2.0 protocol text; headers are set on every exchange; unknown fields are skipped.",
		"that whole documents parse to the same tree under an independent reference parser (a differential oracle is a different technique family); alternative legal escapes; number formatting.")
	prop("C04", "R04.1 is a proof (abstract interpretation, all obligations discharged) that no input can make the ROR2 cursor reader index or slice out of bounds.  The other rules decide, on every path/site: no unchecked assertion or reflect misuse on decoded data, every rejection before resource code is a 4xx error response, reader scope balance, nil-guarded dereferences, de-tunnelled requests always carry a body, no allocation size is derived from a peer-controlled length field.",
		"termination of the cursor loops; panics inside easyjson/net/url/mime; resource exhaustion.",
		"R04.1 trusted base: the transfer functions of the A-slack domain, Go slice semantics, class invariants proved over every write to ror2Reader.pos in the package")
	prop("C05", "The router's decision is a finite table written as nested switch/if: R05.1 extracts it from the source by interpreting the fragment over all 4480 combinations of the request atoms and compares with the protocol table (exhaustive).  Other rules: negative space before filters/resource code, filter order and context, mount prefix flow, ServeMux subtree patterns, Handler() deep copy, method-name table.",
		"path splitting on hostile paths beyond the atoms; the ServeMux implementation.")
	prop("C06", "Reader scope stack balanced on every nesting path (so reported paths are right), record accounting protocol, unknown fields skipped in every record callback (sentinel interpreted centrally), required lists exact for generated records and never aliased between records, only the outermost record is 'at input start' in every reader, lenient client guard.",
		"that the set and paths reported are right for a particular document; order independence only structurally.",
		"error-return exits are exempt from scope pairing: a reader is unusable after an error")
	prop("C07", "The writer and the readers consult the exclusion spec on every key before the callback; envelope depths passed by each Register* equal the nesting depth derived from the request envelope; client marshalers reset the scope for nested entities; generated bindings pass the right spec to the right call; partial updates check fields before writing; in the matcher, the path head is recomputed after every advance and a negative answer is given only after both the wildcard and the literal entry were consulted.",
		"the matcher's verdict on an arbitrary spec and path as a value — recursion over runtime slices is not a finite table; only those two necessary conditions of it are decided.")
	prop("C08", "No store to an error object not allocated locally; optional fields dereferenced only under a nil test; default status table; every implementation error wrapped; resource-provided code runs under recover; client maps error responses by the same header constant.",
		"equality of the delivered error with the original as values; concurrent sharing beyond the no-write rule.")
	prop("C09", "Map-order dependence is a shape: every range over a map reachable from serialization/hashing entry points falls in an accepted order-insensitive idiom, the sorting sinks sort ascending on the key, no ambient nondeterminism reaches output, and the serialization packages keep no pool, cache or memo between uses.",
		"byte identity of equal values as such (float formatting, -0); cross-process identity beyond 'no map order, no ambient input'.")
	prop("C10", "Equals compares every field once with the helper matching the field type, the hash folds a subset of the compared fields under the same nil tests, float hashing canonicalises what == identifies, helper soundness (length first, nil handling, nil and empty not distinguished), hash purity, generated Equals symmetric in shape (no condition over one operand only).",
		"symmetry/transitivity as relations over values beyond the shape condition; NaN.")
	prop("C11", "Per generated type: union exactly-one guards on both sides, fixed length guard dominates copy, enum not-found edges, partial-update delete/set tables, delegated delete verdicts of included records returned unless they are the sentinel; the field legality predicate is evaluated over all 16 input combinations (exhaustive).",
		"that every constraint-satisfying value is accepted in both directions; round-trip of patches.")
	prop("C12", "Every corpus manifest's generated output type-checks against the current runtime; the checked-in bindings equal the current generator's output; no Go map iteration order reaches emission in the generator source; the package-cycle search writes nothing to the registry; structural regularities per declared type/method.",
		"totality outside the corpus; byte-determinism across processes as such (R12.3 is its necessary condition).",
		"[G] rules run the repository's generator as a build step on /verif/corpus manifests; the deciding step is static (type checker + rules over the generated source)")
	prop("C13", "For every defaulted field of every corpus record: populateLocalDefaultValues assigns under field==nil a literal equal to the manifest's (bytes defaults compared as bytes), decoding and construction reach every default including inherited ones, assigned values are fresh.",
		"that a decoded complex default equals the literal as a value (C01's business).")
	prop("C14", "Encoder and decoder use the same header/content-type constants; every successful de-tunnelling restores method, query, RequestURI and a non-nil body and removes the override header; malformed encodings reach an error return (and the missing-body test is live); the encoded body does not alias pooled memory; the threshold comparison is exact; untunnelled requests are untouched.",
		"survival of arbitrary bytes through mime/multipart framing; boundary collisions.")
	prop("C15", "Frame of URL construction: provenance of every returned URL from the resolver's URL, no re-encoding, rebuilding or normalising between the encoders and the request, the resolver's URL copied and never written through, the index guard of the prefix test, and the root resource matched only with an end-anchored idiom on a slash-normalised context path.",
		"the prefix-stripping arithmetic as a value beyond those idiom conditions (contexts holding the root as a non-final segment are unspecified by the property); weakest claim of the set.")
	prop("C16", "Response entries are filed under the key returned by the locator, unknown keys are errors, duplicates are rejected before the request is built, the same key set is encoded and used for correlation, hash/equality pairing per key kind with complex keys recognised before simple keys, ids sorted once each and never memoised across mutations.",
		"hash collisions and key contents; that Equals on keys is the right equivalence.")
	prop("C17", "Inventory of shared state: every package-level variable is immutable-after-init, a sync type or lock-protected; the routing tree has no writer reachable from ServeHTTP; per-request state is fresh (request-time closures write no variable captured at registration time; pooled objects do not escape their Put); no write to resource error objects or to the resolver's URL; D2 snapshots copy-on-write.",
		"races inside user code/net/http/zk; atomicity of compound sequences; 'same outcome as a serial execution' as such.")
	prop("C18", "The orderings inside each lazymap function that each clause needs: publish before release, arm before publish, wait before read, never return the placeholder, unconditional overwrite in Store, compute at one site on the !loaded edge.",
		"the schedule quantifier itself (linearizability is model checking's job); blocking if f panics.")
	prop("C19", "Copy-on-write of URI snapshots (map and announced Uri values: no store through a *Uri outside its decoder), ignored events return the parameter untouched, delete/update touch exactly one path, selection frame (only announced hosts of the first scheme with a choice, error instead of nil URL).",
		"proportionality to weights, zero-weight clause, the fold over histories as such.")
	prop("C20", "Effect analysis over the call graph from the generator entry points: every reachable destructive filesystem call matches a row confining it to generator-owned names (suffix guard, manifest constant, empty-dir guard, temp file provenance); forbidden calls absent; owned suffix cannot collide with user .go files.",
		"idempotence and 'regeneration reproduces the same files' (C12); symlinks; permission errors.")
	core.Properties["C05"].ExhaustiveRules = []string{"R05.1 (4480 rows per module)"}
	core.Properties["C11"].ExhaustiveRules = []string{"R11.5 (16 rows)"}
}
