// Package rules contains the repository-specific static rules.
package rules

import (
	"go/ast"
	"go/token"
	"go/types"

	"verif/checker/core"
)

// mustFunc resolves an anchor function or panics with an AnchorError, which
// the driver turns into an undecided obligation.
func mustFunc(c *core.Ctx, rel, name string) *types.Func {
	f := c.M.LookupFunc(rel, name)
	if f == nil {
		panic(&core.AnchorError{Pkg: rel, Name: name, What: "function"})
	}
	return f
}

func mustDecl(c *core.Ctx, rel, name string) (*types.Func, *ast.FuncDecl) {
	f := mustFunc(c, rel, name)
	d := c.M.Decl(f)
	if d == nil || d.Body == nil {
		panic(&core.AnchorError{Pkg: rel, Name: name, What: "function body"})
	}
	return f, d
}

func mustObj(c *core.Ctx, rel, name string) types.Object {
	o := c.M.LookupObj(rel, name)
	if o == nil {
		panic(&core.AnchorError{Pkg: rel, Name: name, What: "object"})
	}
	return o
}

func info(c *core.Ctx, rel string) *types.Info {
	p := c.M.Pkg(rel)
	if p == nil {
		panic(&core.AnchorError{Pkg: rel, Name: "", What: "package"})
	}
	return p.TypesInfo
}

// pkgPath returns the full import path for a module-relative path.
func pkgPath(c *core.Ctx, rel string) string {
	if rel == "" {
		return c.M.Path
	}
	return c.M.Path + "/" + rel
}

var _ = token.NoPos
